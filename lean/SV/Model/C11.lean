import SV.Model.Wire
/-!
Model of `Arr2D::dot`, the four `Mul` operator forms, scalar `Mul`/`Div` and `transpose`
(spindalis/src/utils/arr2D.rs).  Generic in the scalar.
-/
namespace SV.C11
open SV

inductive DotErr where
  | invalidDotShape (lhs rhs : Nat)
deriving Repr, DecidableEq

variable {S : Type} [Inhabited S] [Add S] [Mul S] [OfNat S 0]

/-- `Arr2D::dot`.  A 1×1 operand scales the other one (left operand first); otherwise the inner
dimensions must agree; entries are accumulated from `T::default()` left to right. -/
def dot (a b : Mat S) : Except DotErr (Mat S) :=
  if a.h = 1 ∧ a.w = 1 then
    .ok (Mat.tab b.h b.w fun i j => a.get 0 0 * b.get i j)
  else if b.h = 1 ∧ b.w = 1 then
    .ok (Mat.tab a.h a.w fun i j => b.get 0 0 * a.get i j)
  else if a.w ≠ b.h then
    .error (.invalidDotShape a.w b.h)
  else
    .ok (Mat.tab a.h b.w fun i j => sumFrom 0 0 a.w fun k => a.get i k * b.get k j)

/-- the `*` operator: `self.dot(rhs).unwrap_or_default()` -/
def mulOp (a b : Mat S) : Mat S :=
  match dot a b with
  | .ok m => m
  | .error _ => ⟨0, 0, #[]⟩

/-- `&Arr2D * scalar` -/
def smul (a : Mat S) (s : S) : Mat S := Mat.tab a.h a.w fun i j => a.get i j * s

/-- `&Arr2D / scalar`; `dv` returns `none` where the element type's division panics -/
def sdiv (dv : S → S → Option S) (a : Mat S) (s : S) : Option (Mat S) :=
  if a.h * a.w = 0 then some ⟨a.h, a.w, #[]⟩ else
  match dv (a.get 0 0) s with
  | none => none
  | some _ => some (Mat.tab a.h a.w fun i j => (dv (a.get i j) s).getD default)

end SV.C11

/-! ### driver -/
namespace SV.C11.Driver
open SV SV.Wire SV.C11

structure Ty (S : Type) where
  [inh : Inhabited S] [add : Add S] [mul : Mul S] [zero : OfNat S 0] [one : OfNat S 1]
  rd : P S
  fmt : S → String
  dv : S → S → Option S

def tyInt : Ty Int :=
  { rd := Wire.int, fmt := fmtI, dv := fun a b => if b = 0 then none else some (Int.tdiv a b) }
def tyFloat : Ty Float :=
  { rd := Wire.float, fmt := fmtF, dv := fun a b => some (a / b) }

def fmtDot {S} (t : Ty S) : Except DotErr (Mat S) → String
  | .ok m => "ok " ++ fmtMat t.fmt m
  | .error (.invalidDotShape l r) => s!"err dotshape {l} {r}"

def handleTy {S} (t : Ty S) (cmd : String) : P String :=
  have := t.inh; have := t.add; have := t.mul; have := t.zero; have := t.one
  match cmd with
  | "dot" => do
    let a ← mat t.rd; let b ← mat t.rd
    return fmtDot t (dot a b)
  | "mul" => do
    let _form ← tok
    let a ← mat t.rd; let b ← mat t.rd
    return fmtMat t.fmt (mulOp a b)
  | "smul" => do
    let _own ← tok
    let a ← mat t.rd; let s ← t.rd
    return fmtMat t.fmt (smul a s)
  | "sdiv" => do
    let _own ← tok
    let a ← mat t.rd; let s ← t.rd
    return match sdiv t.dv a s with
      | some m => fmtMat t.fmt m
      | none => "panic"
  | "transpose" => do
    let a ← mat t.rd
    return fmtMat t.fmt a.transpose
  | "assoc" => do
    let a ← mat t.rd; let b ← mat t.rd; let c ← mat t.rd
    let l := (dot a b).bind fun ab => dot ab c
    let r := (dot b c).bind fun bc => dot a bc
    return "L " ++ fmtDot t l ++ " R " ++ fmtDot t r
  | "tprod" => do
    let a ← mat t.rd; let b ← mat t.rd
    let l := (dot a b).map Mat.transpose
    let r := dot b.transpose a.transpose
    return "L " ++ fmtDot t l ++ " R " ++ fmtDot t r
  | "ident" => do
    let a ← mat t.rd
    let l := dot (Mat.ident a.h) a
    let r := dot a (Mat.ident a.w)
    return "L " ++ fmtDot t l ++ " R " ++ fmtDot t r
  | _ => fail

def handle (line : String) : String :=
  let p : P String := do
    let cmd ← tok
    let ty ← tok
    match ty with
    | "i" => handleTy tyInt cmd
    | "f" => handleTy tyFloat cmd
    -- the same generic code at `i32` / `u8` / `f32`: the requests carry values whose results are exact in
    -- the narrow type, so the integer / binary64 instance of the model answers them
    | "j" => handleTy tyInt cmd
    | "b" => handleTy tyInt cmd
    | "g" => handleTy tyFloat cmd
    | _ => fail
  match run p line with
  | some s => s
  | none => "bad-request"

end SV.C11.Driver
