"""Exact-arithmetic helpers shared by the Python plug-ins."""
import struct, math, re
from fractions import Fraction

U = Fraction(1, 2 ** 53)  # unit roundoff of binary64

def f_of_bits(b):
    return struct.unpack("<d", struct.pack("<Q", int(b)))[0]

def bits_of_f(x):
    return struct.unpack("<Q", struct.pack("<d", x))[0]

def frac_of_bits(b):
    """exact rational value of a finite binary64 given by its bit pattern; None for NaN/inf"""
    x = f_of_bits(b)
    if math.isnan(x) or math.isinf(x):
        return None
    return Fraction(x)

def tok_float(tok):
    """'f<bits>' -> float"""
    return f_of_bits(tok[1:])

def tok_frac(tok):
    return frac_of_bits(tok[1:])

def split_req(req):
    """'a b c | d e' -> (['a','b','c'], ['d','e'])"""
    if " | " in req:
        a, b = req.split(" | ", 1)
        return a.split(), b.split()
    return req.split(), []

def read_string(toks, i):
    n = int(toks[i]); i += 1
    s = "".join(chr(int(c)) for c in toks[i:i + n])
    return s, i + n

_DEC = re.compile(r"^d(-?)(\d+)e-(\d+)$")

def _split_args(s):
    # s = "(op,a,b)" -> op, a, b  (top-level commas)
    inner = s[1:-1]
    parts, depth, cur = [], 0, ""
    for ch in inner:
        if ch == "(":
            depth += 1
        if ch == ")":
            depth -= 1
        if ch == "," and depth == 0:
            parts.append(cur); cur = ""
        else:
            cur += ch
    parts.append(cur)
    return parts

def num_float(s):
    """evaluate a Text.Num token in binary64 exactly as the Rust code does: decimal literals are
    correctly rounded (Fraction.__float__ is), / and + are IEEE operations"""
    m = _DEC.match(s)
    if m:
        try:
            v = float(Fraction(int(m.group(2)), 10 ** int(m.group(3))))
        except OverflowError:
            v = float("inf")          # f64::from_str rounds a literal beyond the range to infinity
        return -v if m.group(1) else v
    op, a, b = _split_args(s)
    x, y = num_float(a), num_float(b)
    if op == "/":
        if y == 0:
            return float("nan") if x == 0 or x != x else (float("inf") if (x > 0) == (math.copysign(1.0, y) > 0) else float("-inf"))
        return x / y
    if op == "+":
        return x + y
    raise ValueError(s)

def num_frac(s):
    """exact rational value of a Text.Num token"""
    m = _DEC.match(s)
    if m:
        v = Fraction(int(m.group(2)), 10 ** int(m.group(3)))
        return -v if m.group(1) else v
    op, a, b = _split_args(s)
    x, y = num_frac(a), num_frac(b)
    return x / y if op == "/" else x + y

def same_float(a, b):
    """equal as IEEE values: -0 = +0, NaN = NaN"""
    if math.isnan(a) or math.isnan(b):
        return math.isnan(a) and math.isnan(b)
    return a == b
