import SV.Model.C02
import Mathlib.Algebra.BigOperators.Group.List.Basic
import Mathlib.Algebra.Ring.Defs
import Mathlib.Tactic.Ring
/-!
# C02 — multivariate parser: grammar accepted, canonical form, evaluation matches maths

Property theorems only.  Evaluation half (any commutative semiring `R`, any power function `powf`):
under an assignment that binds every variable the value is `Σ_t c_t · Π_(v,e)∈t powf (σ v) e`; if a
variable of some term is unbound the result is `VariableNotFound` of an unbound variable — never a
number.  The parser half (`parse_canonical`, `parse_render_inter`) is added in `SV.Props.C02Parse`.
-/
namespace SV.Props.C02
open SV SV.Poly

variable {R : Type} [CommSemiring R]

/-- value of one term under a total assignment `f` -/
def termVal (powf : R → R → R) (f : String → R) (t : Term R) : R :=
  t.coef * (t.vars.map fun p => powf (f p.1) p.2).prod

private theorem termValue_ok (powf : R → R → R) (σ : String → Option R) (f : String → R)
    (vars : List (String × R)) (acc : R) (h : ∀ p ∈ vars, σ p.1 = some (f p.1)) :
    termValue powf σ acc vars = .ok (acc * (vars.map fun p => powf (f p.1) p.2).prod) := by
  induction vars generalizing acc with
  | nil => simp [termValue]
  | cons p ps ih =>
    obtain ⟨v, e⟩ := p
    have hv : σ v = some (f v) := h (v, e) (by simp)
    simp only [termValue, hv, List.map_cons, List.prod_cons]
    rw [ih _ (fun q hq => h q (by simp [hq]))]
    congr 1; ring

private theorem evalTermsFrom_ok (powf : R → R → R) (σ : String → Option R) (f : String → R)
    (ts : List (Term R)) (acc : R) (h : ∀ t ∈ ts, ∀ p ∈ t.vars, σ p.1 = some (f p.1)) :
    evalTermsFrom powf σ acc ts = .ok (acc + (ts.map (termVal powf f)).sum) := by
  induction ts generalizing acc with
  | nil => simp [evalTermsFrom]
  | cons t ts ih =>
    simp only [evalTermsFrom, termValue_ok powf σ f t.vars t.coef (h t (by simp)), List.map_cons,
      List.sum_cons]
    rw [ih _ (fun u hu => h u (by simp [hu]))]
    congr 1; simp only [termVal]; ring

/-- Evaluation under any assignment binding every variable used equals the sum over the terms of
coefficient times the product of value^exponent. -/
theorem eval_eq_sum_prod (powf : R → R → R) (terms : List (Term R)) (σ : List (String × R))
    (f : String → R) (h : ∀ t ∈ terms, ∀ p ∈ t.vars, lookup σ p.1 = some (f p.1)) :
    evalTerms powf terms σ = .ok ((terms.map (termVal powf f)).sum) := by
  unfold evalTerms
  rw [evalTermsFrom_ok powf (lookup σ) f terms 0 h]
  simp

private theorem termValue_err (powf : R → R → R) (σ : String → Option R)
    (vars : List (String × R)) (acc : R) (h : ∃ p ∈ vars, σ p.1 = none) :
    ∃ v, termValue powf σ acc vars = .error (.variableNotFound v) ∧ σ v = none := by
  induction vars generalizing acc with
  | nil => simp at h
  | cons p ps ih =>
    obtain ⟨v, e⟩ := p
    cases hv : σ v with
    | none => exact ⟨v, by simp [termValue, hv], hv⟩
    | some x =>
      simp only [termValue, hv]
      apply ih
      obtain ⟨q, hq, hn⟩ := h
      rcases List.mem_cons.mp hq with rfl | hq'
      · simp [hv] at hn
      · exact ⟨q, hq', hn⟩

/-- Evaluating with a missing variable is an error naming an unbound variable — never a number. -/
theorem eval_missing_is_error (powf : R → R → R) (terms : List (Term R)) (σ : List (String × R))
    (h : ∃ t ∈ terms, ∃ p ∈ t.vars, lookup σ p.1 = none) :
    ∃ v, evalTerms powf terms σ = .error (.variableNotFound v) ∧ lookup σ v = none := by
  unfold evalTerms
  generalize (0 : R) = acc
  induction terms generalizing acc with
  | nil => simp at h
  | cons t ts ih =>
    by_cases ht : ∃ p ∈ t.vars, lookup σ p.1 = none
    · obtain ⟨v, hv, hn⟩ := termValue_err powf (lookup σ) t.vars t.coef ht
      exact ⟨v, by simp [evalTermsFrom, hv], hn⟩
    · have hall : ∀ p ∈ t.vars, ∃ x, lookup σ p.1 = some x := by
        intro p hp
        cases hl : lookup σ p.1 with
        | none => exact absurd ⟨p, hp, hl⟩ ht
        | some x => exact ⟨x, rfl⟩
      -- the term evaluates; the error comes from a later term
      have hok : ∃ tv, termValue powf (lookup σ) t.coef t.vars = .ok tv := by
        have : ∀ (vars : List (String × R)) (acc : R), (∀ p ∈ vars, ∃ x, lookup σ p.1 = some x) →
            ∃ tv, termValue powf (lookup σ) acc vars = .ok tv := by
          intro vars
          induction vars with
          | nil => intro acc _; exact ⟨acc, rfl⟩
          | cons p ps ihp =>
            intro acc hp
            obtain ⟨x, hx⟩ := hp p (by simp)
            obtain ⟨v, e⟩ := p
            simp only at hx
            simp only [termValue, hx]
            exact ihp _ (fun q hq => hp q (by simp [hq]))
        exact this t.vars t.coef hall
      obtain ⟨tv, htv⟩ := hok
      obtain ⟨u, hu, p, hp, hn⟩ := h
      rcases List.mem_cons.mp hu with rfl | hu'
      · exact absurd ⟨p, hp, hn⟩ ht
      · simp only [evalTermsFrom, htv]
        exact ih ⟨u, hu', p, hp, hn⟩ _

end SV.Props.C02
