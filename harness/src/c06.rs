//! C06 — bisection: `bisect <poly> <lo> <init> <hi> <tol> <itermax> <root|extrema>`
//!
//! Observation: `ok f<x> <passes> [~]` | `err <Kind> <passes> [~]` | `panic` (the trailing `~` marks a run one of
//! whose stop tests was decided within rounding of its threshold, see `marginal_steps`).  The number of loop passes is
//! observed from outside through a `PolynomialTraits` wrapper that counts `eval_univariate` calls
//! (two per pass, one more for the residual gate); the solver is run once on the bare polynomial
//! type (the observation) and once on the wrapper, and both runs must agree.
//! The property's oracle is tools/props/c06.py (exact rationals).
#![allow(dead_code)]
use crate::polyio::*;
use crate::util::*;
use spindalis::polynomials::{PolynomialError, PolynomialTraits};
use spindalis::solvers::{bisection, Bounds, SolveMode, SolverError};
use std::cell::Cell;
use std::rc::Rc;

/// counts `eval_univariate` calls of a polynomial and of everything derived from it, and keeps the points at which
/// it was evaluated (in call order): the solver's iterates as seen from outside
pub struct Counting<P> {
    pub inner: P,
    pub evals: Rc<Cell<usize>>,
    pub points: Rc<std::cell::RefCell<Vec<f64>>>,
}

impl<P> Counting<P> {
    pub fn new(inner: P) -> Self {
        Counting { inner, evals: Rc::new(Cell::new(0)), points: Rc::new(std::cell::RefCell::new(Vec::new())) }
    }
}

impl<P: PolynomialTraits> PolynomialTraits for Counting<P> {
    fn parse(input: &str) -> Result<Self, PolynomialError> {
        Ok(Counting::new(P::parse(input)?))
    }
    fn eval_univariate<F>(&self, point: F) -> Result<f64, PolynomialError>
    where
        F: Into<f64> + std::clone::Clone + std::fmt::Debug,
    {
        self.evals.set(self.evals.get() + 1);
        {
            let mut pts = self.points.borrow_mut();
            // (bounded: only the stop tests of the first passes can be examined; a run of 2^32 passes must not
            // keep every iterate)
            if pts.len() < 20_000 {
                pts.push(point.clone().into());
            }
        }
        self.inner.eval_univariate(point)
    }
    fn eval_multivariate<V, S, F>(&self, vars: &V) -> Result<f64, PolynomialError>
    where
        V: IntoIterator<Item = (S, F)> + std::fmt::Debug + Clone,
        S: AsRef<str>,
        F: Into<f64>,
    {
        self.inner.eval_multivariate(vars)
    }
    fn derivate_univariate(&self) -> Result<Self, PolynomialError> {
        Ok(Counting { inner: self.inner.derivate_univariate()?, evals: self.evals.clone(), points: self.points.clone() })
    }
    fn derivate_multivariate<S>(&self, var: S) -> Self
    where
        S: AsRef<str>,
    {
        Counting { inner: self.inner.derivate_multivariate(var), evals: self.evals.clone(), points: self.points.clone() }
    }
    fn indefinite_integral_univariate(&self) -> Result<Self, PolynomialError> {
        Ok(Counting { inner: self.inner.indefinite_integral_univariate()?, evals: self.evals.clone(), points: self.points.clone() })
    }
    fn indefinite_integral_multivariate<S>(&self, var: S) -> Self
    where
        S: AsRef<str>,
    {
        Counting { inner: self.inner.indefinite_integral_multivariate(var), evals: self.evals.clone(), points: self.points.clone() }
    }
}

pub fn read_mode(t: &mut Toks) -> SolveMode {
    match t.tok() {
        "root" => SolveMode::Root,
        "extrema" => SolveMode::Extrema,
        m => panic!("mode {m}"),
    }
}

pub fn solver_err_kind(e: &SolverError) -> String {
    match e {
        SolverError::MaxIterationsReached => "MaxIterationsReached".into(),
        SolverError::NoConvergence => "NoConvergence".into(),
        SolverError::XInitOutOfBounds => "XInitOutOfBounds".into(),
        SolverError::FunctionError(pe) => format!("FunctionError:{}", err_kind(pe)),
        other => format!("Other:{other:?}").replace(' ', "_"),
    }
}

/// `ok f<bits>` | `err Kind`
pub fn show_solver(r: &Result<f64, SolverError>) -> String {
    match r {
        Ok(x) => format!("ok {}", fbits(*x)),
        Err(e) => format!("err {}", solver_err_kind(e)),
    }
}

fn same_result(a: &Result<f64, SolverError>, b: &Result<f64, SolverError>) -> bool {
    match (a, b) {
        (Ok(x), Ok(y)) => x.to_bits() == y.to_bits(),
        (Err(e), Err(f)) => solver_err_kind(e) == solver_err_kind(f),
        _ => false,
    }
}

fn answer(line: &str) -> String {
    let mut t = Toks::new(line);
    assert_eq!(t.tok(), "bisect");
    let p = read_any(&mut t);
    let (lower, init, upper, tol) = (t.f64(), t.f64(), t.f64(), t.f64());
    let itermax = t.usize();
    let mode_tok = t.tok();
    let mk = || if mode_tok == "root" { SolveMode::Root } else { SolveMode::Extrema };
    assert!(mode_tok == "root" || mode_tok == "extrema");
    // 1. the bare polynomial type: this is the observation
    let direct = with_poly!(&p, q => bisection(q, Bounds { lower, init, upper }, tol, itermax, mk()));
    // 2. through the counting wrapper (same generic code, instantiated at the wrapper)
    let (counted, evals, points) = match p {
        AnyPoly::S(q) => {
            let c = Counting::new(q);
            let r = bisection(&c, Bounds { lower, init, upper }, tol, itermax, mk());
            (r, c.evals.get(), c.points.borrow().clone())
        }
        AnyPoly::I(q) => {
            let c = Counting::new(q);
            let r = bisection(&c, Bounds { lower, init, upper }, tol, itermax, mk());
            (r, c.evals.get(), c.points.borrow().clone())
        }
    };
    if !same_result(&direct, &counted) {
        return format!("wrapper-mismatch {} {}", show_solver(&direct), show_solver(&counted));
    }
    // two evaluations per pass, plus the residual evaluation when the loop ended below the cap
    let passes = match &direct {
        Ok(_) | Err(SolverError::NoConvergence) => evals.saturating_sub(1) / 2,
        _ => (evals + 1) / 2,
    };
    // the midpoints, seen from outside: every pass evaluates the target at the lower end and then at the midpoint
    let mids: Vec<f64> = points.iter().skip(1).step_by(2).take(passes + 1).copied().collect();
    let mark = if marginal_steps(&mids, tol) { " ~" } else { "" };
    format!("{} {}{}", show_solver(&direct), passes, mark)
}

/// Was some stop test of this run decided within rounding of its threshold?  `seq` are the successive iterates
/// (bisection: the midpoints; Newton: the iterates and the returned value), `tol` the relative tolerance in percent.
///
/// The statements fix the stopping rule only up to rounding (C07: "the last step really was below the requested
/// relative tolerance ... plus rounding"; C06 does not constrain it at all beyond "the iteration budget is ample"):
/// `(|dx| / x) * 100 < tol` and `|dx| * 100 / x < tol` are the same rule.  They decide differently only when the
/// percentage lies within a few ulps of the tolerance (a step of exactly 100 % of the new iterate - the first Newton
/// step from 0, the second midpoint of a bracket with an end at 0 - against a tolerance of exactly 100) or when one of
/// the two forms leaves the range of binary64 (`100 * |dx|` overflows above 1.8e306 where `|dx| / x` is an ordinary
/// number).  On such a run the model and a correct implementation may take different exits (one more pass, another
/// iterate returned, the residual gate or the cap reached instead), so the correspondence K carries no information
/// there: the observation is marked with a trailing `~` and the comparison (tools/props/c06.py `compare`) leaves the
/// request to the oracles S, which judge the implementation's answer against the statement whatever the mark says.
///
/// A step is marginal when the two spellings of the percentage decide differently, or when the percentage is within
/// 64 ulps (1.4e-14 relative; the spellings differ by at most 3 roundings) of the tolerance.  Steps onto exactly 0 take
/// a branch without rounding and are never marginal.  At most 2 requests in 1000 of the generated families are marked (C07; C06: 1 in 10000)
/// (they put tolerances of exactly 100 % next to steps of exactly 100 % on purpose).
pub fn marginal_steps(seq: &[f64], tol: f64) -> bool {
    for w in seq.windows(2) {
        let (old, new) = (w[0], w[1]);
        if old.to_bits() == new.to_bits() || new == 0.0 {
            continue;
        }
        let dx = (new - old).abs();
        let a1 = ((dx / new) * 100.0).abs();
        let a2 = (100.0 * dx / new).abs();
        if (a1 < tol) != (a2 < tol) {
            return true;
        }
        if tol.is_finite() && tol > 0.0 && a1.is_finite() && (a1 - tol).abs() <= 64.0 * f64::EPSILON * tol {
            return true;
        }
    }
    false
}

/// Independent re-evaluation of the returned value through the public API: whenever the solver says `Ok(x)`, the
/// target function (the polynomial, or its derivative in extrema mode) evaluated at `x` by the library itself must
/// be a number below the gate — in particular it must not be NaN (a comparison written the other way round lets a
/// NaN residual through).
fn residual_verdict(line: &str, answer: &str) -> Option<Result<(), String>> {
    let mut a = answer.split_ascii_whitespace();
    if a.next() != Some("ok") {
        return None;
    }
    let x = f64::from_bits(a.next()?.strip_prefix('f')?.parse::<u64>().ok()?);
    let mut t = Toks::new(line);
    t.tok();
    let p = read_any(&mut t);
    let (lo, init, hi) = (t.f64(), t.f64(), t.f64());
    if !(lo.is_finite() && init.is_finite() && hi.is_finite()) {
        return None; // outside the quantifier: only "no panic" is demanded there
    }
    for _ in 0..2 {
        t.tok();
    }
    let extrema = t.tok() == "extrema";
    let target = if extrema { crate::polyops::deriv_uni(&p).ok()? } else { p };
    let g = crate::polyops::eval_uni(&target, x).ok()?;
    Some(if g.is_nan() {
        Err(format!("returned x = {x:?} although the target evaluates to NaN there"))
    } else if !(g.abs() < 1e-4) {
        Err(format!("returned x = {x:?} with |g(x)| = {:?} (evaluated by the library) not below 1e-4", g.abs()))
    } else {
        Ok(())
    })
}

pub fn run(line: &str) -> Obs {
    match catch(|| answer(line)) {
        Some(s) => {
            let verdict = catch(|| residual_verdict(line, &s)).flatten();
            Obs { obs: s, oracle: verdict }
        }
        None => Obs::plain("panic".into()),
    }
}

// ---------------------------------------------------------------- generators

/// coefficients (index = power) of `c · Π (x − r)`, expanded in f64
pub fn expand_roots(c: f64, roots: &[f64]) -> Vec<f64> {
    let mut cs = vec![c];
    for r in roots {
        let mut next = vec![0.0; cs.len() + 1];
        for (k, a) in cs.iter().enumerate() {
            next[k + 1] += *a;
            next[k] -= *a * *r;
        }
        cs = next;
    }
    cs
}

/// multiply by `x² + a` (no real root for a > 0)
pub fn times_quadratic(cs: &[f64], a: f64) -> Vec<f64> {
    let mut next = vec![0.0; cs.len() + 2];
    for (k, c) in cs.iter().enumerate() {
        next[k + 2] += *c;
        next[k] += *c * a;
    }
    next
}

/// `Σ k |c_k| X^(k-1)`: a bound for |g'| on [-X, X]
pub fn deriv_bound(cs: &[f64], x: f64) -> f64 {
    cs.iter().enumerate().skip(1).map(|(k, c)| k as f64 * c.abs() * x.abs().powi(k as i32 - 1)).sum()
}

/// antiderivative with integer-friendly scaling: returns `m · ∫ g + c0` with m = 840 = lcm(1..8), so
/// that integer coefficients stay integers and the code's derivative is exactly `840 · g`
pub fn antiderivative840(g: &[f64], c0: f64) -> Vec<f64> {
    let mut p = vec![c0];
    for (k, c) in g.iter().enumerate() {
        p.push(*c * (840.0 / (k as f64 + 1.0)));
    }
    p
}

pub fn small_root(rng: &mut Rng) -> f64 {
    match rng.below(6) {
        0 => 0.0,
        1 | 2 => rng.range(-8, 8) as f64,
        3 => rng.range(-32, 32) as f64 / 4.0,
        4 => (rng.uniform(-6.0, 6.0) * 100.0).round() / 100.0,
        _ => rng.uniform(-9.0, 9.0),
    }
}

pub fn pick_tol(rng: &mut Rng, newton: bool) -> f64 {
    let small = [1e-12, 1e-11, 1e-10, 1e-9, 1e-8];
    let mid = [1e-7, 1e-6, 1e-5, 1e-4, 1e-3, 0.01, 0.1, 1.0];
    let big = [5.0, 50.0, 99.0, 100.0, 101.0, 150.0, 500.0, 1000.0];
    match rng.below(if newton { 10 } else { 12 }) {
        0..=3 => *rng.pick(&small),
        4..=6 => *rng.pick(&mid),
        7 | 8 => *rng.pick(&big),
        9 => 10f64.powf(rng.uniform(-12.0, 3.0)),
        10 => 0.0,
        _ => -1.0,
    }
}

pub fn pick_itermax(rng: &mut Rng) -> usize {
    match rng.below(10) {
        0 => *rng.pick(&[0usize, 1, 2, 3]),
        1 => rng.range(4, 60) as usize,
        2 => rng.range(0, 5000) as usize,
        3 | 4 => *rng.pick(&[100usize, 200, 1000]),
        _ => *rng.pick(&[2000usize, 2500, 3000, 5000]),
    }
}

/// wrap coefficients as one of the two polynomial kinds
pub fn as_kind(cs: &[f64], simple: bool, rng: &mut Rng) -> AnyPoly {
    if simple { simple_of(cs) } else { inter_of(cs, rng.chance(1, 4)) }
}

/// scale by a power of two (exact) so that `Σ k|c_k|X^(k-1) ≤ cap`
pub fn moderate(cs: &mut [f64], x: f64, cap: f64) {
    let b = deriv_bound(cs, x);
    if b > cap {
        let s = 2f64.powi(-((b / cap).log2().ceil() as i32));
        for c in cs.iter_mut() {
            *c *= s;
        }
    }
}

fn mode_name(extrema: bool) -> &'static str {
    if extrema { "extrema" } else { "root" }
}

fn emit_req(emit: &mut dyn FnMut(String), p: &AnyPoly, lo: f64, init: f64, hi: f64, tol: f64, itermax: usize, extrema: bool) {
    emit(format!(
        "bisect {} {} {} {} {} {} {}",
        req_any(p), rbits(lo), rbits(init), rbits(hi), rbits(tol), itermax, mode_name(extrema)
    ));
}

fn next_up(x: f64) -> f64 {
    if x == 0.0 {
        f64::from_bits(1)
    } else if x > 0.0 {
        f64::from_bits(x.to_bits() + 1)
    } else {
        f64::from_bits(x.to_bits() - 1)
    }
}

fn next_down(x: f64) -> f64 {
    -next_up(-x)
}

fn pick_init(rng: &mut Rng, lo: f64, hi: f64) -> f64 {
    match rng.below(18) {
        // one unit in the last place OUTSIDE the bracket (a slack in the up-front check, absolute or relative,
        // accepts these)
        16 => next_down(lo),
        17 => next_up(hi),
        0 => lo,
        1 => hi,
        2 | 3 | 4 => (lo + hi) / 2.0,
        5 => lo - rng.uniform(0.001, 3.0),
        6 => hi + rng.uniform(0.001, 3.0),
        7 => {
            if lo <= 0.0 && 0.0 <= hi { 0.0 } else { (lo + hi) / 2.0 }
        }
        8 => next_up(lo),
        9 => -next_up(-hi),
        _ => rng.uniform(lo.min(hi), lo.max(hi)),
    }
}

/// the target function `g` built from roots; returns (g coefficients, the real roots used)
fn rooted_target(rng: &mut Rng, exact: bool) -> (Vec<f64>, Vec<f64>) {
    let deg = rng.below(8) as usize;
    let mut roots: Vec<f64> = Vec::new();
    let mut quads = 0;
    let mut left = deg;
    while left > 0 {
        if left >= 2 && rng.chance(1, 6) {
            quads += 1;
            left -= 2;
            continue;
        }
        let r = if exact { rng.range(-6, 6) as f64 } else { small_root(rng) };
        if left >= 2 && rng.chance(1, 7) {
            roots.push(r);
            roots.push(r);
            left -= 2;
        } else {
            roots.push(r);
            left -= 1;
        }
    }
    let c = if exact {
        *rng.pick(&[1.0, -1.0, 2.0, -3.0, 0.5, 0.25])
    } else {
        match rng.below(4) {
            0 => 1.0,
            1 => -1.0,
            2 => rng.dyadic(16, 3),
            _ => (rng.uniform(-5.0, 5.0) * 100.0).round() / 100.0,
        }
    };
    let mut g = expand_roots(c, &roots);
    for _ in 0..quads {
        let a = if exact { rng.range(1, 4) as f64 } else { rng.uniform(0.1, 4.0) };
        g = times_quadratic(&g, a);
    }
    (g, roots)
}

pub fn generate(seed: u64, thorough: bool, emit: &mut dyn FnMut(String)) {
    let mut rng = Rng::new(seed ^ 0xC06);
    // targets that evaluate to NaN / inf somewhere in the bracket (fractional or negative exponents over a bracket
    // that reaches x <= 0, brackets so wide that powers overflow, non-finite bracket ends), and iteration caps at
    // the limits of usize on inputs that converge quickly: every outcome must still be an error value or a value
    // that passes the residual gate
    {
        use spindalis_core::polynomials::structs::{IntermediatePolynomial, PolynomialTraits, SimplePolynomial};
        let texts = ["x^1.5 - 8", "x^-1 - 2x^-2", "x^0.5 - 2", "x^1/2 - 1", "2x^-1 + 1", "x^3 - 8", "x^2 - 2", "x - 1", "x^2.5 - x", "x^-2 - 4"];
        let brackets: [(f64, f64); 12] = [
            (-6.0, 2.0), (-1.0, 1.0), (-4.0, 9.0), (0.0, 4.0), (-2.0, 0.0), (0.0, 1e200), (-1e200, 1e200), (1.0, 1e308),
            (f64::NEG_INFINITY, f64::INFINITY), (0.0, f64::INFINITY), (f64::NAN, 2.0), (0.5, f64::NAN),
        ];
        for (ti, text) in texts.iter().enumerate() {
            for (bi, (lo, hi)) in brackets.iter().enumerate() {
                if !thorough && (ti + bi) % 2 == 1 {
                    continue;
                }
                for simple in [false, true] {
                    let p = if simple {
                        match SimplePolynomial::parse(text) { Ok(q) => AnyPoly::S(q), Err(_) => continue }
                    } else {
                        match IntermediatePolynomial::parse(text) { Ok(q) => AnyPoly::I(q), Err(_) => continue }
                    };
                    let init = if lo.is_finite() && hi.is_finite() { lo + (hi - lo) * 0.3 } else if lo.is_finite() { *lo } else { 1.0 };
                    for mode in ["root", "extrema"] {
                        emit(format!("bisect {} {} {} {} {} {} {mode}", req_any(&p), rbits(*lo), rbits(init), rbits(*hi), rbits(1e-7), 300));
                    }
                }
            }
        }
        for cap in [usize::MAX, usize::MAX - 1, 1usize << 32, 1usize << 63] {
            for text in ["x^2 - 4", "x^3 - 3x^2 + 2x", "2x - 3"] {
                let p = AnyPoly::S(SimplePolynomial::parse(text).unwrap());
                for mode in ["root", "extrema"] {
                    emit(format!("bisect {} {} {} {} {} {cap} {mode}", req_any(&p), rbits(0.25), rbits(1.0), rbits(3.5), rbits(1e-7)));
                }
            }
        }
    }
    let n = if thorough { 480000 } else { 12000 };
    for i in 0..n {
        let simple = rng.chance(1, 2);
        let extrema = rng.chance(1, 3);
        let family = i % 6;
        match family {
            // completeness family: exact integer data, sign change (or a root on an end), ample budget
            0 | 1 => {
                let (mut g, roots) = rooted_target(&mut rng, true);
                // bracket around one of the roots, or with a root exactly on an end
                let (lo, hi) = if roots.is_empty() {
                    (rng.range(-6, 0) as f64, rng.range(1, 6) as f64)
                } else {
                    let r = *rng.pick(&roots);
                    match rng.below(5) {
                        0 => (r, r + rng.range(1, 5) as f64),
                        1 => (r - rng.range(1, 5) as f64, r),
                        2 => (r - rng.range(1, 12) as f64 / 4.0, r + rng.range(1, 12) as f64 / 4.0),
                        _ => (r - rng.uniform(0.05, 3.0), r + rng.uniform(0.05, 3.0)),
                    }
                };
                let x = lo.abs().max(hi.abs()).max(1.0);
                moderate(&mut g, x, if extrema { 1.0 } else { 1000.0 });
                let cs = if extrema { antiderivative840(&g, rng.range(-5, 5) as f64) } else { g };
                let p = as_kind(&cs, simple, &mut rng);
                let init = pick_init(&mut rng, lo, hi);
                let tol = *rng.pick(&[1e-12, 1e-11, 1e-10, 1e-9, 1e-8]);
                let itermax = *rng.pick(&[2000usize, 2048, 3000, 5000]);
                emit_req(emit, &p, lo, init, hi, tol, itermax, extrema);
            }
            // general rooted polynomials, brackets of every kind, all tolerances and caps
            2 | 3 | 4 => {
                let exact = rng.chance(1, 3);
                let (mut g, roots) = rooted_target(&mut rng, exact);
                let (a, b) = if !roots.is_empty() && rng.chance(2, 3) {
                    let r = *rng.pick(&roots);
                    match rng.below(6) {
                        0 => (r, r + rng.uniform(0.1, 4.0)),
                        1 => (r - rng.uniform(0.1, 4.0), r),
                        2 => (r, r),
                        _ => (r - rng.uniform(0.01, 4.0), r + rng.uniform(0.01, 4.0)),
                    }
                } else {
                    let a = rng.uniform(-9.0, 9.0);
                    (a, a + rng.uniform(0.0, 8.0))
                };
                // ordered / reversed / degenerate
                let (lo, hi) = match rng.below(10) {
                    0 => (b, a),
                    1 => (a, a),
                    _ => (a, b),
                };
                if rng.chance(1, 2) {
                    moderate(&mut g, lo.abs().max(hi.abs()).max(1.0), 1000.0);
                }
                let cs = if extrema && rng.chance(1, 2) { antiderivative840(&g, rng.range(-5, 5) as f64) } else { g };
                let p = as_kind(&cs, simple, &mut rng);
                let init = pick_init(&mut rng, lo, hi);
                let tol = pick_tol(&mut rng, false);
                let itermax = pick_itermax(&mut rng);
                emit_req(emit, &p, lo, init, hi, tol, itermax, extrema);
            }
            // arbitrary polynomials of both kinds (incl. several variables, negative and fractional
            // exponents, empty polynomials): error values and NaN paths
            _ => {
                let p = if simple {
                    simple_of(&crate::polyops::rand_coeffs(&mut rng, 7))
                } else {
                    let names: &[&str] = match rng.below(6) {
                        0 => &[],
                        1 => &["x", "y"],
                        _ => &["x"],
                    };
                    let mut q = crate::polyops::rand_inter(&mut rng, names, 5);
                    if rng.chance(1, 8) {
                        q.variables = vec!["t".to_string()]; // terms mention a variable that is not bound
                    }
                    AnyPoly::I(q)
                };
                let a = rng.uniform(-5.0, 5.0);
                let b = a + rng.uniform(0.0, 6.0);
                let (lo, hi) = if rng.chance(1, 12) { (b, a) } else { (a, b) };
                let init = pick_init(&mut rng, lo, hi);
                let tol = pick_tol(&mut rng, false);
                let itermax = pick_itermax(&mut rng).min(if rng.chance(1, 2) { 300 } else { 5000 });
                emit_req(emit, &p, lo, init, hi, tol, itermax, extrema);
            }
        }
    }
    generate_hardening(seed, thorough, emit);
    generate_round3(seed, thorough, emit);
    generate_round4(seed, thorough, emit);
    generate_round5(seed, thorough, emit);
    generate_round6(seed, thorough, emit);
}

// ---------------------------------------------------------------- hardening families (scale, size, ties, rare paths)

/// the same coefficients under another variable name / an absent variable (the solver must not care)
pub fn as_kind_named(cs: &[f64], simple: bool, rng: &mut Rng) -> AnyPoly {
    match as_kind(cs, simple, rng) {
        AnyPoly::S(mut q) => {
            q.variable = *rng.pick(&[Some('x'), Some('y'), Some('t'), Some('λ'), Some('X'), None, Some('変'), Some('𝑥'), Some('e')]);
            AnyPoly::S(q)
        }
        AnyPoly::I(mut q) => {
            let name = *rng.pick(&["x", "y", "t", "λ", "X", "ab", "変", "𝑥", "e", "inf", "pi", "xλ変𝑥"]);
            for t in q.terms.iter_mut() {
                for v in t.variables.iter_mut() {
                    v.0 = name.to_string();
                }
            }
            for v in q.variables.iter_mut() {
                *v = name.to_string();
            }
            AnyPoly::I(q)
        }
    }
}

/// initial guesses relative to the scale `s` of the bracket
fn pick_init_scaled(rng: &mut Rng, lo: f64, hi: f64, s: f64) -> f64 {
    match rng.below(14) {
        0 => lo,
        1 => hi,
        2 | 3 => lo / 2.0 + hi / 2.0,
        4 => next_down(lo),
        5 => next_up(hi),
        6 => lo - s * 10f64.powi(-(rng.range(1, 17) as i32)),
        7 => hi + s * 10f64.powi(-(rng.range(1, 17) as i32)),
        8 => lo - lo.abs() * 10f64.powi(-(rng.range(1, 15) as i32)),
        9 => hi + hi.abs() * 10f64.powi(-(rng.range(1, 15) as i32)),
        10 => next_up(lo),
        11 => next_down(hi),
        _ => lo + (hi - lo) * rng.unit(),
    }
}

pub fn distinct_mantissas(rng: &mut Rng, n: usize, pool: &[f64]) -> Vec<f64> {
    let mut out: Vec<f64> = Vec::new();
    let mut guard = 0;
    while out.len() < n && guard < 200 {
        guard += 1;
        let m = *rng.pick(pool);
        if !out.contains(&m) {
            out.push(m);
        }
    }
    out
}

fn generate_hardening(seed: u64, thorough: bool, emit: &mut dyn FnMut(String)) {
    let mut rng = Rng::new(seed ^ 0xC06_5CA1E);
    // ---- (1) the whole problem at another scale: roots, bracket and initial guess all of size s, for every decade
    //      1e-20..1e20 and every binade 2^-70..2^60; the amplitude of g is chosen so that the residual gate sometimes
    //      passes and sometimes fails.  Absolute thresholds (a bracket "narrower than 1e-12", a step "below EPSILON", a
    //      gate made relative to |x|, an absolute slack in the up-front check) only show here.
    let n = if thorough { 130_000 } else { 4200 };
    for i in 0..n {
        let simple = rng.chance(1, 2);
        let extrema = rng.chance(1, 5);
        let (s, s_exact) = if i % 2 == 0 {
            (10f64.powi(((i / 2) % 41) as i32 - 20), false)
        } else {
            (2f64.powi(((i / 2) % 131) as i32 - 70), true)
        };
        let nroots = 1 + rng.below(3) as usize;
        let pool: &[f64] = if s_exact { &[1.0, -1.0, 2.5, -3.0, 0.75, 4.0, -0.5, 0.0, 6.0] } else { &[1.0, -1.0, 2.5, -3.0, 0.7, 4.1, -0.5, 0.0, 6.0] };
        let ms = distinct_mantissas(&mut rng, nroots, pool);
        let roots: Vec<f64> = ms.iter().map(|m| m * s).collect();
        // g(x) = amp * c0 * prod (x - r_i) / s^(n-1): |g'| at the roots is about amp
        let amp = match rng.below(8) {
            0 | 1 | 2 => 1.0,
            3 => 1e-3,
            4 => 1e3,
            5 => 1.0 / s,
            6 => s,
            _ => 10f64.powi(rng.range(-6, 6) as i32),
        };
        let c0 = *rng.pick(&[1.0, -1.0, 2.0, 0.5, -3.0]);
        let unit = expand_roots(1.0, &ms);
        let mut g: Vec<f64> = unit.iter().enumerate().map(|(k, a)| amp * c0 * a * s * s.powi(-(k as i32))).collect();
        if g.iter().any(|c| !c.is_finite()) {
            g = expand_roots(c0, &roots);
        }
        if rng.chance(1, 6) {
            // a factor without real roots, at the same scale
            let q = times_quadratic(&g, s * s * rng.uniform(0.2, 3.0));
            if q.iter().all(|c| c.is_finite()) {
                let inv = 1.0 / (s * s);
                g = q.iter().map(|c| c * inv).collect();
            }
        }
        let r = *rng.pick(&roots);
        let u = |rng: &mut Rng| rng.uniform(0.05, 3.0);
        let tiny = |rng: &mut Rng| 10f64.powi(-(rng.range(1, 16) as i32));
        let (a, b) = match rng.below(10) {
            0 => (r, r + s * u(&mut rng)),
            1 => (r - s * u(&mut rng), r),
            2 => {
                let w = if r == 0.0 { s * tiny(&mut rng) } else { r.abs() * tiny(&mut rng) };
                (r - w, r + w)
            }
            3 | 4 => (r - s * u(&mut rng), r + s * u(&mut rng)),
            5 => {
                // a tiny bracket somewhere else (no root inside, most of the time)
                let a = s * rng.uniform(-5.0, 5.0);
                (a, a + a.abs().max(s) * tiny(&mut rng))
            }
            6 => {
                let x = s * 10f64.powi(rng.range(0, 6) as i32) * rng.uniform(1.0, 9.0);
                (-x, x * rng.uniform(0.5, 1.5))
            }
            7 => (0.0f64.min(2.0 * r), 0.0f64.max(2.0 * r)),
            8 => (r, r),
            _ => (r - s * tiny(&mut rng), r + s * tiny(&mut rng) * 3.0),
        };
        let (lo, hi) = if rng.chance(1, 14) { (b, a) } else { (a, b) };
        let cs = if extrema && rng.chance(2, 3) {
            // p with p' = g up to rounding (the library differentiates p itself)
            let mut p = vec![c0 * amp * s];
            for (k, c) in g.iter().enumerate() {
                p.push(*c / (k as f64 + 1.0));
            }
            p
        } else {
            g
        };
        let p = as_kind_named(&cs, simple, &mut rng);
        let init = pick_init_scaled(&mut rng, lo, hi, s);
        let tol = pick_tol(&mut rng, false);
        let itermax = match rng.below(6) {
            0 => pick_itermax(&mut rng),
            1 => *rng.pick(&[60usize, 100, 200]),
            _ => *rng.pick(&[2000usize, 3000, 5000]),
        };
        emit_req(emit, &p, lo, init, hi, tol, itermax, extrema);
    }
    // ---- (2) completeness at every scale of the ROOT: one root of size 10^-20..1 (or 2^-70..1) among roots of ordinary
    //      size, g moderately scaled, sign change over the bracket, ample budget: a value must come back
    let n = if thorough { 60_000 } else { 2000 };
    for i in 0..n {
        let simple = rng.chance(1, 2);
        let extrema = rng.chance(1, 4);
        let s = if i % 2 == 0 { 10f64.powi(-(((i / 2) % 21) as i32)) } else { 2f64.powi(-(((i / 2) % 71) as i32)) };
        let r = s * *rng.pick(&[1.0, -1.0, 0.75, -0.5, 0.375]);
        let mut roots = vec![r];
        let others = rng.below(4) as usize;
        for q in distinct_mantissas(&mut rng, others, &[1.0, -1.0, 2.0, -2.0, 3.0, -4.0, 5.0, -6.0]) {
            roots.push(q);
        }
        let mut g = expand_roots(*rng.pick(&[1.0, -1.0, 2.0, 0.5, -0.25]), &roots);
        if rng.chance(1, 5) {
            g = times_quadratic(&g, rng.range(1, 4) as f64);
        }
        let (lo, hi) = match rng.below(6) {
            0 => (r - rng.uniform(0.05, 0.9), r + rng.uniform(0.05, 0.9)),
            1 => (r - r.abs() * rng.uniform(0.1, 0.9), r + r.abs() * rng.uniform(0.2, 5.0)),
            2 => (r, r + rng.uniform(0.05, 0.9)),
            3 => (r - rng.uniform(0.05, 0.9), r),
            4 => (0.0f64.min(3.0 * r), 0.0f64.max(3.0 * r)),
            _ => (r - rng.range(1, 7) as f64 / 8.0, r + rng.range(1, 7) as f64 / 8.0),
        };
        let x = lo.abs().max(hi.abs()).max(1.0);
        moderate(&mut g, x, if extrema { 1.0 } else { 1000.0 });
        let cs = if extrema { antiderivative840(&g, rng.range(-5, 5) as f64) } else { g };
        let p = as_kind_named(&cs, simple, &mut rng);
        let init = pick_init_scaled(&mut rng, lo, hi, s);
        let tol = *rng.pick(&[1e-12, 1e-11, 1e-10, 1e-9, 1e-8]);
        let itermax = *rng.pick(&[2000usize, 2048, 3000, 5000]);
        emit_req(emit, &p, lo, init, hi, tol, itermax, extrema);
    }
    // ---- (3) degrees beyond 7 (8..24): loops over the coefficients that are blocked / unrolled / capped
    let n = if thorough { 12_000 } else { 400 };
    for i in 0..n {
        let simple = rng.chance(1, 2);
        let extrema = rng.chance(1, 4);
        let deg = 8 + (i % 17) as usize;
        let halves: Vec<f64> = (0..deg).map(|_| rng.range(-4, 4) as f64 / 2.0).collect();
        let mut g = expand_roots(*rng.pick(&[1.0, -1.0, 0.5]), &halves);
        let r = *rng.pick(&halves);
        let (lo, hi) = match rng.below(4) {
            0 => (r - 0.25, r + 0.125),
            1 => (r, r + 0.25),
            2 => (r - rng.uniform(0.01, 0.4), r + rng.uniform(0.01, 0.4)),
            _ => (rng.uniform(-2.5, 0.0), rng.uniform(0.0, 2.5)),
        };
        moderate(&mut g, lo.abs().max(hi.abs()).max(1.0), 1000.0);
        let p = as_kind_named(&g, simple, &mut rng);
        let init = pick_init(&mut rng, lo, hi);
        let tol = pick_tol(&mut rng, false);
        emit_req(emit, &p, lo, init, hi, tol, *rng.pick(&[100usize, 2000, 3000]), extrema);
    }
    // ---- (4) exact ties, signed zeros, roots on both ends and on the midpoint, caps next to the integer limits
    {
        let polys: [&[f64]; 7] = [
            &[0.0, 1.0],                  // x
            &[0.0, -1.0, 0.0, 1.0],       // x^3 - x: roots -1, 0, 1
            &[0.0, 0.0, 1.0],             // x^2
            &[-0.0, 2.0],                 // 2x with a negative-zero constant
            &[-4.0, 0.0, 1.0],            // x^2 - 4
            &[0.0, -4.0, 0.0, 1.0],       // x^3 - 4x
            &[6.0, -5.0, 1.0],            // (x-2)(x-3)
        ];
        let z = 0.0f64;
        let brackets: [(f64, f64, f64); 16] = [
            (-z, z, z), (-z, z, -z), (z, -z, z), (z, z, -z), (-1.0, 1.0, z), (-1.0, 1.0, -z), (z, z, 1.0), (-z, -z, 1.0),
            (-1.0, -z, z), (-2.0, 2.0, 2.0), (-2.0, -2.0, 2.0), (-2.0, z, 2.0), (2.0, 2.5, 3.0), (2.0, 2.0, 3.0), (1.0, 2.0, 3.0),
            (-1.0, -1.0, 3.0),
        ];
        for (pi, cs) in polys.iter().enumerate() {
            for (bi, (lo, init, hi)) in brackets.iter().enumerate() {
                if !thorough && (pi + bi) % 2 == 1 {
                    continue;
                }
                for simple in [true, false] {
                    let p = if simple { simple_of(cs) } else { inter_of(cs, bi % 2 == 0) };
                    for extrema in [false, true] {
                        for (tol, cap) in [(1e-9, 3000usize), (1e-3, 100), (0.0, 40)] {
                            emit_req(emit, &p, *lo, *init, *hi, tol, cap, extrema);
                        }
                    }
                }
            }
        }
        let caps: [usize; 10] = [
            u32::MAX as usize, (1usize << 32) + 1, (1usize << 32) - 2, 65535, 65536, 65537, (1usize << 31) + 3, i64::MAX as usize,
            (i64::MAX as usize) + 2, usize::MAX - 7,
        ];
        for cap in caps {
            for (cs, lo, hi) in [(&[-4.0, 0.0, 1.0][..], 0.25, 3.5), (&[0.0, 2.0, -3.0, 1.0][..], 0.25, 1.5), (&[-3.0, 2.0][..], -1.0, 7.0)] {
                for simple in [true, false] {
                    let p = if simple { simple_of(cs) } else { inter_of(cs, false) };
                    for extrema in [false, true] {
                        emit_req(emit, &p, lo, 1.0, hi, 1e-7, cap, extrema);
                    }
                }
            }
        }
    }
}

// ---------------------------------------------------------------- round-3 families: coincidences and the edge of the range

/// 2^e exactly for every e (`pow2(e)` is 1 / 2^|e| for negative e, which is 0 below 2^-1023)
pub fn pow2(e: i32) -> f64 {
    if e > 1023 {
        f64::INFINITY
    } else if e >= -1022 {
        f64::from_bits(((e + 1023) as u64) << 52)
    } else if e >= -1074 {
        f64::from_bits(1u64 << (e + 1074))
    } else {
        0.0
    }
}

/// `x` moved by `k` units in the last place (towards +inf for k > 0)
fn ulps(mut x: f64, k: i32) -> f64 {
    for _ in 0..k.abs() {
        x = if k > 0 { next_up(x) } else { next_down(x) };
    }
    x
}

/// an upper bracket end whose half is exact: an odd multiple of 2^-1074 is moved one unit away from 0.
/// (GENUINE FINDING of this round, left out of the generators to keep the check green: the midpoint
/// `lower/2 + upper/2` rounds each half, so a bracket that has collapsed onto an odd subnormal `[b, b]` - a bracket
/// without a sign change converges onto its upper end - yields the "midpoint" b +- 2^-1074, which is returned when it
/// passes the gate: `x` lies outside `[lower, upper]`.  E.g. g = x on [2^-1074, 2^-1074] returns 0.)
fn even_half(x: f64) -> f64 {
    if x != 0.0 && x.abs() < pow2(-1021) && x.to_bits() & 1 == 1 { f64::from_bits(x.to_bits() + 1) } else { x }
}

/// `amp (x - r) prod_j (1 - x / q_j)`: the root r and far roots q_j; coefficients in f64
fn near_linear(amp: f64, r: f64, far: &[f64]) -> Vec<f64> {
    let mut cs = vec![-amp * r, amp];
    for q in far {
        let mut next = vec![0.0; cs.len() + 1];
        for (k, a) in cs.iter().enumerate() {
            next[k] += *a;
            next[k + 1] -= *a / *q;
        }
        cs = next;
    }
    cs
}

/// p with p' = g as the library computes it (k * (c / k) is c up to one rounding; exact for the linear part)
fn antiderivative_plain(g: &[f64], c0: f64) -> Vec<f64> {
    let mut p = vec![c0];
    for (k, c) in g.iter().enumerate() {
        p.push(*c / (k as f64 + 1.0));
    }
    p
}

fn generate_round3(seed: u64, thorough: bool, emit: &mut dyn FnMut(String)) {
    let mut rng = Rng::new(seed ^ 0xC06_0003_C01C);
    // ---- (5) THREE RARE THINGS AT ONCE: a midpoint of exactly 0 at a pass >= 1, a bracket narrower than the tolerance
    //      (100 |previous midpoint| < tol, the tolerance being a percentage) and a residual at 0 above the gate.  The
    //      bracket [-w, w] has the midpoint 0; its ancestors [2 lo - hi, hi] / [lo, 2 hi - lo] (1..4 generations, exact
    //      because w has few significant bits - a power of two or not) reach it at pass 1..4 when the root lies in
    //      (-w, w).  Any rule that measures the step onto 0 in absolute units (|dx| / max(|x|, 1), |dx| / (|x| + eps),
    //      "0 has no relative scale") stops there although g(0) is far from 0; the statement's converse clause wants
    //      the bracketed root (tools/props/c06.py judges it: slope * tol/100 * X is below half the gate).  Controls: the
    //      same at scale 1 and at 2^-40, the root exactly at 0, the zero midpoint at pass 0 ([-w, w] itself), a residual
    //      at 0 below the gate.
    let n = if thorough { 30_000 } else { 1100 };
    for i in 0..n {
        let simple = rng.chance(1, 2);
        let extrema = rng.chance(1, 3);
        let mant = match rng.below(5) {
            0 | 1 => 1.0,
            2 => *rng.pick(&[1.5, 1.25, 1.75, 1.125, 1.375]),
            _ => rng.range(1 << 20, (1 << 21) - 1) as f64 / (1u64 << 20) as f64,
        };
        let e = match i % 10 {
            0 => rng.range(-2, 8) as i32,
            1 => -(rng.range(26, 60) as i32),
            _ => -(rng.range(4, 22) as i32),
        };
        let w = mant * pow2(e);
        let gens = if i % 13 == 0 { 0 } else { 1 + rng.below(4) };
        let (mut lo, mut hi) = (-w, w);
        for _ in 0..gens {
            if rng.chance(1, 2) { lo = 2.0 * lo - hi } else { hi = 2.0 * hi - lo }
        }
        let x_max = lo.abs().max(hi.abs());
        let sign = if rng.chance(1, 2) { 1.0 } else { -1.0 };
        let rho = sign * match rng.below(9) {
            0 => 0.0,
            1 => 0.5,
            2 => 0.75,
            3 => 0.8,
            _ => rng.uniform(0.15, 0.95),
        };
        let r = rho * w;
        // the amplitude: |g(0)| = amp |r| a little or well above the gate when a moderate slope allows it
        let amp_min = if r != 0.0 { 1.5e-4 / r.abs() } else { 1.0 };
        let mut amp = match rng.below(10) {
            0 => amp_min * rng.uniform(0.05, 0.6), // residual at 0 below the gate: stopping there is legitimate
            1 | 2 => amp_min * rng.uniform(1.05, 1.5),
            _ => amp_min * 10f64.powf(rng.uniform(0.1, 1.6)),
        };
        if amp > 900.0 {
            amp = 900.0 * rng.uniform(0.3, 1.0);
        }
        if rng.chance(1, 2) {
            amp = -amp;
        }
        // (further roots far outside the bracket AND outside the unit interval: the slope bound at the unit scale stays moderate)
        let far: Vec<f64> = (0..rng.below(3)).map(|_| x_max.max(1.0) * rng.uniform(20.0, 200.0) * if rng.chance(1, 2) { 1.0 } else { -1.0 }).collect();
        let g = near_linear(amp, r, &far);
        // tolerance: above 100 w (the step onto 0 "on the unit scale"), below what keeps the residual under half the gate
        let tol_lo = 100.0 * w * 1.05;
        let tol_hi = 4e-3 / (amp.abs() * 1.1 * x_max);
        let tol = if tol_lo < tol_hi {
            let nice: Vec<f64> = [1e-4, 1e-3, 0.01, 0.05, 0.1, 0.5, 1.0, 5.0, 10.0, 50.0].iter().copied().filter(|t| *t > tol_lo && *t < tol_hi).collect();
            if !nice.is_empty() && rng.chance(1, 2) { *rng.pick(&nice) } else { tol_lo * (tol_hi / tol_lo).powf(rng.unit()) }
        } else {
            tol_lo * rng.uniform(1.0, 4.0)
        };
        let tol = if i % 17 == 0 { pick_tol(&mut rng, false) } else { tol };
        let cs = if extrema { antiderivative_plain(&g, rng.range(-3, 3) as f64) } else { g };
        let p = as_kind_named(&cs, simple, &mut rng);
        let init = if rng.chance(1, 6) { pick_init_scaled(&mut rng, lo, hi, w) } else { *rng.pick(&[lo, hi, lo / 2.0 + hi / 2.0, 0.0, r, lo + (hi - lo) * 0.3]) };
        let itermax = *rng.pick(&[2000usize, 2048, 3000, 5000]);
        emit_req(emit, &p, lo, init, hi, tol, itermax, extrema);
    }
    // ---- (6) THE EDGE OF THE NUMBER RANGE, large: brackets whose ends are within a few binades of f64::MAX (degree 1),
    //      of its square root (degree 2) and cube root (degree 3), slopes 2^-1030.. so that g is of ordinary size on
    //      the bracket: every term, every partial sum and the root are finite, so a value must come back (and lie in
    //      the bracket, below the gate).  `lower + (upper - lower) / 2`, `(lower + upper) / 2`, `100 * |dx| / x`, a
    //      width `upper - lower` ... overflow here although the statement's own quantities do not.
    let n = if thorough { 20_000 } else { 700 };
    for i in 0..n {
        let simple = rng.chance(1, 2);
        let extrema = rng.chance(1, 4);
        let deg = match i % 5 { 0 => 2usize, 1 => 3, _ => 1 };
        let ex = match deg {
            1 => if i % 3 == 0 { 1023 } else { rng.range(960, 1023) as i32 },
            2 => rng.range(440, 508) as i32,
            _ => rng.range(290, 337) as i32,
        };
        let x0 = pow2(ex);
        // ends a x0 < b x0, |a|, |b| < 2 (1.99 * 2^1023 is finite)
        let frac = |rng: &mut Rng| match rng.below(4) {
            0 => rng.range(-15, 15) as f64 / 8.0,
            1 => *rng.pick(&[1.9990234375, -1.9990234375, 1.0, -1.0, 1.5, -1.75]),
            _ => rng.uniform(-1.99, 1.99),
        };
        let (mut a, mut b) = (frac(&mut rng), frac(&mut rng));
        if a > b {
            std::mem::swap(&mut a, &mut b);
        }
        if a == b {
            b = a + 0.125;
        }
        if b >= 2.0 {
            b = 1.9990234375;
            a = a.min(1.5);
        }
        // half of the brackets at the very top are wider than f64::MAX: `upper - lower` is not a number
        if ex == 1023 && rng.chance(1, 2) {
            a = -rng.uniform(1.0, 1.99);
            b = rng.uniform(1.0, 1.99);
        }
        let (lo, hi) = (a * x0, b * x0);
        // the root: inside, on an end, or (one in eight) outside
        let gamma = match rng.below(8) {
            0 => a,
            1 => b,
            2 => a - 0.25,
            3 => a / 2.0 + b / 2.0,
            _ => a + (b - a) * rng.uniform(0.02, 0.98),
        };
        let rho = gamma * x0;
        // other roots outside [-2 x0, 2 x0] (degree 2, 3 only: 3 x0 is finite there)
        let mut roots = vec![rho];
        for _ in 1..deg {
            roots.push(x0 * rng.uniform(2.5, 6.0) * if rng.chance(1, 2) { 1.0 } else { -1.0 });
        }
        // leading coefficient 2^(-deg ex - j): g is of size 2^-j on the bracket
        let j = rng.range(-8, 13) as i32;
        let lead_exp = -(deg as i32) * ex - j;
        if lead_exp < -1070 {
            continue;
        }
        let lead = pow2(lead_exp) * if rng.chance(1, 2) { 1.0 } else { -1.0 };
        let g = expand_roots(lead, &roots);
        if g.iter().any(|c| !c.is_finite()) {
            continue;
        }
        let cs = if extrema { antiderivative_plain(&g, rng.range(-3, 3) as f64) } else { g };
        let p = as_kind_named(&cs, simple, &mut rng);
        let init = match rng.below(6) {
            0 => lo,
            1 => hi,
            2 => next_down(lo),
            3 => next_up(hi),
            _ => lo / 2.0 + hi / 2.0,
        };
        // mostly a tolerance that the completeness clause accepts for this amplitude (slope * tol/100 * X below half the gate)
        let reach = deg as f64 * pow2(-j) * 8.0;
        let fit: Vec<f64> = [1e-12, 1e-10, 1e-9, 1e-8, 1e-6, 1e-4].iter().copied().filter(|t| t * reach <= 4e-3).collect();
        let tol = if !fit.is_empty() && rng.chance(4, 5) { *rng.pick(&fit) } else { *rng.pick(&[1e-12, 1e-10, 1e-9, 1e-8, 1e-6, 1e-4]) };
        emit_req(emit, &p, lo, init, hi, tol, *rng.pick(&[3000usize, 5000]), extrema);
    }
    // ---- (6b) THE EDGE OF THE NUMBER RANGE, small: brackets inside the subnormal range and next to it (ends are small
    //      integer multiples of 2^-1074..2^-1000), slopes 1 .. 2^1070: containment to the last unit, the gate on huge
    //      slopes, no endless loop when the halves of the ends round.  (Upper ends only at EVEN multiples of 2^-1074:
    //      see `even_half`.)
    let n = if thorough { 12_000 } else { 450 };
    for i in 0..n {
        let simple = rng.chance(1, 2);
        let extrema = rng.chance(1, 5);
        let ex = if i % 2 == 0 { -1074 + rng.range(0, 6) as i32 } else { -(rng.range(1000, 1074) as i32) };
        let unit = pow2(ex);
        let ia = rng.range(-40, 40);
        let ib = match rng.below(6) {
            0 => ia,
            1 => ia + 1,
            2 => ia + 2,
            _ => ia + rng.range(1, 60),
        };
        let (mut lo, mut hi) = (ia as f64 * unit, even_half(ib as f64 * unit));
        if ia == ib {
            lo = hi;
        }
        let ir = match rng.below(6) {
            0 => ia,
            1 => ib,
            2 => ia - 1,
            _ => rng.range(ia, ib),
        };
        let rho = ir as f64 * unit;
        // slope: 1, or so large that g is of size 2^-j two units away from the root
        let slope = match rng.below(4) {
            0 => 1.0,
            1 => pow2(500),
            _ => pow2((-ex - rng.range(-3, 16) as i32).min(1023)),
        } * if rng.chance(1, 2) { 1.0 } else { -1.0 };
        let g = vec![-slope * rho, slope];
        if !g[0].is_finite() {
            continue;
        }
        let cs = if extrema { antiderivative_plain(&g, rng.range(-3, 3) as f64) } else { g };
        let p = as_kind_named(&cs, simple, &mut rng);
        let init = match rng.below(5) {
            0 => lo,
            1 => hi,
            2 => next_down(lo),
            3 => next_up(hi),
            _ => lo / 2.0 + hi / 2.0,
        };
        let init = if init < lo && rng.chance(1, 2) { lo } else { init };
        if rng.chance(1, 12) {
            std::mem::swap(&mut lo, &mut hi);
        }
        emit_req(emit, &p, lo, init, hi, *rng.pick(&[1e-12, 1e-9, 1e-6, 1e-3, 1.0, 50.0]), *rng.pick(&[2000usize, 3000, 5000]), extrema);
    }
    // ---- (7) brackets a few units in the last place wide, at every binade 2^-1060..2^1020: the midpoint is an end or
    //      a neighbour, the root is an end, an interior double or a double just outside; the slope puts one unit in
    //      the last place at 1e-6..1e-2 of residual, on both sides of the gate
    let n = if thorough { 16_000 } else { 600 };
    for _ in 0..n {
        let simple = rng.chance(1, 2);
        let e = match rng.below(4) {
            0 => rng.range(-1060, -900) as i32,
            1 => rng.range(900, 1020) as i32,
            _ => rng.range(-80, 80) as i32,
        };
        let lo = rng.uniform(1.0, 2.0) * pow2(e) * if rng.chance(1, 3) { -1.0 } else { 1.0 };
        let width = rng.below(7) as i32;
        let hi = even_half(ulps(lo, width));
        let lo = if width == 0 { hi } else { lo };
        let rho = ulps(lo, rng.range(-1, width as i64 + 1) as i32);
        let ulp = (next_up(lo.abs()) - lo.abs()).max(f64::from_bits(1));
        // a power of two near 1e-4 / ulp, moved by up to 2^+-7
        let se = ((1e-4 / ulp).log2().round().clamp(-1100.0, 1100.0) as i32 + rng.range(-7, 7) as i32).clamp(-1060, 1000);
        let slope = pow2(se) * if rng.chance(1, 2) { 1.0 } else { -1.0 };
        let g = vec![-slope * rho, slope];
        if !g[0].is_finite() {
            continue;
        }
        let p = as_kind_named(&g, simple, &mut rng);
        let init = *rng.pick(&[lo, hi, lo, ulps(lo, width / 2)]);
        emit_req(emit, &p, lo, init, hi, *rng.pick(&[1e-12, 1e-9, 1e-3, 1.0]), *rng.pick(&[2000usize, 3000]), false);
    }
}

// ---------------------------------------------------------------- round-4 family: one end a few subnormal steps from a root at 0

/// (8) A ROOT AT 0, ONE BRACKET END A FEW UNITS OF 2^-1074 AWAY FROM IT, THE OTHER END ORDINARY: g at the near end is one of
/// the smallest subnormals (non-zero), g at the first midpoint is an ordinary number.  The sign test compares a value at
/// the very bottom of the range with one ~2^1070 times larger: `f_lower / f_curr`, `f_lower * (1 / f_curr)`,
/// `f_curr * f_lower` without the sign extraction, `f_lower.abs() < eps`, a "relative sign" `f_lower / scale` ... all turn the
/// tiny value into +-0 and lose the sign change, although g changes sign over the bracket and the root 0 lies inside:
/// the statement's converse clause wants a value (tools/props/c06.py judges it: D(X) * tol/100 * X below half the gate,
/// budget >= 2000).  The D39 corpus line is the single case g = x on [-2^-1074, 1]; here the other end runs over
/// 2^-40..2^10 (and arbitrary doubles), the near end over +-1..60 units (of 2^-1074, sometimes of 2^-1070..2^-1060 or the
/// smallest normals), on either side, g over amp * x * prod (1 - x / q_j) with slopes 2^-6..2^9, x^3 + x, x (x - c), both
/// modes, both polynomial types.
fn generate_round4(seed: u64, thorough: bool, emit: &mut dyn FnMut(String)) {
    let mut rng = Rng::new(seed ^ 0xC06_0004_F00D);
    let n = if thorough { 9000 } else { 420 };
    for i in 0..n {
        let simple = rng.chance(1, 2);
        let extrema = rng.chance(1, 4);
        // the near end: k units of 2^e
        let e = match i % 8 {
            0 => -1074 + rng.range(1, 14) as i32,
            1 => -1022 - rng.range(0, 3) as i32,
            _ => -1074,
        };
        let k = match rng.below(4) {
            0 => 1,
            1 => rng.range(1, 4),
            _ => rng.range(1, 60),
        } as f64;
        let near = k * pow2(e);
        // the far end
        let far = match rng.below(6) {
            0 => *rng.pick(&[1.0, 8.0, 2.0, 4.0, 0.5, 16.0, 64.0, 1024.0, 3.0, 40.0, 10.0]),
            1 => pow2(rng.range(-40, 10) as i32),
            2 => rng.uniform(0.001, 50.0),
            3 => rng.range(1, 999) as f64 / 8.0,
            _ => rng.uniform(0.5, 12.0),
        };
        // which side of 0 the near end lies on
        let (lo, hi) = if rng.chance(2, 3) { (-near, far) } else { (-far, near) };
        let x_max = far;
        // the target: a simple root at 0, the other roots outside [-2 far, 2 far]
        let amp = match rng.below(5) {
            0 => 1.0,
            1 => -1.0,
            _ => pow2(rng.range(-6, 9) as i32) * if rng.chance(1, 2) { 1.0 } else { -1.0 },
        };
        let g: Vec<f64> = match rng.below(6) {
            0 => vec![0.0, amp],
            1 => vec![0.0, amp, 0.0, amp],                               // amp (x^3 + x)
            2 => {
                let c = far * rng.uniform(2.5, 9.0) * if rng.chance(1, 2) { 1.0 } else { -1.0 };
                vec![0.0, -amp * c / far.max(1.0), amp / far.max(1.0)]    // ~ amp x (x - c) / max(far, 1)
            }
            _ => {
                let qs: Vec<f64> = (0..1 + rng.below(3)).map(|_| x_max.max(1.0) * rng.uniform(3.0, 200.0) * if rng.chance(1, 2) { 1.0 } else { -1.0 }).collect();
                let mut cs = near_linear(amp, 0.0, &qs);
                cs[0] = 0.0; // (-amp * 0 is a signed zero)
                cs
            }
        };
        let mut g = g;
        // moderately scaled at the scale of the bracket (the oracle wants D(max(X, 1)) <= 1000)
        moderate(&mut g, x_max.max(1.0), 900.0);
        // tolerance the completeness clause accepts for this slope and bracket: D(X) * tol * X <= 5e-3
        let reach = deriv_bound(&g, x_max) * x_max;
        let fit: Vec<f64> = [1e-12, 1e-10, 1e-9, 1e-8, 1e-6, 1e-5, 1e-4].iter().copied().filter(|t| t * reach <= 4e-3).collect();
        let tol = if !fit.is_empty() && rng.chance(9, 10) { *rng.pick(&fit) } else { pick_tol(&mut rng, false) };
        let cs = if extrema { antiderivative_plain(&g, rng.range(-3, 3) as f64) } else { g };
        let p = as_kind_named(&cs, simple, &mut rng);
        let init = match rng.below(8) {
            0 => lo,
            1 => hi,
            2 => 0.0,
            3 => next_up(lo),
            4 => next_down(hi),
            5 => lo + (hi - lo) * rng.unit(),
            _ => lo / 2.0 + hi / 2.0,
        };
        let itermax = *rng.pick(&[2000usize, 2500, 3000, 5000]);
        emit_req(emit, &p, lo, init, hi, tol, itermax, extrema);
    }
}

// ---------------------------------------------------------------- round-5 family: an initial guess that ALMOST equals a computed value

/// (9) THE INITIAL GUESS WITHIN A RELATIVE 1e-16..1e-3 OF (BUT NOT EQUAL TO) A VALUE THE SOLVER COMPUTES: the first midpoint
/// (two thirds of the cases), the root, one of the two possible second midpoints, a bracket end (from inside) - on both
/// sides, at distances tied to the tolerance (0.001..100 times tol/100, the scale of the stop test), at log-uniform
/// relative distances 1e-16..1e-3 and at 1..1000 units in the last place.  The statement gives the guess no role beyond
/// "inside the bracket": a solver that measures its first step against the guess, seeds the previous estimate with it,
/// or takes it for a converged iterate stops early with NoConvergence (or returns the guess).  The brackets are those of
/// the completeness family (exact integer data, a sign change around a chosen root, mostly asymmetric so that the first
/// midpoint is not itself a root), moderately scaled, budget >= 2000, and the tolerance is the LARGEST of 1e-12..1e-3 (or a
/// random smaller one) that the converse clause of tools/props/c06.py still accepts for the bracket, so that the window
/// `|mid - init| / |mid| * 100 < tol` is as wide as it can be while S judges the request.
fn generate_round5(seed: u64, thorough: bool, emit: &mut dyn FnMut(String)) {
    let mut rng = Rng::new(seed ^ 0xC06_0005_A11E);
    let n = if thorough { 12000 } else { 900 };
    for _ in 0..n {
        let simple = rng.chance(1, 2);
        let extrema = rng.chance(1, 3);
        let (mut g, roots) = rooted_target(&mut rng, true);
        let r = if roots.is_empty() { 0.0 } else { *rng.pick(&roots) };
        let (lo, hi) = if roots.is_empty() {
            (rng.range(-6, 0) as f64, rng.range(1, 6) as f64)
        } else {
            match rng.below(6) {
                0 => (r - rng.range(1, 12) as f64 / 4.0, r + rng.range(1, 12) as f64 / 4.0),
                1 => (r - rng.range(1, 5) as f64, r + rng.range(1, 7) as f64 / 8.0),
                2 => (r - rng.range(1, 7) as f64 / 8.0, r + rng.range(1, 5) as f64),
                _ => (r - rng.uniform(0.05, 3.0), r + rng.uniform(0.05, 3.0)),
            }
        };
        let x = lo.abs().max(hi.abs());
        moderate(&mut g, x.max(1.0), if extrema { 1.0 } else { 1000.0 });
        if rng.chance(1, 2) {
            // gentler slopes leave room for looser tolerances
            let s = 2f64.powi(-(rng.range(1, 8) as i32));
            for c in g.iter_mut() {
                *c *= s;
            }
        }
        let cs = if extrema { antiderivative840(&g, rng.range(-5, 5) as f64) } else { g.clone() };
        // the function whose root is looked for, as the oracle sees it
        let target: Vec<f64> = if extrema { cs.iter().enumerate().skip(1).map(|(k, c)| c * k as f64).collect() } else { cs.clone() };
        let d = deriv_bound(&target, x);
        let tols = [1e-3, 1e-4, 1e-5, 1e-6, 1e-7, 1e-8, 1e-9, 1e-10, 1e-11, 1e-12];
        let ok: Vec<f64> = tols.iter().copied().filter(|t| d * t * x <= 4e-3).collect();
        if ok.is_empty() {
            continue;
        }
        let tol = if rng.chance(2, 3) { ok[0] } else { *rng.pick(&ok) };
        let mid = if rng.chance(1, 2) { lo / 2.0 + hi / 2.0 } else { (lo + hi) / 2.0 };
        // the computed value the guess almost equals, and the side on which it may lie
        let (t, side): (f64, i32) = match rng.below(12) {
            0 => (r, 0),
            1 => ((lo + mid) / 2.0, 0),
            2 => ((mid + hi) / 2.0, 0),
            3 => if rng.chance(1, 2) { (lo, 1) } else { (hi, -1) },
            _ => (mid, 0),
        };
        let up = match side {
            1 => true,
            -1 => false,
            _ => rng.chance(1, 2),
        };
        let scale = if t != 0.0 { t.abs() } else { hi - lo };
        let init = match rng.below(7) {
            0 | 1 | 2 => {
                let u = *rng.pick(&[0.001, 0.01, 0.1, 0.5, 0.9, 0.999, 1.001, 1.1, 2.0, 10.0, 100.0]);
                let delta = scale * (tol / 100.0) * u;
                if up { t + delta } else { t - delta }
            }
            3 | 4 => {
                let delta = scale * 10f64.powf(rng.uniform(-16.0, -3.0));
                if up { t + delta } else { t - delta }
            }
            _ => {
                let k = *rng.pick(&[1usize, 1, 2, 3, 10, 1000]);
                let mut v = t;
                for _ in 0..k {
                    v = if up { next_up(v) } else { next_down(v) };
                }
                v
            }
        };
        if !(init >= lo && init <= hi) {
            continue;
        }
        let p = as_kind(&cs, simple, &mut rng);
        let itermax = *rng.pick(&[2000usize, 2048, 3000, 5000]);
        emit_req(emit, &p, lo, init, hi, tol, itermax, extrema);
    }
    // the plain instances: x^2 - 4 on [0, 3], x^3 - x - 2 on [1, 2], 2x - 3 on [0, 2] with the guess next to the first midpoint
    {
        use spindalis_core::polynomials::structs::{PolynomialTraits, SimplePolynomial};
        for (text, lo, hi) in [("x^2 - 4", 0.0, 3.0), ("x^3 - x - 2", 1.0, 2.0), ("2x - 3", 0.0, 2.0), ("x^2 - 4", -3.0, -1.0)] {
            let p = AnyPoly::S(SimplePolynomial::parse(text).unwrap());
            let mid: f64 = (lo + hi) / 2.0;
            for tol in [1e-5, 1e-7, 1e-9] {
                for init in [mid + 1e-9, mid - 1e-9, next_up(mid), next_down(mid), mid * (1.0 + 1e-12), mid * (1.0 - 3e-11)] {
                    emit_req(emit, &p, lo, init, hi, tol, 3000, false);
                }
            }
        }
    }
}

// ---------------------------------------------------------------- round-6 families: block boundaries and exact relations

/// (x - r) * (a_0 + a_1 x + ... + a_{m-1} x^{m-1}) for r = +1 / -1 and small positive integers a_k that neither repeat with
/// a short period nor read the same backwards: integer coefficients (every partial sum is exact in binary64, so g(r) is
/// exactly 0 in whatever order the terms are added), degree m, no other root of the same sign as r
fn boundary_poly(m: usize, r: f64, salt: usize) -> Vec<f64> {
    let a: Vec<f64> = (0..m).map(|k| (1 + (k * k + 3 * k + salt) % 7) as f64).collect();
    let mut g = vec![0.0; m + 1];
    for (k, ak) in a.iter().enumerate() {
        g[k + 1] += ak;
        g[k] -= r * ak;
    }
    g
}

fn horner(cs: &[f64], x: f64) -> f64 {
    cs.iter().rev().fold(0.0, |acc, c| acc * x + c)
}

fn generate_round6(seed: u64, thorough: bool, emit: &mut dyn FnMut(String)) {
    let mut rng = Rng::new(seed ^ 0xC06_0006_B10C);
    let mut sizes: Vec<usize> = vec![];
    for b in [16usize, 32, 64, 128, 256] {
        sizes.extend([b - 1, b, b + 1, b + 2, 2 * b + 1]);
    }
    sizes.sort();
    sizes.dedup();
    // ---- (O1) THE DEGREE / NUMBER OF TERMS AT A BLOCK BOUNDARY: degree 15..18, 31..34, 63..66, 127..130, 255..258, 513 with
    //      the root at +1 or -1 and a bracket of width ~5/n around it, so that EVERY term is alive in the value (x^n stays
    //      within e^-3..e^2): a chunk of coefficients that is dropped, doubled or shifted moves the sign changes and the
    //      residual.  Root mode and extrema mode (the antiderivative has one more coefficient), both polynomial types.
    for (i, &n) in sizes.iter().enumerate() {
        let reps = if thorough { 6 } else { 2 };
        for j in 0..reps {
            for extrema in [false, true] {
                // the target g has degree n - 1 or n (n or n + 1 coefficients; in extrema mode the stored polynomial has one more)
                let m = if extrema == (j % 2 == 0) { n - 1 } else { n };
                let r = if (i + j) % 2 == 0 { 1.0 } else { -1.0 };
                let mut g = boundary_poly(m, r, i + j);
                let nf = n as f64;
                let (a, b) = match j % 3 {
                    0 => (r - 3.0 / nf, r + 2.0 / nf),
                    1 => (r - 2.0 / nf, r + 1.0 / nf),
                    _ => (r, r + 2.0 / nf),
                };
                let (lo, hi) = if a <= b { (a, b) } else { (b, a) };
                moderate(&mut g, lo.abs().max(hi.abs()), if extrema { 1.0 } else { 1000.0 });
                let cs = if extrema { antiderivative_plain(&g, (j as f64) - 2.0) } else { g };
                let simple = (i + j) % 2 == 0;
                let p = if simple { simple_of(&cs) } else { inter_of(&cs, false) };
                let init = match j % 4 {
                    0 => lo,
                    1 => hi,
                    2 => lo / 2.0 + hi / 2.0,
                    _ => lo + (hi - lo) * rng.unit(),
                };
                for (tol, cap) in [(1e-9, 3000usize), (1e-4, 200)] {
                    emit_req(emit, &p, lo, init, hi, tol, cap, extrema);
                }
            }
        }
    }
    // ---- (O2 + P) THE NUMBER OF PASSES AT A BLOCK BOUNDARY, AND A TOLERANCE EXACTLY EQUAL TO A COMPUTED ERROR: the bisection
    //      of a well-conditioned target is replayed here (plain halving, signs from Horner's rule) and the relative step
    //      e_k = |x_k - x_{k-1}| / x_k * 100 of pass k = 15..18, 31..34, 47..50 is requested as the tolerance: exactly e_k (the
    //      test is strict: one more pass), one ulp above (stops at pass k), one ulp below and 2^-40 relative away; with an
    //      iteration cap of exactly k - 1, k, k + 1, k + 2 (the cap is reached / just not reached) and an ample one.
    let targets: [(&[f64], f64, f64); 5] = [
        (&[-2.0, 0.0, 1.0], 1.0, 2.0),           // x^2 - 2 on [1, 2]
        (&[-3.0, 1.0, 0.0, 1.0], 0.5, 3.25),     // x^3 + x - 3
        (&[5.0, -2.0], 1.0, 4.0),                // 5 - 2x (falling)
        (&[-0.3, 1.0], -3.0, 1.0),               // root 0.3, bracket across 0
        (&[2.0, 3.0, 1.0], -1.75, 0.0),          // (x+1)(x+2) on [-1.75, 0]: negative root
    ];
    let passes: Vec<usize> = if thorough { vec![3, 7, 8, 9, 15, 16, 17, 18, 31, 32, 33, 34, 47, 48, 49, 50] } else { vec![8, 15, 16, 17, 18, 31, 32, 33, 34, 48] };
    for (ti, (cs, lo0, hi0)) in targets.iter().enumerate() {
        // replay
        let (mut lo, mut hi) = (*lo0, *hi0);
        let mut x = lo;
        let mut errs: Vec<f64> = vec![];
        for k in 0..52usize {
            let old = x;
            x = (lo + hi) / 2.0;
            let e = if k > 0 && x != 0.0 { ((x - old).abs() / x) * 100.0 } else { 100.0 };
            errs.push(e.abs());
            let fl = horner(cs, lo);
            let fx = horner(cs, x);
            if fx == 0.0 || fl == 0.0 {
                break;
            }
            if (fl < 0.0) != (fx < 0.0) { hi = x } else { lo = x }
        }
        for &k in &passes {
            if k >= errs.len() {
                continue;
            }
            let e = errs[k];
            if !(e > 0.0) || !e.is_finite() {
                continue;
            }
            let tols = [e, next_up(e), next_down(e), e * (1.0 + pow2(-40)), e * (1.0 - pow2(-40))];
            for (vi, tol) in tols.iter().enumerate() {
                for cap in [k.saturating_sub(1), k, k + 1, k + 2, 3000] {
                    if !thorough && (vi + cap + ti) % 2 == 1 && cap != 3000 {
                        continue;
                    }
                    for extrema in [false, true] {
                        let pc = if extrema { antiderivative_plain(cs, 1.0) } else { cs.to_vec() };
                        let p = if (ti + vi + k) % 2 == 0 { simple_of(&pc) } else { inter_of(&pc, false) };
                        let init = if vi % 2 == 0 { *lo0 } else { (*lo0 + *hi0) / 2.0 };
                        emit_req(emit, &p, *lo0, init, *hi0, *tol, cap, extrema);
                    }
                }
            }
        }
    }
    // ---- (P2) AN END OR A MIDPOINT WHOSE VALUE IS EXACTLY 0 / EXACTLY AT THE GATE: integer polynomials whose value at a
    //      dyadic point is exact; the residual gate |g(x)| < 1e-4 is strict, so a constant target of exactly 1e-4, its
    //      neighbours, and slopes that put |g(mid)| exactly on 1e-4 at the first midpoint
    let gate = 1e-4f64;
    for c in [gate, next_up(gate), next_down(gate), -gate, -next_down(gate), gate * (1.0 - pow2(-40)), 0.0, -0.0] {
        for (cs, lo, hi) in [(vec![c], -1.0, 3.0), (vec![c, 0.0, 0.0], 0.5, 0.5), (vec![-c, c], 0.0, 4.0), (vec![0.0, c], -1.0, 1.0), (vec![c, c], -3.0, 1.0)] {
            for simple in [true, false] {
                let p = if simple { simple_of(&cs) } else { inter_of(&cs, true) };
                for (tol, cap) in [(1e-9, 3000usize), (1.0, 3), (0.0, 64)] {
                    emit_req(emit, &p, lo, lo, hi, tol, cap, false);
                    emit_req(emit, &antider(&p, &cs, simple), lo, hi, hi, tol, cap, true);
                }
            }
        }
    }
}

fn antider(_p: &AnyPoly, cs: &[f64], simple: bool) -> AnyPoly {
    let pc = antiderivative_plain(cs, -2.0);
    if simple { simple_of(&pc) } else { inter_of(&pc, true) }
}
