import SV.Model.C12
import Mathlib.Order.Defs.LinearOrder
/-!
Helper lemmas for C12: row-major index arithmetic, flattening of equally long rows, the simulation
relation `R` between the flat model and the grid, and one step lemma per operation / observer.
Core Lean only (`omega`, `simp`), except the last section (`LinearOrder` from Mathlib).
-/
namespace SV.C12

variable {α : Type}

/-! ### index arithmetic -/

theorem idx_lt {r c h w : Nat} (hr : r < h) (hc : c < w) : r * w + c < h * w := by
  have h2 : r * w + w = (r + 1) * w := by rw [Nat.add_mul]; omega
  have h3 : (r + 1) * w ≤ h * w := Nat.mul_le_mul_right w (by omega)
  omega

theorem row_le {r a w : Nat} (h : r < a) : r * w + w ≤ a * w := by
  have h2 : r * w + w = (r + 1) * w := by rw [Nat.add_mul]; omega
  have h3 : (r + 1) * w ≤ a * w := Nat.mul_le_mul_right w (by omega)
  omega

theorem succ_mul' (r w : Nat) : (r + 1) * w = r * w + w := by rw [Nat.add_mul]; omega

theorem idx_div {r c w : Nat} (hc : c < w) : (r * w + c) / w = r := by
  have hpos : 0 < w := by omega
  rw [Nat.mul_comm, Nat.mul_add_div hpos, Nat.div_eq_of_lt hc]; omega

theorem idx_mod {r c w : Nat} (hc : c < w) : (r * w + c) % w = c := by
  rw [Nat.mul_comm, Nat.mul_add_mod]; exact Nat.mod_eq_of_lt hc

theorem idx_inj {r c r' c' w : Nat} (hc : c < w) (hc' : c' < w) (e : r * w + c = r' * w + c') :
    r = r' ∧ c = c' := by
  have h1 : (r * w + c) / w = (r' * w + c') / w := by rw [e]
  have h2 : (r * w + c) % w = (r' * w + c') % w := by rw [e]
  rw [idx_div hc, idx_div hc'] at h1
  rw [idx_mod hc, idx_mod hc'] at h2
  exact ⟨h1, h2⟩

/-! ### `collect`, `reduce?` -/

theorem collect_map_some {β : Type} (l : List β) (f : β → Option α) (g : β → α)
    (h : ∀ x ∈ l, f x = some (g x)) : collect (l.map f) = some (l.map g) := by
  induction l with
  | nil => rfl
  | cons x xs ih =>
    have hx := h x (List.mem_cons_self ..)
    have hxs := ih fun y hy => h y (List.mem_cons_of_mem _ hy)
    simp only [List.map_cons, hx, collect, hxs]

theorem collect_map_conv (l : List α) (conv : α → Option α) :
    collect (l.map conv) =
      if l.all (fun x => (conv x).isSome) then some (l.map fun x => (conv x).getD x) else none := by
  induction l with
  | nil => rfl
  | cons x xs ih =>
    cases hx : conv x with
    | none => simp [collect, hx]
    | some y =>
      simp only [List.map_cons, hx, collect, ih, List.all_cons, Option.isSome_some, Bool.true_and,
        Option.getD_some]
      by_cases hall : (xs.all fun x => (conv x).isSome) = true
      · simp only [hall, if_true]
      · simp only [hall]; rfl

/-! ### rows of equal length, flattened -/

theorem length_flatten_uniform {rows : List (List α)} {w : Nat}
    (hu : ∀ row ∈ rows, row.length = w) : rows.flatten.length = rows.length * w := by
  induction rows with
  | nil => simp
  | cons row rest ih =>
    have h1 := hu row (List.mem_cons_self ..)
    have h2 := ih fun y hy => hu y (List.mem_cons_of_mem _ hy)
    simp only [List.flatten_cons, List.length_append, List.length_cons, h1, h2, succ_mul']
    omega

theorem getElem?_flatten_uniform {rows : List (List α)} {w : Nat}
    (hu : ∀ row ∈ rows, row.length = w) (r c : Nat) (hc : c < w) :
    rows.flatten[r * w + c]? = (rows[r]?).bind (·[c]?) := by
  induction rows generalizing r with
  | nil => simp
  | cons row rest ih =>
    have h1 := hu row (List.mem_cons_self ..)
    have h2 := ih fun y hy => hu y (List.mem_cons_of_mem _ hy)
    cases r with
    | zero =>
      simp only [List.flatten_cons, Nat.zero_mul, Nat.zero_add, List.getElem?_cons_zero,
        Option.bind_some]
      rw [List.getElem?_append_left (by omega)]
    | succ r' =>
      simp only [List.flatten_cons, List.getElem?_cons_succ]
      rw [List.getElem?_append_right (by rw [h1, succ_mul']; omega)]
      have e : (r' + 1) * w + c - row.length = r' * w + c := by rw [h1, succ_mul']; omega
      rw [e]
      exact h2 r'

/-! ### rows and cells of a grid -/

theorem Grid.row_length (g : Grid α) (r : Nat) : (g.row r).length = g.w := by
  simp [Grid.row]

theorem Grid.rows_length (g : Grid α) : g.rows.length = g.h := by
  simp [Grid.rows]

theorem Grid.rows_uniform (g : Grid α) : ∀ row ∈ g.rows, row.length = g.w := by
  intro row hrow
  simp only [Grid.rows, List.mem_map] at hrow
  obtain ⟨r, _, rfl⟩ := hrow
  exact g.row_length r

theorem Grid.row_getElem? (g : Grid α) (r c : Nat) :
    (g.row r)[c]? = if c < g.w then some (g.cell r c) else none := by
  simp only [Grid.row, List.getElem?_map]
  by_cases hc : c < g.w
  · simp [hc]
  · simp [hc]

theorem Grid.rows_getElem? (g : Grid α) (r : Nat) :
    g.rows[r]? = if r < g.h then some (g.row r) else none := by
  simp only [Grid.rows, List.getElem?_map]
  by_cases hr : r < g.h
  · simp [hr]
  · simp [hr]

theorem Grid.flat_length (g : Grid α) : g.flat.length = g.h * g.w := by
  rw [Grid.flat, length_flatten_uniform g.rows_uniform, g.rows_length]

theorem Grid.flat_getElem? (g : Grid α) {r c : Nat} (hr : r < g.h) (hc : c < g.w) :
    g.flat[r * g.w + c]? = some (g.cell r c) := by
  rw [Grid.flat, getElem?_flatten_uniform g.rows_uniform r c hc, g.rows_getElem?]
  simp [hr, g.row_getElem?, hc]

/-! ### the simulation relation -/

/-- same shape, a buffer of exactly `height * width` items, and the cell `(r, c)` of the grid at
offset `r * width + c` of the buffer -/
def R (s : Arr α) (g : Grid α) : Prop :=
  s.height = g.h ∧ s.width = g.w ∧ s.inner.length = s.height * s.width ∧
  ∀ r c, r < g.h → c < g.w → s.inner[r * g.w + c]? = some (g.cell r c)

theorem R_of_flat {s : Arr α} {g : Grid α} (hh : s.height = g.h) (hw : s.width = g.w)
    (hf : s.inner = g.flat) : R s g :=
  ⟨hh, hw, by rw [hf, g.flat_length, hh, hw], fun r c hr hc => by rw [hf]; exact g.flat_getElem? hr hc⟩

theorem R.flat {s : Arr α} {g : Grid α} (h : R s g) : s.inner = g.flat := by
  obtain ⟨hh, hw, hlen, hcell⟩ := h
  apply List.ext_getElem?
  intro k
  by_cases hk : k < g.h * g.w
  · have hwpos : 0 < g.w := by
      rcases Nat.eq_zero_or_pos g.w with h0 | h0
      · rw [h0] at hk; omega
      · exact h0
    have hr : k / g.w < g.h := by rw [Nat.div_lt_iff_lt_mul hwpos]; exact hk
    have hc : k % g.w < g.w := Nat.mod_lt _ hwpos
    have e : k = k / g.w * g.w + k % g.w := (Nat.div_add_mod' k g.w).symm
    rw [e, hcell _ _ hr hc, g.flat_getElem? hr hc]
  · rw [List.getElem?_eq_none_iff.mpr (by rw [hlen, hh, hw]; omega),
      List.getElem?_eq_none_iff.mpr (by rw [g.flat_length]; omega)]

theorem R_iff_flat {s : Arr α} {g : Grid α} :
    R s g ↔ s.height = g.h ∧ s.width = g.w ∧ s.inner = g.flat :=
  ⟨fun h => ⟨h.1, h.2.1, h.flat⟩, fun ⟨a, b, c⟩ => R_of_flat a b c⟩

/-- `R` only looks at the cells inside the shape -/
theorem R_congr {s : Arr α} {g g' : Grid α} (h : R s g) (hh : g'.h = g.h) (hw : g'.w = g.w)
    (hc : ∀ r c, r < g.h → c < g.w → g'.cell r c = g.cell r c) : R s g' := by
  obtain ⟨h1, h2, h3, h4⟩ := h
  refine ⟨by rw [hh]; exact h1, by rw [hw]; exact h2, h3, ?_⟩
  intro r c hr hc'
  rw [hh] at hr; rw [hw] at hc'
  rw [hw, hc r c hr hc']
  exact h4 r c hr hc'

/-! ### step lemmas: one per mutating operation -/

theorem R.at? {s : Arr α} {g : Grid α} (h : R s g) {r c : Nat} (hr : r < g.h) (hc : c < g.w) :
    s.at? r c = some (g.cell r c) := by
  obtain ⟨hh, hw, _, hcell⟩ := h
  unfold Arr.at?
  rw [if_neg (by omega), hw]
  exact hcell r c hr hc

theorem R.at?_none {s : Arr α} {g : Grid α} (h : R s g) {r c : Nat} (hb : ¬(r < g.h ∧ c < g.w)) :
    s.at? r c = none := by
  obtain ⟨hh, hw, _, _⟩ := h
  unfold Arr.at?
  rw [if_pos (by omega)]

theorem R_reshape {s : Arr α} {g : Grid α} (h : R s g) (h' : Nat) :
    R (s.reshape h').1 (g.reshape h').1 ∧ (s.reshape h').2 = (g.reshape h').2 := by
  obtain ⟨hh, hw, hlen, hcell⟩ := h
  rcases s with ⟨inner, sh, sw⟩
  rcases g with ⟨gh, gw, cell⟩
  simp only at hh hw hlen hcell
  subst hh hw
  unfold Arr.reshape Grid.reshape
  simp only
  by_cases hb : h' = 0 ∨ sh * sw % h' ≠ 0
  · simp only [hb, if_true]; exact ⟨⟨rfl, rfl, hlen, hcell⟩, trivial⟩
  · simp only [hb, if_false]
    have hpos : 0 < h' := by omega
    have hdiv : sh * sw % h' = 0 := by omega
    have hsz : h' * (sh * sw / h') = sh * sw := Nat.mul_div_cancel' (Nat.dvd_of_mod_eq_zero hdiv)
    refine ⟨⟨rfl, rfl, by simp only []; rw [hlen, hsz], ?_⟩, trivial⟩
    intro r c hr hc
    simp only [] at hr hc ⊢
    have hk : r * (sh * sw / h') + c < sh * sw := by
      have := idx_lt hr hc; rw [hsz] at this; exact this
    have hwpos : 0 < sw := by
      rcases Nat.eq_zero_or_pos sw with h0 | h0
      · rw [h0] at hk; omega
      · exact h0
    have hrow : (r * (sh * sw / h') + c) / sw < sh := by
      rw [Nat.div_lt_iff_lt_mul hwpos]; exact hk
    have hcol : (r * (sh * sw / h') + c) % sw < sw := Nat.mod_lt _ hwpos
    have := hcell _ _ hrow hcol
    rw [Nat.div_add_mod' (r * (sh * sw / h') + c) sw] at this
    exact this

theorem R_setIdx {s : Arr α} {g : Grid α} (h : R s g) (r c : Nat) (v : α) :
    R (s.setIdx r c v).1 (g.set r c v).1 ∧ (s.setIdx r c v).2 = (g.set r c v).2 := by
  obtain ⟨hh, hw, hlen, hcell⟩ := h
  rcases s with ⟨inner, sh, sw⟩
  rcases g with ⟨gh, gw, cell⟩
  simp only at hh hw hlen hcell
  subst hh hw
  unfold Arr.setIdx Grid.set
  simp only
  by_cases hb : r ≥ sh ∨ c ≥ sw
  · simp only [hb, if_true]; exact ⟨⟨rfl, rfl, hlen, hcell⟩, trivial⟩
  · simp only [hb, if_false]
    have hr : r < sh := by omega
    have hc : c < sw := by omega
    have hin : ¬ (r * sw + c ≥ inner.length) := by have := idx_lt hr hc (w := sw); omega
    simp only [hin, if_false]
    refine ⟨⟨rfl, rfl, by simpa using hlen, ?_⟩, trivial⟩
    intro r' c' hr' hc'
    simp only at hr' hc' ⊢
    simp only [List.getElem?_set]
    by_cases he : r' = r ∧ c' = c
    · obtain ⟨rfl, rfl⟩ := he
      have : r' * sw + c' < inner.length := by rw [hlen]; exact idx_lt hr hc
      simp [this]
    · have hne : r * sw + c ≠ r' * sw + c' := by
        intro e
        apply he
        have := idx_inj hc hc' e
        omega
      simp only [hne, if_false, he]
      exact hcell r' c' hr' hc'

theorem setRowCol_eq_setIdx {s : Arr α} {g : Grid α} (h : R s g) (r c : Nat) (v : α) :
    s.setRowCol r c v = s.setIdx r c v := by
  obtain ⟨hh, hw, hlen, _⟩ := h
  unfold Arr.setRowCol Arr.setIdx
  by_cases hr : r ≥ s.height
  · simp [hr]
  · have hrl : ¬ ((r + 1) * s.width > s.inner.length) := by
      have := row_le (w := s.width) (Nat.lt_of_not_ge hr); rw [succ_mul']; omega
    by_cases hc : c ≥ s.width
    · simp [hr, hrl, hc]
    · have hin : ¬ (r * s.width + c ≥ s.inner.length) := by
        have := idx_lt (Nat.lt_of_not_ge hr) (Nat.lt_of_not_ge hc); omega
      simp [hr, hrl, hc, hin]

theorem R_setRowCol {s : Arr α} {g : Grid α} (h : R s g) (r c : Nat) (v : α) :
    R (s.setRowCol r c v).1 (g.set r c v).1 ∧ (s.setRowCol r c v).2 = (g.set r c v).2 := by
  rw [setRowCol_eq_setIdx h]; exact R_setIdx h r c v

theorem R.transposeInner {s : Arr α} {g : Grid α} (h : R s g) :
    s.transposeInner = some (g.transpose.1).flat := by
  unfold Arr.transposeInner
  have e : collect ((List.range s.width).map fun col =>
      collect ((List.range s.height).map fun row => s.at? row col)) =
      some ((List.range s.width).map fun col => (List.range s.height).map fun row => g.cell row col) := by
    apply collect_map_some
    intro col hcol
    apply collect_map_some
    intro row hrow
    rw [List.mem_range] at hcol hrow
    exact h.at? (by rw [← h.1]; exact hrow) (by rw [← h.2.1]; exact hcol)
  rw [e, h.1, h.2.1]
  rfl

theorem R_transpose {s : Arr α} {g : Grid α} (h : R s g) :
    R s.transpose.1 g.transpose.1 ∧ s.transpose.2 = g.transpose.2 := by
  unfold Arr.transpose
  rw [h.transposeInner]
  exact ⟨R_of_flat h.2.1 h.1 rfl, rfl⟩

theorem R_transposeMut {s : Arr α} {g : Grid α} (h : R s g) :
    R s.transposeMut.1 g.transpose.1 ∧ s.transposeMut.2 = g.transpose.2 := by
  unfold Arr.transposeMut
  rw [h.transposeInner]
  exact ⟨R_of_flat h.2.1 h.1 rfl, rfl⟩

theorem R_map {s : Arr α} {g : Grid α} (h : R s g) (f : α → α) :
    R (s.map f).1 (g.map f).1 ∧ (s.map f).2 = (g.map f).2 := by
  obtain ⟨hh, hw, hlen, hcell⟩ := h
  refine ⟨⟨hh, hw, by simpa [Arr.map] using hlen, ?_⟩, rfl⟩
  intro r c hr hc
  simp only [Arr.map, Grid.map, List.getElem?_map]
  rw [hcell r c hr hc]; rfl

theorem R_clone {s : Arr α} {g : Grid α} (h : R s g) : R s.clone.1 g ∧ s.clone.2 = .ok := ⟨h, rfl⟩

theorem R_convert {s : Arr α} {g : Grid α} (h : R s g) (conv : α → Option α) :
    R (s.convert conv).1 (g.convert conv).1 ∧ (s.convert conv).2 = (g.convert conv).2 := by
  unfold Arr.convert Grid.convert
  rw [collect_map_conv, ← h.flat]
  by_cases hall : (s.inner.all fun x => (conv x).isSome) = true
  · simp only [hall, if_true]
    obtain ⟨hh, hw, hlen, hcell⟩ := h
    refine ⟨⟨hh, hw, by simpa using hlen, ?_⟩, trivial⟩
    intro r c hr hc
    simp only [List.getElem?_map]
    rw [hcell r c hr hc]; rfl
  · simp only [hall]
    exact ⟨h, rfl⟩

theorem getElem?_splice (l vs : List α) (a b k : Nat) (ha : a ≤ l.length) :
    (l.take a ++ vs ++ l.drop b)[k]? =
      if k < a then l[k]? else if k < a + vs.length then vs[k - a]? else l[b + (k - a - vs.length)]? := by
  have hm : min a l.length = a := Nat.min_eq_left ha
  simp only [List.getElem?_append, List.length_append, List.length_take, List.getElem?_take,
    List.getElem?_drop, hm]
  by_cases h1 : k < a
  · have h1' : k < a + vs.length := by omega
    simp only [h1, h1', if_true]
  · by_cases h2 : k < a + vs.length
    · simp only [h1, h2, if_true, if_false]
    · simp only [h1, h2, if_false]
      congr 1
      omega

theorem R_setRow {s : Arr α} {g : Grid α} (h : R s g) (r : Nat) (vs : List α) :
    R (s.setRow r vs).1 (g.setRow r vs).1 ∧ (s.setRow r vs).2 = (g.setRow r vs).2 := by
  obtain ⟨hh, hw, hlen, hcell⟩ := h
  rcases s with ⟨inner, sh, sw⟩
  rcases g with ⟨gh, gw, cell⟩
  simp only at hh hw hlen hcell
  subst hh hw
  unfold Arr.setRow Grid.setRow
  simp only
  by_cases hr : r ≥ sh
  · rw [if_pos hr, if_pos (Or.inl hr)]; exact ⟨⟨rfl, rfl, hlen, hcell⟩, rfl⟩
  · have hr' : r < sh := Nat.lt_of_not_ge hr
    have hrow := row_le (w := sw) hr'
    have hs := succ_mul' r sw
    have hrl : ¬ ((r + 1) * sw > inner.length) := by omega
    by_cases hv : vs.length ≠ sw
    · rw [if_neg hr, if_neg hrl, if_pos hv, if_pos (Or.inr hv)]; exact ⟨⟨rfl, rfl, hlen, hcell⟩, rfl⟩
    · have hv' : vs.length = sw := by omega
      rw [if_neg hr, if_neg hrl, if_neg hv, if_neg (by omega)]
      refine ⟨⟨rfl, rfl, ?_, ?_⟩, rfl⟩
      · simp only [List.length_append, List.length_take, List.length_drop]; omega
      · intro r' c hr'' hc
        simp only at hr'' hc ⊢
        rw [getElem?_splice _ _ _ _ _ (by omega)]
        by_cases e : r' = r
        · subst e
          rw [if_neg (by omega), if_pos (by omega)]
          simp only [if_true]
          have : r' * sw + c - r' * sw = c := by omega
          rw [this, List.getElem?_eq_getElem (by omega)]
          simp
        · simp only [e, if_false]
          by_cases lt : r' < r
          · have := row_le (w := sw) lt
            rw [if_pos (by omega)]
            exact hcell r' c hr'' hc
          · have : r < r' := by omega
            have := row_le (w := sw) this
            rw [if_neg (by omega), if_neg (by omega)]
            have e2 : (r + 1) * sw + (r' * sw + c - r * sw - vs.length) = r' * sw + c := by omega
            rw [e2]
            exact hcell r' c hr'' hc

theorem fillRow_eq (s : Arr α) (r : Nat) (v : α) :
    s.fillRow r v = s.setRow r (List.replicate s.width v) := by
  unfold Arr.fillRow Arr.setRow
  simp

theorem R_fillRow {s : Arr α} {g : Grid α} (h : R s g) (r : Nat) (v : α) :
    R (s.fillRow r v).1 (g.fillRow r v).1 ∧ (s.fillRow r v).2 = (g.fillRow r v).2 := by
  rw [fillRow_eq]
  have hw := h.2.1
  have key := R_setRow h r (List.replicate s.width v)
  unfold Grid.setRow at key
  unfold Grid.fillRow
  by_cases hr : r ≥ g.h
  · simp only [hr, true_or, if_true] at key ⊢
    exact key
  · simp only [hr, false_or, List.length_replicate, hw, ne_eq, not_true_eq_false, if_false] at key ⊢
    refine ⟨R_congr key.1 rfl rfl ?_, key.2⟩
    intro r' c _ hc
    simp only at hc ⊢
    by_cases e : r' = r
    · simp [e, hc]
    · simp [e]

theorem swap_core (inner : List α) (sh sw : Nat) (cell : Nat → Nat → α)
    (hlen : inner.length = sh * sw)
    (hcell : ∀ r c, r < sh → c < sw → inner[r * sw + c]? = some (cell r c))
    (lo hi : Nat) (hlt : lo < hi) (hhi : hi < sh) :
    let left := inner.take (hi * sw)
    let right := inner.drop (hi * sw)
    let inner' := left.take (lo * sw) ++ right.take sw ++ left.drop ((lo + 1) * sw)
      ++ (left.take ((lo + 1) * sw)).drop (lo * sw) ++ right.drop sw
    inner'.length = sh * sw ∧
    ∀ r c, r < sh → c < sw →
      inner'[r * sw + c]? = some (cell (if r = lo then hi else if r = hi then lo else r) c) := by
  intro left right inner'
  have h1 := succ_mul' lo sw
  have h2 := row_le (w := sw) hlt
  have h3 := row_le (w := sw) hhi
  have l1 : left.length = hi * sw := by simp only [left, List.length_take]; omega
  have l2 : right.length = sh * sw - hi * sw := by simp only [right, List.length_drop]; omega
  have p1 : (left.take (lo * sw)).length = lo * sw := by simp only [List.length_take]; omega
  have p2 : (right.take sw).length = sw := by simp only [List.length_take]; omega
  have p3 : (left.drop ((lo + 1) * sw)).length = hi * sw - (lo * sw + sw) := by
    simp only [List.length_drop]; omega
  have p4 : ((left.take ((lo + 1) * sw)).drop (lo * sw)).length = sw := by
    simp only [List.length_drop, List.length_take]; omega
  have p5 : (right.drop sw).length = sh * sw - hi * sw - sw := by
    simp only [List.length_drop]; omega
  refine ⟨?_, ?_⟩
  · simp only [inner', List.length_append, p1, p2, p3, p4, p5]; omega
  · intro r c hr hc
    -- every piece reads the old buffer at a shifted offset
    have g1 : ∀ k, k < lo * sw → (left.take (lo * sw))[k]? = inner[k]? := by
      intro k hk
      simp only [left, List.getElem?_take]
      rw [if_pos hk, if_pos (by omega)]
    have g2 : ∀ k, k < sw → (right.take sw)[k]? = inner[hi * sw + k]? := by
      intro k hk
      simp only [right, List.getElem?_take, List.getElem?_drop]
      rw [if_pos hk]
    have g3 : ∀ k, k < hi * sw - (lo * sw + sw) →
        (left.drop ((lo + 1) * sw))[k]? = inner[lo * sw + sw + k]? := by
      intro k hk
      simp only [left, List.getElem?_take, List.getElem?_drop]
      rw [if_pos (by omega), h1]
    have g4 : ∀ k, k < sw → ((left.take ((lo + 1) * sw)).drop (lo * sw))[k]? = inner[lo * sw + k]? := by
      intro k hk
      simp only [left, List.getElem?_take, List.getElem?_drop]
      rw [if_pos (by omega), if_pos (by omega)]
    have g5 : ∀ k, (right.drop sw)[k]? = inner[hi * sw + sw + k]? := by
      intro k
      simp only [right, List.getElem?_drop]
      congr 1; omega
    simp only [inner']
    by_cases c1 : r < lo
    · have := row_le (w := sw) c1
      rw [List.getElem?_append_left (by simp only [List.length_append, p1, p2, p3, p4]; omega),
        List.getElem?_append_left (by simp only [List.length_append, p1, p2, p3]; omega),
        List.getElem?_append_left (by simp only [List.length_append, p1, p2]; omega),
        List.getElem?_append_left (by rw [p1]; omega), g1 _ (by omega),
        if_neg (by omega), if_neg (by omega)]
      exact hcell r c hr hc
    · by_cases c2 : r = lo
      · subst c2
        rw [List.getElem?_append_left (by simp only [List.length_append, p1, p2, p3, p4]; omega),
          List.getElem?_append_left (by simp only [List.length_append, p1, p2, p3]; omega),
          List.getElem?_append_left (by simp only [List.length_append, p1, p2]; omega),
          List.getElem?_append_right (by rw [p1]; omega), p1, g2 _ (by omega), if_pos rfl]
        have e : hi * sw + (r * sw + c - r * sw) = hi * sw + c := by omega
        rw [e]
        exact hcell hi c hhi hc
      · by_cases c3 : r < hi
        · have a1 : lo < r := by omega
          have := row_le (w := sw) a1
          have := row_le (w := sw) c3
          rw [List.getElem?_append_left (by simp only [List.length_append, p1, p2, p3, p4]; omega),
            List.getElem?_append_left (by simp only [List.length_append, p1, p2, p3]; omega),
            List.getElem?_append_right (by simp only [List.length_append, p1, p2]; omega),
            g3 _ (by simp only [List.length_append, p1, p2]; omega),
            if_neg c2, if_neg (by omega)]
          have e : lo * sw + sw + (r * sw + c - (left.take (lo * sw) ++ right.take sw).length)
              = r * sw + c := by
            simp only [List.length_append, p1, p2]; omega
          rw [e]
          exact hcell r c hr hc
        · by_cases c4 : r = hi
          · subst c4
            rw [List.getElem?_append_left (by simp only [List.length_append, p1, p2, p3, p4]; omega),
              List.getElem?_append_right (by simp only [List.length_append, p1, p2, p3]; omega),
              g4 _ (by simp only [List.length_append, p1, p2, p3]; omega),
              if_neg c2, if_pos rfl]
            have e : lo * sw + (r * sw + c -
                (left.take (lo * sw) ++ right.take sw ++ left.drop ((lo + 1) * sw)).length)
                = lo * sw + c := by
              simp only [List.length_append, p1, p2, p3]; omega
            rw [e]
            exact hcell lo c (by omega) hc
          · have a1 : hi < r := by omega
            have := row_le (w := sw) a1
            have := row_le (w := sw) hr
            rw [List.getElem?_append_right (by simp only [List.length_append, p1, p2, p3, p4]; omega),
              g5, if_neg c2, if_neg c4]
            have e : hi * sw + sw + (r * sw + c -
                (left.take (lo * sw) ++ right.take sw ++ left.drop ((lo + 1) * sw)
                  ++ (left.take ((lo + 1) * sw)).drop (lo * sw)).length) = r * sw + c := by
              simp only [List.length_append, p1, p2, p3, p4]; omega
            rw [e]
            exact hcell r c hr hc

theorem R_swapRows {s : Arr α} {g : Grid α} (h : R s g) (a b : Nat) :
    R (s.swapRows a b).1 (g.swapRows a b).1 ∧ (s.swapRows a b).2 = (g.swapRows a b).2 := by
  obtain ⟨hh, hw, hlen, hcell⟩ := h
  rcases s with ⟨inner, sh, sw⟩
  rcases g with ⟨gh, gw, cell⟩
  simp only at hh hw hlen hcell
  subst hh hw
  unfold Arr.swapRows Grid.swapRows
  simp only
  by_cases hb : a ≥ sh ∨ b ≥ sh
  · rw [if_pos hb, if_pos hb]; exact ⟨⟨rfl, rfl, hlen, hcell⟩, rfl⟩
  · rw [if_neg hb, if_neg hb]
    by_cases hab : a = b
    · rw [if_pos hab]
      refine ⟨⟨rfl, rfl, hlen, ?_⟩, rfl⟩
      intro r c hr hc
      simp only at hr hc ⊢
      have : (if r = a then b else if r = b then a else r) = r := by
        subst hab; by_cases e : r = a <;> simp [e]
      rw [this]; exact hcell r c hr hc
    · rw [if_neg hab]
      -- order the two rows
      have main : ∀ lo hi, lo < hi → hi < sh →
          (∀ r, (if r = a then b else if r = b then a else r) = (if r = lo then hi else if r = hi then lo else r)) →
          R (if hi * sw > inner.length then (⟨inner, sh, sw⟩, Out.panic)
            else if sw > (inner.drop (hi * sw)).length then (⟨inner, sh, sw⟩, Out.panic)
            else if (lo + 1) * sw > (inner.take (hi * sw)).length then (⟨inner, sh, sw⟩, Out.panic)
            else ((⟨(inner.take (hi * sw)).take (lo * sw) ++ (inner.drop (hi * sw)).take sw
                ++ (inner.take (hi * sw)).drop ((lo + 1) * sw)
                ++ ((inner.take (hi * sw)).take ((lo + 1) * sw)).drop (lo * sw)
                ++ (inner.drop (hi * sw)).drop sw, sh, sw⟩ : Arr α), Out.ok)).1
            (⟨sh, sw, fun r c => cell (if r = a then b else if r = b then a else r) c⟩ : Grid α) ∧
          (if hi * sw > inner.length then ((⟨inner, sh, sw⟩ : Arr α), Out.panic)
            else if sw > (inner.drop (hi * sw)).length then (⟨inner, sh, sw⟩, Out.panic)
            else if (lo + 1) * sw > (inner.take (hi * sw)).length then (⟨inner, sh, sw⟩, Out.panic)
            else ((⟨(inner.take (hi * sw)).take (lo * sw) ++ (inner.drop (hi * sw)).take sw
                ++ (inner.take (hi * sw)).drop ((lo + 1) * sw)
                ++ ((inner.take (hi * sw)).take ((lo + 1) * sw)).drop (lo * sw)
                ++ (inner.drop (hi * sw)).drop sw, sh, sw⟩ : Arr α), Out.ok)).2 = Out.ok := by
        intro lo hi hlt hhi hperm
        have h1 := succ_mul' lo sw
        have h2 := row_le (w := sw) hlt
        have h3 := row_le (w := sw) hhi
        rw [if_neg (by omega), if_neg (by simp only [List.length_drop]; omega),
          if_neg (by simp only [List.length_take]; omega)]
        obtain ⟨k1, k2⟩ := swap_core inner sh sw cell hlen hcell lo hi hlt hhi
        refine ⟨⟨rfl, rfl, k1, ?_⟩, rfl⟩
        intro r c hr hc
        simp only at hr hc ⊢
        rw [hperm r]
        exact k2 r c hr hc
      by_cases hgt : a > b
      · simp only [hgt, if_true]
        exact main b a hgt (by omega) (by
          intro r
          by_cases e1 : r = a
          · subst e1; simp [hab]
          · by_cases e2 : r = b
            · subst e2; simp [e1]
            · simp [e1, e2])
      · simp only [hgt, if_false]
        exact main a b (by omega) (by omega) (fun _ => rfl)

/-- `map` with a running index (proof device for the row iterators) -/
def mapFrom {β γ : Type} (F : Nat → β → γ) : Nat → List β → List γ
  | _, [] => []
  | i, x :: xs => F i x :: mapFrom F (i + 1) xs

theorem getElem?_mapFrom {β γ : Type} (F : Nat → β → γ) (i : Nat) (l : List β) (k : Nat) :
    (mapFrom F i l)[k]? = (l[k]?).map (F (i + k)) := by
  induction l generalizing i k with
  | nil => simp [mapFrom]
  | cons x xs ih =>
    cases k with
    | zero => simp [mapFrom]
    | succ k' =>
      simp only [mapFrom, List.getElem?_cons_succ, ih]
      congr 2; omega

theorem rowsMutGo_uniform (F : Nat → List α → List α) (w : Nat) (rows : List (List α))
    (hu : ∀ row ∈ rows, row.length = w) (idx : Nat) (acc : List α) :
    rowsMutGo F w rows.length idx rows.flatten acc = some (acc ++ (mapFrom F idx rows).flatten) := by
  induction rows generalizing idx acc with
  | nil => simp [rowsMutGo, mapFrom]
  | cons row rest ih =>
    have h1 := hu row (List.mem_cons_self ..)
    have h2 := ih fun y hy => hu y (List.mem_cons_of_mem _ hy)
    simp only [List.length_cons, List.flatten_cons, rowsMutGo, List.length_append]
    rw [if_neg (by omega), List.take_left' h1, List.drop_left' h1, h2]
    simp [mapFrom, List.append_assoc]

theorem map_range_getD (l : List α) (w : Nat) (hl : l.length = w) (d : Nat → α) :
    (List.range w).map (fun c => (l[c]?).getD (d c)) = l := by
  apply List.ext_getElem?
  intro c
  simp only [List.getElem?_map]
  by_cases hc : c < w
  · rw [List.getElem?_range hc]
    simp [List.getElem?_eq_getElem (show c < l.length by omega)]
  · rw [List.getElem?_eq_none_iff.mpr (by simp; omega), List.getElem?_eq_none_iff.mpr (by omega)]
    rfl

theorem R_rowsMut {s : Arr α} {g : Grid α} (h : R s g) (F : Nat → List α → List α)
    (hF : ∀ r row, (F r row).length = row.length) :
    R (s.rowsMut F).1 (g.rowsMut F).1 ∧ (s.rowsMut F).2 = (g.rowsMut F).2 := by
  obtain ⟨hh, hw, hf⟩ := R_iff_flat.mp h
  rcases s with ⟨inner, sh, sw⟩
  simp only at hh hw hf
  subst hh hw hf
  unfold Arr.rowsMut
  simp only
  have e : rowsMutGo F g.w g.h 0 g.flat [] = some ((mapFrom F 0 g.rows).flatten) := by
    have := rowsMutGo_uniform F g.w g.rows g.rows_uniform 0 []
    rw [g.rows_length] at this
    simpa [Grid.flat] using this
  rw [e]
  refine ⟨R_of_flat rfl rfl ?_, rfl⟩
  simp only [Grid.flat]
  congr 1
  apply List.ext_getElem?
  intro r
  rw [getElem?_mapFrom, Grid.rows_getElem?, Grid.rows_getElem?]
  by_cases hr : r < g.h
  · have hr' : r < (g.rowsMut F).1.h := hr
    rw [if_pos hr, if_pos hr']
    simp only [Option.map_some, Nat.zero_add, Option.some.injEq]
    have hl : (F r (g.row r)).length = g.w := by rw [hF, g.row_length]
    exact (map_range_getD (F r (g.row r)) g.w hl (g.cell r)).symm
  · have hr' : ¬ r < (g.rowsMut F).1.h := hr
    rw [if_neg hr, if_neg hr']
    rfl

/-! ### observer lemmas -/

theorem R.rowSlice? {s : Arr α} {g : Grid α} (h : R s g) {r : Nat} (hr : r < g.h) :
    s.rowSlice? r = some (g.row r) := by
  obtain ⟨hh, hw, hlen, hcell⟩ := h
  unfold Arr.rowSlice?
  have h1 := succ_mul' r g.w
  have h2 := row_le (w := g.w) hr
  rw [if_neg (by omega), if_neg (by rw [hlen, hh, hw]; omega), hw]
  congr 1
  apply List.ext_getElem?
  intro c
  simp only [List.getElem?_drop, List.getElem?_take, g.row_getElem?]
  by_cases hc : c < g.w
  · rw [if_pos (by omega), if_pos hc]
    exact hcell r c hr hc
  · rw [if_neg (by omega), if_neg hc]

theorem R.rowSlice?_none {s : Arr α} {g : Grid α} (h : R s g) {r : Nat} (hr : ¬ r < g.h) :
    s.rowSlice? r = none := by
  unfold Arr.rowSlice?
  rw [if_pos (by rw [h.1]; omega)]

theorem R.at2? {s : Arr α} {g : Grid α} (h : R s g) (r c : Nat) :
    s.at2? r c = if r < g.h ∧ c < g.w then some (g.cell r c) else none := by
  unfold Arr.at2?
  by_cases hr : r < g.h
  · rw [h.rowSlice? hr]
    simp only [g.row_getElem?, hr, true_and]
  · rw [h.rowSlice?_none hr]
    simp [hr]

theorem rowsGo_uniform (w : Nat) (rows : List (List α)) (hu : ∀ row ∈ rows, row.length = w) :
    rowsGo w rows.length rows.flatten = some rows := by
  induction rows with
  | nil => simp [rowsGo]
  | cons row rest ih =>
    have h1 := hu row (List.mem_cons_self ..)
    have h2 := ih fun y hy => hu y (List.mem_cons_of_mem _ hy)
    simp only [List.length_cons, List.flatten_cons, rowsGo]
    by_cases hw : w = 0
    · have hrow : row = [] := List.eq_nil_of_length_eq_zero (by omega)
      subst hrow
      rw [if_pos hw]
      simp only [List.nil_append, h2]
    · rw [if_neg hw, if_neg (by simp only [List.length_append]; omega), List.take_left' h1,
        List.drop_left' h1, h2]

theorem R.rows? {s : Arr α} {g : Grid α} (h : R s g) : s.rows? = some g.rows := by
  unfold Arr.rows?
  have := rowsGo_uniform g.w g.rows g.rows_uniform
  rw [g.rows_length] at this
  rw [h.flat, h.1, h.2.1]
  exact this

theorem R.extreme {s : Arr α} {g : Grid α} (h : R s g) (f : α → α → α) :
    s.extreme f = .opt (reduce? f g.flat) := by
  unfold Arr.extreme Arr.isEmpty
  rw [h.flat, h.1, h.2.1]
  have hl := g.flat_length
  by_cases he : g.h = 0 ∨ g.w = 0
  · have : g.flat = [] := by
      apply List.eq_nil_of_length_eq_zero
      rw [hl]; rcases he with e | e <;> simp [e]
    simp [he, this, reduce?]
  · have hpos : 0 < g.h * g.w := Nat.mul_pos (by omega) (by omega)
    simp only [he, decide_false, Bool.false_eq_true, if_false]
    cases hf : g.flat with
    | nil => rw [hf] at hl; simp at hl; omega
    | cons x xs => simp [reduce?]

theorem R.table? {s : Arr α} {g : Grid α} (h : R s g) : s.table? = some g.rows := by
  unfold Arr.table? Grid.rows Grid.row
  rw [h.1, h.2.1]
  apply collect_map_some
  intro r hr
  apply collect_map_some
  intro c hc
  rw [List.mem_range] at hr hc
  exact h.at? hr hc

theorem R.display {s : Arr α} {g : Grid α} (h : R s g) (fmt : α → List Char) :
    s.display fmt = .text (layout fmt g.h g.w g.rows) := by
  unfold Arr.display
  rw [h.table?, h.1, h.2.1]
  by_cases he : g.h = 0 ∨ g.w = 0
  · simp [he, layout]
  · simp [he]

theorem R.asScalar {s : Arr α} {g : Grid α} (h : R s g) :
    s.asScalar = if g.h = 1 ∧ g.w = 1 then .opt (some (g.cell 0 0)) else .opt none := by
  unfold Arr.asScalar
  rw [h.1, h.2.1]
  by_cases he : g.h = 1 ∧ g.w = 1
  · have := h.2.2.2 0 0 (by omega) (by omega)
    simp only [Nat.zero_mul, Nat.zero_add] at this
    simp [he, this]
  · simp [he]

theorem eqLoop_some [DecidableEq α] (L : List (Option α × Option α))
    (hs : ∀ p ∈ L, ∃ a b, p = (some a, some b)) :
    eqLoop L = .bool (decide (∀ p ∈ L, p.1 = p.2)) := by
  induction L with
  | nil => simp [eqLoop]
  | cons p rest ih =>
    obtain ⟨a, b, rfl⟩ := hs _ (List.mem_cons_self ..)
    have ih' := ih fun q hq => hs q (List.mem_cons_of_mem _ hq)
    simp only [eqLoop]
    by_cases hab : a = b
    · subst hab
      simp only [ne_eq, not_true_eq_false, if_false, ih']
      congr 1
      simp
    · simp [hab]

theorem rows_eq_iff (g : Grid α) (other : List (List α)) (hl : g.h = other.length)
    (hu : ∀ row ∈ other, row.length = g.w) :
    g.rows = other ↔
      ∀ r, r < g.h → ∀ c, c < g.w → some (g.cell r c) = (other[r]?).bind (·[c]?) := by
  constructor
  · intro e r hr c hc
    rw [← e, g.rows_getElem?, if_pos hr]
    simp [g.row_getElem?, hc]
  · intro hcells
    apply List.ext_getElem?
    intro r
    rw [g.rows_getElem?]
    by_cases hr : r < g.h
    · have hr' : r < other.length := by omega
      rw [if_pos hr, List.getElem?_eq_getElem hr']
      congr 1
      apply List.ext_getElem?
      intro c
      rw [g.row_getElem?]
      have hrow := hu _ (List.getElem_mem hr')
      by_cases hc : c < g.w
      · rw [if_pos hc]
        have := hcells r hr c hc
        rw [List.getElem?_eq_getElem hr'] at this
        simpa using this
      · rw [if_neg hc, List.getElem?_eq_none_iff.mpr (by omega)]
    · rw [if_neg hr, List.getElem?_eq_none_iff.mpr (by omega)]

theorem R.eqNested [DecidableEq α] {s : Arr α} {g : Grid α} (h : R s g) (other : List (List α)) :
    s.eqNested other = .bool (decide (g.rows = other)) := by
  unfold Arr.eqNested
  rw [h.1, h.2.1]
  by_cases h1 : g.h ≠ other.length
  · rw [if_pos h1]
    have : g.rows ≠ other := by
      intro e; apply h1; rw [← e, g.rows_length]
    simp [this]
  · have hl : g.h = other.length := by omega
    rw [if_neg h1]
    by_cases h2 : g.h = 0
    · rw [if_pos h2]
      have e1 : other = [] := List.eq_nil_of_length_eq_zero (by omega)
      have e2 : g.rows = [] := List.eq_nil_of_length_eq_zero (by rw [g.rows_length]; exact h2)
      simp [e1, e2]
    · rw [if_neg h2]
      by_cases h3 : other.any (fun row => row.length ≠ g.w) = true
      · rw [if_pos h3]
        have : g.rows ≠ other := by
          intro e
          rw [List.any_eq_true] at h3
          obtain ⟨row, hrow, hne⟩ := h3
          rw [← e] at hrow
          have := g.rows_uniform row hrow
          simp [this] at hne
        simp [this]
      · rw [if_neg h3]
        have hu : ∀ row ∈ other, row.length = g.w := by
          intro row hrow
          by_cases e : row.length = g.w
          · exact e
          · exfalso; apply h3
            rw [List.any_eq_true]
            exact ⟨row, hrow, by simpa using e⟩
        rw [eqLoop_some]
        · congr 1
          rw [decide_eq_decide, rows_eq_iff g other hl hu]
          constructor
          · intro hp r hr c hc
            have := hp (s.at2? r c, (other[r]?).bind (·[c]?))
              (by
                rw [List.mem_flatMap]
                exact ⟨r, List.mem_range.mpr hr, List.mem_map.mpr ⟨c, List.mem_range.mpr hc, rfl⟩⟩)
            rw [h.at2?, if_pos ⟨hr, hc⟩] at this
            exact this
          · intro hcells p hp
            rw [List.mem_flatMap] at hp
            obtain ⟨r, hr, hp⟩ := hp
            rw [List.mem_map] at hp
            obtain ⟨c, hc, rfl⟩ := hp
            rw [List.mem_range] at hr hc
            simp only
            rw [h.at2?, if_pos ⟨hr, hc⟩]
            exact hcells r hr c hc
        · intro p hp
          rw [List.mem_flatMap] at hp
          obtain ⟨r, hr, hp⟩ := hp
          rw [List.mem_map] at hp
          obtain ⟨c, hc, rfl⟩ := hp
          rw [List.mem_range] at hr hc
          have hr' : r < other.length := by omega
          have hrow := hu _ (List.getElem_mem hr')
          refine ⟨g.cell r c, (other[r])[c]'(by omega), ?_⟩
          rw [h.at2?, if_pos ⟨hr, hc⟩, List.getElem?_eq_getElem hr']
          simp [List.getElem?_eq_getElem (show c < (other[r]).length by omega)]

/-! ### constructors -/

/-- constructor results correspond: related states, or the same error -/
def RRes : Res (Arr α) → Res (Grid α) → Prop
  | .ok s, .ok g => R s g
  | .err e, .err e' => e = e'
  | _, _ => False

theorem R_new [Inhabited α] : R (Arr.new : Arr α) Grid.new :=
  ⟨rfl, rfl, rfl, fun r c hr _ => by simp [Grid.new] at hr⟩

theorem R_full (v : α) (h w : Nat) : R (Arr.full v h w) (Grid.full v h w) := by
  refine ⟨rfl, rfl, by simp [Arr.full], ?_⟩
  intro r c hr hc
  simp only [Grid.full] at hr hc ⊢
  simp only [Arr.full, List.getElem?_replicate]
  rw [if_pos (idx_lt hr hc)]

theorem R_identity (zero one : α) (n : Nat) :
    ∃ a, Arr.identity zero one n = .ok a ∧ R a (Grid.identity zero one n) := by
  let G : Nat → Grid α := fun k => ⟨n, n, fun r c => if r = c ∧ r < k then one else zero⟩
  let stepf := fun (acc : Option (Arr α)) (i : Nat) =>
    match acc with
    | none => none
    | some a =>
      match a.setRowCol i i one with
      | (a', .ok) => some a'
      | _ => none
  have inv : ∀ k, k ≤ n → ∃ a, (List.range k).foldl stepf (some (Arr.full zero n n)) = some a ∧ R a (G k) := by
    intro k
    induction k with
    | zero =>
      intro _
      refine ⟨_, rfl, R_congr (R_full zero n n) rfl rfl ?_⟩
      intro r c _ _
      simp [G, Grid.full]
    | succ k ih =>
      intro hk
      obtain ⟨a, ha, hR⟩ := ih (by omega)
      have key := R_setRowCol hR k k one
      have hout : (a.setRowCol k k one).2 = .ok := by
        rw [key.2]
        simp only [Grid.set, G]
        rw [if_neg (by omega)]
      refine ⟨(a.setRowCol k k one).1, ?_, R_congr key.1 ?_ ?_ ?_⟩
      · rw [List.range_succ, List.foldl_append, ha]
        simp only [List.foldl_cons, List.foldl_nil, stepf]
        generalize hp : a.setRowCol k k one = p at hout
        rcases p with ⟨a', o⟩
        simp only at hout
        subst hout
        rfl
      · simp only [Grid.set, G]; rw [if_neg (by omega)]
      · simp only [Grid.set, G]; rw [if_neg (by omega)]
      · intro r c _ _
        simp only [Grid.set, G]
        rw [if_neg (show ¬(k ≥ n ∨ k ≥ n) by omega)]
        simp only
        by_cases e : r = k ∧ c = k
        · obtain ⟨rfl, rfl⟩ := e; simp
        · by_cases e2 : r = c
          · subst e2
            have : r ≠ k := by intro e3; apply e; exact ⟨e3, e3⟩
            have h1 : (r < k + 1) = (r < k) := by apply propext; omega
            simp [this, h1]
          · simp [e2, e]
  obtain ⟨a, ha, hR⟩ := inv n (Nat.le_refl n)
  refine ⟨a, ?_, R_congr hR rfl rfl ?_⟩
  · simp only [Arr.identity]
    change (match (List.range n).foldl stepf (some (Arr.full zero n n)) with
      | some a => Res.ok a | none => Res.panic) = _
    rw [ha]
  · intro r c hr _
    simp only [G] at hr ⊢
    simp only [Grid.identity]
    by_cases e : r = c
    · simp [e]; intro h; subst e; omega
    · simp [e]

theorem fromNestedGo_eq (w : Nat) (rows : List (List α)) (acc : List α) :
    fromNestedGo w rows acc =
      if rows.all (fun row => row.length = w) then some (acc ++ rows.flatten) else none := by
  induction rows generalizing acc with
  | nil => simp [fromNestedGo]
  | cons row rest ih =>
    simp only [fromNestedGo, List.all_cons, List.flatten_cons]
    by_cases h : row.length = w
    · simp [h, ih, List.append_assoc]
    · simp [h]

theorem R_ofRows [Inhabited α] (rows : List (List α)) (w : Nat)
    (hu : ∀ row ∈ rows, row.length = w) : R ⟨rows.flatten, rows.length, w⟩ (Grid.ofRows rows w) := by
  refine ⟨rfl, rfl, length_flatten_uniform hu, ?_⟩
  intro r c hr hc
  simp only [Grid.ofRows] at hr hc ⊢
  rw [getElem?_flatten_uniform hu r c hc, List.getElem?_eq_getElem hr]
  have hrow := hu _ (List.getElem_mem hr)
  simp only [Option.bind_some]
  rw [List.getElem?_eq_getElem (by omega)]
  simp [List.getD_eq_getElem?_getD, List.getElem?_eq_getElem hr,
    List.getElem?_eq_getElem (show c < (rows[r]).length by omega)]

theorem R_fromNested [Inhabited α] (rows : List (List α)) :
    RRes (Arr.fromNested rows) (Grid.fromNested rows) := by
  cases rows with
  | nil => exact R_new
  | cons first rest =>
    simp only [Arr.fromNested, Grid.fromNested, fromNestedGo_eq]
    by_cases hall : ((first :: rest).all fun row => row.length = first.length) = true
    · simp only [hall, if_true, List.nil_append]
      apply R_ofRows
      intro row hrow
      have := List.all_eq_true.mp hall row hrow
      simpa using this
    · simp only [hall]
      rfl

theorem convRows_ok (conv : α → Option α) (w : Nat) (rows rows' : List (List α))
    (h : convRows conv w rows = .ok rows') :
    rows'.length = rows.length ∧ ∀ row ∈ rows', row.length = w := by
  induction rows generalizing rows' with
  | nil =>
    simp only [convRows] at h
    cases h
    simp
  | cons row rest ih =>
    simp only [convRows] at h
    by_cases hl : row.length ≠ w
    · rw [if_pos hl] at h; cases h
    · rw [if_neg hl, collect_map_conv] at h
      by_cases hall : (row.all fun x => (conv x).isSome) = true
      · simp only [hall, if_true] at h
        cases hr : convRows conv w rest with
        | error e => rw [hr] at h; cases h
        | ok l =>
          rw [hr] at h
          cases h
          obtain ⟨i1, i2⟩ := ih l hr
          refine ⟨by simp [i1], ?_⟩
          intro y hy
          rcases List.mem_cons.mp hy with rfl | hy
          · simp; omega
          · exact i2 y hy
      · simp only [hall] at h
        cases h

theorem fromNestedRefGo_eq (conv : α → Option α) (w : Nat) (rows : List (List α)) (acc : List α) :
    fromNestedRefGo conv w rows acc =
      match convRows conv w rows with
      | .ok rows' => .ok (acc ++ rows'.flatten)
      | .error e => .error e := by
  induction rows generalizing acc with
  | nil => simp [fromNestedRefGo, convRows]
  | cons row rest ih =>
    simp only [fromNestedRefGo, convRows]
    by_cases hl : row.length ≠ w
    · rw [if_pos hl, if_pos hl]
    · rw [if_neg hl, if_neg hl]
      cases hc : collect (row.map conv) with
      | none => rfl
      | some r =>
        simp only [ih]
        cases convRows conv w rest with
        | error e => rfl
        | ok l => simp [List.append_assoc]

theorem R_fromNestedRef [Inhabited α] (conv : α → Option α) (rows : List (List α)) :
    RRes (Arr.fromNestedRef conv rows) (Grid.fromNestedRef conv rows) := by
  cases rows with
  | nil => exact R_new
  | cons first rest =>
    simp only [Arr.fromNestedRef, Grid.fromNestedRef, fromNestedRefGo_eq]
    cases hc : convRows conv first.length (first :: rest) with
    | error e => exact rfl
    | ok rows' =>
      obtain ⟨h1, h2⟩ := convRows_ok conv _ _ _ hc
      simp only [List.nil_append]
      have := R_ofRows rows' first.length h2
      rw [h1] at this
      exact this

theorem R_fromArray (m n : Nat) (f : Nat → Nat → α) : R (Arr.fromArray m n f) (Grid.fromArray m n f) :=
  R_of_flat rfl rfl rfl

theorem R_fromFlat (data : List α) (dflt : α) (h w : Nat) :
    RRes (Arr.fromFlat data dflt h w) (Grid.fromFlat data dflt h w) := by
  simp only [Arr.fromFlat, Grid.fromFlat]
  by_cases hb : data.length > h * w ∨ h * w = 0
  · rw [if_pos hb, if_pos hb]; exact rfl
  · rw [if_neg hb, if_neg hb]
    by_cases hlt : data.length < h * w
    · rw [if_pos hlt]
      refine ⟨rfl, rfl, by simp only [List.length_append, List.length_replicate]; omega, ?_⟩
      intro r c hr hc
      simp only at hr hc ⊢
      have hk := idx_lt hr hc
      by_cases hd : r * w + c < data.length
      · rw [List.getElem?_append_left hd, List.getElem?_eq_getElem hd]; simp
      · rw [List.getElem?_append_right (by omega), List.getElem?_replicate, if_pos (by omega),
          List.getElem?_eq_none_iff.mpr (by omega)]
        rfl
    · rw [if_neg hlt]
      refine ⟨rfl, rfl, by simp only; omega, ?_⟩
      intro r c hr hc
      simp only at hr hc ⊢
      have hk := idx_lt hr hc
      rw [List.getElem?_eq_getElem (by omega)]; simp

theorem R_init_all [Inhabited α] (i : Init α) : RRes (init i) (Grid.init i) := by
  cases i with
  | new => exact R_new
  | full v h w => exact R_full v h w
  | identity z o n =>
    obtain ⟨a, ha, hR⟩ := R_identity z o n
    simp only [init, Grid.init, ha]
    exact hR
  | fromNested rows => exact R_fromNested rows
  | fromNestedRef conv rows => exact R_fromNestedRef conv rows
  | fromArray m n f => exact R_fromArray m n f
  | fromFlat d v h w => exact R_fromFlat d v h w

/-! ### `max`/`min` over a linear order -/

theorem Grid.mem_flat (g : Grid α) (x : α) :
    x ∈ g.flat ↔ ∃ r c, r < g.h ∧ c < g.w ∧ g.cell r c = x := by
  simp only [Grid.flat, Grid.rows, Grid.row, List.mem_flatten, List.mem_map, List.mem_range]
  constructor
  · rintro ⟨l, ⟨r, hr, rfl⟩, hx⟩
    simp only [List.mem_map, List.mem_range] at hx
    obtain ⟨c, hc, rfl⟩ := hx
    exact ⟨r, c, hr, hc, rfl⟩
  · rintro ⟨r, c, hr, hc, rfl⟩
    exact ⟨_, ⟨r, hr, rfl⟩, List.mem_map.mpr ⟨c, List.mem_range.mpr hc, rfl⟩⟩

theorem foldl_pickMax_spec {β : Type} [LinearOrder β] (xs : List β) (x : β) :
    xs.foldl pickMax x ∈ x :: xs ∧ ∀ y ∈ x :: xs, y ≤ xs.foldl pickMax x := by
  induction xs generalizing x with
  | nil => simp
  | cons y ys ih =>
    obtain ⟨h1, h2⟩ := ih (pickMax x y)
    have hx : x ≤ pickMax x y := by
      unfold pickMax; split
      · exact le_refl x
      · rename_i h; exact not_lt.mp h
    have hy : y ≤ pickMax x y := by
      unfold pickMax; split
      · rename_i h; exact le_of_lt h
      · exact le_refl y
    have hm : pickMax x y = x ∨ pickMax x y = y := by
      unfold pickMax; split
      · exact Or.inl rfl
      · exact Or.inr rfl
    simp only [List.foldl_cons]
    refine ⟨?_, ?_⟩
    · rcases List.mem_cons.mp h1 with e | e
      · rw [e]; rcases hm with e' | e' <;> rw [e'] <;> simp
      · exact List.mem_cons_of_mem _ (List.mem_cons_of_mem _ e)
    · intro z hz
      have top := h2 (pickMax x y) (List.mem_cons_self ..)
      rcases List.mem_cons.mp hz with e | e
      · rw [e]; exact le_trans hx top
      · rcases List.mem_cons.mp e with e | e
        · rw [e]; exact le_trans hy top
        · exact h2 z (List.mem_cons_of_mem _ e)

theorem foldl_pickMin_spec {β : Type} [LinearOrder β] (xs : List β) (x : β) :
    xs.foldl pickMin x ∈ x :: xs ∧ ∀ y ∈ x :: xs, xs.foldl pickMin x ≤ y := by
  induction xs generalizing x with
  | nil => simp
  | cons y ys ih =>
    obtain ⟨h1, h2⟩ := ih (pickMin x y)
    have hx : pickMin x y ≤ x := by
      unfold pickMin; split
      · exact le_refl x
      · rename_i h; exact not_lt.mp h
    have hy : pickMin x y ≤ y := by
      unfold pickMin; split
      · rename_i h; exact le_of_lt h
      · exact le_refl y
    have hm : pickMin x y = x ∨ pickMin x y = y := by
      unfold pickMin; split
      · exact Or.inl rfl
      · exact Or.inr rfl
    simp only [List.foldl_cons]
    refine ⟨?_, ?_⟩
    · rcases List.mem_cons.mp h1 with e | e
      · rw [e]; rcases hm with e' | e' <;> rw [e'] <;> simp
      · exact List.mem_cons_of_mem _ (List.mem_cons_of_mem _ e)
    · intro z hz
      have bot := h2 (pickMin x y) (List.mem_cons_self ..)
      rcases List.mem_cons.mp hz with e | e
      · rw [e]; exact le_trans bot hx
      · rcases List.mem_cons.mp e with e | e
        · rw [e]; exact le_trans bot hy
        · exact h2 z (List.mem_cons_of_mem _ e)

theorem reduce?_none_iff (f : α → α → α) (l : List α) : reduce? f l = none ↔ l = [] := by
  cases l <;> simp [reduce?]

end SV.C12
