import SV.Model.C17
import SV.Lemmas.Text
import SV.Lemmas.C01
import Mathlib.Tactic.NormNum
/-!
Lemmas for the print / parse round trips of C17, part 1: numbers.

* `natText`            `toString n` is a non-empty ASCII-digit text whose value is `n`
                       (`parseUsizeCapped_natText`: the exponent parser reads it back)
* `trimEnd`            structural facts about `str::trim_end_matches(char)`
* `trimU`              the spelling left by the zero trimming of the precision formatters;
                       `trimFraction_render`, `trimU_wf`, `trimU_value`
* `udecOf`, `IsSpelling`, `textValue`   a formatter text as a spelling: `IsSpelling t` is the formatter
                       hypothesis "the output is a plain decimal spelling with an integer digit",
                       `textValue t` the number the parsers read from it
-/
namespace SV.C17
open SV SV.Text SV.C01

/-! ### `natText` -/

theorem natText_eq (n : Nat) : natText n = Nat.toDigits 10 n := by
  simp [natText]

theorem isAsciiDigit_of_isDigit {c : Char} (h : c.isDigit = true) : isAsciiDigit c = true := by
  rw [isAsciiDigit_iff]
  simp only [Char.isDigit, ge_iff_le, Bool.and_eq_true, decide_eq_true_eq, UInt32.le_iff_toNat_le] at h
  exact h

theorem natText_ne_nil (n : Nat) : natText n ≠ [] := by
  rw [natText_eq]; exact Nat.toDigits_ne_nil

theorem natText_digits (n : Nat) : ∀ c ∈ natText n, isAsciiDigit c = true := by
  intro c hc
  rw [natText_eq] at hc
  exact isAsciiDigit_of_isDigit (Nat.isDigit_of_mem_toDigits (by decide) (by decide) hc)

theorem digitsVal_eq_ofDigitChars (l : List Char) : digitsVal l = Nat.ofDigitChars 10 l 0 := by
  unfold digitsVal Nat.ofDigitChars digitVal
  congr 1
  funext acc c
  rw [Nat.mul_comm]

/-- the decimal digits of `n` denote `n` -/
theorem digitsVal_natText (n : Nat) : digitsVal (natText n) = n := by
  rw [natText_eq, digitsVal_eq_ofDigitChars, Nat.ofDigitChars_ten_toDigits]

/-- **`usize` printing reads back**: the exponent parser accepts `toString n` and returns `n`, for every
`n` up to the cap. -/
theorem parseUsizeCapped_natText {cap n : Nat} (h : n ≤ cap) :
    parseUsizeCapped cap (natText n) = some n := by
  rw [parseUsizeCapped_eq_some]
  exact ⟨natText_ne_nil n, natText_digits n, by rw [digitsVal_natText]; exact h,
    (digitsVal_natText n).symm⟩

/-! ### `trimEnd` -/

theorem trimEnd_snoc_self (c : Char) (s : List Char) : trimEnd c (s ++ [c]) = trimEnd c s := by
  simp [trimEnd]

theorem trimEnd_snoc_ne {c d : Char} (h : d ≠ c) (s : List Char) : trimEnd c (s ++ [d]) = s ++ [d] := by
  simp [trimEnd, h]

theorem trimEnd_nil (c : Char) : trimEnd c [] = [] := rfl

theorem trimEnd_append_replicate (c : Char) (s : List Char) (k : Nat) :
    trimEnd c (s ++ List.replicate k c) = trimEnd c s := by
  induction k with
  | zero => simp
  | succ k ih =>
    rw [List.replicate_succ', ← List.append_assoc, trimEnd_snoc_self, ih]

/-- what is cut off is a block of `c`s -/
theorem trimEnd_append_self (c : Char) (s : List Char) :
    ∃ k, s = trimEnd c s ++ List.replicate k c := by
  induction s using List.reverseRecOn with
  | nil => exact ⟨0, rfl⟩
  | append_singleton s d ih =>
    by_cases hd : d = c
    · subst hd
      obtain ⟨k, hk⟩ := ih
      refine ⟨k + 1, ?_⟩
      rw [trimEnd_snoc_self, List.replicate_succ', ← List.append_assoc, ← hk]
    · exact ⟨0, by rw [trimEnd_snoc_ne hd]; simp⟩

/-- what is left does not end in `c` -/
theorem trimEnd_last (c : Char) (s : List Char) :
    trimEnd c s = [] ∨ ∃ s' d, trimEnd c s = s' ++ [d] ∧ d ≠ c := by
  induction s using List.reverseRecOn with
  | nil => exact Or.inl rfl
  | append_singleton s d ih =>
    by_cases hd : d = c
    · subst hd; rw [trimEnd_snoc_self]; exact ih
    · exact Or.inr ⟨s, d, trimEnd_snoc_ne hd s, hd⟩

theorem mem_of_mem_trimEnd {c d : Char} {s : List Char} (h : d ∈ trimEnd c s) : d ∈ s := by
  obtain ⟨k, hk⟩ := trimEnd_append_self c s
  rw [hk]; exact List.mem_append_left _ h

theorem trimEnd_eq_self_of_last {c : Char} {s : List Char}
    (h : s = [] ∨ ∃ s' d, s = s' ++ [d] ∧ d ≠ c) : trimEnd c s = s := by
  rcases h with rfl | ⟨s', d, rfl, hd⟩
  · rfl
  · exact trimEnd_snoc_ne hd s'

/-- a non-empty digit text ends in a character that is not `.` -/
theorem digits_last_ne_dot {s : List Char} (hd : ∀ c ∈ s, isAsciiDigit c = true) :
    s = [] ∨ ∃ s' d, s = s' ++ [d] ∧ d ≠ '.' := by
  induction s using List.reverseRecOn with
  | nil => exact Or.inl rfl
  | append_singleton s d _ => exact Or.inr ⟨s, d, rfl, digit_ne_dot (hd d (by simp))⟩

/-! ### zero trimming of a spelling -/

/-- the spelling left by trimming: trailing zeros of the fraction go, and the point with them if no
fraction digit is left -/
def trimU (u : UDec) : UDec :=
  if u.dot then ⟨u.ip, trimEnd '0' u.fp, !(trimEnd '0' u.fp).isEmpty⟩ else u

theorem digitsVal_replicate_zero (k : Nat) : digitsVal (List.replicate k '0') = 0 := by
  rw [digitsVal_eq_ofDigitChars, Nat.ofDigitChars_replicate_zero, Nat.mul_zero]

theorem render_contains_dot {u : UDec} (hu : u.WF) : u.render.contains '.' = u.dot := by
  have hip : '.' ∉ u.ip := fun h => digit_ne_dot (hu.ip_digits _ h) rfl
  unfold UDec.render
  cases hd : u.dot with
  | false => simpa [List.contains_eq_mem] using hip
  | true => simp [List.contains_eq_mem]

/-- **what the trimming does to a spelling**: the text of `trimU` -/
theorem trimFraction_render {u : UDec} (hu : u.WF) :
    trimFraction u.render = (trimU u).render := by
  unfold trimFraction trimU
  rw [render_contains_dot hu]
  cases hd : u.dot with
  | false => simp
  | true =>
    simp only [if_true]
    obtain ⟨k, hk⟩ := trimEnd_append_self '0' u.fp
    have hrender : u.render = (u.ip ++ '.' :: trimEnd '0' u.fp) ++ List.replicate k '0' := by
      unfold UDec.render
      rw [hd, if_pos rfl, List.append_assoc, List.cons_append, ← hk]
    rw [hrender, trimEnd_append_replicate]
    unfold UDec.render
    rcases trimEnd_last '0' u.fp with h0 | ⟨s', d, hs', hd0⟩
    · -- nothing but zeros after the point: the point goes too
      rw [h0]
      have h1 : trimEnd '0' (u.ip ++ ['.']) = u.ip ++ ['.'] := trimEnd_snoc_ne (by decide) _
      rw [h1, trimEnd_snoc_self, trimEnd_eq_self_of_last (digits_last_ne_dot hu.ip_digits)]
      simp
    · rw [hs']
      have hdd : isAsciiDigit d = true :=
        hu.fp_digits d (mem_of_mem_trimEnd (c := '0') (by rw [hs']; simp))
      have e : u.ip ++ '.' :: (s' ++ [d]) = (u.ip ++ '.' :: s') ++ [d] := by simp
      rw [e, trimEnd_snoc_ne hd0, trimEnd_snoc_ne (digit_ne_dot hdd)]
      simp

theorem trimU_ip (u : UDec) : (trimU u).ip = u.ip := by
  unfold trimU; split <;> rfl

theorem trimU_wf {u : UDec} (hu : u.WF) (hip : u.ip ≠ []) : (trimU u).WF := by
  unfold trimU
  split
  · exact ⟨hu.ip_digits, fun c hc => hu.fp_digits c (mem_of_mem_trimEnd hc), Or.inl hip,
      fun h => by simpa using h⟩
  · exact hu

/-- trimming keeps the value -/
theorem trimU_value (u : UDec) : (trimU u).value = u.value := by
  unfold trimU
  split
  · obtain ⟨k, hk⟩ := trimEnd_append_self '0' u.fp
    have h10 : ((10 : ℚ) ^ k) ≠ 0 := pow_ne_zero _ (by norm_num)
    have hm : u.mant = digitsVal (u.ip ++ trimEnd '0' u.fp) * 10 ^ k := by
      unfold UDec.mant
      rw (occs := [1]) [hk]
      rw [← List.append_assoc, digitsVal_append, digitsVal_replicate_zero, List.length_replicate,
        Nat.add_zero]
    have hl : u.fp.length = (trimEnd '0' u.fp).length + k := by
      rw (occs := [1]) [hk]
      rw [List.length_append, List.length_replicate]
    unfold UDec.value
    rw [hm, hl]
    simp only [UDec.mant]
    push_cast
    rw [pow_add, mul_div_mul_right _ _ h10]
  · rfl

/-! ### formatter texts as spellings -/

/-- the spelling a text is read as: cut at the first `.` -/
def udecOf (t : List Char) : UDec :=
  match splitAtChar '.' t with
  | some (ip, fp) => ⟨ip, fp, true⟩
  | none => ⟨t, [], false⟩

theorem udecOf_render {u : UDec} (hu : u.WF) : udecOf u.render = u := by
  have hip : '.' ∉ u.ip := fun h => digit_ne_dot (hu.ip_digits _ h) rfl
  rcases u with ⟨ip, fp, dot⟩
  unfold udecOf UDec.render
  cases dot with
  | false =>
    have := hu.no_dot rfl
    simp only at this hip
    subst this
    simp [splitAtChar_of_not_mem hip]
  | true =>
    simp only at hip
    simp [splitAtChar_append _ hip]

/-- **the formatter hypothesis**: the text is a plain decimal spelling `digits[.digits]` with at least
one integer digit (what `{}` and `{:.p}` of a finite non-negative `f64` print) -/
def IsSpelling (t : List Char) : Prop := ∃ u : UDec, u.WF ∧ u.ip ≠ [] ∧ t = u.render

/-- the number a spelling denotes -/
def textValue (t : List Char) : ℚ := (udecOf t).value

theorem IsSpelling.udecOf {t : List Char} (h : IsSpelling t) :
    (udecOf t).WF ∧ (udecOf t).ip ≠ [] ∧ (udecOf t).render = t := by
  obtain ⟨u, hu, hip, rfl⟩ := h
  rw [udecOf_render hu]
  exact ⟨hu, hip, rfl⟩

/-- decidable form, for examples -/
def isSpellingB (t : List Char) : Bool :=
  UDec.wfb (udecOf t) && !(udecOf t).ip.isEmpty && (udecOf t).render == t

theorem isSpelling_of_b {t : List Char} (h : isSpellingB t = true) : IsSpelling t := by
  simp only [isSpellingB, Bool.and_eq_true, Bool.not_eq_true', beq_iff_eq] at h
  exact ⟨udecOf t, UDec.wf_of_wfb h.1.1, by
    intro e; rw [e] at h; simp at h, h.2.symm⟩

theorem parseSignedDec_dash (rest : List Char) :
    parseSignedDec ('-' :: rest) =
      match parseUDec rest with
      | some (m, sc) => some ⟨true, m, sc⟩
      | none => none := rfl

theorem parseSignedDec_of_head {s : List Char} (hs : s.head? ≠ some '-') :
    parseSignedDec s =
      match parseUDec s with
      | some (m, sc) => some ⟨false, m, sc⟩
      | none => none := by
  unfold parseSignedDec
  split
  rename_i neg body heq
  split at heq
  · simp at hs
  · simp only [Prod.mk.injEq] at heq
    obtain ⟨rfl, rfl⟩ := heq
    rfl

theorem UDec.render_head {u : UDec} (hu : u.WF) : u.render.head? ≠ some '-' := by
  intro h
  have hmem : '-' ∈ u.render := List.mem_of_mem_head? h
  rcases UDec.mem_render hu hmem with h | h
  · exact digit_ne_dash h rfl
  · revert h; decide

/-- the multivariate parser's number reader (`f64::from_str` on `[-]digits[.digits]`) on a spelling -/
theorem parseSignedDec_render {u : UDec} (hu : u.WF) (neg : Bool) :
    parseSignedDec ((if neg then ['-'] else []) ++ u.render) = some ⟨neg, u.mant, u.fp.length⟩ := by
  cases neg with
  | true =>
    simp only [if_true, List.cons_append, List.nil_append]
    rw [parseSignedDec_dash, parseUDec_render hu]
  | false =>
    simp only [Bool.false_eq_true, if_false, List.nil_append]
    rw [parseSignedDec_of_head (UDec.render_head hu), parseUDec_render hu]

/-- the parsers read a spelling as its `textValue` -/
theorem parseDec_spelling {t : List Char} (h : IsSpelling t) (neg : Bool) :
    ∃ d, parseDec ((if neg then ['-'] else []) ++ t) = some d ∧
      d.val = (if neg then -1 else 1) * textValue t := by
  obtain ⟨hu, _, hr⟩ := h.udecOf
  refine ⟨_, ?_, Dec.val_mk neg (udecOf t)⟩
  rw (occs := [1]) [← hr]
  exact parseDec_render hu neg

theorem parseUDec_spelling {t : List Char} (h : IsSpelling t) :
    ∃ m sc, parseUDec t = some (m, sc) ∧ (m : ℚ) / (10 : ℚ) ^ sc = textValue t := by
  obtain ⟨hu, _, hr⟩ := h.udecOf
  refine ⟨_, _, ?_, rfl⟩
  rw (occs := [1]) [← hr]
  exact parseUDec_render hu

/-- trimming a spelling leaves a spelling … -/
theorem IsSpelling.trim {t : List Char} (h : IsSpelling t) : IsSpelling (trimFraction t) := by
  obtain ⟨u, hu, hip, rfl⟩ := h
  exact ⟨trimU u, trimU_wf hu hip, by rw [trimU_ip]; exact hip, trimFraction_render hu⟩

/-- … of the same value -/
theorem textValue_trim {t : List Char} (h : IsSpelling t) : textValue (trimFraction t) = textValue t := by
  obtain ⟨u, hu, hip, rfl⟩ := h
  unfold textValue
  rw [trimFraction_render hu, udecOf_render (trimU_wf hu hip), udecOf_render hu, trimU_value]

theorem IsSpelling.numText {t : List Char} (h : IsSpelling t) (prec : Bool) :
    IsSpelling (numText prec t) := by
  unfold C17.numText; split
  · exact h.trim
  · exact h

theorem textValue_numText {t : List Char} (h : IsSpelling t) (prec : Bool) :
    textValue (numText prec t) = textValue t := by
  unfold C17.numText; split
  · exact textValue_trim h
  · rfl

theorem textValue_nonneg (t : List Char) : 0 ≤ textValue t := by
  unfold textValue UDec.value
  exact div_nonneg (Nat.cast_nonneg _) (pow_nonneg (by norm_num) _)

/-! ### trimming behind a prefix (`format!("^{:.p}", e)` then `trim_fraction`) -/

theorem trimEnd_prefix {c : Char} {s : List Char} (h : trimEnd c s ≠ []) (pre : List Char) :
    trimEnd c (pre ++ s) = pre ++ trimEnd c s := by
  obtain ⟨k, hk⟩ := trimEnd_append_self c s
  rcases trimEnd_last c s with h0 | ⟨s', d, hs', hd⟩
  · exact absurd h0 h
  · have e : pre ++ s = (pre ++ s' ++ [d]) ++ List.replicate k c := by
      rw (occs := [1]) [hk]
      rw [hs']; simp
    rw [e, trimEnd_append_replicate, trimEnd_snoc_ne hd, hs']
    simp

/-- a prefix without a point (`^`, `^-`) does not disturb the trimming of a spelling -/
theorem trimFraction_prefix {pre b : List Char} (hpre : '.' ∉ pre) (hb : IsSpelling b) :
    trimFraction (pre ++ b) = pre ++ trimFraction b := by
  obtain ⟨u, hu, hip, rfl⟩ := hb
  have hne : trimFraction u.render ≠ [] := by
    rw [trimFraction_render hu]
    exact UDec.render_ne_nil (trimU_wf hu hip)
  have hc : (pre ++ u.render).contains '.' = u.render.contains '.' := by
    have : ('.' ∈ pre ++ u.render) ↔ ('.' ∈ u.render) := by simp [hpre]
    cases h1 : (pre ++ u.render).contains '.' <;> cases h2 : u.render.contains '.' <;>
      simp_all [List.contains_eq_mem]
  unfold trimFraction at hne ⊢
  rw [hc]
  by_cases hd : u.render.contains '.' = true
  · rw [if_pos hd] at hne ⊢
    have h0 : trimEnd '0' u.render ≠ [] := by
      intro h0; rw [h0] at hne; exact hne rfl
    rw [trimEnd_prefix h0, trimEnd_prefix hne, if_pos hd]
  · rw [if_neg hd, if_neg hd]

end SV.C17
