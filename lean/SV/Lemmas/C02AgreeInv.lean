import SV.Lemmas.C02Agree
/-!
Converse direction for `SV.Props.C02Agree`: *every* text that both parser models accept belongs to
the common language of `SV.Lemmas.C02Agree`, so the agreement theorem needs no grammar hypothesis.

* `parse_ok_chars`   every non-white-space character of a text accepted by the multivariate model is
                     an ASCII digit, an ASCII letter or one of `. / - ^ +` (whatever the character
                     classes are: non-ASCII numerics pass the coefficient scan but not `f64::from_str`)
* `common_of_both_ok` a text accepted by both models is (a spacing of) a univariate rendering whose
                     variable letter is an ASCII letter
-/
namespace SV.C02Agree
open SV SV.Text SV.Poly

/-! ### the scans lose nothing -/

theorem scanCoeff_eq (cc : CharClass) (b : Bool) (q : List Char) :
    (C02.scanCoeff cc b q).1 ++ (C02.scanCoeff cc b q).2 = q := by
  induction q generalizing b with
  | nil => rfl
  | cons c cs ih =>
    unfold C02.scanCoeff
    split
    · simp only [List.cons_append, ih false]
    · rfl

theorem scanExp_eq (q : List Char) : (C02.scanExp q).1 ++ (C02.scanExp q).2 = q := by
  induction q with
  | nil => rfl
  | cons c cs ih =>
    unfold C02.scanExp
    split
    · simp only [List.cons_append, ih]
    · rfl

theorem scanExp_chars (q : List Char) :
    ∀ c ∈ (C02.scanExp q).1, isAsciiDigit c = true ∨ c = '.' ∨ c = '/' ∨ c = '-' := by
  induction q with
  | nil => intro c hc; simp [C02.scanExp] at hc
  | cons d ds ih =>
    intro c hc
    unfold C02.scanExp at hc
    split at hc
    · rename_i hd
      rcases List.mem_cons.1 hc with rfl | hc
      · exact hd
      · exact ih c hc
    · simp at hc

theorem scanExp_length (q : List Char) : (C02.scanExp q).2.length ≤ q.length := by
  have h := congrArg List.length (scanExp_eq q)
  rw [List.length_append] at h
  omega

/-! ### characters of accepted numbers -/

theorem parseUDec_chars {s : List Char} {r : Nat × Nat} (h : parseUDec s = some r) :
    ∀ c ∈ s, isAsciiDigit c = true ∨ c = '.' := by
  obtain ⟨u, hu, rfl, _, _⟩ := parseUDec_some (m := r.1) (sc := r.2) h
  intro c hc
  exact UDec.mem_render hu hc

theorem parseSignedDec_chars {s : List Char} {d : Dec} (h : parseSignedDec s = some d) :
    ∀ c ∈ s, isAsciiDigit c = true ∨ c = '.' ∨ c = '-' := by
  unfold parseSignedDec at h
  split at h
  rename_i neg body heq
  cases hu : parseUDec body with
  | none => rw [hu] at h; simp at h
  | some r =>
    have hb := parseUDec_chars hu
    intro c hc
    split at heq
    · rename_i rest
      simp only [Prod.mk.injEq] at heq
      obtain ⟨_, rfl⟩ := heq
      rcases List.mem_cons.1 hc with rfl | hc
      · exact Or.inr (Or.inr rfl)
      · rcases hb c hc with h' | h'
        · exact Or.inl h'
        · exact Or.inr (Or.inl h')
    · simp only [Prod.mk.injEq] at heq
      obtain ⟨_, rfl⟩ := heq
      rcases hb c hc with h' | h'
      · exact Or.inl h'
      · exact Or.inr (Or.inl h')

theorem parseFraction_chars {s : List Char} {n : Num} (h : C02.parseFraction s = some n) :
    ∀ c ∈ s, isAsciiDigit c = true ∨ c = '.' ∨ c = '-' ∨ c = '/' := by
  have hj := joinSep_splitOn '/' s
  unfold C02.parseFraction at h
  split at h
  · rename_i a b heq
    rw [heq] at hj
    simp only [joinSep, List.flatMap_cons, List.flatMap_nil, List.append_nil] at hj
    cases ha : parseSignedDec a with
    | none => rw [ha] at h; simp at h
    | some x =>
      cases hb : parseSignedDec b with
      | none => rw [ha, hb] at h; simp at h
      | some y =>
        intro c hc
        rw [← hj] at hc
        rcases List.mem_append.1 hc with hc | hc
        · rcases parseSignedDec_chars ha c hc with h' | h' | h'
          · exact Or.inl h'
          · exact Or.inr (Or.inl h')
          · exact Or.inr (Or.inr (Or.inl h'))
        · rcases List.mem_cons.1 hc with rfl | hc
          · exact Or.inr (Or.inr (Or.inr rfl))
          · rcases parseSignedDec_chars hb c hc with h' | h' | h'
            · exact Or.inl h'
            · exact Or.inr (Or.inl h')
            · exact Or.inr (Or.inr (Or.inl h'))
  · simp at h

theorem coeffValue_chars {s : List Char} {n : Num} (h : C02.coeffValue s = .ok n) :
    ∀ c ∈ s, C02.BodyChar c := by
  unfold C02.coeffValue at h
  intro c hc
  split at h
  · rename_i h0; rw [h0] at hc; simp at hc
  · split at h
    · rename_i h1
      rw [h1] at hc
      have : c = '-' := by simpa using hc
      exact Or.inr (Or.inr (Or.inr (Or.inr (Or.inl this))))
    · split at h
      · cases hf : C02.parseFraction s with
        | none => rw [hf] at h; simp at h
        | some v =>
          rcases parseFraction_chars hf c hc with h' | h' | h' | h'
          · exact Or.inl h'
          · exact Or.inr (Or.inr (Or.inl h'))
          · exact Or.inr (Or.inr (Or.inr (Or.inr (Or.inl h'))))
          · exact Or.inr (Or.inr (Or.inr (Or.inl h')))
      · cases hd : parseSignedDec s with
        | none => rw [hd] at h; simp at h
        | some d =>
          rcases parseSignedDec_chars hd c hc with h' | h' | h'
          · exact Or.inl h'
          · exact Or.inr (Or.inr (Or.inl h'))
          · exact Or.inr (Or.inr (Or.inr (Or.inr (Or.inl h'))))

/-! ### characters of an accepted part -/

theorem scanVars_chars (fuel : Nat) (s : List Char) (vars out : List (String × Num))
    (hf : s.length < fuel) (h : C02.scanVars fuel s vars = .ok out) : ∀ c ∈ s, C02.BodyChar c := by
  induction fuel generalizing s vars with
  | zero => omega
  | succ fuel ih =>
    cases s with
    | nil => intro c hc; simp at hc
    | cons d ds =>
      unfold C02.scanVars at h
      by_cases hd : isAsciiLetter d = true
      · rw [if_pos hd] at h
        have hdB : C02.BodyChar d := Or.inr (Or.inl hd)
        simp only [List.length_cons] at hf
        split at h
        · rename_i rest
          have heq := scanExp_eq rest
          have hch := scanExp_chars rest
          have hlen := scanExp_length rest
          cases hs : C02.scanExp rest with
          | mk pow rest' =>
            rw [hs] at h heq hch hlen
            simp only at h heq hch hlen
            cases he : C02.expValue pow with
            | error e => rw [he] at h; cases h
            | ok p =>
              rw [he] at h
              simp only [List.length_cons] at hf
              have hrest := ih rest' _ (by omega) h
              intro c hc
              rcases List.mem_cons.1 hc with rfl | hc
              · exact hdB
              · rcases List.mem_cons.1 hc with rfl | hc
                · exact Or.inr (Or.inr (Or.inr (Or.inr (Or.inr rfl))))
                · rw [← heq] at hc
                  rcases List.mem_append.1 hc with hc | hc
                  · rcases hch c hc with h' | h' | h' | h'
                    · exact Or.inl h'
                    · exact Or.inr (Or.inr (Or.inl h'))
                    · exact Or.inr (Or.inr (Or.inr (Or.inl h')))
                    · exact Or.inr (Or.inr (Or.inr (Or.inr (Or.inl h'))))
                  · exact hrest c hc
        · have hrest := ih ds _ (by omega) h
          intro c hc
          rcases List.mem_cons.1 hc with rfl | hc
          · exact hdB
          · exact hrest c hc
      · rw [if_neg hd] at h; cases h

theorem parsePart_chars (cc : CharClass) (part : List Char) (t : C02.ITerm)
    (h : C02.parsePart cc part = .ok t) : ∀ c ∈ part, C02.BodyChar c := by
  unfold C02.parsePart at h
  have heq := scanCoeff_eq cc true part
  cases hs : C02.scanCoeff cc true part with
  | mk coeff rest =>
    rw [hs] at h heq
    simp only at h heq
    cases hc : C02.coeffValue coeff with
    | error e => rw [hc] at h; cases h
    | ok cv =>
      rw [hc] at h
      simp only at h
      cases hv : C02.scanVars (rest.length + 1) rest [] with
      | error e => rw [hv] at h; cases h
      | ok vars =>
        intro c hcm
        rw [← heq] at hcm
        rcases List.mem_append.1 hcm with hcm | hcm
        · exact coeffValue_chars hc c hcm
        · exact scanVars_chars _ _ _ _ (Nat.lt_succ_self _) hv c hcm

theorem parseParts_chars (cc : CharClass) (ps : List (List Char)) (ts : List C02.ITerm)
    (h : C02.parseParts cc ps = .ok ts) : ∀ q ∈ ps, ∀ c ∈ q, C02.BodyChar c := by
  induction ps generalizing ts with
  | nil => intro q hq; cases hq
  | cons p ps ih =>
    unfold C02.parseParts at h
    cases hp : C02.parsePart cc p with
    | error e => rw [hp] at h; cases h
    | ok t =>
      rw [hp] at h
      simp only at h
      cases hps : C02.parseParts cc ps with
      | error e => rw [hps] at h; cases h
      | ok ts' =>
        intro q hq
        rcases List.mem_cons.1 hq with rfl | hq
        · exact parsePart_chars cc _ t hp
        · exact ih ts' hps q hq

/-! ### characters of an accepted text -/

theorem mem_protectDash {c : Char} {w : List Char} (p : Option Char) (h : c ∈ w) :
    c ∈ C02.protectDash p w := by
  induction w generalizing p with
  | nil => cases h
  | cons d ds ih =>
    unfold C02.protectDash
    split
    · rename_i hd
      rcases List.mem_cons.1 h with rfl | h
      · rw [hd.1]; simp
      · exact List.mem_cons_of_mem _ (List.mem_cons_of_mem _ (ih _ h))
    · rcases List.mem_cons.1 h with rfl | h
      · simp
      · exact List.mem_cons_of_mem _ (ih _ h)

theorem mem_joinSep {sep c : Char} {ps : List (List Char)} (h : c ∈ joinSep sep ps) :
    c = sep ∨ ∃ q ∈ ps, c ∈ q := by
  cases ps with
  | nil => simp [joinSep] at h
  | cons q qs =>
    simp only [joinSep, List.mem_append, List.mem_flatMap, List.mem_cons] at h
    rcases h with h | ⟨r, hr, h | h⟩
    · exact Or.inr ⟨q, by simp, h⟩
    · exact Or.inl h
    · exact Or.inr ⟨r, by simp [hr], h⟩

theorem mem_parts_of_mem_splitOn {norm q : List Char} (hq : q ∈ splitOn '+' norm) (hne : q ≠ []) :
    q ∈ C02.parts norm := by
  unfold C02.parts
  split
  · rename_i rest heq
    rw [heq] at hq
    rcases List.mem_cons.1 hq with rfl | hq
    · exact absurd rfl hne
    · exact hq
  · exact hq

/-- Every non-white-space character of a text the multivariate model accepts is an ASCII digit, an
ASCII letter, or one of `. / - ^ +` — for arbitrary character classes. -/
theorem parse_ok_chars (cc : CharClass) (s : List Char) (p : C02.IParsed)
    (h : C02.parse cc s = .ok p) : ∀ c ∈ stripWs cc s, C02.BodyChar c ∨ c = '+' := by
  obtain ⟨hts, _⟩ := C02.parse_ok_iff cc s p h
  have hparts := parseParts_chars cc _ _ hts
  intro c hc
  have hn : c ∈ C02.normalize cc s := mem_protectDash none hc
  rw [← joinSep_splitOn '+' (C02.normalize cc s)] at hn
  rcases mem_joinSep hn with rfl | ⟨q, hq, hcq⟩
  · exact Or.inr rfl
  · left
    have hne : q ≠ [] := by intro e; rw [e] at hcq; cases hcq
    exact hparts q (mem_parts_of_mem_splitOn hq hne) c hcq

/-! ### a text accepted by both models is in the common language -/

/-- the rendering of constant terms does not mention the variable letter -/
theorem render_const_indep {ts : List C01.TermSyn} (h : ∀ t ∈ ts, t.body = .const) (v w : Char)
    (lead : Bool) : C01.render v lead ts = C01.render w lead ts := by
  have hAbs : ∀ t ∈ ts, t.renderAbs v = t.renderAbs w := by
    intro t ht
    unfold C01.TermSyn.renderAbs
    rw [h t ht]
    rfl
  cases ts with
  | nil => rfl
  | cons t ts =>
    simp only [C01.render]
    rw [hAbs t (by simp)]
    congr 1
    apply List.flatMap_congr
    intro u hu
    rw [hAbs u (by simp [hu])]

/-- **A text accepted by both parser models is a text of the common language**: its
non-white-space characters are the univariate rendering of a well-formed term list whose variable is
an ASCII letter (alphabetic for `cc` if it is written at all).  `hslash` (`/` is not alphabetic) is
the one fact about `is_alphabetic` that neither `Sane` structure lists. -/
theorem common_of_both_ok {cc : CharClass} (h1 : cc.Sane) (hslash : cc.isAlpha '/' = false)
    {cap : Nat} {s : List Char} {p1 : C01.SParsed} {p2 : C02.IParsed}
    (hp1 : C01.parse cc cap s = .ok p1) (hp2 : C02.parse cc s = .ok p2) :
    ∃ (v : Char) (lead : Bool) (ts : List C01.TermSyn), isAsciiLetter v = true ∧
      (C01.writesVar ts = true → cc.isAlpha v = true) ∧ C01.WellFormed cap ts ∧
      stripWs cc s = C01.render v lead ts := by
  obtain ⟨v, lead, ts, hvok, hva, hwf, hs⟩ := C01.parse_ok_inv h1 hp1
  cases hw : C01.writesVar ts with
  | false =>
    refine ⟨'x', lead, ts, by decide, by simp [hw], hwf, ?_⟩
    rw [hs]
    exact render_const_indep (C01.not_writesVar hw) v 'x' lead
  | true =>
    refine ⟨v, lead, ts, ?_, hva, hwf, hs⟩
    have hmem : v ∈ stripWs cc s := by rw [hs]; exact C01.var_mem_render hw
    have halpha := hva hw
    rcases parse_ok_chars cc s p2 hp2 v hmem with hb | hb
    · rcases hb with hb | hb | hb | hb | hb | hb
      · rw [hvok.1] at hb; cases hb
      · exact hb
      · exact absurd hb hvok.2.1
      · subst hb; rw [hslash] at halpha; cases halpha
      · exact absurd hb hvok.2.2.2.1
      · exact absurd hb hvok.2.2.2.2
    · exact absurd hb hvok.2.2.1

end SV.C02Agree
