//! Requests of lean/SV/Model/PolyOps.lean executed on the real polynomial types.
#![allow(dead_code)]
use crate::polyio::*;
use crate::util::*;
use spindalis_core::polynomials::structs::PolynomialTraits;
use spindalis_core::polynomials::PolynomialError;

fn show_poly_res(r: Result<AnyPoly, PolynomialError>) -> String {
    match r {
        Ok(p) => format!("ok {}", show_any(&p)),
        Err(e) => format!("err {}", err_kind(&e)),
    }
}

pub fn deriv_uni(p: &AnyPoly) -> Result<AnyPoly, PolynomialError> {
    match p {
        AnyPoly::S(q) => q.derivate_univariate().map(AnyPoly::S),
        AnyPoly::I(q) => q.derivate_univariate().map(AnyPoly::I),
    }
}
pub fn integ_uni(p: &AnyPoly) -> Result<AnyPoly, PolynomialError> {
    match p {
        AnyPoly::S(q) => q.indefinite_integral_univariate().map(AnyPoly::S),
        AnyPoly::I(q) => q.indefinite_integral_univariate().map(AnyPoly::I),
    }
}
pub fn deriv_multi(p: &AnyPoly, v: &str) -> AnyPoly {
    match p {
        AnyPoly::S(q) => AnyPoly::S(q.derivate_multivariate(v)),
        AnyPoly::I(q) => AnyPoly::I(q.derivate_multivariate(v)),
    }
}
pub fn integ_multi(p: &AnyPoly, v: &str) -> AnyPoly {
    match p {
        AnyPoly::S(q) => AnyPoly::S(q.indefinite_integral_multivariate(v)),
        AnyPoly::I(q) => AnyPoly::I(q.indefinite_integral_multivariate(v)),
    }
}
pub fn eval_uni(p: &AnyPoly, x: f64) -> Result<f64, PolynomialError> {
    with_poly!(p, q => q.eval_univariate(x))
}
pub fn eval_multi(p: &AnyPoly, binds: &Vec<(String, f64)>) -> Result<f64, PolynomialError> {
    with_poly!(p, q => q.eval_multivariate(binds))
}

/// the implementation's answer to one PolyOps request (panics propagate to the caller's `catch`)
pub fn answer(line: &str) -> String {
    let mut t = Toks::new(line);
    let cmd = t.tok();
    match cmd {
        "eval" => {
            let p = read_any(&mut t);
            let x = t.f64();
            show_eval(&eval_uni(&p, x))
        }
        "evalm" => {
            let p = read_any(&mut t);
            let n = t.usize();
            let binds: Vec<(String, f64)> = (0..n).map(|_| (t.string(), t.f64())).collect();
            show_eval(&eval_multi(&p, &binds))
        }
        "deriv" => show_poly_res(deriv_uni(&read_any(&mut t))),
        "integ" => show_poly_res(integ_uni(&read_any(&mut t))),
        "pderiv" => {
            let p = read_any(&mut t);
            let v = t.string();
            show_any(&deriv_multi(&p, &v))
        }
        "pinteg" => {
            let p = read_any(&mut t);
            let v = t.string();
            show_any(&integ_multi(&p, &v))
        }
        "chain" => {
            let mut p = read_any(&mut t);
            let k = t.usize();
            let mut out: Vec<String> = Vec::new();
            for _ in 0..k {
                let r = match t.tok() {
                    "d" => deriv_uni(&p),
                    "i" => integ_uni(&p),
                    "D" => Ok(deriv_multi(&p, &t.string())),
                    "J" => Ok(integ_multi(&p, &t.string())),
                    s => panic!("step {s}"),
                };
                match r {
                    Ok(q) => {
                        out.push(format!("ok {}", show_any(&q)));
                        p = q;
                    }
                    Err(e) => {
                        out.push(format!("err {}", err_kind(&e)));
                        return out.join(" | ");
                    }
                }
            }
            let x = t.f64();
            out.push(show_eval(&eval_uni(&p, x)));
            out.join(" | ")
        }
        other => panic!("unknown polynomial request {other}"),
    }
}

pub fn run(line: &str) -> Obs {
    match catch(|| answer(line)) {
        Some(s) => Obs::plain(s),
        None => Obs::plain("panic".into()),
    }
}

// ---------------------------------------------------------------- generators (validation of the shared model)

pub fn rand_coeffs(rng: &mut Rng, maxdeg: usize) -> Vec<f64> {
    let n = rng.below(maxdeg as u64 + 2) as usize;
    (0..n)
        .map(|_| match rng.below(6) {
            0 => 0.0,
            1 => rng.range(-9, 9) as f64,
            2 => rng.dyadic(64, 5),
            _ => (rng.uniform(-10.0, 10.0) * 1000.0).round() / 1000.0,
        })
        .collect()
}

pub fn rand_exponent(rng: &mut Rng) -> f64 {
    match rng.below(8) {
        0 => 0.0,
        1 => -(rng.range(1, 3) as f64),
        2 => 0.5,
        3 => rng.range(1, 6) as f64 / rng.range(2, 4) as f64,
        4 => -0.5,
        _ => rng.range(1, 6) as f64,
    }
}

pub fn rand_inter(rng: &mut Rng, names: &[&str], maxterms: usize) -> spindalis_core::polynomials::structs::IntermediatePolynomial {
    use spindalis_core::polynomials::Term;
    let nt = rng.below(maxterms as u64 + 1) as usize;
    let mut terms = Vec::new();
    for _ in 0..nt {
        let mut vars: Vec<(String, f64)> = Vec::new();
        for n in names {
            if rng.chance(1, 2) {
                vars.push((n.to_string(), rand_exponent(rng)));
            }
        }
        vars.sort_by(|a, b| a.0.cmp(&b.0));
        let c = match rng.below(4) {
            0 => rng.range(-5, 5) as f64,
            1 => rng.dyadic(32, 4),
            _ => (rng.uniform(-10.0, 10.0) * 100.0).round() / 100.0,
        };
        terms.push(Term { coefficient: c, variables: vars });
    }
    let mut variables: Vec<String> = terms.iter().flat_map(|t| t.variables.iter().map(|v| v.0.clone())).collect();
    variables.sort();
    variables.dedup();
    spindalis_core::polynomials::structs::IntermediatePolynomial { terms, variables }
}

pub fn generate(seed: u64, thorough: bool, emit: &mut dyn FnMut(String)) {
    let mut rng = Rng::new(seed ^ 0x9017);
    let n = if thorough { 20000 } else { 2000 };
    for i in 0..n {
        let simple = i % 2 == 0;
        let names: &[&str] = match rng.below(4) {
            0 => &[],
            1 => &["x"],
            2 => &["x", "y"],
            _ => &["a", "x", "z"],
        };
        let p = if simple {
            AnyPoly::S(spindalis_core::polynomials::structs::SimplePolynomial {
                coefficients: rand_coeffs(&mut rng, 7),
                variable: if rng.chance(1, 6) { None } else { Some('x') },
            })
        } else {
            AnyPoly::I(rand_inter(&mut rng, names, 5))
        };
        let x = if rng.chance(1, 8) { 0.0 } else { rng.uniform(0.1, 4.0) };
        let ps = req_any(&p);
        match rng.below(7) {
            0 => emit(format!("eval {ps} {}", rbits(x))),
            1 => {
                let nb = rng.below(4) as usize;
                let mut s = format!("evalm {ps} {nb}");
                for _ in 0..nb {
                    let v = *rng.pick(&["x", "y", "a", "z", "x"]);
                    s.push_str(&format!(" {} {}", req_string(v), rbits(rng.uniform(0.1, 3.0))));
                }
                emit(s)
            }
            2 => emit(format!("deriv {ps}")),
            3 => emit(format!("integ {ps}")),
            4 => emit(format!("pderiv {ps} {}", req_string(*rng.pick(&["x", "y", "q", "xy", ""])))),
            5 => emit(format!("pinteg {ps} {}", req_string(*rng.pick(&["x", "y", "q", "xy"])))),
            _ => {
                let k = rng.below(4) as usize;
                let mut s = format!("chain {ps} {k}");
                for _ in 0..k {
                    match rng.below(4) {
                        0 => s.push_str(" d"),
                        1 => s.push_str(" i"),
                        2 => s.push_str(&format!(" D {}", req_string(*rng.pick(&["x", "y", "z"])))),
                        _ => s.push_str(&format!(" J {}", req_string(*rng.pick(&["x", "y", "w"])))),
                    }
                }
                s.push_str(&format!(" {}", rbits(x)));
                emit(s)
            }
        }
    }
}
