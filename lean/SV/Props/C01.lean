import SV.Model.C01
import SV.Lemmas.Poly
import SV.Lemmas.C01
import Mathlib.Algebra.BigOperators.Intervals
/-!
# C01 — univariate parser: every well-formed polynomial string means what it says

Property theorems only.  Evaluation half (this file, any field): the square-and-multiply loop of
`f64::powi` is the power function, and `eval_simple_polynomial` of a coefficient vector is
`Σ c_k x^k`.  The parser half (`parse_render`, `parse_means`) follows in the second section; the
grammar (`TermSyn`, `render`, `WellFormed`) is defined in `SV.Lemmas.C01`.
-/
namespace SV.Props.C01
open SV SV.Poly Finset

variable {K : Type} [Field K]

/-- `f64::powi` (the compiler-rt loop) computes the integer power, for every exponent. -/
theorem powi_eq_pow (x : K) (n : Int) : powi x n = x ^ n := powi_eq_zpow x n

private theorem evalFrom_sum (x : K) (k : ℕ) (cs : List K) (acc : K) :
    evalSimpleFrom x k cs acc = acc + ∑ i ∈ range cs.length, cs.getD i 0 * x ^ (k + i) := by
  induction cs generalizing k acc with
  | nil => simp [evalSimpleFrom]
  | cons c cs ih =>
    simp only [evalSimpleFrom, ih, powi_nat, List.length_cons, Finset.sum_range_succ']
    simp only [List.getD_cons_succ, List.getD_cons_zero, Nat.add_zero]
    have : ∀ i, k + 1 + i = k + (i + 1) := by intro i; omega
    simp only [this]
    ring

/-- Evaluation of a coefficient vector is `Σ_k c_k x^k` (position `k` is the coefficient of `x^k`). -/
theorem eval_eq_sum (cs : List K) (x : K) :
    evalSimple cs x = ∑ k ∈ range cs.length, cs.getD k 0 * x ^ k := by
  simp [evalSimple, evalFrom_sum]

/-- … and it is Mathlib's polynomial evaluation of the polynomial with those coefficients. -/
theorem eval_eq_polynomial_eval (cs : List K) (x : K) :
    evalSimple cs x = (ofCoeffs cs).eval x := evalSimple_eq cs x

end SV.Props.C01

/-! ## Parser half: every string of the documented language is accepted and means what it says

The language is given by its abstract syntax (`SV.C01.TermSyn`: sign, optional plain-decimal
coefficient `UDec`, body `const | var | varPow digits`) and `SV.C01.render v leadPlus ts`, the text
without white space.  A string `s` belongs to the language iff `stripWs cc s = render v lead ts` for
some well-formed `ts` — so *any spacing* (every way of inserting white-space characters anywhere) is
covered by the hypothesis itself.  The statements are for every character classification `cc` with
the disjointness facts `CharClass.Sane` (proved for the driver's `stdClass`), every alphabetic
variable letter and every exponent cap. -/
namespace SV.Props.C01
open SV SV.Poly SV.Text SV.C01

/-- The character classification the driver runs with has the disjointness facts the theorems assume. -/
theorem std_class_sane : stdClass.Sane := stdClass_sane

/-- A rendering is one of the texts the theorems speak about (it contains no white space). -/
theorem render_is_normal_form {cc : CharClass} (hcc : cc.Sane) {cap : Nat} {v : Char}
    (hv : cc.isAlpha v = true) (lead : Bool) {ts : List TermSyn} (hwf : WellFormed cap ts) :
    stripWs cc (render v lead ts) = render v lead ts := stripWs_render hcc hv lead hwf

/-- `maxPow` is the largest power written. -/
theorem maxPow_spec (ts : List TermSyn) :
    (∀ t ∈ ts, t.pow ≤ maxPow ts) ∧ (ts ≠ [] → ∃ t ∈ ts, t.pow = maxPow ts) :=
  ⟨fun _ ht => pow_le_maxPow ht, maxPow_attained⟩

/-- The number a decimal spelling denotes is integer part + fraction part / 10^(fraction digits):
`3`, `3.`, `.5`, `007`, `12.50` all have their usual value. -/
theorem spelling_value (u : UDec) :
    u.value = (digitsVal u.ip : ℚ) + (digitsVal u.fp : ℚ) / (10 : ℚ) ^ u.fp.length := u.value_eq

/-- The dense accumulation `coeffs[power] += coeff` from `vec![0.0; max_power + 1]`, for any list of
`(coefficient, power)` pairs: the vector has `max power + 1` entries and position `k` holds the sum of
the coefficients of the pairs of power `k` (0 where there is none, also beyond the end). -/
theorem dense_spec (terms : List (Num × Nat)) :
    (dense terms).length = terms.foldl (fun m t => max m t.2) 0 + 1 ∧
      ∀ k, ((dense terms).getD k Num.zero).val =
        ((terms.filter fun t => decide (t.2 = k)).map fun t => t.1.val).sum :=
  ⟨dense_length terms, dense_val terms⟩

/-- **Every string of the grammar is accepted, and the coefficient vector is what the string says.**
For every well-formed term list `ts` (any number and order of terms, repeated powers, optional leading
sign, implicit coefficients, every plain decimal spelling, exponents with leading zeros up to the cap),
every alphabetic letter `v` and every text `s` whose white-space-free form is the rendering of `ts`:
the parser accepts; the variable is `v` iff some term writes it; the vector has `max power + 1`
entries; and position `k` holds the sum of the signed coefficients of the terms of power `k`
(like powers summed, missing powers zero — also beyond the end).  Holds for `ts = []` too: the empty
text is read as the zero polynomial `[0]`. -/
theorem parse_render {cc : CharClass} (hcc : cc.Sane) (cap : Nat) {v : Char}
    (hv : cc.isAlpha v = true) (lead : Bool) {ts : List TermSyn} (hwf : WellFormed cap ts)
    {s : List Char} (hs : stripWs cc s = render v lead ts) :
    ∃ p, parse cc cap s = .ok p ∧
      p.var = (if writesVar ts then some v else none) ∧
      p.coeffs.length = maxPow ts + 1 ∧
      ∀ k, (p.coeffs.getD k Num.zero).val =
        ((ts.filter fun t => decide (t.pow = k)).map TermSyn.value).sum :=
  parse_render_spec hcc (VarOK.of_alpha hcc hv) hwf (fun _ => hv) hs

/-- **… and evaluates to the mathematical value of the string at every point**: with `eval_eq_sum`
(at `K = ℚ`), evaluating the parsed coefficients at `x` gives `Σ_t value(t)·x^(pow t)` over the terms
as written.  Order independence, repeated powers, missing powers, spacing, the variable letter and
every decimal spelling (`3`, `3.`, `.5`, `007`, exponent `007`) are special cases of this one
statement: the right-hand side does not depend on any of them. -/
theorem parse_means {cc : CharClass} (hcc : cc.Sane) (cap : Nat) {v : Char}
    (hv : cc.isAlpha v = true) (lead : Bool) {ts : List TermSyn} (hwf : WellFormed cap ts)
    {s : List Char} (hs : stripWs cc s = render v lead ts) :
    ∃ p, parse cc cap s = .ok p ∧
      ∀ x : ℚ, evalSimple (p.coeffs.map Num.val) x = (ts.map fun t => t.value * x ^ t.pow).sum := by
  obtain ⟨p, hp, _, hlen, hval⟩ := parse_render hcc cap hv lead hwf hs
  refine ⟨p, hp, fun x => ?_⟩
  rw [eval_eq_sum]
  exact coeffs_sum hlen hval x

/-- Order independence, spelled out: two term lists that are permutations of each other (in any
spacing, with either leading-sign convention) parse to polynomials with the same values. -/
theorem parse_perm {cc : CharClass} (hcc : cc.Sane) (cap : Nat) {v : Char}
    (hv : cc.isAlpha v = true) (lead lead' : Bool) {ts ts' : List TermSyn} (hwf : WellFormed cap ts)
    (hperm : ts.Perm ts') {s s' : List Char} (hs : stripWs cc s = render v lead ts)
    (hs' : stripWs cc s' = render v lead' ts') :
    ∃ p p', parse cc cap s = .ok p ∧ parse cc cap s' = .ok p' ∧
      ∀ x : ℚ, evalSimple (p.coeffs.map Num.val) x = evalSimple (p'.coeffs.map Num.val) x := by
  have hwf' : WellFormed cap ts' := fun t ht => hwf t (hperm.mem_iff.2 ht)
  obtain ⟨p, hp, hx⟩ := parse_means hcc cap hv lead hwf hs
  obtain ⟨p', hp', hx'⟩ := parse_means hcc cap hv lead' hwf' hs'
  refine ⟨p, p', hp, hp', fun x => ?_⟩
  rw [hx, hx']
  exact (hperm.map _).sum_eq

/-! ### non-vacuity -/

/-- "-2x^3 - 4x + 1" is read as `1 − 4x − 2x³` (the model evaluated by the kernel) -/
example : ∃ p, parse stdClass 65536 "-2x^3 - 4x + 1".toList = .ok p ∧ p.var = some 'x' ∧
    p.coeffs.map Num.val = [1, -4, 0, -2] := by
  refine ⟨⟨[.add .zero (.dec ⟨false, 1, 0⟩), .add .zero (.dec ⟨true, 4, 0⟩), .zero,
    .add .zero (.dec ⟨true, 2, 0⟩)], some 'x'⟩, rfl, rfl, ?_⟩
  norm_num [Num.val, Dec.val, Num.zero]

/-- " .5 y ^ 007+y" is read as `y + y⁷/2` -/
example : ∃ p, parse stdClass 65536 " .5 y ^ 007+y".toList = .ok p ∧ p.var = some 'y' ∧
    p.coeffs.map Num.val = [0, 1, 0, 0, 0, 0, 0, 1/2] := by
  refine ⟨⟨[.zero, .add .zero .one, .zero, .zero, .zero, .zero, .zero,
    .add .zero (.dec ⟨false, 5, 1⟩)], some 'y'⟩, rfl, rfl, ?_⟩
  norm_num [Num.val, Dec.val, Num.zero, Num.one]

/-- the term list of " .5 y ^ 007+y" -/
def exampleTerms : List TermSyn :=
  [⟨false, some ⟨[], ['5'], true⟩, .varPow ['0', '0', '7']⟩, ⟨false, none, .var⟩]

/-- the hypotheses of `parse_render` are satisfiable: this text is a spacing of a well-formed rendering … -/
example : WellFormed 65536 exampleTerms ∧ stdClass.isAlpha 'y' = true ∧
    stripWs stdClass " .5 y ^ 007+y".toList = render 'y' false exampleTerms :=
  ⟨wellFormed_of_all (by decide), by decide, by decide⟩

/-- … and `parse_means` then gives its value `½·x⁷ + x` at every point -/
example : ∃ p, parse stdClass 65536 " .5 y ^ 007+y".toList = .ok p ∧
    ∀ x : ℚ, evalSimple (p.coeffs.map Num.val) x = 1 / 2 * x ^ 7 + x := by
  obtain ⟨p, hp, hx⟩ := parse_means std_class_sane 65536 (v := 'y') (by decide) false
    (ts := exampleTerms) (wellFormed_of_all (by decide)) (s := " .5 y ^ 007+y".toList) (by decide)
  refine ⟨p, hp, fun x => ?_⟩
  rw [hx]
  have h5 : digitsVal ([] ++ ['5']) = 5 := by decide
  have h7 : digitsVal ['0', '0', '7'] = 7 := by decide
  simp only [exampleTerms, List.map_cons, List.map_nil, List.sum_cons, List.sum_nil, TermSyn.value,
    TermSyn.pow, Body.pow, coefValue, UDec.value, UDec.mant, h5, h7]
  norm_num

end SV.Props.C01
