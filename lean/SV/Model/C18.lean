import SV.Model.Wire
/-!
Model of `spindalis::utils::{arith_mean, geom_mean, std_dev}` (spindalis/src/utils/variation.rs,
`StdDevType` in utils/mod.rs).  Generic in the scalar; `exp`, `ln`, `sqrt` are function parameters.

* `Iterator::sum::<f64>()` folds from `-0.0` (std's `Sum for f64`), left to right: `fsum`.
* `f64::powi(n)` is the compiler-rt square-and-multiply loop (`__powidf2`): `powi`.
* `n as f64` is the `NatCast` of the scalar.
* The result is `Option S`; `none` is the NaN the code returns from its own guards
  (`n == 0`, `denominator == 0`); the driver prints it as a NaN.
-/
namespace SV.C18

/-- `StdDevType` (the first variant is spelled `Poulation` in the source) -/
inductive Kind where
  | population
  | sample
deriving Repr, DecidableEq

variable {S : Type} [Add S] [Sub S] [Mul S] [Div S] [Neg S] [OfNat S 0] [OfNat S 1] [NatCast S]

/-- `xs.iter().sum::<f64>()` : `fold(-0.0, |a, b| a + b)` -/
def fsum (xs : List S) : S := xs.foldl (fun acc x => acc + x) (-0)

/-- the loop of compiler-rt's `__powidf2` for a non-negative exponent `b`
(`r` = `mul`, starts at 1; the fuel is never exhausted when it exceeds `b`) -/
def powiGo : Nat → S → Nat → S → S
  | 0, _, _, r => r
  | fuel + 1, a, b, r =>
    let r' := if b % 2 = 1 then r * a else r
    if b / 2 = 0 then r' else powiGo fuel (a * a) (b / 2) r'

/-- `f64::powi(a, n)` for `n ≥ 0` -/
def powi (a : S) (n : Nat) : S := powiGo (n + 1) a n 1

/-- `samples.iter().sum::<f64>() / n as f64` -/
def meanRaw (xs : List S) : S := fsum xs / (xs.length : S)

/-- `arith_mean` -/
def arithMean (xs : List S) : Option S :=
  if xs.length = 0 then none else some (meanRaw xs)

/-- `geom_mean` (the current source: `exp(mean(ln x))`) -/
def geomMean (exp ln : S → S) (xs : List S) : Option S :=
  if xs.length = 0 then none else some (exp (fsum (xs.map ln) / (xs.length : S)))

/-- the denominator chosen by the kind selector: `n` or `n.saturating_sub(1)` -/
def denom (k : Kind) (n : Nat) : Nat :=
  match k with
  | .population => n
  | .sample => n - 1

/-- `std_dev` -/
def stdDev (sqrt : S → S) (k : Kind) (xs : List S) : Option S :=
  if denom k xs.length = 0 then none
  else
    let mean := meanRaw xs
    let variance := fsum (xs.map fun x => powi (x - mean) 2) / (denom k xs.length : S)
    some (sqrt variance)

end SV.C18

/-! ### driver -/
namespace SV.C18.Driver
open SV SV.Wire SV.C18

local instance : NatCast Float := ⟨Float.ofNat⟩

def nan : Float := 0.0 / 0.0

def fmtO (r : Option Float) : String :=
  match r with
  | some v => fmtF v
  | none => fmtF nan

def kind : P Kind := do
  let t ← tok
  match t with
  | "p" => return .population
  | "s" => return .sample
  | _ => fail

def std (k : Kind) (xs : List Float) : Option Float := stdDev Float.sqrt k xs

def handle (line : String) : String :=
  let p : P String := do
    let cmd ← tok
    match cmd with
    | "mean" => do
      let xs ← vec Wire.float
      return fmtO (arithMean xs)
    | "geom" => do
      let xs ← vec Wire.float
      return fmtO (geomMean Float.exp Float.log xs)
    | "std" => do
      let k ← kind
      let xs ← vec Wire.float
      return fmtO (std k xs)
    -- relations: the transformed sample is formed with the same IEEE operation as in the harness
    | "translate" => do
      let k ← kind
      let c ← Wire.float
      let xs ← vec Wire.float
      return fmtO (std k xs) ++ " " ++ fmtO (std k (xs.map fun x => x + c)) ++ " "
        ++ fmtO (arithMean xs) ++ " " ++ fmtO (arithMean (xs.map fun x => x + c))
    | "scale" => do
      let k ← kind
      let c ← Wire.float
      let xs ← vec Wire.float
      return fmtO (std k xs) ++ " " ++ fmtO (std k (xs.map fun x => c * x)) ++ " "
        ++ fmtO (arithMean xs) ++ " " ++ fmtO (arithMean (xs.map fun x => c * x))
    | "samplepop" => do
      let xs ← vec Wire.float
      return fmtO (std .sample xs) ++ " " ++ fmtO (std .population xs)
    | _ => fail
  match run p line with
  | some s => s
  | none => "bad-request"

end SV.C18.Driver
