"""C15 plug-in: the statement's clauses in exact rational arithmetic on the implementation's answers.

Every float (data, returned coefficient, statistic) is read from its bit pattern as an exact rational;
moments, normal-equation residuals, sums of squares, the exact optimum (rational Gaussian elimination)
and the exact inverse / infinity-norm condition number of the moment matrix are computed exactly.
u = 2^-53, n = number of points, p = number of coefficients.

Slack, with its derivation (correct code can never trip it; a wrong formula misses by O(1)):

* normal equations of the polynomial fit.  The code forms M_jk = sum x^(j+k), r_j = sum y x^j in floating
  point (each term: <= 8 roundings for powi with exponent <= 12, one product, n-1 additions) and solves by
  Gaussian elimination with scaled partial pivoting, which is partial pivoting on the row-equilibrated
  matrix D^-1 M (D = diag of the row maxima s_j): the computed c^ satisfies (M^ + dM) c^ = r^ with
  |dM_jk| <= g_(3p) (|L||U|)_jk = g_(3p) s_j (|L'||U'|)_jk <= g_(3p) * p * 2^(p-1) * s_j (Higham, Thm 9.3/9.4;
  multipliers of the equilibrated matrix are <= 1, growth <= 2^(p-1)).  Hence for the exact residual
  rho_j = r_j - (M c^)_j:   |rho_j| <= u*[ (3p*p*2^(p-1) + (n+10)) * S_j * |c^|_1 + (n+10) * R_j ],
  S_j = max_k sum|x|^(j+k), R_j = sum |y||x|^j.  Allowed: twice that.  No condition number enters: this is
  a backward-error statement and holds for every matrix the solver accepts.
* optimality.  SSE(c^) - SSE(c*) = rho^T M^-1 rho exactly, so the allowed excess over the exact minimum is
  tol^T |M^-1| tol with the tol_j above (this is where the conditioning enters, exactly); coefficients:
  |c^ - c*| <= |M^-1| tol componentwise.  Nestedness: SSE_m(c^_m) <= SSE_(m-1)(c^_(m-1)) + excess_m.
* a refusal (panic) or a NaN/inf coefficient is a failure iff the data are inside the quantifier:
  n >= 3, more distinct abscissae than coefficients, exact cond_inf(M) <= 1e10.
* closed-form line fit.  N = n Sxy - Sx Sy and D = n Sxx - Sx^2 are computed with absolute errors
  dN <= g (n A_xy + A_x A_y), dD <= g (n Sxx + A_x^2), g = 1.01 (n+6) u (A_* = sums of absolute values); then
  |b^ - b*| <= (dN + |b*| dD)/(|D| - dD) + 2u|b*| and |a^ - a*| <= tol_b A_x/n + 2g (A_y/n + (|b*|+tol_b) A_x/n).
  Allowed: twice that; no verdict when |D| <= 4 dD (the data are then singular to working precision).
* gradient descent.  With e = w - w*, one step is e' = (I - alpha H) e, H = [[1, mx],[mx, q]] (SV.Props.C15.
  gd_step_affine), and the energy E(e) = e^T H e obeys E(e') <= tau E(e), tau = 1 - alpha mu (2 - alpha L), whenever
  mu I <= H <= L I (gd_energy_contracts).  L and mu are rationals next to the eigenvalues whose defining
  inequalities (L-1)(L-q) >= mx^2, (1-mu)(q-mu) >= mx^2 are verified exactly.  Allowed:
  sqrt E(e_k) <= tau^(k/2) sqrt E(e_0) + B, B = sqrt(L) * [eps * min(k, 1/(1-sqrt tau)) + g A_y/n], where
  eps = 4 [alpha (n+8) u G + 2 u W] bounds the rounding error of one step (G: the gradient sums with absolute values,
  W: a bound on |w| along the path) — a rounding error d_k enters as |d_k|_H <= sqrt(L)|d_k|_2 and is damped like e.
* statistics recomputed from the returned coefficients c^: with pi_i = 1.01 (p+10) u sum_k |c^_k||x_i|^k + 2u|y_i|
  (error of one predicted value and of the subtraction) and r_i the exact residuals,
  |SSE^ - SSE| <= 1.01 (n+4) u SSE + 2 sum |r_i| pi_i + sum pi_i^2 (doubled), |SST^ - SST| <= 1.01 (n+6) u SST +
  1.1 n dm^2, dm = 1.01 (n+1) u A_y/n (as in C18); r2 and std_err^2 = SSE/(n-2) inherit these through one
  subtraction and one division.  No verdict for r2 when SST <= 4 tol_SST (response constant to working precision).
* predict: |pred - sum c^_k q^k| <= 2 * 1.01 (p+10) u sum |c^_k||q|^k.
* range of validity of all of the above: the standard model fl(a op b) = (a op b)(1 + d), |d| <= u, i.e. no
  underflow or overflow in any intermediate quantity.  With ex, ey the largest |binary exponent| among the non-zero
  abscissae / responses, the intermediate quantities of a fit with p coefficients are (products of) x^k (k <= 2p-2),
  y x^k, y / x^k and y^2, and the smallest tolerance terms are of size (u y)^2: the numeric clauses are judged only when
  (2p-2) ex + ey + 100 <= 1000 and 2 ey + 120 <= 1000 (`safe_range`); beyond that the correspondence alone compares
  (the hardening families reach 10^+-140 in x and 2^+-200 in y; everything up to 10^+-100 in x is judged for the line fit).
  A prediction is judged when every non-zero term |c_k q^k| and q^k lies in [2^-900, 2^900].
"""
import struct, math
from fractions import Fraction

F = Fraction
U = F(1, 2 ** 53)
TINY = F(1, 2 ** 1000)
COND_MAX = F(10) ** 10
SLACK = F(1)  # multiplies every rounding allowance; 1 in production (scratch experiments shrink it to measure the headroom)

RULE = ("data sets of 3..60 points in eight abscissa shapes (integer grid, uniform, clustered [5,6], shifted 1000..1002, "
        "negative, repeated, one-sided grid, dyadic), responses = polynomial of degree 0..3 + noise 0..10, every polynomial "
        "order 0..6 whose moment matrix has cond <= 1e10 and fewer coefficients than distinct abscissae, GD steps "
        "10..1e5 with alpha = theta*2/lambda_max; hardening families: abscissae c + w t with half-widths w = 1e-17..1e-1 "
        "(and 1e-140..1e140) around 0 and 1e-9..1e-1 around 1, -1, 1000, 1e-3 and a few widths from 0, n = 3, 4, 7, 20, responses "
        "at scale 1 and 2^+-20..2^+-200 or with offsets up to 1e12 (all three regressors, line-vs-order-1, nestedness); every "
        "length 3..70 and lengths around 96, 128, 256 (512, 1024 thorough); exact lines / zero slope / zero responses / "
        "signed zeros with 0..3 gradient steps; plus correspondence-only requests outside the quantifier (0..2 points, "
        "mismatched lengths, singular systems); non-trivial = the model returned coefficients; distinct = distinct request lines")


def fl(bits):
    return struct.unpack("<d", struct.pack("<Q", int(bits)))[0]


def read_vec(t, k):
    n = int(t[k])
    return [fl(b) for b in t[k + 1:k + 1 + n]], k + 1 + n


def val(tok):
    if tok == "undef":
        return None
    return fl(tok[1:])


def read_list(o, k):
    n = int(o[k])
    return [val(v) for v in o[k + 1:k + 1 + n]], k + 1 + n


def parse_coefs(o, k):
    """`coef n v…` | `undef` | `panic` at position k -> (kind, coefs, next)"""
    if o[k] in ("undef", "panic", "err"):
        return o[k], None, k + 1
    assert o[k] == "coef"
    c, k = read_list(o, k + 1)
    return "coef", c, k


def parse_fit(o):
    kind, c, k = parse_coefs(o, 0)
    if kind != "coef":
        return {"kind": kind}
    d = {"kind": "coef", "coef": c}
    assert o[k] == "se"; d["se"] = val(o[k + 1]); k += 2
    assert o[k] == "r2"; d["r2"] = val(o[k + 1]); k += 2
    assert o[k] == "int"; d["int"] = o[k + 1] if o[k + 1] == "panic" else val(o[k + 1]); k += 2
    assert o[k] == "slope"; d["slope"] = "none" if o[k + 1] == "none" else val(o[k + 1]); k += 2
    assert o[k] == "slopes"
    if o[k + 1] == "none":
        d["slopes"] = "none"; k += 2
    else:
        d["slopes"], k = read_list(o, k + 1)
    assert o[k] == "pred"
    d["pred"], k = read_list(o, k + 1)
    return d


# ---------------------------------------------------------------------------- exact linear algebra

def solve_exact(M, r):
    """Gaussian elimination over the rationals; None when singular"""
    p = len(M)
    A = [row[:] + [r[i]] for i, row in enumerate(M)]
    for k in range(p):
        piv = next((i for i in range(k, p) if A[i][k] != 0), None)
        if piv is None:
            return None
        A[k], A[piv] = A[piv], A[k]
        d = A[k][k]
        A[k] = [v / d for v in A[k]]
        for i in range(p):
            if i != k and A[i][k] != 0:
                f = A[i][k]
                A[i] = [a - f * b for a, b in zip(A[i], A[k])]
    return [A[i][p] for i in range(p)]


def inverse_exact(M):
    p = len(M)
    A = [row[:] + [F(1 if i == j else 0) for j in range(p)] for i, row in enumerate(M)]
    for k in range(p):
        piv = next((i for i in range(k, p) if A[i][k] != 0), None)
        if piv is None:
            return None
        A[k], A[piv] = A[piv], A[k]
        d = A[k][k]
        A[k] = [v / d for v in A[k]]
        for i in range(p):
            if i != k and A[i][k] != 0:
                f = A[i][k]
                A[i] = [a - f * b for a, b in zip(A[i], A[k])]
    return [row[p:] for row in A]


def norm_inf(M):
    return max(sum(abs(v) for v in row) for row in M)


class Data:
    """exact moments of one data set"""

    def __init__(self, x, y):
        self.x = [F(v) for v in x]
        self.y = [F(v) for v in y]
        self.n = len(x)
        self.distinct = len(set(self.x))
        self._pw = {}
        self.ex = max((abs(math.frexp(v)[1]) for v in x if v != 0.0), default=0)
        self.ey = max((abs(math.frexp(v)[1]) for v in y if v != 0.0), default=0)

    def safe_range(self, p):
        """no intermediate quantity of a fit with p coefficients under- or overflows (see the module docstring)"""
        return (2 * max(p, 2) - 2) * self.ex + self.ey + 100 <= 1000 and 2 * self.ey + 120 <= 1000

    def pw(self, k):
        if k not in self._pw:
            if k == 0:
                self._pw[k] = [F(1)] * self.n
            else:
                prev = self.pw(k - 1)
                self._pw[k] = [a * b for a, b in zip(prev, self.x)]
        return self._pw[k]

    def S(self, k):
        return sum(self.pw(k), F(0))

    def A(self, k):
        return sum((abs(v) for v in self.pw(k)), F(0))

    def R(self, j):
        return sum((a * b for a, b in zip(self.y, self.pw(j))), F(0))

    def RA(self, j):
        return sum((abs(a * b) for a, b in zip(self.y, self.pw(j))), F(0))

    def moment(self, p):
        return [[self.S(i + j) for j in range(p)] for i in range(p)]

    def rhs(self, p):
        return [self.R(j) for j in range(p)]

    def evalp(self, c):
        """exact values of the coefficient polynomial at the abscissae"""
        out = [F(0)] * self.n
        for k, ck in enumerate(c):
            pk = self.pw(k)
            out = [o + ck * v for o, v in zip(out, pk)]
        return out

    def sse(self, c):
        return sum(((yi - pi) ** 2 for yi, pi in zip(self.y, self.evalp(c))), F(0))


def ne_tolerances(D, c):
    """the allowed normal-equation residuals tol_j (see the module docstring)"""
    p = len(c)
    n = D.n
    c1 = sum(abs(v) for v in c)
    K1 = 3 * p * p * 2 ** (p - 1) + (n + 10)
    K2 = n + 10
    tol = []
    for j in range(p):
        Sj = max(D.A(j + k) for k in range(p))
        tol.append(SLACK * 2 * U * (K1 * Sj * c1 + K2 * D.RA(j)) + TINY)
    return tol


def in_quantifier(D, p, Minv, M):
    if D.n < 3 or D.distinct <= p:
        return False
    if Minv is None:
        return False
    return norm_inf(M) * norm_inf(Minv) <= COND_MAX


def check_poly_coefs(D, c, order, what="polynomial fit"):
    """normal equations + optimality of returned coefficients c (floats). returns (failure|None, excess bound, exact sse)"""
    p = order + 1
    if len(c) != p:
        return f"{what} of order {order} returned {len(c)} coefficients", None, None
    cf = [F(v) for v in c]
    M = D.moment(p)
    r = D.rhs(p)
    tol = ne_tolerances(D, cf)
    rho = [r[j] - sum(M[j][k] * cf[k] for k in range(p)) for j in range(p)]
    for j in range(p):
        if abs(rho[j]) > tol[j]:
            return (f"{what} of order {order}: residual not orthogonal to x^{j}: sum r_i x_i^{j} = {float(rho[j])!r}, "
                    f"allowed {float(tol[j])!r}"), None, None
    sse = D.sse(cf)
    Minv = inverse_exact(M)
    if Minv is None:
        return None, None, sse
    cstar = [sum(Minv[j][k] * r[k] for k in range(p)) for j in range(p)]
    sse_star = D.sse(cstar)
    excess = sum(tol[j] * abs(Minv[j][k]) * tol[k] for j in range(p) for k in range(p))
    if sse - sse_star > excess or sse < sse_star:
        return (f"{what} of order {order} is not the least-squares optimum: SSE = {float(sse)!r}, minimum = "
                f"{float(sse_star)!r}, allowed excess {float(excess)!r}"), None, None
    return None, excess, sse


def ls_tolerances(D):
    """exact optimum (a*, b*) of the line fit and the forward error allowed for the closed form; None if no verdict"""
    n = D.n
    Sx, Sy, Sxx, Sxy = D.S(1), D.R(0), D.S(2), D.R(1)
    Ax, Ay, Axy = D.A(1), D.RA(0), D.RA(1)
    Dd = n * Sxx - Sx * Sx
    if Dd == 0:
        return None
    g = F(101, 100) * (n + 6) * U
    dN = g * (n * Axy + Ax * Ay)
    dD = g * (n * Sxx + Ax * Ax)
    b = (n * Sxy - Sx * Sy) / Dd
    a = Sy / n - b * Sx / n
    if abs(Dd) <= 4 * dD:
        return a, b, None, None
    tb = (dN + abs(b) * dD) / (abs(Dd) - dD) + 2 * U * abs(b)
    ta = tb * Ax / n + 2 * g * (Ay / n + (abs(b) + tb) * Ax / n)
    return a, b, SLACK * 2 * ta + TINY, SLACK * 2 * tb + TINY


def check_ls_coefs(D, c):
    if len(c) != 2:
        return f"line fit returned {len(c)} coefficients"
    t = ls_tolerances(D)
    if t is None or t[2] is None:
        return None
    a, b, ta, tb = t
    if abs(F(c[1]) - b) > tb:
        return f"line fit slope {c[1]!r} differs from the least-squares slope {float(b)!r} by more than rounding ({float(tb)!r})"
    if abs(F(c[0]) - a) > ta:
        return f"line fit intercept {c[0]!r} differs from the least-squares intercept {float(a)!r} by more than rounding ({float(ta)!r})"
    # the normal equations themselves, with the slack these coefficient tolerances imply
    ca, cb = F(c[0]), F(c[1])
    n, Sx, Sy, Sxx, Sxy = D.n, D.S(1), D.R(0), D.S(2), D.R(1)
    rho0 = Sy - n * ca - Sx * cb
    rho1 = Sxy - Sx * ca - Sxx * cb
    if abs(rho0) > n * ta + abs(Sx) * tb:
        return f"line fit: sum of residuals = {float(rho0)!r} is not 0 to within rounding"
    if abs(rho1) > abs(Sx) * ta + Sxx * tb:
        return f"line fit: sum r_i x_i = {float(rho1)!r} is not 0 to within rounding"
    return None


def check_stats(D, fit):
    """r2, std_err, predict and the accessors as functions of the returned coefficients"""
    c = fit["coef"]
    cf = [F(v) for v in c]
    p = len(c)
    n = D.n
    # accessors
    if fit["int"] == "panic" or fit["int"] is None or F(fit["int"]) != cf[0]:
        return f"intercept() = {fit['int']!r} is not coefficients[0] = {c[0]!r}"
    if p == 2:
        if fit["slope"] == "none" or fit["slope"] is None or F(fit["slope"]) != cf[1]:
            return f"slope() = {fit['slope']!r} is not coefficients[1]"
    elif fit["slope"] != "none":
        return f"slope() is defined for {p} coefficients"
    if p > 2:
        if fit["slopes"] == "none" or [F(v) for v in fit["slopes"]] != cf[1:]:
            return "slopes() is not coefficients[1..]"
    elif fit["slopes"] != "none":
        return f"slopes() is defined for {p} coefficients"
    g1 = F(101, 100) * (p + 10) * U
    # sums of squares
    pv = D.evalp(cf)
    res = [yi - pi for yi, pi in zip(D.y, pv)]
    sse = sum((r * r for r in res), F(0))
    absp = [F(0)] * n
    for k, ck in enumerate(cf):
        absp = [o + abs(ck * v) for o, v in zip(absp, D.pw(k))]
    pis = [g1 * ap + 2 * U * abs(yi) for ap, yi in zip(absp, D.y)]
    tol_sse = SLACK * 2 * (F(101, 100) * (n + 4) * U * sse + 2 * sum((abs(r) * q for r, q in zip(res, pis)), F(0))
                   + sum((q * q for q in pis), F(0))) + TINY
    ybar = D.R(0) / n
    sst = sum(((yi - ybar) ** 2 for yi in D.y), F(0))
    dm = F(101, 100) * (n + 1) * U * D.RA(0) / n
    tol_sst = SLACK * 2 * (F(101, 100) * (n + 6) * U * sst + F(11, 10) * n * dm * dm) + TINY
    # std_err
    if n >= 3:
        se = fit["se"]
        if se is None or se < 0:
            return f"std_err = {se!r} for {n} points"
        want = sse / (n - 2)
        tol = (tol_sse + 4 * U * sse) / (n - 2) + 4 * U * want + TINY
        if abs(F(se) ** 2 - want) > tol:
            return (f"std_err^2 = {se * se!r} is not SSE/(n-2) = {float(want)!r} of the returned coefficients "
                    f"(allowed {float(tol)!r})")
    # r2
    if sst > 4 * tol_sst:
        r2 = fit["r2"]
        if r2 is None:
            return "r2 is NaN/inf although the responses are not constant"
        want = (sst - sse) / sst
        lo = sst - tol_sst
        tol = (tol_sst + tol_sse + 2 * U * (sst + sse)) / lo + abs(want) * tol_sst / lo + 4 * U * abs(want) + TINY
        if abs(F(r2) - want) > tol:
            return (f"r2 = {r2!r} is not (SST-SSE)/SST = {float(want)!r} of the returned coefficients "
                    f"(allowed {float(tol)!r})")
    return None


def check_predict(c, qs, preds):
    cf = [F(v) for v in c]
    p = len(c)
    g1 = SLACK * 2 * F(101, 100) * (p + 10) * U
    for q, got in zip(qs, preds):
        qf = F(q)
        terms = [ck * qf ** k for k, ck in enumerate(cf)]
        lo, hi = F(1, 2 ** 900), F(2 ** 900)
        if any(v != 0 and not (lo <= abs(v) <= hi) for v in terms + [qf ** k for k in range(p)]):
            continue  # under-/overflow range: not judged
        want = sum(terms, F(0))
        mag = sum((abs(v) for v in terms), F(0))
        if got is None:
            return f"predict({q!r}) is NaN/inf"
        if abs(F(got) - want) > g1 * mag + TINY:
            return f"predict({q!r}) = {got!r} is not the coefficient polynomial's value {float(want)!r}"
    return None


def fsqrt_up(v):
    """a rational >= sqrt(v) (v >= 0), within 1e-9 relative"""
    if v == 0:
        return F(0)
    s = F(math.sqrt(float(v))) * (1 + F(1, 10 ** 9))
    while s * s < v:
        s *= 1 + F(1, 10 ** 6)
    return s


def gd_bounds(D, steps, alpha):
    """the quantities of the gradient-descent clause: None (no claim: singular data or a step outside the stable
    range), a string (the oracle's own sanity check failed) or (a, b, mx, q, A, B) with (a, b) the exact optimum,
    E(e) = e1^2 + 2 mx e1 e2 + q e2^2 the energy, A = tau^(k/2) sqrt E(e_0) the contraction bound and B the rounding
    floor (see the module docstring)"""
    n = D.n
    Sx, Sy, Sxx = D.S(1), D.R(0), D.S(2)
    Dd = n * Sxx - Sx * Sx
    if Dd == 0:
        return None
    b = (n * D.R(1) - Sx * Sy) / Dd
    a = Sy / n - b * Sx / n
    mx, q = Sx / n, Sxx / n
    al = F(alpha)
    # eigenvalue bounds, verified exactly
    t, det = 1 + q, q - mx * mx
    disc = math.sqrt(max(float(t * t - 4 * det), 0.0))
    L = F((float(t) + disc) / 2) * (1 + F(1, 10 ** 12))
    while not (L >= 1 and L >= q and (L - 1) * (L - q) >= mx * mx):
        L *= 1 + F(1, 10 ** 9)
    mu = det / L * (1 - F(1, 10 ** 9))
    if not (0 <= mu <= 1 and mu <= q and (1 - mu) * (q - mu) >= mx * mx):
        mu = F(0)
    if not (0 < al and al * L <= 2):
        return None  # step outside the stable range: no claim
    tau = 1 - al * mu * (2 - al * L)
    if not (0 <= tau <= 1):
        return f"oracle: contraction factor {float(tau)!r} outside [0,1]"
    e0 = (Sy / n - a, -b)
    E0 = e0[0] * e0[0] + 2 * mx * e0[0] * e0[1] + q * e0[1] * e0[1]
    # tau^(k/2), rounded up
    tf = float(tau)
    if tf <= 0.0:
        powk = F(0) if steps > 0 else F(1)
    elif tf >= 1.0:
        powk = F(1)
    else:
        powk = F(math.exp(0.5 * steps * math.log(tf))) * (1 + F(1, 10 ** 8)) + F(1, 10 ** 300)
        powk = min(powk, F(1))
    A = powk * fsqrt_up(E0)
    # rounding floor
    X1, X2, XY, Y1 = D.A(1) / n, q, D.RA(1) / n, D.RA(0) / n
    W = abs(a) + abs(b) + 2 * (abs(e0[0]) + abs(e0[1])) + TINY
    G = W * (1 + X1) + Y1 + W * (X1 + X2) + XY
    eps = SLACK * 4 * (al * (n + 8) * U * G + 2 * U * W)
    st = fsqrt_up(tau)
    damp = F(steps) if st >= 1 else min(F(steps), 1 / (1 - st))
    B = fsqrt_up(L) * (eps * damp + F(101, 100) * (n + 1) * U * Y1) + TINY
    return a, b, mx, q, A, B, tau, E0


def check_gd(D, steps, alpha, c):
    if len(c) != 2:
        return f"gradient descent returned {len(c)} coefficients"
    g = gd_bounds(D, steps, alpha)
    if g is None or isinstance(g, str):
        return g
    a, b, mx, q, A, B, tau, E0 = g
    ek = (F(c[0]) - a, F(c[1]) - b)
    Ek = ek[0] * ek[0] + 2 * mx * ek[0] * ek[1] + q * ek[1] * ek[1]
    if Ek > (A + B) ** 2:
        return (f"gradient descent after {steps} steps of size {alpha!r}: energy distance to the optimum "
                f"sqrt(E) = {math.sqrt(float(Ek))!r} exceeds the contraction bound tau^(k/2) sqrt(E0) + rounding = "
                f"{float(A + B)!r} (tau = {float(tau)!r}, sqrt(E0) = {math.sqrt(float(E0))!r})")
    return None


# ---------------------------------------------------------------------------- entry points

def finite_data(x, y):
    return all(math.isfinite(v) for v in x) and all(math.isfinite(v) for v in y)


def oracle(req, impl):
    t = req.split()
    o = impl.split()
    cmd = t[0]
    if o and o[0] in ("harness-panic", "process-abort"):
        return "the harness died on this request"
    try:
        return _oracle(cmd, t, o)
    except AssertionError:
        return f"unreadable observation {impl[:200]!r}"


def _oracle(cmd, t, o):
    if cmd in ("fit_ls", "fit_poly", "fit_gd"):
        k = 1
        order = steps = alpha = None
        if cmd == "fit_poly":
            order = int(t[1]); k = 2
        if cmd == "fit_gd":
            steps = int(t[1]); alpha = fl(t[2]); k = 3
        x, k = read_vec(t, k)
        y, k = read_vec(t, k)
        qs, k = read_vec(t, k)
        if len(x) != len(y) or len(x) < 3 or not finite_data(x, y):
            return None  # outside the quantifier: correspondence only
        D = Data(x, y)
        fit = parse_fit(o)
        p = {"fit_ls": 2, "fit_gd": 2}.get(cmd, (order or 0) + 1)
        if not D.safe_range(p):
            return None  # under-/overflow range: correspondence only
        if fit["kind"] != "coef":
            M = D.moment(p)
            Minv = inverse_exact(M)
            if in_quantifier(D, p, Minv, M):
                return (f"{cmd} answered `{fit['kind']}` on a data set inside the quantifier "
                        f"({D.n} points, {D.distinct} distinct abscissae, cond_inf = {float(norm_inf(M) * norm_inf(Minv)):.3g})")
            return None
        c = fit["coef"]
        if cmd == "fit_poly":
            f, _, _ = check_poly_coefs(D, c, order)
        elif cmd == "fit_ls":
            f = check_ls_coefs(D, c)
        else:
            try:
                f = check_gd(D, steps, alpha, c)
            except (OverflowError, ZeroDivisionError):
                f = None  # a quantity of the bound itself is outside the binary64 range: not judged
        if f:
            return f
        return check_stats(D, fit) or check_predict(c, qs, fit["pred"])
    if cmd == "nest":
        top = int(t[1])
        x, k = read_vec(t, 2)
        y, k = read_vec(t, k)
        if len(x) != len(y) or len(x) < 3 or not finite_data(x, y):
            return None
        D = Data(x, y)
        pos = 0
        prev = None
        for m in range(top + 1):
            kind, c, pos = parse_coefs(o, pos)
            if not D.safe_range(m + 1):
                prev = None
                continue
            if kind != "coef":
                M = D.moment(m + 1)
                Minv = inverse_exact(M)
                if in_quantifier(D, m + 1, Minv, M):
                    return f"polynomial fit of order {m} answered `{kind}` on a data set inside the quantifier"
                prev = None
                continue
            f, excess, sse = check_poly_coefs(D, c, m)
            if f:
                return f
            if prev is not None and excess is not None and sse > prev + excess:
                return (f"raising the order from {m - 1} to {m} increased the residual: SSE {float(prev)!r} -> {float(sse)!r} "
                        f"(allowed excess {float(excess)!r})")
            prev = sse
        return None
    if cmd == "line":
        x, k = read_vec(t, 1)
        y, k = read_vec(t, k)
        if len(x) != len(y) or len(x) < 3 or not finite_data(x, y):
            return None
        D = Data(x, y)
        if not D.safe_range(2):
            return None
        k1, c1, pos = parse_coefs(o, 0)
        k2, c2, pos = parse_coefs(o, pos)
        M = D.moment(2)
        Minv = inverse_exact(M)
        inq = in_quantifier(D, 2, Minv, M)
        if k1 != "coef" or k2 != "coef":
            if inq:
                return f"line fit answered `{k1}`, order-1 polynomial fit `{k2}` on a data set inside the quantifier"
            return None
        f = check_ls_coefs(D, c1)
        if f:
            return f
        f, _, _ = check_poly_coefs(D, c2, 1, "order-1 polynomial fit")
        if f:
            return f
        lt = ls_tolerances(D)
        if lt is None or lt[2] is None or Minv is None:
            return None
        tol = ne_tolerances(D, [F(v) for v in c2])
        for j in range(2):
            tp = sum(abs(Minv[j][k]) * tol[k] for k in range(2))
            if abs(F(c1[j]) - F(c2[j])) > tp + lt[2 + j]:
                return (f"order-1 polynomial fit and line fit disagree in coefficient {j}: {c2[j]!r} vs {c1[j]!r} "
                        f"(allowed {float(tp + lt[2 + j])!r})")
        return None
    return f"unknown request {cmd}"


# ---------------------------------------------------------------------------- correspondence rule

def compare(req, impl, model):
    """Model and implementation must give the same answer.  Exactly (`default_compare`: bit-equal or 1e-9 relative) in
    everything that is not a rounded real number: how many coefficients, which accessors are defined, how many
    predictions, and -- inside the statement's domain -- which calls answer with coefficients, `undef` or `panic`.

    The numbers themselves are fixed by the statement only as far as its clauses go -- the coefficients are "the
    least-squares optimum" of data whose moment matrix may have condition 1e10, the statistics are "the textbook
    functions of the returned coefficients" -- and the oracle above turns each clause into a bound with a derived
    rounding allowance.  Two answers that differ by more than 1e-9 agree when, wherever the oracle judges the numbers
    (equal lengths, >= 3 points, finite data, no under-/overflow range, a moment matrix that is not exactly singular;
    for the line fit |D| > 4 dD, for gradient descent a step inside the stable range -- the conditions of `_oracle`),
      * the coefficients differ by no more than the sum of the two forward-error allowances of the oracle (both lie
        that close to the exact optimum: `ls_tolerances`; |M^-1| tol of `ne_tolerances`, in which the conditioning
        enters exactly, so a condition number of 1e10 -- or 1e18, beyond the statement -- widens it by just that;
        for gradient descent the two rounded trajectories lie within the rounding floor B of the exact one, so
        sqrt E(difference) <= 2 B), and
      * each answer's r2, std_err, accessors and predictions are the textbook functions of ITS OWN coefficients
        (`check_stats`, `check_predict` on the model's answer and on the implementation's).
    Which calls answer with coefficients, `undef` or `panic` is compared exactly inside the statement's domain
    (`in_quantifier`: more distinct abscissae than coefficients, exact cond_inf(M) <= 1e10).  Outside it (0..2 points --
    where std_err = sqrt(SSE/(n-2)) is not defined at all --, mismatched lengths, singular or worse-conditioned systems,
    the under-/overflow range) the statement says nothing, and whether a coefficient comes out as NaN/inf (`undef`)
    or as a huge finite number is the value of a number too (0/0 against 0/1e-13 in the closed form), as is whether
    the elimination meets a pivot below its threshold and the fit panics (x within 1e-9 of 1: a re-associated power sum
    flips it; the statement does not promise a panic-free fit, the model mirrors the `unwrap`): there the kind of the
    answer is not compared, and the numbers only where the oracle judges them.  An answer that is none of
    coefficients / `undef` / `panic` (the harness process died, a time-out) never agrees with anything."""
    from __main__ import default_compare
    why = default_compare(req, impl, model)
    if why is None:
        return None
    try:
        extra = _compare(req.split(), impl.split(), model.split())
    except (AssertionError, IndexError, ValueError, KeyError, OverflowError, ZeroDivisionError):
        return why
    return None if extra is None else why + " (" + extra + ")"


def _domain(D, p):
    """(inside the statement's domain for a fit with p coefficients, the oracle judges returned coefficients,
    exact inverse of the moment matrix)"""
    if not D.safe_range(p):
        return False, False, None
    M = D.moment(p)
    Minv = inverse_exact(M)
    return in_quantifier(D, p, Minv, M), True, Minv


def _poly_close(D, Minv, ci, cm, what):
    if len(ci) != len(cm):
        return f"{what}: {len(ci)} vs {len(cm)} coefficients"
    p = len(ci)
    if None in ci or None in cm:
        return f"{what}: undefined coefficient"
    ti = ne_tolerances(D, [F(v) for v in ci])
    tm = ne_tolerances(D, [F(v) for v in cm])
    for j in range(p):
        allowed = sum(abs(Minv[j][k]) * (ti[k] + tm[k]) for k in range(p))
        if abs(F(ci[j]) - F(cm[j])) > allowed:
            return (f"{what}: coefficient {j} differs by {abs(ci[j] - cm[j])!r}, more than the two forward-error "
                    f"allowances together ({float(allowed)!r})")
    return None


def _ls_close(D, ci, cm, what):
    """None | message | "skip" (the data are singular to working precision: outside the domain)"""
    if len(ci) != len(cm):
        return f"{what}: {len(ci)} vs {len(cm)} coefficients"
    if None in ci or None in cm:
        return f"{what}: undefined coefficient"
    t = ls_tolerances(D)
    if t is None or t[2] is None:
        return "skip"
    for j in range(2):
        if abs(F(ci[j]) - F(cm[j])) > 2 * t[2 + j]:
            return (f"{what}: coefficient {j} differs by {abs(ci[j] - cm[j])!r}, more than the two forward-error "
                    f"allowances together ({float(2 * t[2 + j])!r})")
    return None


def _same_structure(fi, fm):
    if fi["kind"] != fm["kind"]:
        return f"impl answers `{fi['kind']}`, model `{fm['kind']}`"
    if fi["kind"] != "coef":
        return None
    if len(fi["coef"]) != len(fm["coef"]):
        return "different number of coefficients"
    for key in ("int", "slope", "slopes"):
        a, b = fi[key], fm[key]
        if (a in ("none", "panic")) or (b in ("none", "panic")):
            if a != b:
                return f"{key}: impl {a!r}, model {b!r}"
        elif isinstance(a, list) != isinstance(b, list) or (isinstance(a, list) and len(a) != len(b)):
            return f"{key}: different shape"
    if len(fi["pred"]) != len(fm["pred"]):
        return "different number of predictions"
    return None


def _compare(t, oi, om):
    cmd = t[0]
    if cmd in ("fit_ls", "fit_poly", "fit_gd"):
        k = 1
        order = steps = alpha = None
        if cmd == "fit_poly":
            order = int(t[1]); k = 2
        if cmd == "fit_gd":
            steps = int(t[1]); alpha = fl(t[2]); k = 3
        x, k = read_vec(t, k)
        y, k = read_vec(t, k)
        qs, k = read_vec(t, k)
        fi, fm = parse_fit(oi), parse_fit(om)
        if len(x) != len(y) or len(x) < 3 or not finite_data(x, y):
            return None                  # outside the domain
        D = Data(x, y)
        p = {"fit_ls": 2, "fit_gd": 2}.get(cmd, (order or 0) + 1)
        inside, judged, Minv = _domain(D, p)
        if inside and fi["kind"] != fm["kind"]:
            return f"impl answers `{fi['kind']}`, model `{fm['kind']}`"
        if not judged or fi["kind"] != "coef" or fm["kind"] != "coef":
            return None
        f = _same_structure(fi, fm)
        if f:
            return f
        ci, cm = fi["coef"], fm["coef"]
        if cmd == "fit_poly":
            if Minv is None:
                return None
            f = _poly_close(D, Minv, ci, cm, "polynomial fit")
        elif cmd == "fit_ls":
            f = _ls_close(D, ci, cm, "line fit")
            if f == "skip":
                return None
        else:
            if None in ci or None in cm or len(ci) != 2:
                return "gradient descent: undefined coefficient"
            g = gd_bounds(D, steps, alpha)
            if g is None:
                return None              # no claim of the statement (unstable step, singular data)
            if isinstance(g, str):
                return g
            a, b, mx, q, A, B, tau, E0 = g
            d0, d1 = F(ci[0]) - F(cm[0]), F(ci[1]) - F(cm[1])
            Ed = d0 * d0 + 2 * mx * d0 * d1 + q * d1 * d1
            f = None
            if Ed > (2 * B) ** 2:
                f = (f"gradient descent: the two coefficient pairs are sqrt(E) = {math.sqrt(float(Ed))!r} apart, more than "
                     f"twice the rounding floor of the iteration ({float(2 * B)!r})")
        if f:
            return f
        for who, fit in (("model", fm), ("impl", fi)):
            g = check_stats(D, fit) or check_predict(fit["coef"], qs, fit["pred"])
            if g:
                return f"{who}: {g}"
        return None
    if cmd == "nest":
        top = int(t[1])
        x, k = read_vec(t, 2)
        y, k = read_vec(t, k)
        pi = pm = 0
        parts = []
        for m in range(top + 1):
            ki, ci, pi = parse_coefs(oi, pi)
            km, cm, pm = parse_coefs(om, pm)
            parts.append((m, ki, km, ci, cm))
        if pi != len(oi) or pm != len(om):
            return "trailing fields"
        if len(x) != len(y) or len(x) < 3 or not finite_data(x, y):
            return None
        D = Data(x, y)
        for m, ki, km, ci, cm in parts:
            inside, judged, Minv = _domain(D, m + 1)
            if inside and ki != km:
                return f"order {m}: impl answers `{ki}`, model `{km}`"
            if judged and ki == "coef" and km == "coef" and Minv is not None:
                f = _poly_close(D, Minv, ci, cm, f"polynomial fit of order {m}")
                if f:
                    return f
        return None
    if cmd == "line":
        x, k = read_vec(t, 1)
        y, k = read_vec(t, k)
        k1i, c1i, pi = parse_coefs(oi, 0)
        k2i, c2i, pi = parse_coefs(oi, pi)
        k1m, c1m, pm = parse_coefs(om, 0)
        k2m, c2m, pm = parse_coefs(om, pm)
        if pi != len(oi) or pm != len(om):
            return "trailing fields"
        if len(x) != len(y) or len(x) < 3 or not finite_data(x, y):
            return None
        D = Data(x, y)
        inside, judged, Minv = _domain(D, 2)
        if inside and (k1i, k2i) != (k1m, k2m):
            return f"impl answers `{k1i}` `{k2i}`, model `{k1m}` `{k2m}`"
        if not judged:
            return None
        if k1i == "coef" and k1m == "coef":
            f = _ls_close(D, c1i, c1m, "line fit")
            if f and f != "skip":
                return f
        if k2i == "coef" and k2m == "coef" and Minv is not None:
            f = _poly_close(D, Minv, c2i, c2m, "order-1 polynomial fit")
            if f:
                return f
        return None
    return "unknown request"


def nontrivial(req, model):
    return "coef" in model.split()


def tag(req, model):
    t = req.split()
    cmd = t[0]
    m = model.split()
    kind = m[0] if m else "empty"
    extra = ""
    if cmd == "fit_poly":
        extra = ":order" + t[1]
    if cmd == "fit_gd":
        s = int(t[1])
        extra = ":steps<=100" if s <= 100 else ":steps<=10000" if s <= 10000 else ":steps>10000"
    if cmd == "nest":
        extra = ":top" + t[1]
        kind = "panic" if "panic" in m else "coef"
    return f"{cmd}{extra}:{kind}"
