import SV.Model.C12
import SV.Lemmas.C12
/-!
# C12 — the 2-D array behaves like a rectangular grid under every sequence of operations

Property theorems only (helper lemmas: `SV.Lemmas.C12`; definitions: `SV.Model.C12`).

* `Arr α` is the literal model of `Arr2D<T>`: hidden flat buffer `inner`, public `height`, `width`;
  `init`, `step`, `obs` run the constructors, the mutating operations and the observers the way the
  Rust code does, with `err`/`panic` outcomes.
* `Grid α` is a plain `h × w` grid as a function `cell r c`; `Grid.init`, `Grid.step`, `Grid.obs` are
  its one-line operations.  A failing spec operation returns the grid itself.
* `R s g` is the simulation relation.  The theorems say: constructors establish it (or fail the same
  way), every operation preserves it with the same outcome, every observer agrees under it — hence
  (`refines_run`, induction over an arbitrary script, no depth bound) the whole trace of outcomes and
  observations of the flat model is the trace of the grid, for every element type.

The same `init/step/obs` run at `Int` in `svdriver C12` and are compared with the real `Arr2D<i64>`
after every step of every generated script on each run of the check.
-/
namespace SV.Props.C12
open SV.C12

variable {α : Type}

/-- What the simulation relation says (definitional unfolding, for the reader). -/
theorem R_def (s : Arr α) (g : Grid α) :
    R s g ↔ (s.height = g.h ∧ s.width = g.w ∧ s.inner.length = s.height * s.width ∧
      ∀ r c, r < g.h → c < g.w → s.inner[r * g.w + c]? = some (g.cell r c)) := Iff.rfl

/-- Equivalent reading: same shape and the hidden buffer is exactly the grid in row-major order. -/
theorem R_flat (s : Arr α) (g : Grid α) :
    R s g ↔ (s.height = g.h ∧ s.width = g.w ∧ s.inner = g.flat) := R_iff_flat

/-- Every constructor (`new`, `full`, `identity`, `TryFrom<Vec<Vec<T>>>`, `TryFrom<&Vec<Vec<T>>>`,
`From<&[[T; N]; M]>`, `from_flat` with padding) yields a state related to the grid built the plain
way, or both sides fail with the same error (ragged rows, failed conversion, oversized flat data,
empty `from_flat` shape).  `RRes` relates `ok` to `ok` by `R`, `err e` to `err e`, nothing else. -/
theorem R_init [Inhabited α] (i : Init α) : RRes (init i) (Grid.init i) := R_init_all i

/-- No constructor panics. -/
theorem init_never_panics [Inhabited α] (i : Init α) : init i ≠ .panic := by
  intro hp
  have h := R_init i
  rw [hp] at h
  exact h

/-- Every mutating operation (reshape, copying and in-place transpose, row swap, element write
through either index form, row write and fill, rewriting rows through the mutable row iterator,
map, clone, element conversion) keeps the relation and has the same outcome on both sides —
including the failing cases, where the grid side returns the grid itself. -/
theorem R_step (s : Arr α) (g : Grid α) (op : Op α) (h : R s g) :
    R (step s op).1 (Grid.step g op).1 ∧ (step s op).2 = (Grid.step g op).2 := by
  cases op with
  | reshape h' => exact R_reshape h h'
  | transpose => exact R_transpose h
  | transposeMut => exact R_transposeMut h
  | swapRows a b => exact R_swapRows h a b
  | setIdx r c v => exact R_setIdx h r c v
  | setRowCol r c v => exact R_setRowCol h r c v
  | setRow r vs => exact R_setRow h r vs
  | fillRow r v => exact R_fillRow h r v
  | rowsMut F hF => exact R_rowsMut h F hF
  | map f => exact R_map h f
  | clone => exact R_clone h
  | convert conv => exact R_convert h conv

/-- A failing operation of the grid returns the grid itself … -/
theorem grid_step_fail_unchanged (g : Grid α) (op : Op α) (hf : (Grid.step g op).2 ≠ .ok) :
    (Grid.step g op).1 = g := by
  cases op <;>
    simp only [Grid.step, Grid.reshape, Grid.transpose, Grid.swapRows, Grid.set, Grid.setRow,
      Grid.fillRow, Grid.rowsMut, Grid.map, Grid.convert] at hf ⊢ <;>
    first
    | exact absurd rfl hf
    | (split <;> first | rfl | (rename_i hc; simp only [hc, if_false, if_true] at hf; exact absurd rfl hf))

/-- … so an invalid operation (bad reshape, out-of-range index or row, wrong row length, failed
conversion) fails with the grid's outcome and leaves the array related to the *same* grid: every
observation afterwards is what it was before. -/
theorem invalid_leaves_unchanged (s : Arr α) (g : Grid α) (op : Op α) (h : R s g)
    (hf : (step s op).2 ≠ .ok) : R (step s op).1 g := by
  have hs := R_step s g op h
  rw [hs.2] at hf
  have := grid_step_fail_unchanged g op hf
  rw [this] at hs
  exact hs.1

section observers
variable [DecidableEq α] [LT α] [DecidableRel (α := α) (· < ·)]

/-- Every observer (`shape`, `size`, `is_empty`, both index forms with their panics, row index, the
two row iterators, `max`, `min`, `==` against a nested vector in both directions, `Display`,
`as_scalar`) returns on the flat model what the tabulation of the grid gives. -/
theorem R_obs (s : Arr α) (g : Grid α) (o : Obs α) (h : R s g) : obs s o = Grid.obs g o := by
  cases o with
  | shape => simp only [obs, Grid.obs, h.1, h.2.1]
  | size => simp only [obs, Grid.obs, h.2.2.1, h.1, h.2.1]
  | isEmpty => simp only [obs, Grid.obs, Arr.isEmpty, h.1, h.2.1]
  | getIdx r c =>
    simp only [obs, Grid.obs]
    by_cases hb : r < g.h ∧ c < g.w
    · rw [h.at? hb.1 hb.2, if_pos hb]; rfl
    · rw [h.at?_none hb, if_neg hb]; rfl
  | getRowCol r c =>
    simp only [obs, Grid.obs, h.at2?]
    by_cases hb : r < g.h ∧ c < g.w
    · rw [if_pos hb, if_pos hb]; rfl
    · rw [if_neg hb, if_neg hb]; rfl
  | getRow r =>
    simp only [obs, Grid.obs]
    by_cases hr : r < g.h
    · rw [h.rowSlice? hr, if_pos hr]; rfl
    · rw [h.rowSlice?_none hr, if_neg hr]; rfl
  | rows => simp only [obs, Grid.obs, h.rows?]; rfl
  | forRows => simp only [obs, Grid.obs, h.rows?]; rfl
  | max => simp only [obs, Grid.obs, h.extreme]
  | min => simp only [obs, Grid.obs, h.extreme]
  | eqNested other => simp only [obs, Grid.obs, h.eqNested]
  | eqNestedRev other =>
    simp only [obs, Grid.obs, h.eqNested]
    congr 1
    exact decide_eq_decide.mpr eq_comm
  | display fmt => simp only [obs, Grid.obs, h.display]
  | asScalar => simp only [obs, Grid.obs, h.asScalar]

/-- **History quantifier.**  For every script (a list of operations, each followed by any list of
observers — no bound on its length) the whole trace of the flat model — outcome of every operation
and every observed value — is the trace of the grid, and the relation holds at the end. -/
theorem refines_run (script : List (Item α)) (s : Arr α) (g : Grid α) (h : R s g) :
    (run s script).1 = (Grid.run g script).1 ∧ R (run s script).2 (Grid.run g script).2 := by
  induction script generalizing s g with
  | nil => exact ⟨rfl, h⟩
  | cons item rest ih =>
    obtain ⟨op, os⟩ := item
    obtain ⟨hR, hout⟩ := R_step s g op h
    obtain ⟨htr, hfin⟩ := ih (step s op).1 (Grid.step g op).1 hR
    simp only [run, Grid.run]
    refine ⟨?_, hfin⟩
    rw [htr, hout]
    congr 2
    apply List.map_congr_left
    intro o _
    exact R_obs _ _ o hR

/-- From any constructor: either both sides fail with the same error, or both succeed and every
script gives the same trace on the array and on the grid. -/
theorem refines_from_init [Inhabited α] (i : Init α) (script : List (Item α)) :
    (∃ e, init i = .err e ∧ Grid.init i = .err e) ∨
    (∃ s g, init i = .ok s ∧ Grid.init i = .ok g ∧
      (run s script).1 = (Grid.run g script).1 ∧ R (run s script).2 (Grid.run g script).2) := by
  have h := R_init i
  cases hs : init i with
  | ok s =>
    cases hg : Grid.init i with
    | ok g =>
      rw [hs, hg] at h
      exact Or.inr ⟨s, g, rfl, rfl, refines_run script s g h⟩
    | err e => rw [hs, hg] at h; exact h.elim
    | panic => rw [hs, hg] at h; exact h.elim
  | err e =>
    cases hg : Grid.init i with
    | ok g => rw [hs, hg] at h; exact h.elim
    | err e' => rw [hs, hg] at h; subst h; exact Or.inl ⟨e, rfl, rfl⟩
    | panic => rw [hs, hg] at h; exact h.elim
  | panic => rw [hs] at h; exact h.elim

/-- The hidden buffer always has exactly `height * width` items: after any constructor and any
sequence of operations (so `size()`, which is `inner.len()`, is the size of the grid). -/
theorem inv_run [Inhabited α] (i : Init α) (script : List (Item α)) (s : Arr α) (hs : init i = .ok s) :
    (run s script).2.inner.length = (run s script).2.height * (run s script).2.width := by
  rcases refines_from_init i script with ⟨e, he, _⟩ | ⟨s', g, hs', _, _, hR⟩
  · rw [hs] at he; cases he
  · rw [hs] at hs'; cases hs'
    exact hR.2.2.1

/-- the same invariant for a run started in any consistent state -/
theorem inv_run_from (script : List (Item α)) (s : Arr α) (g : Grid α) (h : R s g) :
    (run s script).2.inner.length = (run s script).2.height * (run s script).2.width :=
  (refines_run script s g h).2.2.2.1

end observers

/-! ### what `max` / `min` of the grid are (any linear order) -/
section order
variable {β : Type} [LinearOrder β]

/-- `max` is `None` exactly on an empty shape; otherwise it is a cell of the grid and no cell is
larger.  (With `R_obs` the same holds for the array's `max()`.) -/
theorem max_is_greatest (g : Grid β) :
    (Grid.obs g .max = .opt none ↔ (g.h = 0 ∨ g.w = 0)) ∧
    ∀ m, Grid.obs g .max = .opt (some m) →
      (∃ r c, r < g.h ∧ c < g.w ∧ g.cell r c = m) ∧ ∀ r c, r < g.h → c < g.w → g.cell r c ≤ m := by
  simp only [Grid.obs, Val.opt.injEq]
  constructor
  · rw [reduce?_none_iff, ← List.length_eq_zero_iff, g.flat_length, Nat.mul_eq_zero]
  · intro m hm
    cases hf : g.flat with
    | nil => rw [hf] at hm; simp [reduce?] at hm
    | cons x xs =>
      rw [hf] at hm
      simp only [reduce?, Option.some.injEq] at hm
      obtain ⟨h1, h2⟩ := foldl_pickMax_spec xs x
      rw [hm, ← hf] at h1 h2
      refine ⟨(g.mem_flat m).mp h1, ?_⟩
      intro r c hr hc
      exact h2 _ ((g.mem_flat _).mpr ⟨r, c, hr, hc, rfl⟩)

/-- `min` is `None` exactly on an empty shape; otherwise it is a cell of the grid and no cell is
smaller. -/
theorem min_is_least (g : Grid β) :
    (Grid.obs g .min = .opt none ↔ (g.h = 0 ∨ g.w = 0)) ∧
    ∀ m, Grid.obs g .min = .opt (some m) →
      (∃ r c, r < g.h ∧ c < g.w ∧ g.cell r c = m) ∧ ∀ r c, r < g.h → c < g.w → m ≤ g.cell r c := by
  simp only [Grid.obs, Val.opt.injEq]
  constructor
  · rw [reduce?_none_iff, ← List.length_eq_zero_iff, g.flat_length, Nat.mul_eq_zero]
  · intro m hm
    cases hf : g.flat with
    | nil => rw [hf] at hm; simp [reduce?] at hm
    | cons x xs =>
      rw [hf] at hm
      simp only [reduce?, Option.some.injEq] at hm
      obtain ⟨h1, h2⟩ := foldl_pickMin_spec xs x
      rw [hm, ← hf] at h1 h2
      refine ⟨(g.mem_flat m).mp h1, ?_⟩
      intro r c hr hc
      exact h2 _ ((g.mem_flat _).mpr ⟨r, c, hr, hc, rfl⟩)

end order

/-! ### non-vacuity -/

/-- `[[1, 2, 3], [4, 5, 6]]` -/
def demo : Arr Nat := Arr.fromArray 2 3 fun r c => 3 * r + c + 1
def demoGrid : Grid Nat := Grid.fromArray 2 3 fun r c => 3 * r + c + 1

/-- the hypothesis of `refines_run` is satisfiable … -/
example : R demo demoGrid := R_fromArray 2 3 _

/-- … and a run of `reshape; transpose_mut; swap_rows; set; (bad) reshape; (bad) set` on the 2×3 array
does what a grid does, the failing steps leaving everything as it was. -/
example :
    (run demo
      [(.reshape 3, [.rows]), (.transposeMut, [.rows, .shape]), (.swapRows 0 1, [.rows]),
       (.setIdx 1 2 9, [.rows, .size, .max]), (.reshape 4, [.shape, .getIdx 1 2]),
       (.setRowCol 2 0 7, [.rows, .getRowCol 0 3])]).1 =
      [(.ok, [.rows [[1, 2], [3, 4], [5, 6]]]),
       (.ok, [.rows [[1, 3, 5], [2, 4, 6]], .pair 2 3]),
       (.ok, [.rows [[2, 4, 6], [1, 3, 5]]]),
       (.ok, [.rows [[2, 4, 6], [1, 3, 9]], .nat 6, .opt (some 9)]),
       (.err (.invalidReshape 6 4), [.pair 2 3, .elem 9]),
       (.panic, [.rows [[2, 4, 6], [1, 3, 9]], .panic])] := by decide

/-- the text layout: right-aligned columns, NumPy-like brackets -/
example : layout (fun n : Nat => List.replicate n 'i') 2 2 [[1, 2], [3, 1]] =
    "[[   i, ii ]\n [ iii,  i ]]".toList := by decide

end SV.Props.C12
