import SV.Model.C19
/-!
Lemmas for C19, lexer part: one pass of the `while let` loop as a fuel-free function `lexStep`, the
unfolding of `lexGo` in terms of it, fuel independence, and the fuel-free relations `Lexed`/`LexErr`.
-/
namespace SV.C19
open SV SV.Text

/-- the letter-run case of the lexer: the tokens of a maximal run of ASCII letters -/
def runToks (run : List Char) : List (Tok Dec) :=
  match run with
  | [d] => [letterTok d]
  | _ =>
    match funcOfName run with
    | some f => [.func f]
    | none =>
      match constOfName run with
      | some k => [.const k]
      | none => run.map letterTok

/-- one pass of the lexer's `while let` loop on the first character `c`: the tokens pushed (in order)
and the remaining text -/
def lexStep (c : Char) (cs : List Char) : Except PErr (List (Tok Dec) × List Char) :=
  if isAsciiDigit c ∨ c = '.' then
    match parseUDec ((c :: cs).takeWhile fun d => isAsciiDigit d || d = '.') with
    | some (m, s) => .ok ([.num ⟨false, m, s⟩], (c :: cs).dropWhile fun d => isAsciiDigit d || d = '.')
    | none => .error .invalidNumber
  else if isAsciiLetter c then
    .ok (runToks ((c :: cs).takeWhile isAsciiLetter), (c :: cs).dropWhile isAsciiLetter)
  else if c = 'π' then .ok ([.const .pi], cs)
  else if c = 'τ' then .ok ([.const .tau], cs)
  else if c = 'ϕ' then .ok ([.const .phi], cs)
  else if c = '(' then .ok ([.lp], cs)
  else if c = ')' then .ok ([.rp], cs)
  else
    match opOfChar c with
    | some o => .ok ([.op o], cs)
    | none => .error .unexpectedChar

theorem lexGo_zero (s : List Char) (acc : List (Tok Dec)) : lexGo 0 s acc = .ok acc.reverse := by
  rw [lexGo]

theorem lexGo_nil (fuel : Nat) (acc : List (Tok Dec)) : lexGo fuel [] acc = .ok acc.reverse := by
  cases fuel with
  | zero => rw [lexGo]
  | succ n => rw [lexGo]; simp

theorem lexGo_succ_cons (fuel : Nat) (c : Char) (cs : List Char) (acc : List (Tok Dec)) :
    lexGo (fuel + 1) (c :: cs) acc =
      match lexStep c cs with
      | .error e => .error e
      | .ok (toks, rest) => lexGo fuel rest (toks.reverse ++ acc) := by
  rw [lexGo, lexStep]
  by_cases h1 : (isAsciiDigit c = true ∨ c = '.')
  · rw [if_pos h1, if_pos h1]
    simp only
    cases parseUDec (List.takeWhile (fun d => isAsciiDigit d || decide (d = '.')) (c :: cs)) with
    | none => rfl
    | some p => rfl
  · rw [if_neg h1, if_neg h1]
    by_cases h2 : isAsciiLetter c = true
    · rw [if_pos h2, if_pos h2]; rfl
    · rw [if_neg h2, if_neg h2]
      by_cases h3 : c = 'π'
      · rw [if_pos h3, if_pos h3]; rfl
      · rw [if_neg h3, if_neg h3]
        by_cases h4 : c = 'τ'
        · rw [if_pos h4, if_pos h4]; rfl
        · rw [if_neg h4, if_neg h4]
          by_cases h5 : c = 'ϕ'
          · rw [if_pos h5, if_pos h5]; rfl
          · rw [if_neg h5, if_neg h5]
            by_cases h6 : c = '('
            · rw [if_pos h6, if_pos h6]; rfl
            · rw [if_neg h6, if_neg h6]
              by_cases h7 : c = ')'
              · rw [if_pos h7, if_pos h7]; rfl
              · rw [if_neg h7, if_neg h7]
                cases opOfChar c with
                | none => rfl
                | some o => rfl


theorem length_dropWhile_le {α : Type} (p : α → Bool) (l : List α) : (l.dropWhile p).length ≤ l.length :=
  (List.dropWhile_sublist p).length_le

theorem lexStep_length {c : Char} {cs : List Char} {toks : List (Tok Dec)} {rest : List Char}
    (h : lexStep c cs = .ok (toks, rest)) : rest.length ≤ cs.length := by
  unfold lexStep at h
  split at h
  · rename_i h1
    split at h
    · simp only [Except.ok.injEq, Prod.mk.injEq] at h
      obtain ⟨-, rfl⟩ := h
      have : (isAsciiDigit c || decide (c = '.')) = true := by simpa using h1
      rw [List.dropWhile_cons_of_pos (p := fun d => isAsciiDigit d || decide (d = '.')) this]
      exact length_dropWhile_le _ _
    · simp at h
  · split at h
    · rename_i h2
      simp only [Except.ok.injEq, Prod.mk.injEq] at h
      obtain ⟨-, rfl⟩ := h
      rw [List.dropWhile_cons_of_pos h2]
      exact length_dropWhile_le _ _
    · repeat' split at h
      all_goals first
        | (simp only [Except.ok.injEq, Prod.mk.injEq] at h; obtain ⟨-, rfl⟩ := h; exact Nat.le_refl _)
        | simp at h

/-- Fuel beyond `characters + 1` changes nothing. -/
theorem lexGo_fuel_succ (fuel : Nat) (s : List Char) (acc : List (Tok Dec)) (h : s.length + 1 ≤ fuel) :
    lexGo (fuel + 1) s acc = lexGo fuel s acc := by
  induction fuel generalizing s acc with
  | zero => omega
  | succ n ih =>
    cases s with
    | nil => rw [lexGo_nil, lexGo_nil]
    | cons c cs =>
      simp only [List.length_cons] at h
      rw [lexGo_succ_cons, lexGo_succ_cons]
      cases hs : lexStep c cs with
      | error e => rfl
      | ok p =>
        obtain ⟨toks, rest⟩ := p
        have := lexStep_length hs
        exact ih _ _ (by omega)

theorem lexGo_fuel_irrelevant (s : List Char) (acc : List (Tok Dec)) {fuel : Nat} (h : s.length + 1 ≤ fuel) :
    lexGo fuel s acc = lexGo (s.length + 1) s acc := by
  induction fuel with
  | zero => omega
  | succ n ih =>
    by_cases hn : s.length + 1 ≤ n
    · rw [lexGo_fuel_succ n s acc hn]; exact ih hn
    · have : n = s.length := by omega
      subst this; rfl

/-- fuel-free semantics of the lexer loop: the passes are run until the text is used up -/
inductive Lexed : List Char → List (Tok Dec) → Prop where
  | nil : Lexed [] []
  | step {c : Char} {cs : List Char} {toks : List (Tok Dec)} {rest : List Char} {more : List (Tok Dec)} :
      lexStep c cs = .ok (toks, rest) → Lexed rest more → Lexed (c :: cs) (toks ++ more)

/-- …and its errors: some pass fails -/
inductive LexErr : List Char → PErr → Prop where
  | here {c : Char} {cs : List Char} {x : PErr} : lexStep c cs = .error x → LexErr (c :: cs) x
  | later {c : Char} {cs : List Char} {toks : List (Tok Dec)} {rest : List Char} {x : PErr} :
      lexStep c cs = .ok (toks, rest) → LexErr rest x → LexErr (c :: cs) x

theorem lexGo_ok_iff (fuel : Nat) (s : List Char) (acc out : List (Tok Dec)) (h : s.length + 1 ≤ fuel) :
    lexGo fuel s acc = .ok out ↔ ∃ toks, Lexed s toks ∧ out = acc.reverse ++ toks := by
  induction fuel generalizing s acc with
  | zero => omega
  | succ n ih =>
    cases s with
    | nil =>
      rw [lexGo_nil]
      constructor
      · intro h; exact ⟨[], .nil, by simpa using h.symm⟩
      · rintro ⟨toks, ht, rfl⟩; cases ht; simp
    | cons c cs =>
      simp only [List.length_cons] at h
      rw [lexGo_succ_cons]
      cases hs : lexStep c cs with
      | error e =>
        simp only [reduceCtorEq, false_iff, not_exists, not_and]
        intro toks ht; cases ht with
        | step h1 _ => rw [hs] at h1; cases h1
      | ok p =>
        obtain ⟨toks, rest⟩ := p
        have hl := lexStep_length hs
        simp only
        rw [ih rest _ (by omega)]
        constructor
        · rintro ⟨more, hm, rfl⟩
          exact ⟨toks ++ more, .step hs hm, by simp⟩
        · rintro ⟨all, ha, rfl⟩
          cases ha with
          | step h1 h2 =>
            rw [hs] at h1; cases h1
            exact ⟨_, h2, by simp⟩

theorem lexGo_error_iff (fuel : Nat) (s : List Char) (acc : List (Tok Dec)) (x : PErr)
    (h : s.length + 1 ≤ fuel) : lexGo fuel s acc = .error x ↔ LexErr s x := by
  induction fuel generalizing s acc with
  | zero => omega
  | succ n ih =>
    cases s with
    | nil =>
      rw [lexGo_nil]
      simp only [reduceCtorEq, false_iff]
      intro h; cases h
    | cons c cs =>
      simp only [List.length_cons] at h
      rw [lexGo_succ_cons]
      cases hs : lexStep c cs with
      | error e =>
        simp only [Except.error.injEq]
        constructor
        · rintro rfl; exact .here hs
        · intro h
          cases h with
          | here h1 => rw [hs] at h1; cases h1; rfl
          | later h1 _ => rw [hs] at h1; cases h1
      | ok p =>
        obtain ⟨toks, rest⟩ := p
        have hl := lexStep_length hs
        simp only
        rw [ih rest _ (by omega)]
        constructor
        · intro h; exact .later hs h
        · intro h
          cases h with
          | here h1 => rw [hs] at h1; cases h1
          | later h1 h2 => rw [hs] at h1; cases h1; exact h2

theorem lex_ok_iff (s : List Char) (out : List (Tok Dec)) :
    lex s = .ok out ↔ Lexed (s.filter (· ≠ ' ')) out := by
  unfold lex
  simp only
  rw [lexGo_ok_iff _ _ _ _ (Nat.le_refl _)]
  simp

theorem lex_error_iff (s : List Char) (x : PErr) :
    lex s = .error x ↔ LexErr (s.filter (· ≠ ' ')) x := by
  unfold lex
  simp only
  rw [lexGo_error_iff _ _ _ _ (Nat.le_refl _)]

end SV.C19
