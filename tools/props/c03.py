"""C03 plug-in: exact-rational oracle for symbolic derivatives (written from the property statement,
independent of the Lean model).

For every derivative step of a request (`deriv`, `pderiv`, the `d` / `D v` steps of `chain` / `chainm`)
the polynomial the implementation returned is compared with the exact symbolic derivative of the
*value function* of the polynomial the step was applied to:

  * all exponents integers  -> both sides are evaluated in exact rationals (`fractions.Fraction`, from the
    bit patterns) at 4 points of the common domain; the only rounding the code may commit is the one
    product `c*p` per term (relative error <= u = 2^-53), so the tolerance is 4u * sum|term values|;
  * some exponent fractional -> double precision with the analytic power rule (relative 1e-11 of
    sum|terms|) plus a central-difference cross-check of the source itself (relative 1e-6), at positive
    points only.

In addition every derivative step is judged EXACTLY, term by term, whatever the size of the numbers (no sampling, so
a rule that goes wrong only for a huge / tiny coefficient, an exponent next to 1, an exponent beyond 2^16 or the
65 537th coefficient is seen with its input): dense type `d_(k-1) = k c_k` (one rounding) at every position; sparse type
- for each source term containing the variable with power p (in order): coefficient `c p` (one rounding), power
`p - 1` (one rounding), the variable gone exactly when p = 1, every other factor untouched bit for bit; nothing else in
the result (a term whose coefficient would be 0 may be absent).  Dense polynomials longer than 200 coefficients are
judged by this alone; their final evaluation when the non-zero terms are few and every power stays inside
[2^-900, 2^900].  The univariate entry point on a polynomial with several variables must answer with an error.
The harness adds (c03.rs): the closure clause and the agreement of the duplicated entry points (`simple_derivative`,
`partial_derivative` with owned / borrowed names, slice / Deref forms, against the trait methods).

Domain (DESIGN.md section 5): a variable takes positive values when one of its exponents - in the source
or in the returned polynomial - is not an integer, non-zero values when one is negative, any value
(0 included) otherwise.  Structural clauses of the statement are checked as well: same kind, terms
without the variable vanish, no `v^0` left behind, result well-formed (sorted duplicate-free terms,
variable list), univariate entry point Ok on <= 1 variable (none included).  The last answer of a chain
(`eval_univariate` / `eval_multivariate` of the final polynomial) is compared with the exact value of
that polynomial.  Integration steps are not value-checked here (C04 does that); the reference restarts
from the polynomial they returned.
"""
import re, struct, math, hashlib, random
from fractions import Fraction

U = Fraction(1, 2 ** 53)

RULE = ("polynomials are obtained by running the real parsers (SimplePolynomial::parse / IntermediatePolynomial::parse) "
        "on grammar-generated texts (0-5 terms, 0-3 variables per term in any order, repeated variables, all coefficient "
        "forms, zero/negative/fractional exponents, constants) after a fixed list of corner texts; requests deriv / pderiv "
        "(variable present, absent, multi-letter, empty, other case) / chain / chainm of length <= 3 and derivative chains of "
        "length 4-7; hardening texts: coefficients of extreme magnitude / length, exponents up to 2^32 and next to 1 / 0 at "
        "distances 1e-5..2^-52, repeated variables whose powers add up to 1 / 0 / -1, upper/lower-case pairs and every "
        "letter, 6-40 terms, 4-12 variables per term, dense lengths 6..70 / 255..257 / 511..1025 / 65537, cancelled leading "
        "terms; evaluation points of every scale; non-trivial = the model's answer "
        "contains a polynomial with at least one term (not an error, not the zero polynomial only); distinct = distinct "
        "request lines")


# ----------------------------------------------------------------------------- wire

def f_of_bits(b):
    return struct.unpack("<d", struct.pack("<Q", b))[0]


class Toks:
    def __init__(self, s):
        self.t = s.split()
        self.i = 0

    def tok(self):
        x = self.t[self.i]
        self.i += 1
        return x

    def peek(self):
        return self.t[self.i] if self.i < len(self.t) else None

    def int(self):
        return int(self.tok())

    def flt(self):
        x = self.tok()
        if x.startswith("f"):
            x = x[1:]
        return f_of_bits(int(x))

    def name(self):
        n = self.int()
        return "".join(chr(self.int()) for _ in range(n))

    def done(self):
        return self.i >= len(self.t)


def read_poly(t):
    k = t.tok()
    if k == "S":
        v = t.tok()
        var = chr(int(v)) if v != "-" else None
        n = t.int()
        return ("S", var, [t.flt() for _ in range(n)])
    if k == "I":
        n = t.int()
        terms = []
        for _ in range(n):
            c = t.flt()
            nv = t.int()
            vs = []
            for _ in range(nv):
                nm = t.name()
                vs.append((nm, t.flt()))
            terms.append((c, vs))
        m = t.int()
        return ("I", terms, [t.name() for _ in range(m)])
    raise ValueError("polynomial kind " + k)


def read_step(t):
    k = t.tok()
    if k in ("d", "i"):
        return (k, None)
    return (k, t.name())


def skip_txt(t):
    if t.peek() == "txt":
        t.tok()
        return t.name()
    return None


def parse_request(req):
    """-> dict(text, cmd, poly, steps, x | binds)"""
    t = Toks(req)
    text = skip_txt(t)
    cmd = t.tok()
    r = {"text": text, "cmd": cmd}
    r["poly"] = read_poly(t)
    if cmd == "deriv":
        r["steps"] = [("d", None)]
    elif cmd == "integ":
        r["steps"] = [("i", None)]
    elif cmd == "pderiv":
        r["steps"] = [("D", t.name())]
    elif cmd == "pinteg":
        r["steps"] = [("J", t.name())]
    elif cmd in ("chain", "chainm"):
        k = t.int()
        r["steps"] = [read_step(t) for _ in range(k)]
        if cmd == "chain":
            r["x"] = t.flt()
        else:
            n = t.int()
            r["binds"] = [(t.name(), t.flt()) for _ in range(n)]
    else:
        r["steps"] = []
        r["rest"] = t
    return r


def parse_answer(cmd, impl):
    """-> list of segments: ('ok', poly) | ('err', kind) | ('val', float) | ('panic',)"""
    if impl.strip() in ("panic", "harness-panic", "process-abort"):
        return [("panic",)]
    segs = []
    parts = [impl] if cmd in ("pderiv", "pinteg") else impl.split(" | ")
    for part in parts:
        t = Toks(part)
        if cmd in ("pderiv", "pinteg"):
            segs.append(("ok", read_poly(t)))
            continue
        h = t.tok()
        if h == "err":
            segs.append(("err", t.tok()))
        elif h == "ok":
            if t.peek() in ("S", "I"):
                segs.append(("ok", read_poly(t)))
            else:
                segs.append(("val", t.flt()))
        else:
            segs.append(("panic",))
    return segs


# ----------------------------------------------------------------------------- exact polynomials

def finite(x):
    return not (math.isnan(x) or math.isinf(x))


BIG = 200        # dense polynomials longer than this are judged coefficient-wise only (exact), not by sampling values
LO, HI = Fraction(1, 2 ** 900), Fraction(2 ** 900)


def inrange(x):
    return x == 0 or LO <= abs(x) <= HI


OWN = "⟨var⟩"   # name used for the variable of a SimplePolynomial without one


def own_var(p):
    return p[1] if p[1] is not None else OWN


def sparse(p):
    """value function as a list of (coef, {var: exponent}) in exact rationals; None when some number
    is not finite.  Repeated variables of a term are merged by adding exponents (x^a x^b = x^(a+b))."""
    out = []
    if p[0] == "S":
        v = own_var(p)
        big = len(p[2]) > BIG
        for k, c in enumerate(p[2]):
            if not finite(c):
                return None
            if big and c == 0:
                continue              # adding an exact zero changes no value
            out.append((Fraction(c), {v: Fraction(k)} if k > 0 else {}))
        return out
    for c, vs in p[1]:
        if not finite(c):
            return None
        d = {}
        for nm, e in vs:
            if not finite(e):
                return None
            d[nm] = d.get(nm, Fraction(0)) + Fraction(e)
        out.append((Fraction(c), d))
    return out


def exponents_of(sp, v):
    return [d[v] for _, d in sp if v in d]


def all_vars(sp):
    s = set()
    for _, d in sp:
        s.update(d)
    return s


def is_int(e):
    return e.denominator == 1


def all_integer(sp):
    return all(is_int(e) for _, d in sp for e in d.values())


def deriv_ref(sp, v):
    """exact symbolic derivative of the value function"""
    out = []
    for c, d in sp:
        if v in d and d[v] != 0:
            e = d[v]
            nd = dict(d)
            if e - 1 == 0:
                del nd[v]
            else:
                nd[v] = e - 1
            out.append((c * e, nd))
    return out


def dec_pow(x, e):
    """x > 0, rational e: 60-digit reference through `decimal`; None when far outside the double range"""
    import decimal
    ctx = decimal.Context(prec=70, Emax=decimal.MAX_EMAX, Emin=decimal.MIN_EMIN)
    dx = ctx.divide(decimal.Decimal(x.numerator), decimal.Decimal(x.denominator))
    de = ctx.divide(decimal.Decimal(e.numerator), decimal.Decimal(e.denominator))
    try:
        r = ctx.power(dx, de)
    except decimal.DecimalException:
        return None
    if not r.is_finite() or r == 0 or not (-400 < r.adjusted() < 400):
        return None
    return Fraction(r)


def pow_int(b, k):
    """b^k (k integer): exact while affordable, else a 60-digit reference (relative error 1e-60, far below every
    tolerance used here); None when the result is far outside the double range"""
    if k == 0 or b == 1:
        return Fraction(1)
    if b == 0:
        return Fraction(0) if k > 0 else None
    if b == -1:
        return Fraction(1 if k % 2 == 0 else -1)
    if max(b.numerator.bit_length(), b.denominator.bit_length()) * abs(k) <= 20000:
        return b ** k
    r = dec_pow(abs(b), Fraction(k))
    if r is None:
        return None
    return -r if (b < 0 and k % 2) else r


def term_values_exact(sp, pt, guard=False):
    """exact value of every term; None when a term does not exist at the point (0 to a negative power) or - with
    `guard` - when a factor or a partial product leaves [2^-900, 2^900] (overflow / underflow in the code's own
    arithmetic is outside the oracle's rounding model)"""
    vals = []
    for c, d in sp:
        x = c
        if guard and not inrange(c):
            return None
        for v, e in d.items():
            b = pt[v]
            if b == 0 and e < 0:
                return None
            f = pow_int(b, int(e))
            if f is None:
                return None
            x *= f
            if guard and not (inrange(f) and inrange(x)):
                return None
        vals.append(x)
    return vals


def top_power_in_range(p, xs, extra=0):
    """dense type: x^(highest position) stays inside [2^-900, 2^900] for every x of xs - zero coefficients included
    (`sparse` leaves them out of long polynomials, but 0 * inf is NaN in the code's arithmetic)"""
    top = len(p[2]) - 1 + extra
    if top <= 0:
        return True
    for x in xs:
        if x == 0:
            continue
        f = pow_int(Fraction(x), top)
        if f is None or not inrange(f):
            return False
    return True


def term_values_float(sp, pt):
    vals = []
    for c, d in sp:
        x = float(c)
        for v, e in d.items():
            x *= math.pow(float(pt[v]), float(e))
        vals.append(x)
    return vals


POS = [Fraction(1, 2), Fraction(3, 4), Fraction(5, 4), Fraction(3, 2), Fraction(2), Fraction(5, 2), Fraction(3),
       Fraction(7, 8), Fraction(1)]


def domain_kind(sps, v):
    """'pos' | 'nonzero' | 'any' for variable v over several sparse polynomials"""
    kind = "any"
    for sp in sps:
        for e in exponents_of(sp, v):
            if not is_int(e):
                return "pos"
            if e < 0:
                kind = "nonzero"
    return kind


def in_domain(sps, v, x):
    k = domain_kind(sps, v)
    if k == "pos":
        return x > 0
    if k == "nonzero":
        return x != 0
    return True


def pick_points(rnd, sps, variables, n=4):
    pts = []
    for i in range(n):
        pt = {}
        for v in sorted(variables):
            k = domain_kind(sps, v)
            x = rnd.choice(POS)
            if k != "pos" and rnd.random() < 0.35:
                x = -x
            if k == "any" and i == n - 1 and rnd.random() < 0.7:
                x = Fraction(0)
            pt[v] = x
        pts.append(pt)
    return pts


def compare_values(ref, got, variables, rnd, what, rel_exact=4, extra_domain=()):
    """ref, got: sparse polynomials that must denote the same function.  None = equal."""
    sps = [ref, got] + list(extra_domain)
    pts = pick_points(rnd, sps, variables)
    exact = all_integer(ref) and all_integer(got)
    for pt in pts:
        if exact:
            a = term_values_exact(ref, pt)
            b = term_values_exact(got, pt)
            if a is None or b is None:
                continue
            diff = abs(sum(a) - sum(b))
            tol = rel_exact * U * (sum(abs(x) for x in a) + sum(abs(x) for x in b))
            if diff > tol:
                return (f"{what}: at {fmt_pt(pt)} the returned polynomial evaluates to {float(sum(b))!r}, "
                        f"exact {float(sum(a))!r} (difference {float(diff):.3e} > tolerance {float(tol):.3e})")
        else:
            try:
                a = term_values_float(ref, pt)
                b = term_values_float(got, pt)
            except (OverflowError, ValueError, ZeroDivisionError):
                continue
            sa, sb = math.fsum(a), math.fsum(b)
            scale = math.fsum(abs(x) for x in a) + math.fsum(abs(x) for x in b)
            if not finite(sa) or not finite(sb):
                continue
            if abs(sa - sb) > 1e-11 * scale + 1e-300:
                return (f"{what}: at {fmt_pt(pt)} the returned polynomial evaluates to {sb!r}, "
                        f"expected {sa!r} (double precision, tolerance 1e-11 relative)")
    return None


def central_difference(src, got, v, variables, rnd, what):
    """cross-check that does not presuppose the power rule: (f(x+h) - f(x-h)) / 2h on the source"""
    # the truncation term h^2 f(3)/6 is modelled for moderate exponents only (the term-wise check is exact anyway)
    if any(abs(e) > 40 for sp in (src, got) for _, d in sp for e in d.values()):
        return None
    pts = pick_points(rnd, [src, got], variables, n=2)
    for pt in pts:
        if v not in pt:
            continue
        pt = {k: (abs(x) if x != 0 else Fraction(1)) for k, x in pt.items()}
        x = float(pt[v])
        h = x * 2.0 ** -17
        try:
            hi = dict(pt); hi[v] = Fraction(x + h)
            lo = dict(pt); lo[v] = Fraction(x - h)
            fh, fl = term_values_float(src, hi), term_values_float(src, lo)
            g = term_values_float(got, pt)
        except (OverflowError, ValueError, ZeroDivisionError):
            continue
        num = (math.fsum(fh) - math.fsum(fl)) / (2 * h)
        scale = math.fsum(abs(t) for t in g) + math.fsum(abs(t) for t in fh) / x + 1e-300
        # truncation error ~ h^2 |f'''| / 6 <= 1e-10 * (e^3 / x^2) |f| with |e| <= 8
        if finite(num) and abs(num - math.fsum(g)) > 1e-6 * scale:
            return (f"{what}: at {fmt_pt(pt)} the returned derivative evaluates to {math.fsum(g)!r} but the central "
                    f"difference of the source is {num!r}")
    return None


def fmt_pt(pt):
    return "{" + ", ".join(f"{k}={v}" for k, v in sorted(pt.items())) + "}"


# ----------------------------------------------------------------------------- structure

def strictly_sorted(xs):
    return all(a < b for a, b in zip(xs, xs[1:]))


def wf_terms(p):
    for c, vs in p[1]:
        if not strictly_sorted([n for n, _ in vs]):
            return f"a term of the result lists its variables {[n for n, _ in vs]} (not sorted / repeated)"
    return None


def names_used(p):
    s = set()
    for _, vs in p[1]:
        s.update(n for n, _ in vs)
    return s


def wf_exact(p):
    """terms sorted + variable list = sorted names in use"""
    e = wf_terms(p)
    if e:
        return e
    if p[2] != sorted(names_used(p)):
        return f"variable list {p[2]} is not the sorted list of the names in use {sorted(names_used(p))}"
    return None


def usable(p):
    e = wf_terms(p)
    if e:
        return e
    if not strictly_sorted(p[2]):
        return f"variable list {p[2]} is not sorted / duplicate-free"
    if not names_used(p) <= set(p[2]):
        return f"variable list {p[2]} does not cover the names in use {sorted(names_used(p))}"
    return None


def step_variable(p, step):
    """the variable a step differentiates / integrates in, and whether the step is in the property's scope.
    -> (var | None, expect)   expect in 'ok', 'err', 'identity', 'skip'"""
    k, v = step
    if p[0] == "S":
        if k in ("d", "i"):
            return own_var(p), "ok"
        first = v[0] if v else None
        if first == p[1]:
            return own_var(p), "ok"
        return None, "identity"          # SimplePolynomial ignores foreign variables (documented)
    if k in ("d", "i"):
        if len(p[2]) > 1:
            return None, "err"
        return (p[2][0] if p[2] else "x"), "ok"
    return v, "ok"


def close(got, want, ulps=2):
    """got: float, want: exact rational: equal up to `ulps` roundings"""
    return finite(got) and abs(Fraction(got) - want) <= ulps * U * abs(want)


def check_dense_exact(src, got, what):
    """dense type, every size: d_(k-1) = k c_k (one rounding)"""
    cs, ds = src[2], got[2]
    name = own_var(src)
    for k in range(1, len(cs)):
        c, d = cs[k], ds[k - 1]
        if d == c * k:
            continue
        if not close(d, Fraction(c) * k):
            return f"{what}: coefficient of {name}^{k - 1} is {d!r}, the power rule gives {k} * {c!r} = {c * k!r}"
    return None


def fmt_term(c, vs):
    return f"{c!r}" + "".join(f" {n}^{e!r}" for n, e in vs)


def expected_term(c, vs, v):
    """power rule on one source term (no repeated names): (coefficient, [(name, power | ('minus1', p))])"""
    out = []
    p = None
    for n, e in vs:
        if n == v:
            p = e
            if e != 1:
                out.append((n, ("minus1", e)))
        else:
            out.append((n, e))
    return Fraction(c) * Fraction(p), sorted(out, key=lambda t: t[0])


def term_matches(got, want):
    gc, gvs = got
    wc, wvs = want
    if not close(gc, wc):
        return False
    gvs = sorted(gvs, key=lambda t: t[0])
    if [n for n, _ in gvs] != [n for n, _ in wvs]:
        return False
    for (_, ge), (_, we) in zip(gvs, wvs):
        if isinstance(we, tuple):
            if not close(ge, Fraction(we[1]) - 1):
                return False
        elif not (ge == we):
            return False
    return True


def check_terms_exact(src, got, v, what):
    """sparse type: term by term - c p, power p - 1, the variable gone exactly when p = 1, the other factors
    untouched, terms without the variable gone.  A result term whose coefficient would be 0 may be absent."""
    with_v = [(c, vs) for c, vs in src[1] if any(n == v for n, _ in vs)]
    if any(len({n for n, _ in vs}) != len(vs) for _, vs in with_v):
        return None                      # a name twice in one term (not parser-made): values only
    g = list(got[1])
    j = 0
    for k, (c, vs) in enumerate(with_v):
        want = expected_term(c, vs, v)
        if j < len(g) and term_matches(g[j], want):
            j += 1
        elif want[0] == 0:
            continue
        else:
            have = fmt_term(*g[j]) if j < len(g) else "nothing"
            return (f"{what}: source term {fmt_term(c, vs)} should become coefficient {float(want[0])!r} with "
                    f"{v} lowered by one (and removed at power 0), the result has {have}")
    if j < len(g):
        return f"{what}: the result has the extra term {fmt_term(*g[j])}"
    return None


def check_deriv_step(src, step, seg, rnd):
    """src: polynomial (wire form) the step is applied to; seg: the implementation's answer segment"""
    v, expect = step_variable(src, step)
    what = {"d": "derivate_univariate", "D": f"derivate_multivariate({step[1]!r})"}[step[0]]
    if seg[0] == "panic":
        return f"{what} panicked"
    if expect == "err":
        if seg[0] != "err":
            return (f"{what} on a polynomial in {src[2]} returned a polynomial although the variable to differentiate in "
                    f"is ambiguous (TooManyVariables expected)")
        return None
    if seg[0] == "err":
        if expect == "ok":
            return f"{what} returned Err({seg[1]}) on a polynomial with {len(src[2]) if src[0]=='I' else 1} variable(s)"
        return None
    got = seg[1]
    if got[0] != src[0]:
        return f"{what} changed the kind of the polynomial"
    if expect == "identity":
        return None
    ssp, gsp = sparse(src), sparse(got)
    if ssp is None:
        return None                       # the source already holds NaN/inf (outside every domain)
    if gsp is None:
        return f"{what} produced a non-finite number from finite input"
    # structure
    if src[0] == "S":
        if got[1] != src[1]:
            return f"{what} changed the variable of the polynomial"
        if len(got[2]) != max(len(src[2]) - 1, 0):
            return f"{what}: {len(got[2])} coefficients from {len(src[2])}"
        e = check_dense_exact(src, got, what)
        if e:
            return e
        if len(src[2]) > BIG:
            return None                   # the coefficient-wise check above is exact and complete
    else:
        e = wf_exact(got) if step[0] == "D" else usable(got)
        if e:
            return f"{what}: result is not well-formed: {e}"
        if step[0] == "d" and got[2] != src[2]:
            return f"{what}: variable list {got[2]} differs from the source's {src[2]}"
        with_v = sum(1 for _, vs in src[1] if any(n == v for n, _ in vs))
        if len(got[1]) > with_v:
            return (f"{what}: {len(got[1])} terms returned but only {with_v} source terms contain {v!r} "
                    f"(terms without the variable must vanish)")
        for _, vs in got[1]:
            if any(n == v and e0 == 0 for n, e0 in vs):
                return f"{what}: a term of the result still carries {v}^0"
        e = check_terms_exact(src, got, v, what)
        if e:
            return e
    ref = deriv_ref(ssp, v)
    variables = all_vars(ssp) | all_vars(gsp) | {v}
    err = compare_values(ref, gsp, variables, rnd, what, extra_domain=[ssp])
    if err:
        return err
    if not (all_integer(ssp) and all_integer(gsp)):
        err = central_difference(ssp, gsp, v, variables, rnd, what)
    return err


def check_final(p, req, seg):
    """the value the interface returns for the final polynomial vs its exact value"""
    if seg[0] == "panic":
        return "evaluation of the result panicked"
    sp = sparse(p)
    if sp is None:
        return None
    if "x" in req:
        if p[0] == "I" and len(p[2]) > 1:
            return None
        if seg[0] == "err":
            if p[0] == "S" or usable(p) is None:
                return f"eval_univariate returned Err({seg[1]}) on a usable polynomial with <= 1 variable"
            return None
        names = all_vars(sp)
        if len(names) > 1:
            return None
        x = req["x"]
        if not finite(x):
            return None
        pt = {n: Fraction(x) for n in names}
    else:
        binds = {}
        for n, val in req["binds"]:
            binds[n] = val
        if p[0] == "S":
            if len(binds) != 1:
                return None
            pt = {own_var(p): Fraction(list(binds.values())[0])}
        else:
            if not names_used(p) <= set(binds):
                return None if seg[0] == "err" else "eval_multivariate returned a number although a variable is unbound"
            pt = {n: Fraction(binds[n]) for n in names_used(p)}
        if seg[0] == "err":
            return f"eval_multivariate returned Err({seg[1]}) although every variable in use is bound"
    for n, xv in pt.items():
        if not in_domain([sp], n, xv):
            return None
    got = seg[1]
    if all_integer(sp):
        if len(sp) > BIG:
            return None
        if p[0] == "S":
            xs = [Fraction(req["x"])] if "x" in req else [Fraction(val) for _, val in req["binds"] if finite(val)]
            if not top_power_in_range(p, xs):
                return None
        vals = term_values_exact(sp, pt, guard=True)
        if vals is None:
            return None
        if not finite(got):
            return f"evaluation returned {got!r}, exact value {float(sum(vals))!r}"
        nt = len(vals)
        deg = max([abs(e) for _, d in sp for e in d.values()] + [0])
        nv = max([len(d) for _, d in sp] + [0])
        tol = (8 + 2 * nt + 2 * nv + 2 * deg) * U * sum(abs(t) for t in vals)
        if abs(Fraction(got) - sum(vals)) > tol:
            return (f"evaluation of the result at {fmt_pt(pt)} returned {got!r}, exact value {float(sum(vals))!r} "
                    f"(tolerance {float(tol):.3e})")
    else:
        try:
            vals = term_values_float(sp, pt)
            # every factor must stay well inside the double range (the code's own products would over/underflow)
            facs = [math.pow(float(pt[v]), float(e)) for _, d in sp for v, e in d.items()] + [float(c) for c, _ in sp]
        except (OverflowError, ValueError, ZeroDivisionError):
            return None
        s = math.fsum(vals)
        mags = [abs(t) for t in vals + facs if t != 0]
        if not finite(s) or (mags and (max(mags) > 1e250 or min(mags) < 1e-250)):
            return None
        if not finite(got):
            return f"evaluation of the result at {fmt_pt(pt)} returned {got!r}, expected {s!r}"
        if abs(s - got) > 1e-11 * math.fsum(abs(t) for t in vals) + 1e-300:
            return f"evaluation of the result at {fmt_pt(pt)} returned {got!r}, expected {s!r}"
    return None


def oracle(req, impl):
    # polynomials at the parser's exponent limit (65 537 coefficients) are judged coefficient-wise (exact) instead of by
    # sampled values; their final evaluation is judged when the non-zero terms are few and in range
    try:
        r = parse_request(req)
    except Exception as e:            # a malformed corpus line is a framework error, not a finding
        return f"oracle could not read the request: {e}"
    if r["cmd"] not in ("deriv", "pderiv", "chain", "chainm"):
        return None
    segs = parse_answer(r["cmd"], impl)
    rnd = random.Random(int(hashlib.md5(req.encode()).hexdigest()[:12], 16))
    cur = r["poly"]
    if cur[0] == "I":
        e = wf_exact(cur)
        if e and r["text"] is not None:
            return f"the parser returned an ill-formed polynomial for {r['text']!r}: {e}"
    i = 0
    for step in r["steps"]:
        if i >= len(segs):
            return "the answer has fewer segments than the request has steps"
        seg = segs[i]
        i += 1
        if step[0] in ("d", "D"):
            err = check_deriv_step(cur, step, seg, rnd)
            if err:
                return err
        else:
            if seg[0] == "panic":
                return "an integration step panicked"
            if seg[0] == "err" and step_variable(cur, step)[1] == "ok":
                return f"closure: indefinite_integral_univariate returned Err({seg[1]}) on a polynomial with <= 1 variable"
        if seg[0] != "ok":
            return None
        cur = seg[1]
    if r["cmd"] in ("chain", "chainm"):
        if i >= len(segs):
            return "the answer lacks the final evaluation"
        return check_final(cur, r, segs[i])
    return None


# ----------------------------------------------------------------------------- evidence helpers

_ERRKIND = re.compile(r"\berr [A-Za-z]+")


def strip_err_kinds(ans):
    """`err TooManyVariables` -> `err`: the statement names no error kind (which variant a refused call reports is
    incidental); Ok / Err / panic and everything inside an Ok answer is still compared"""
    return _ERRKIND.sub("err", ans)


def final_bound(p, req):
    """the bound `check_final` judges the final evaluation of polynomial p against: ('tol', bound) |
    ('range',) when a power / factor / partial product leaves the range of the oracle's rounding model (the order of the
    operations decides what over- / underflow does) | None when the oracle does not judge the value at all (outside the
    domain, several variables through the univariate entry point, ...)"""
    sp = sparse(p)
    if sp is None:
        return None
    if "x" in req:
        if p[0] == "I" and len(p[2]) > 1:
            return None
        names = all_vars(sp)
        if len(names) > 1 or not finite(req["x"]):
            return None
        pt = {n: Fraction(req["x"]) for n in names}
    else:
        binds = {}
        for n, val in req["binds"]:
            binds[n] = val
        if any(not finite(v) for v in binds.values()):
            return None
        if p[0] == "S":
            if len(binds) != 1:
                return None
            pt = {own_var(p): Fraction(list(binds.values())[0])}
        else:
            if not names_used(p) <= set(binds):
                return None
            pt = {n: Fraction(binds[n]) for n in names_used(p)}
    for n, xv in pt.items():
        if not in_domain([sp], n, xv):
            return None
    if all_integer(sp):
        if len(sp) > BIG:
            return None
        if p[0] == "S":
            xs = [Fraction(req["x"])] if "x" in req else [Fraction(val) for _, val in req["binds"] if finite(val)]
            if not top_power_in_range(p, xs):
                return ("range",)
        vals = term_values_exact(sp, pt, guard=True)
        if vals is None:
            return ("range",)
        nt = len(vals)
        deg = max([abs(e) for _, d in sp for e in d.values()] + [0])
        nv = max([len(d) for _, d in sp] + [0])
        return ("tol", (8 + 2 * nt + 2 * nv + 2 * deg) * U * sum(abs(t) for t in vals))
    try:
        vals = term_values_float(sp, pt)
        facs = [math.pow(float(pt[v]), float(e)) for _, d in sp for v, e in d.items()] + [float(c) for c, _ in sp]
    except (OverflowError, ValueError, ZeroDivisionError):
        return ("range",)
    mags = [abs(t) for t in vals + facs if t != 0]
    if not finite(math.fsum(vals)) or (mags and (max(mags) > 1e250 or min(mags) < 1e-250)):
        return ("range",)
    return ("tol", Fraction(1e-11 * math.fsum(abs(t) for t in vals) + 1e-300))


def compare(req, impl, model):
    """Token-wise (polynomials, Ok / Err / panic of every step; not the KIND of an error).  The VALUE of the final
    evaluation of a `chain` / `chainm` request - "evaluates at every point of the domain to the true derivative", a real
    number promised of a binary64 computation - is compared up to twice the rounding bound the oracle judges it against
    (relative to sum |term|: the natural scale when the terms of a derivative cancel); where a factor leaves the range of
    that rounding model only Ok / Err is compared."""
    from __main__ import default_compare
    si, sm = strip_err_kinds(impl), strip_err_kinds(model)
    d = default_compare(req, si, sm)
    if d is None:
        return None
    try:
        r = parse_request(req)
        if r["cmd"] not in ("chain", "chainm"):
            return d
        pi, pm = impl.rsplit(" | ", 1) if " | " in impl else ("", impl), model.rsplit(" | ", 1) if " | " in model else ("", model)
        # everything before the final evaluation must agree under the default rule
        if pi[0] or pm[0]:
            if default_compare(req, strip_err_kinds(pi[0]), strip_err_kinds(pm[0])) is not None:
                return d
        ti, tm = pi[1].split(), pm[1].split()
        if not (len(ti) == 2 and len(tm) == 2 and ti[0] == "ok" and tm[0] == "ok" and ti[1].startswith("f") and tm[1].startswith("f")):
            return d
        segs = parse_answer(r["cmd"], model)
        if len(segs) != len(r["steps"]) + 1 or any(sg[0] != "ok" for sg in segs[:-1]) or segs[-1][0] != "val":
            return d
        cur = segs[-2][1] if len(segs) >= 2 else r["poly"]
        fb = final_bound(cur, r)
    except Exception:
        return d
    if fb is None:
        return d
    if fb[0] == "range":
        return None
    a, b = f_of_bits(int(ti[1][1:])), f_of_bits(int(tm[1][1:]))
    if finite(a) and finite(b) and abs(Fraction(a) - Fraction(b)) <= 2 * fb[1]:
        return None
    return d


def nontrivial(req, model):
    if model.startswith("bad-request") or model == "panic":
        return False
    for part in model.split(" | "):
        t = part.split()
        if t and t[0] == "ok":
            t = t[1:]
        if len(t) >= 2 and t[0] == "I" and t[1] != "0":
            return True
        if len(t) >= 3 and t[0] == "S" and t[2] != "0":
            return True
    return False


def tag(req, model):
    try:
        t = Toks(req)
        skip_txt(t)
        cmd = t.tok()
        kind = t.tok()
    except Exception:
        return "unreadable"
    last = model.split(" | ")[-1].split()
    out = " ".join(last[:2]) if last and last[0] == "err" else (last[0] if last else "empty")
    if out not in ("ok", "panic") and not out.startswith("err"):
        out = "poly"
    return f"{cmd}:{kind}:{out}"
