"""C05 plug-in: exact-rational oracle for `definite_integral` and `romberg_definite`, written from the
property's statement (not from the Lean model).

Every float of a request is taken from its bit pattern as an exact `Fraction`.  For a univariate
polynomial  f = sum c_k x^k  on [a, b] with n segments, h = (b - a)/n, W = |b - a|, X = max(|a|, |b|):

  I      = sum c_k (b^(k+1) - a^(k+1)) / (k+1)                     (exact integral)
  B      = sum (k+1) |c_k| X^k                                     (>= max|f|, >= X max|f'| on the interval)
  slack  = 32 (n + 8) u W B,  u = 2^-53                            (rounding allowance, see below)
  M4     = min( sum k(k-1)(k-2)(k-3) |c_k| X^(k-4),
                sum_j |f^(4+j)(m)| (W/2)^j / j! )  >=  max |f''''| on the interval   (m = midpoint; Taylor, exact)

  simpson, n >= 2 : |v - I| <= slack                     if deg <= 3   ("exact to rounding")
                    |v - I| <= |b-a| h^4 M4 / 80 + slack otherwise
  simpson, n = 1  : |v - (b-a)(f(a)+f(b))/2| <= slack    ("it is the trapezoid rule"), and
                    |v - I| <= slack                     if deg <= 1
  romberg         : outcome is `ok` or `err MaxIterationsReached` (never a panic; polynomials that cannot be evaluated
                    through the univariate entry point - several variables / an undeclared one - are outside the
                    statement: only "no panic" is demanded of them), and
                    `ok v` with deg <= 3 has  |v - I| <= 1024 u W B  (= slack at n = 24: the finest trapezoid sum a
                    returned entry can rest on has 128 segments, derived bound (1.5*128 + 2*3 + 11) u W B = 209 u W B;
                    Richardson extrapolation multiplies rounding errors by prod (4^k+1)/(4^k-1) < 2)

Rounding allowance - every part is proportional to the interval width W, so that a result that is wrong by a
fraction of the integral of a NARROW interval is seen (an absolute allowance would swallow it).  The rule is
(h/d) sum_i w_i f(x_i) with (|h|/d) sum w_i = W exactly (it integrates constants exactly).
  * abscissae: h = fl(fl(b-a)/n) carries 2 roundings; the running `xi += 2h` (or `xi += h`, `end - h*i`) adds one
    rounding of size <= u X per step, so |dx_i| <= (n/2 + 4) u X; moving a sample by dx changes f by <= max|f'| dx:
    in the rule  W (n/2 + 4) u X max|f'|  <=  (n/2 + 4) u W B;
  * evaluations: powi / powf and the product err by <= (k + 2) u |c_k| |x|^k per term, the sum of the deg + 1 terms
    by <= (deg + 1) u sum |c_k||x|^k: together <= (2 deg + 3) u B per sample, in the rule (2 deg + 3) u W B;
  * weighted sum: n + 1 samples added one after the other, error <= n u sum w_i |f_i| <= n u (d n) max|f|; times
    |h|/d: n u W B; the last `h * sum / d` and the rounding of h: 4 u W B.
Total  <= (1.5 n + 2 deg + 11) u W B  (deg <= 12).  Measured on the unchanged code (thorough tier, seeds 0-2, 133 k
requests each, narrow / tiny / scaled / long families included): the worst |v - reference| is 0.26 (n + 8) u W B for
Simpson / trapezoid and 3.6 u W B for Romberg; the allowances 32 (n + 8) u W B and 1024 u W B leave a factor > 120
(Simpson) / > 280 (Romberg) and exceed the derived bounds.
Gradual underflow (absolute allowance, replaces the former blanket floor 2^-1000 so that results of size 2^-1000..2^-1074
are judged too).  Below 2^-1022 every product and every power errs by at most 2^-1075 in ABSOLUTE terms (sums of
subnormals and the weights 2 f, 3 f, 4 f are exact):
  * a subnormal segment width h = fl((b-a)/n) is off by up to 2^-1075, i.e. by 2^-1075/|h| relative: the rule moves by
    n 2^-1075 max|f|, and the abscissae drift by n 2^-1075, together <= 2 n 2^-1075 B;
  * each sample: sum_k (|c_k| + 1) 2^-1075 (x^k underflows, then c_k x^k), in the rule W sum_k (|c_k| + 1) 2^-1075;
  * the closing products h * sum / 3, 3 h * sum / 8 and the splice: <= 8 * 2^-1075.
Allowance 16 x that:  2^-1071 (2 n B + W sum_k (|c_k| + 1) + 8)   (Romberg: n = 512, the closing 64).

The edge of the range at the top ("non-finite result" is a failure only where the statement's own formula, evaluated in
the textbook order, stays inside binary64): b - a, every power X^k of a term the code evaluates (zero coefficients
included: 0 * inf is NaN), the weighted sample sums (<= (3 n + 8) B0, B0 = sum |c_k| X^k >= max|f|) and their products
with h and 3 h must stay below 2^1020; for Romberg the trapezoid sums (<= 1024 B0) and the Richardson products 4^k R
(<= 2^19 W B0).  For Simpson / trapezoid requests that fail this crude test - abscissae in the top binades included: the crude
test refuses every |x| >= 2^1020, although x itself is the only power a linear function needs - the rule is evaluated
literally at its exact nodes (`in_range_exact`, limit 2^1023 for every quantity the rule forms, abscissae up to 2^1024 - 2^990).
Beyond that the oracle abstains - an implementation may overflow there because the formula does.
"""
import struct
from fractions import Fraction

TOLS = [-1.0, 0.0, 1e-12, 1e-9, 1e-6, 1e-3, 0.1, 1.0, 10.0]
U = Fraction(1, 2 ** 53)

RULE = ("(round 5: interval ends that are exact roots of a derivative of the integrand - the k-th derivative is c (x-a)(x-b) q(x) [or with a double root at one end / the midpoint as a third root], k = 4 in most cases [degree 6..8] and k = 1, 2, 3, 5, 6, integrated k times with small-integer / dyadic coefficients so that the derivative evaluates to exactly 0.0 at both ends, n = 3..200, every representation; judged by the error-bound clause in exact rationals) (round 4: abscissae in the top binades - both interval ends between 2^1015 and f64::MAX, half of them beyond 2^1023, same sign or across 0, relative width 2^-50..1, degree 0 / 1 with slopes 2^-1030..2^-1010 or lifted to a few binades under the top - judged by evaluating the rule literally at its exact nodes [abscissae up to 2^1024 - 2^990 are in range when every quantity the rule forms stays below 2^1023]; repeated sample values: f equal at both ends / at ends and middle / at every node / at the first two nodes without being constant) (round 3, the edge of the number range: amplitudes that put the largest quantity of the rule - weighted sample sums, their products with h and 3 h - at 0.55..0.97 of 2^1023 or within 40 binades below the crude bound; amplitudes 2^-990..2^-1080 judged with an absolute underflow allowance of a few units of 2^-1074 instead of a blanket floor; widths that are small multiples of 2^-1074 under amplitudes of 2^900..2^1015; abscissae at 2^(1000/deg) with narrow [relative 2^-1..2^-50] and wide intervals; intervals wider than f64::MAX; abscissae inside the subnormal range) simpson: the segment counts 1,2,3,4,5,7 on every degree 0..8 x both polynomial types x four interval "
        "kinds, then every n in 1..200 x (10 quick / 400 thorough) random polynomials (half of degree <= 3, half 4..8; "
        "small dyadic coefficients; intervals dyadic, reversed, empty, symmetric, decimal, arbitrary); romberg: every "
        "cap 0..64 x every tolerance in {-1,0,1e-12,1e-9,1e-6,1e-3,0.1,1,10} x (5 quick / 61 thorough) polynomials "
        "incl. zero integrals, plus caps up to 2^32-1; hardening families: narrow intervals away from 0 (relative width "
        "2^-8..2^-46), tiny intervals at and next to 0 (2^-30..2^-90), coefficient scales 2^-100..2^60, every n in "
        "201..260 and around 2^9, 2^10, 2^12, 2^16, 2^17, 3*2^16, 2^18, 2^20, degrees 9..12, the zero polynomial in every "
        "shape, signed-zero bounds, caps around 2^8 / 2^16 / 2^31 / 2^32, tolerances NaN / +-inf / 5e-324 / 1e300, "
        "variables other than x and none at all, zero terms kept or dropped; non-trivial = the model returns a value "
        "(`ok`); distinct = distinct request lines")


def fr(bits):
    x = struct.unpack("<d", struct.pack("<Q", int(bits)))[0]
    if x != x or x in (float("inf"), float("-inf")):
        return None
    return Fraction(x)


class Bad(Exception):
    pass


def read_name(t, i):
    n = int(t[i]); i += 1
    s = "".join(chr(int(c)) for c in t[i:i + n])
    return s, i + n


def read_poly(t, i):
    """returns (terms [(coef, exponent)], univariate?, next index); `univariate?` False when the
    evaluation is expected to fail (several variables, undeclared variable, non-natural exponent)"""
    kind = t[i]; i += 1
    if kind == "S":
        i += 1  # variable
        n = int(t[i]); i += 1
        cs = [fr(b) for b in t[i:i + n]]
        return [(c, k) for k, c in enumerate(cs)], all(c is not None for c in cs), i + n
    if kind != "I":
        raise Bad("polynomial kind")
    nt = int(t[i]); i += 1
    terms, ok, used = [], True, set()
    for _ in range(nt):
        c = fr(t[i]); i += 1
        nv = int(t[i]); i += 1
        e = 0
        for _ in range(nv):
            v, i = read_name(t, i)
            p = fr(t[i]); i += 1
            used.add(v)
            if p is None or p.denominator != 1 or p < 0:
                ok = False
            else:
                e += int(p)
        if c is None:
            ok = False
        terms.append((c, e))
    m = int(t[i]); i += 1
    declared = []
    for _ in range(m):
        v, i = read_name(t, i)
        declared.append(v)
    if len(declared) > 1 or not used <= set(declared[:1]):
        ok = False
        global MUSTFAIL
        MUSTFAIL = True
    return terms, ok, i


MUSTFAIL = False   # set by read_poly: eval_univariate cannot succeed (several variables / an undeclared variable)


def parse(req):
    global MUSTFAIL
    MUSTFAIL = False
    t = req.split()
    cmd = t[0]
    terms, uni, i = read_poly(t, 1)
    a, b = fr(t[i]), fr(t[i + 1])
    if cmd == "simpson":
        return cmd, terms, uni, a, b, int(t[i + 2]), None
    return cmd, terms, uni, a, b, int(t[i + 2]), t[i + 3]


def degree(terms):
    d = {}
    for c, e in terms:
        d[e] = d.get(e, 0) + c
    ks = [e for e, c in d.items() if c != 0]
    return max(ks) if ks else 0


def integral(terms, a, b):
    return sum(c * (b ** (e + 1) - a ** (e + 1)) / (e + 1) for c, e in terms)


def value(terms, x):
    return sum(c * x ** e for c, e in terms)


def slack(terms, a, b, n, romberg=False):
    W = abs(b - a)
    X = max(abs(a), abs(b))
    B = sum((e + 1) * abs(c) * X ** e for c, e in terms)
    nn, closing = (512, 64) if romberg else (n, 8)
    floor = Fraction(1, 2 ** 1071) * (2 * nn * B + W * sum(abs(c) + 1 for c, _ in terms) + closing)
    return 32 * (n + 8) * U * W * B + floor


TOP = 2 ** 1020


def in_range(terms, a, b, n, romberg):
    """does the textbook evaluation of the rule stay inside binary64 (see the module docstring)?"""
    W = abs(b - a)
    X = max(abs(a), abs(b))
    crude = W < TOP and not (X > 1 and any(X ** e >= TOP for _, e in terms))
    B0 = sum(abs(c) * X ** e for c, e in terms)
    if romberg:
        return crude and B0 * max(1024, 2 ** 19 * W) < TOP
    h = W / max(n, 1)
    if crude and (3 * n + 8) * B0 * max(1, 3 * h) < TOP:
        return True
    return in_range_exact(terms, a, b, n)


LIM = 2 ** 1023
# the largest abscissa judged at the top: the nodes the code forms (`xi += 2 h`, `xi - h`, `end - h i`) drift from the exact
# nodes by at most (n/2 + 4) u X <= 2^-41 X for n <= 4096; 2^1024 - 2^990 leaves that room below f64::MAX = 2^1024 - 2^970
NODE_LIM = 2 ** 1024 - 2 ** 990


def in_range_exact(terms, a, b, n):
    """The rule evaluated literally at its exact nodes a + i h: every term c_k x^k, every sample, the weighted sums of the
    1/3 part and of the 3/8 panel taken with ABSOLUTE values (so that every partial sum in any order is covered), and
    their products with h and 3 h stay below 2^1023 - one binade under the largest double, which absorbs the rounding
    of the nodes and of the sums.  Within these limits the code's own order of operations cannot overflow, and an
    implementation that does (3 * sum before * h, a scaled accumulator, ...) is wrong "although every term, every
    in-order partial sum and the result are finite".
    The quantities of the statement's formula are the width b - a, h, 2 h, 3 h (all <= 1.5 W for n >= 2), the nodes, the
    powers x^k of the terms (zero coefficients included: 0 * inf is NaN), the samples, the weighted sums and their products
    with h: the ABSCISSAE themselves may lie anywhere up to NODE_LIM - a linear function with a slope of 2^-1022 on
    [2^1023, 1.0009 * 2^1023] is an ordinary problem whose nodes, samples, sums and integral are all finite; forming
    `left + xi` or `(b - a) * i` there overflows although nothing in the rule does."""
    if n < 1 or n > 4096:
        return False
    if abs(b - a) >= LIM or max(abs(a), abs(b)) > NODE_LIM:
        return False
    h = (b - a) / n
    fs = []
    for i in range(n + 1):
        x = a + i * h
        ax = abs(x)
        if ax > 1 and any(e >= 2 and ax ** e >= LIM for _, e in terms):
            return False
        if sum(abs(c) * ax ** e for c, e in terms) >= LIM:
            return False
        fs.append(abs(value(terms, x)))
    ah = abs(h)
    if n == 1:
        return fs[0] + fs[1] < LIM and ah * (fs[0] + fs[1]) < LIM
    m = n
    if n % 2 == 1:
        s8 = fs[n - 3] + 3 * fs[n - 2] + 3 * fs[n - 1] + fs[n]
        if s8 >= LIM or 3 * ah * s8 >= LIM:
            return False
        m = n - 3
    if m >= 2:
        s13 = fs[0] + fs[m] + sum((4 if i % 2 == 1 else 2) * fs[i] for i in range(1, m))
        if s13 >= LIM or ah * s13 >= LIM:
            return False
    return True


def fact(j):
    r = 1
    for i in range(2, j + 1):
        r *= i
    return r


def m4(terms, a, b):
    # an upper bound of max |f(4)| on the interval: the smaller of the crude sum at X = max(|a|,|b|) and the Taylor
    # expansion of f(4) about the midpoint (exact for a polynomial)
    X = max(abs(a), abs(b))
    crude = sum(e * (e - 1) * (e - 2) * (e - 3) * abs(c) * X ** (e - 4) for c, e in terms if e >= 4)
    m, r = (a + b) / 2, abs(b - a) / 2
    top = max([e for _, e in terms] + [0])
    taylor = Fraction(0)
    for j in range(0, top - 3):
        # f^(4+j)(m) = sum_k k!/(k-4-j)! c_k m^(k-4-j)
        d = sum(Fraction(fact(e), fact(e - 4 - j)) * c * m ** (e - 4 - j) for c, e in terms if e >= 4 + j)
        taylor += abs(d) * r ** j / fact(j)
    return min(crude, taylor)


def oracle(req, impl):
    try:
        cmd, terms, uni, a, b, n, tol = parse(req)
    except (Bad, IndexError, ValueError):
        return "oracle could not read the request"
    out = impl.split()
    if not out:
        return "empty observation"
    if out[0] == "panic":
        return "the integrator panicked"
    if MUSTFAIL:
        # the polynomial cannot be evaluated through the univariate entry point (several / undeclared variables): it is
        # not one of the statement's "polynomials of degree 0..8", so no clause applies beyond "never a panic" (above).
        # That the evaluation error comes back as `err FunctionError` is what the model does and what K compares
        # (ok vs err); S does not name it a failing input of C05.
        return None
    if not uni or a is None or b is None:
        return None  # not a univariate polynomial / non-finite interval: no clause of the property applies
    if out[0] == "err" and out[1] == "FunctionError":
        return "evaluation error on a valid univariate polynomial: " + " ".join(out)
    I = integral(terms, a, b)
    deg = degree(terms)
    if cmd == "simpson":
        if n == 0:
            return None
        if out[0] != "ok":
            return "definite_integral returned " + " ".join(out)
        v = fr(out[1][1:])
        if v is None:
            return "non-finite result" if in_range(terms, a, b, n, False) else None
        sl = slack(terms, a, b, n)
        if n == 1:
            trap = (b - a) * (value(terms, a) + value(terms, b)) / 2
            if abs(v - trap) > sl:
                return "one segment: result %s is not the trapezoid value %s (slack %.3g)" % (float(v), float(trap), float(sl))
            if deg <= 1 and abs(v - I) > sl:
                return "one segment, degree %d: |result - integral| = %.3g > %.3g" % (deg, float(abs(v - I)), float(sl))
            return None
        h = (b - a) / n
        if deg <= 3:
            if abs(v - I) > sl:
                return "degree %d, n=%d: not exact: |result - integral| = %.3g > rounding slack %.3g" % (
                    deg, n, float(abs(v - I)), float(sl))
            return None
        bound = abs(b - a) * h ** 4 * m4(terms, a, b) / 80 + sl
        if abs(v - I) > bound:
            return "degree %d, n=%d: |result - integral| = %.3g > |b-a| h^4 max|f''''|/80 + slack = %.3g" % (
                deg, n, float(abs(v - I)), float(bound))
        return None
    # romberg
    if out[0] == "err":
        return None if out[1] == "MaxIterationsReached" else "unexpected error " + " ".join(out)
    if out[0] != "ok":
        return "unexpected outcome " + " ".join(out)
    v = fr(out[1][1:])
    if v is None:
        return "non-finite result" if in_range(terms, a, b, 1, True) else None
    if deg <= 3:
        sl = slack(terms, a, b, 24, True)      # 1024 u W B
        if abs(v - I) > sl:
            return "romberg, degree %d: returned value off by %.3g > rounding slack %.3g" % (
                deg, float(abs(v - I)), float(sl))
    return None


# ----------------------------------------------------------------------------- K: model vs implementation
#
# The statement fixes the value of the Simpson / trapezoid rule only "to rounding" (and Romberg's to the exact
# integral for degree <= 3), so the correspondence must not demand more bits than that: an implementation that adds
# the same weighted samples in another order (two accumulators, 3(f1+f2) for 3f1+3f2, ...) is as good as the model's
# order.  The framework's default rule (bit-equal, both NaN, or 1e-9 relative TO THE RESULT) is too strict exactly
# where the integral cancels (odd integrand on a symmetric interval, 2x-1 on [0,1]): the result is then rounding
# noise of size ~u W B around 0 and two correct summation orders differ by 100 % of it.  The natural scale of a
# request is W B (width x size of the integrand), the scale every term of the oracle's allowance is proportional to;
# two answers are taken to agree when they differ by at most the allowance S grants a single answer:
#     simpson / trapezoid :  32 (n + 8) u W B        romberg :  1024 u W B
# (distance of two correct summation orders of the same samples: <= 2 (n + 4) u W B for Simpson, <= 2 * 2 (128 + 4) u W B
# for a Romberg entry resting on 128 segments; measured on the re-associated Simpson sums of seeded/C05-b2: <= 0.4 u W B.
# A wrong rule is off by a fraction of W B itself - 1e10 times more - and S judges every implementation answer against
# the exact integral with the same allowance, so nothing the statement forbids can hide in it.)
# Still exact: ok vs err vs panic, the error being the non-convergence error (the statement names it) or an evaluation
# error; WHICH evaluation error (kind of the PolynomialError) the statement does not say - not compared.

def _fbits(tok):
    if len(tok) < 2 or tok[0] != "f" or not tok[1:].isdigit():
        return None
    return struct.unpack("<d", struct.pack("<Q", int(tok[1:])))[0]


def _default_close(x, y):
    """the framework's rule for two floats: equal, both NaN, or within 1e-9 relative"""
    if x != x or y != y:
        return x != x and y != y
    if x == y:
        return True
    if x in (float("inf"), float("-inf")) or y in (float("inf"), float("-inf")):
        return False
    return abs(x - y) <= 1e-9 * max(abs(x), abs(y), 1e-300)


def compare(req, impl, model):
    ti, tm = impl.split(), model.split()
    if ti == tm:
        return None
    if not ti or not tm:
        return "empty answer: impl %r model %r" % (impl, model)
    if ti[0] != tm[0]:
        return "field 0: impl %s model %s" % (ti[0], tm[0])
    if ti[0] == "err":
        # `err MaxIterationsReached` | `err FunctionError <kind>`: the class of the error is compared, the kind of the
        # evaluation error is not
        if len(ti) > 1 and len(tm) > 1 and ti[1] == tm[1]:
            return None
        return "field 1: impl %s model %s" % (" ".join(ti[1:2]), " ".join(tm[1:2]))
    if ti[0] == "ok" and len(ti) == 2 and len(tm) == 2:
        x, y = _fbits(ti[1]), _fbits(tm[1])
        if x is None or y is None:
            return "field 1: impl %s model %s" % (ti[1], tm[1])
        if _default_close(x, y):
            return None
        try:
            cmd, terms, uni, a, b, n, tol = parse(req)
        except (Bad, IndexError, ValueError):
            return "field 1: impl %s model %s" % (ti[1], tm[1])
        vx, vy = fr(ti[1][1:]), fr(tm[1][1:])
        if uni and a is not None and b is not None and vx is not None and vy is not None and not (cmd == "simpson" and n == 0):
            allow = slack(terms, a, b, n if cmd == "simpson" else 24, cmd != "simpson")
            if abs(vx - vy) <= allow:
                return None
            return "field 1: impl %s model %s (differ by %.3g, more than the rounding allowance %.3g)" % (
                ti[1], tm[1], float(abs(vx - vy)), float(allow))
        return "field 1: impl %s model %s" % (ti[1], tm[1])
    if len(ti) != len(tm):
        return "different number of fields"
    return "impl %s model %s" % (impl[:60], model[:60])


def nontrivial(req, model):
    return model.startswith("ok ")


def tag(req, model):
    t = req.split()
    out = model.split()
    kind = out[0] + ("" if out[0] != "err" else ":" + out[1]) if out else "empty"
    if t[0] == "simpson":
        n = int(t[-1])
        cls = "n=%d" % n if n in (0, 1, 2, 3) else ("even" if n % 2 == 0 else "odd>=5")
        return "simpson:%s:%s:%s" % (t[1], cls, kind)
    cap = int(t[-2])
    return "romberg:%s:%s:%s" % (t[1], "cap<=8" if cap <= 8 else "cap>8", kind)


def finish(rows, tier):
    """whole-run obligation: every cap 0..64 x every tolerance was exercised, and none panicked"""
    tolbits = {struct.unpack("<Q", struct.pack("<d", x))[0] for x in TOLS}
    seen, panics = set(), 0
    for (req, impl, horc, model) in rows:
        t = req.split()
        if t[0] != "romberg":
            continue
        cap, tb = int(t[-2]), int(t[-1])
        if cap <= 64 and tb in tolbits:
            seen.add((cap, tb))
        if impl.startswith("panic"):
            panics += 1
    want = 65 * len(tolbits)
    if len(rows) <= 1:
        return []
    return ["romberg cap x tolerance grid: %d/%d cells exercised, %d panics" % (len(seen), want, panics)]
