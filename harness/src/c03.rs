//! C03 — symbolic derivatives are the derivative, and stay usable polynomials.
//!
//! Requests (lean/SV/Model/C03.lean): the shared `deriv` / `pderiv` / `chain` of polyops.rs, plus
//!
//!     chainm <poly> <k> steps… <n> { <name> <value> }*     chain ended by eval_multivariate
//!     txt <text> <any request>                              the text the polynomial was parsed from
//!                                                           (ignored; documents the replay)
//!
//! Every polynomial on the wire comes out of the REAL parsers (`PolynomialTraits::parse` of both
//! types) applied to texts produced by the grammar generators below.  The value oracle lives in
//! tools/props/c03.py (exact rationals); the closure oracle ("every operation that is Ok on the
//! source is Ok on its derivative") is evaluated here because it needs the implementation.
use crate::polyio::*;
use crate::polyops;
use crate::util::*;
use spindalis_core::derivatives::intermediate::partial_derivative;
use spindalis_core::derivatives::simple::simple_derivative;
use spindalis_core::polynomials::structs::{IntermediatePolynomial, PolynomialTraits, SimplePolynomial};
use spindalis_core::polynomials::Term;

// ---------------------------------------------------------------- running one request

/// strips the optional `txt <n> cp…` prefix
pub fn strip_txt(line: &str) -> String {
    let toks: Vec<&str> = line.split_ascii_whitespace().collect();
    if toks.first() == Some(&"txt") {
        let n: usize = toks[1].parse().expect("txt length");
        toks[2 + n..].join(" ")
    } else {
        toks.join(" ")
    }
}

#[derive(Clone)]
pub enum Step {
    D,
    I,
    DV(String),
    JV(String),
}

pub fn read_step(t: &mut Toks) -> Step {
    match t.tok() {
        "d" => Step::D,
        "i" => Step::I,
        "D" => Step::DV(t.string()),
        "J" => Step::JV(t.string()),
        s => panic!("step {s}"),
    }
}

pub fn apply_step(p: &AnyPoly, s: &Step) -> Result<AnyPoly, spindalis_core::polynomials::PolynomialError> {
    match s {
        Step::D => polyops::deriv_uni(p),
        Step::I => polyops::integ_uni(p),
        Step::DV(v) => Ok(polyops::deriv_multi(p, v)),
        Step::JV(v) => Ok(polyops::integ_multi(p, v)),
    }
}

/// `ok` / `err Kind` / `panic` of every entry point on one polynomial (values dropped)
pub fn statuses(p: &AnyPoly, x: f64, names: &[String]) -> Vec<(String, String)> {
    fn st<T>(r: Option<Result<T, spindalis_core::polynomials::PolynomialError>>) -> String {
        match r {
            None => "panic".into(),
            Some(Ok(_)) => "ok".into(),
            Some(Err(e)) => format!("err {}", err_kind(&e)),
        }
    }
    let mut out = Vec::new();
    out.push(("eval_univariate".to_string(), st(catch(|| polyops::eval_uni(p, x)))));
    out.push(("derivate_univariate".to_string(), st(catch(|| polyops::deriv_uni(p)))));
    out.push(("indefinite_integral_univariate".to_string(), st(catch(|| polyops::integ_uni(p)))));
    let binds: Vec<(String, f64)> = names.iter().map(|n| (n.clone(), x)).collect();
    out.push(("eval_multivariate".to_string(), st(catch(|| polyops::eval_multi(p, &binds)))));
    for n in names.iter().take(2) {
        out.push((format!("derivate_multivariate({n})"), st(catch(|| Ok(polyops::deriv_multi(p, n))))));
        out.push((format!("indefinite_integral_multivariate({n})"), st(catch(|| Ok(polyops::integ_multi(p, n))))));
    }
    out
}

/// closure clause: whatever is Ok on the source is Ok on the result of a derivative step
pub fn closure(src: &AnyPoly, res: &AnyPoly, x: f64) -> Result<(), String> {
    // names bound for eval_multivariate: every variable of the source (so the source evaluates)
    let mut names: Vec<String> = match src {
        AnyPoly::S(_) => vec!["x".to_string()],
        AnyPoly::I(q) => {
            let mut v: Vec<String> = q.terms.iter().flat_map(|t| t.variables.iter().map(|v| v.0.clone())).collect();
            v.sort();
            v.dedup();
            v
        }
    };
    if names.is_empty() {
        names.push("x".to_string());
    }
    let a = statuses(src, x, &names);
    let b = statuses(res, x, &names);
    for ((op, sa), (_, sb)) in a.iter().zip(b.iter()) {
        if sa == "ok" && sb != "ok" {
            return Err(format!("closure: {op} is ok on the source but `{sb}` on its derivative"));
        }
    }
    Ok(())
}

fn same_f(a: f64, b: f64) -> bool {
    a.to_bits() == b.to_bits() || (a.is_nan() && b.is_nan())
}
/// coefficients of two routes to the same derivative / integral: each is within 2 roundings of the exact `c * p` /
/// `c / (p + 1)` (what tools/props/c03.py / c04.py demand of the route that is observed), so they differ by at most 4;
/// exponents and structure are compared exactly
fn same_c(a: f64, b: f64) -> bool {
    same_f(a, b) || a == b || (a.is_finite() && b.is_finite() && (a - b).abs() <= 2f64.powi(-51) * a.abs().max(b.abs()))
}
pub fn same_terms(a: &[Term], b: &[Term]) -> bool {
    a.len() == b.len()
        && a.iter().zip(b.iter()).all(|(s, t)| {
            same_c(s.coefficient, t.coefficient)
                && s.variables.len() == t.variables.len()
                && s.variables.iter().zip(t.variables.iter()).all(|(u, v)| u.0 == v.0 && same_f(u.1, v.1))
        })
}
pub fn same_coeffs(a: &[f64], b: &[f64]) -> bool {
    a.len() == b.len() && a.iter().zip(b.iter()).all(|(x, y)| same_c(*x, *y))
}

/// the free functions `simple_derivative` / `partial_derivative` (owned and borrowed variable name) and the trait
/// methods duplicate each other: the result `res` of a derivative step must be what the free function gives
pub fn free_agrees(src: &AnyPoly, s: &Step, res: &AnyPoly) -> Result<(), String> {
    match (src, s, res) {
        (AnyPoly::S(q), Step::D, AnyPoly::S(r)) => {
            let f = catch(|| simple_derivative(q)).ok_or("simple_derivative panicked")?;
            if !same_coeffs(&f.coefficients, &r.coefficients) || f.variable != r.variable {
                return Err("derivate_univariate differs from simple_derivative on the same polynomial".into());
            }
        }
        (AnyPoly::S(q), Step::DV(v), AnyPoly::S(r)) => {
            if v.chars().next() == q.variable {
                let f = catch(|| simple_derivative(q)).ok_or("simple_derivative panicked")?;
                if !same_coeffs(&f.coefficients, &r.coefficients) || f.variable != r.variable {
                    return Err(format!("derivate_multivariate({v:?}) differs from simple_derivative on the same polynomial"));
                }
            }
        }
        (AnyPoly::I(q), Step::D, AnyPoly::I(r)) => {
            let var = q.variables.first().cloned().unwrap_or_else(|| "x".to_string());
            let f = catch(|| partial_derivative(&q.terms, &var)).ok_or("partial_derivative panicked")?;
            if !same_terms(&f.terms, &r.terms) {
                return Err(format!("derivate_univariate differs from partial_derivative(terms, {var:?})"));
            }
        }
        (AnyPoly::I(q), Step::DV(v), AnyPoly::I(r)) => {
            let f = catch(|| partial_derivative(&q.terms, v.as_str())).ok_or("partial_derivative panicked")?;
            let g = catch(|| partial_derivative(&**q, v.clone())).ok_or("partial_derivative panicked")?;
            if !same_terms(&f.terms, &r.terms) || f.variables != r.variables || !same_terms(&g.terms, &r.terms) || g.variables != r.variables {
                return Err(format!("derivate_multivariate({v:?}) differs from partial_derivative(terms, {v:?})"));
            }
        }
        _ => {}
    }
    Ok(())
}

fn answer(line: &str) -> (String, Result<(), String>) {
    let mut t = Toks::new(line);
    let cmd = t.tok();
    let x0 = 1.5;
    match cmd {
        "deriv" => {
            let p = read_any(&mut t);
            let ans = polyops::answer(line);
            let verdict = match polyops::deriv_uni(&p) {
                Ok(q) => closure(&p, &q, x0).and_then(|_| free_agrees(&p, &Step::D, &q)),
                Err(_) => Ok(()),
            };
            (ans, verdict)
        }
        "pderiv" => {
            let p = read_any(&mut t);
            let v = t.string();
            let ans = polyops::answer(line);
            let q = polyops::deriv_multi(&p, &v);
            (ans, closure(&p, &q, x0).and_then(|_| free_agrees(&p, &Step::DV(v.clone()), &q)))
        }
        "chain" | "chainm" => {
            let mut p = read_any(&mut t);
            let k = t.usize();
            let mut out: Vec<String> = Vec::new();
            let mut verdict = Ok(());
            for _ in 0..k {
                let s = read_step(&mut t);
                match apply_step(&p, &s) {
                    Ok(q) => {
                        out.push(format!("ok {}", show_any(&q)));
                        if matches!(s, Step::D | Step::DV(_)) && verdict.is_ok() {
                            verdict = closure(&p, &q, x0).and_then(|_| free_agrees(&p, &s, &q));
                        }
                        p = q;
                    }
                    Err(e) => {
                        out.push(format!("err {}", err_kind(&e)));
                        return (out.join(" | "), verdict);
                    }
                }
            }
            if cmd == "chain" {
                let x = t.f64();
                out.push(show_eval(&polyops::eval_uni(&p, x)));
            } else {
                let n = t.usize();
                let binds: Vec<(String, f64)> = (0..n).map(|_| (t.string(), t.f64())).collect();
                out.push(show_eval(&polyops::eval_multi(&p, &binds)));
            }
            (out.join(" | "), verdict)
        }
        _ => (polyops::answer(line), Ok(())),
    }
}

pub fn run(line: &str) -> Obs {
    let line = strip_txt(line);
    match catch(|| answer(&line)) {
        Some((s, v)) => Obs::with(s, v),
        None => Obs::with("panic".into(), Err("the operation panicked".into())),
    }
}

// ---------------------------------------------------------------- text generators (grammar of both parsers)

fn coef_text(rng: &mut Rng, allow_fraction: bool, allow_empty: bool) -> String {
    loop {
        let k = rng.below(9);
        let s = match k {
            0 | 1 => String::new(),
            2 | 3 => format!("{}", rng.range(1, 12)),
            4 => format!("{}.{}", rng.range(0, 9), rng.range(0, 99)),
            5 => format!(".{}", rng.range(1, 99)),
            6 => format!("{}.", rng.range(1, 9)),
            7 => format!("{}/{}", rng.range(1, 9), rng.range(1, 9)),
            _ => "0".to_string(),
        };
        if s.is_empty() && !allow_empty {
            continue;
        }
        if s.contains('/') && !allow_fraction {
            continue;
        }
        return s;
    }
}

fn exponent_text(rng: &mut Rng) -> String {
    match rng.below(12) {
        0 | 1 | 2 => String::new(),
        3 | 4 => format!("^{}", rng.range(1, 6)),
        5 => "^0".to_string(),
        6 => format!("^-{}", rng.range(1, 4)),
        7 => format!("^{}.{}", rng.range(0, 3), *rng.pick(&[5, 25, 75, 5])),
        8 => format!("^{}/{}", rng.range(1, 7), rng.range(2, 4)),
        9 => format!("^-{}/{}", rng.range(1, 5), rng.range(2, 4)),
        10 => "^1".to_string(),
        _ => format!("^{}", rng.range(2, 3)),
    }
}

fn join_terms(rng: &mut Rng, terms: &[(bool, String)]) -> String {
    let mut s = String::new();
    for (i, (neg, body)) in terms.iter().enumerate() {
        let sp = rng.chance(2, 3);
        if i == 0 {
            if *neg {
                s.push('-');
                if rng.chance(1, 4) {
                    s.push(' ');
                }
            }
        } else {
            if sp {
                s.push(' ');
            }
            s.push(if *neg { '-' } else { '+' });
            if sp {
                s.push(' ');
            }
        }
        s.push_str(body);
    }
    if rng.chance(1, 10) {
        s = format!(" {s} ");
    }
    s
}

/// text of the multivariate grammar: terms with 0–3 variables in any order, repeated variables
/// ("xx", "x^2x"), every coefficient and exponent form, constants
pub fn gen_inter_text(rng: &mut Rng) -> String {
    let pools: [&[&str]; 6] = [&["x"], &["x", "y"], &["x", "y", "z"], &["t", "a", "X"], &["y"], &["b", "a"]];
    let pool = *rng.pick(&pools);
    let nterms = match rng.below(10) {
        0 => 0,
        1 | 2 => 1,
        _ => rng.range(1, 5) as usize,
    };
    let mut terms = Vec::new();
    for _ in 0..nterms {
        let nv = match rng.below(8) {
            0 | 1 => 0,
            2 | 3 | 4 => 1,
            5 | 6 => 2,
            _ => 3,
        };
        let mut body = coef_text(rng, true, nv > 0);
        for _ in 0..nv {
            body.push_str(*rng.pick(pool));
            body.push_str(&exponent_text(rng));
        }
        terms.push((rng.chance(1, 3), body));
    }
    join_terms(rng, &terms)
}

/// text of the univariate grammar (dense type): one letter, natural exponents
pub fn gen_simple_text(rng: &mut Rng) -> String {
    let var = *rng.pick(&["x", "x", "y", "t", "z"]);
    let nterms = match rng.below(10) {
        0 => 0,
        1 | 2 => 1,
        _ => rng.range(1, 6) as usize,
    };
    let mut terms = Vec::new();
    for _ in 0..nterms {
        let body = match rng.below(6) {
            0 | 1 => coef_text(rng, false, false),
            2 => format!("{}{}", coef_text(rng, false, true), var),
            _ => format!("{}{}^{}", coef_text(rng, false, true), var, rng.range(0, 9)),
        };
        terms.push((rng.chance(1, 3), body));
    }
    join_terms(rng, &terms)
}

const ALPHA: &str = "abcdefghijklmnopqrstuvwxyzABCDEFGHIJKLMNOPQRSTUVWXYZ";

fn hard_exponent_text(rng: &mut Rng) -> String {
    match rng.below(6) {
        0 => format!("^{}", *rng.pick(&["300", "-300", "1000", "-1000", "255", "256", "257", "65535", "65536", "65537", "4294967296", "4294967297", "100", "64"])),
        1 => format!("^{}", *rng.pick(&["0.0000001", "1.0000001", "0.9999999", "1.000000000001", "0.000000000001", "2.0000000001", "-0.0000001", "1.5", "0.1", "2.75", "-1.5", "1.000000000000001", "0.999999999999999", "1.0000000000000002", "0.9999999999999999", "1.00000001", "0.99999"])),
        // equal to 1 / 0 / 2 only after parsing
        2 => format!("^{}", *rng.pick(&["1.0", "2/2", "01", "0.99999999999999999999", "1.00000000000000000001", "3/3", "0.0", "-0", "0/7", "00", "2.0", "4/2", "1.", "0.5/0.5"])),
        3 => format!("^{}/{}", rng.range(1, 40), rng.range(2, 12)),
        4 => format!("^-{}/{}", rng.range(1, 20), rng.range(2, 9)),
        _ => exponent_text(rng),
    }
}

/// harder texts of the multivariate grammar: coefficients of extreme magnitude / length, extreme exponents, exponents
/// that meet 1 or 0 only after parsing or after merging a repeated variable, upper/lower-case pairs and every letter,
/// 6..40 terms, up to 12 variables in a term
pub fn gen_inter_text_hard(rng: &mut Rng) -> String {
    match rng.below(6) {
        0 => {
            // wide coefficients
            let pool: &[&str] = *rng.pick(&[&["x"][..], &["x", "y"][..], &["t", "a", "X"][..]]);
            let n = rng.range(1, 4) as usize;
            let mut terms = Vec::new();
            for _ in 0..n {
                let nv = rng.below(3);
                let mut body = crate::c02::wide_coeff(rng).text;
                for _ in 0..nv {
                    body.push_str(*rng.pick(pool));
                    body.push_str(&exponent_text(rng));
                }
                terms.push((rng.chance(1, 3), body));
            }
            join_terms(rng, &terms)
        }
        1 => {
            // extreme exponents
            let pool: &[&str] = *rng.pick(&[&["x"][..], &["x", "y"][..], &["y"][..], &["b", "a"][..]]);
            let n = rng.range(1, 3) as usize;
            let mut terms = Vec::new();
            for _ in 0..n {
                let nv = rng.range(1, 2);
                let mut body = coef_text(rng, true, true);
                for _ in 0..nv {
                    body.push_str(*rng.pick(pool));
                    body.push_str(&hard_exponent_text(rng));
                }
                terms.push((rng.chance(1, 3), body));
            }
            join_terms(rng, &terms)
        }
        2 => {
            // a repeated variable whose exponents add up to 1, 0, -1, 2 (exactly, or only after rounding)
            let v = *rng.pick(&["x", "y", "t", "X"]);
            let w = *rng.pick(&["y", "a", "x", "Z"]);
            let pat = *rng.pick(&[
                "V^1/3V^2/3", "V^0.5V^0.5", "V^2V^-1", "V^3V^-3", "V^-2V", "V^0.25V^0.75", "VV^0", "V^-1V^2W", "WV^1/2V^1/2", "V^0.1V^0.2V^0.7",
                "V^-1/2V^-1/2", "V^1/3V^1/3V^1/3", "V^2/3V^2/3V^2/3", "VWV^-1", "V^1.5V^-0.5W^2", "V^0.3V^0.7", "V^-0.5V^1.5", "V^4V^-2", "V^0.1V^-0.1W",
            ]);
            let body = pat.replace('V', v).replace('W', if w == v { "q" } else { w });
            let mut terms = vec![(rng.chance(1, 3), format!("{}{}", coef_text(rng, true, true), body))];
            if rng.chance(1, 2) {
                terms.push((rng.chance(1, 2), format!("{}{}{}", coef_text(rng, true, true), v, exponent_text(rng))));
            }
            join_terms(rng, &terms)
        }
        3 => {
            // upper/lower-case pairs and arbitrary letters
            let c = ALPHA.chars().nth(rng.below(52) as usize).unwrap();
            let o = if c.is_ascii_lowercase() { c.to_ascii_uppercase() } else { c.to_ascii_lowercase() };
            let d = ALPHA.chars().nth(rng.below(52) as usize).unwrap();
            let pool = [c.to_string(), o.to_string(), d.to_string()];
            let n = rng.range(1, 4) as usize;
            let mut terms = Vec::new();
            for _ in 0..n {
                let nv = rng.range(1, 3);
                let mut body = coef_text(rng, true, true);
                for _ in 0..nv {
                    body.push_str(rng.pick(&pool[..]).as_str());
                    body.push_str(&exponent_text(rng));
                }
                terms.push((rng.chance(1, 3), body));
            }
            join_terms(rng, &terms)
        }
        4 => {
            // many terms
            let pool = ["x", "y", "z"];
            let n = rng.range(6, 40) as usize;
            let mut terms = Vec::new();
            for _ in 0..n {
                let nv = rng.below(3);
                let mut body = coef_text(rng, true, nv > 0);
                for _ in 0..nv {
                    body.push_str(*rng.pick(&pool));
                    body.push_str(&exponent_text(rng));
                }
                terms.push((rng.chance(1, 3), body));
            }
            join_terms(rng, &terms)
        }
        _ => {
            // many variables in one term
            let nv = rng.range(4, 12) as usize;
            let mut letters: Vec<char> = ALPHA.chars().collect();
            for i in (1..letters.len()).rev() {
                letters.swap(i, rng.below(i as u64 + 1) as usize);
            }
            let mut body = coef_text(rng, true, true);
            for c in letters.iter().take(nv) {
                body.push(*c);
                body.push_str(&exponent_text(rng));
            }
            let mut terms = vec![(rng.chance(1, 3), body)];
            if rng.chance(1, 2) {
                terms.push((false, format!("{}{}", letters[nv - 1], letters[0])));
            }
            join_terms(rng, &terms)
        }
    }
}

/// harder texts of the univariate grammar: degrees 6..70, the powers around 255 / 256 / 1000, coefficients of extreme
/// magnitude / length, equal powers that merge or cancel, other letters
pub fn gen_simple_text_hard(rng: &mut Rng) -> String {
    let var = *rng.pick(&["x", "y", "X", "Q", "e", "é", "λ", "k"]);
    let top: i64 = match rng.below(8) {
        0 => *rng.pick(&[255, 256, 257, 511, 512, 1000, 1023, 1024, 1025]),
        _ => rng.range(6, 70),
    };
    let n = rng.range(1, 6) as usize;
    let mut terms = Vec::new();
    let coef = |rng: &mut Rng| -> String {
        if rng.chance(1, 3) {
            loop {
                let c = crate::c02::wide_coeff(rng);
                if !c.text.contains('/') {
                    return c.text;
                }
            }
        } else {
            coef_text(rng, false, true)
        }
    };
    terms.push((rng.chance(1, 3), format!("{}{}^{}", coef(rng), var, top)));
    for _ in 0..n {
        let p = match rng.below(6) {
            0 => top,
            1 => top - 1,
            2 => rng.range(0, 3),
            _ => rng.range(0, top),
        };
        terms.push((rng.chance(1, 3), format!("{}{}^{}", coef(rng), var, p)));
    }
    if rng.chance(1, 6) {
        // the leading terms cancel exactly: the top coefficient is 0.0
        terms.push((true, format!("7{var}^{}", top + 1)));
        terms.push((false, format!("7{var}^{}", top + 1)));
    }
    join_terms(rng, &terms)
}

/// texts every run starts from: the inputs of the repaired defects D7–D9 and the corner shapes
pub const FIXED_INTER: &[&str] = &[
    "xx", "5", "x^3 + x^2", "x^0", "x^-1", "x^1/2", "2xy", "", "0", "-x", "xx^-1", "x^2y^2 + y", "3x^2 - 2x + 1",
    "x + y + z", "-7", "1/2x^-1/2", "x^2x^3 + xyx", "yx", "zyx^2", "4x^0.5y^-2 - 3", "x^1.5 + x^2.5", "2.5", "x^1",
    "xy^0", "1/3x^3", "x^-2 + x^-3", "ab + ba", "X + t^2",
    // hardening: powers that meet 1 / 0 after merging or rounding, case pairs, extreme exponents and coefficients
    "x^1/3x^2/3", "x^0.5x^0.5y", "x^2x^-1", "x^3x^-3 + x", "x^0.99999999999999999999", "x^1.0000001", "x^0.0000001", "x^-0", "x^1.0000000000000002 + x", "y^0.9999999999999999", "x^1.000000000000001y", "x^1.000000000001",
    "xX", "Xx^2 + x", "aA^2b", "x^300", "x^-300y", "x^65536", "x^65537 + x^256", "x^4294967296", "x^255y^256",
    "0.0000000000000000000000000000000000000001x^2", "1000000000000000000000000000000000000000x^3y", "0x^2 + 0y", "-0x",
    "x + x + x + x + x + x + x + x + x", "abcdefghij", "a^2b^2c^2d^2e^2f^2g^2h^2i^2", "x^2/2", "x^3/3y", "x^1.",
];
pub const FIXED_SIMPLE: &[&str] =
    &[
    // the largest exponents the parser accepts (MAX_POWER = 65536) and its neighbours
    "x^65536", "3x^65535 + x", "x^65537", "2y^065536 - y^65535",
    "5", "x^3 + x^2", "x", "", "0", "-x", "3x^2 - 2x + 1", "x^0", "2.5y^4 - y + .5", "t^9", "x^2 + x^2", "7 - 7", "4x^1",
    // hardening: lengths around the powers of two, cancelled leading terms, extreme coefficients, other letters
    "x^255 + x^256 + x^257", "2x^15 - x^16 + x^17 + x^8 + x^9", "x^31 + x^32 + x^33 + 1", "x^64 - x^63 + x^65", "x^1000 + x",
    "x^5 - x^5", "x^9 - x^9 + x^2", "0.0000000000000000000000000000000000000001x^3 + x", "1000000000000000000000000000000000000000x^2",
    "X^3 + X", "é^4 - é", "λ^2", "0x^7", "-0x^3 + x"];

pub fn parse_inter(text: &str) -> Option<AnyPoly> {
    catch(|| IntermediatePolynomial::parse(text)).and_then(|r| r.ok()).map(AnyPoly::I)
}
pub fn parse_simple(text: &str) -> Option<AnyPoly> {
    catch(|| SimplePolynomial::parse(text)).and_then(|r| r.ok()).map(AnyPoly::S)
}

pub fn poly_names(p: &AnyPoly) -> Vec<String> {
    match p {
        AnyPoly::S(q) => q.variable.map(|c| vec![c.to_string()]).unwrap_or_default(),
        AnyPoly::I(q) => q.variables.clone(),
    }
}

/// a differentiation / integration variable: present, absent, multi-letter, empty
pub fn pick_var(rng: &mut Rng, names: &[String]) -> String {
    match rng.below(11) {
        10 => {
            // the other case of a name in use (a different variable)
            let n = names.first().map(|s| s.as_str()).unwrap_or("x");
            if n.chars().all(|c| c.is_ascii_lowercase()) { n.to_ascii_uppercase() } else { n.to_ascii_lowercase() }
        }
        0 => "q".to_string(),
        1 => format!("{}y", names.first().map(|s| s.as_str()).unwrap_or("x")),
        2 => String::new(),
        3 => "x".to_string(),
        _ => {
            if names.is_empty() {
                "x".to_string()
            } else {
                rng.pick(names).clone()
            }
        }
    }
}

/// an evaluation point; kept positive unless `any` (the oracle decides what the domain allows)
pub fn pick_point(rng: &mut Rng, any: bool) -> f64 {
    // one point in five from the wide families: next to 1 and to 0 at every distance, 2^-60..2^60, signed zeros
    if rng.chance(1, 5) {
        let v = match rng.below(6) {
            0 => 1.0 + 2f64.powi(-(rng.range(1, 52) as i32)),
            1 => 1.0 - 2f64.powi(-(rng.range(1, 53) as i32)),
            2 => 10f64.powi(-(rng.range(1, 25) as i32)),
            3 => 2f64.powi(rng.range(-60, 60) as i32),
            4 => rng.range(2, 50) as f64 * 2f64.powi(rng.range(-30, 20) as i32),
            _ => {
                if any {
                    -0.0
                } else {
                    1.0
                }
            }
        };
        return if any && rng.chance(1, 3) { -v } else { v };
    }
    match rng.below(8) {
        0 if any => 0.0,
        1 if any => -rng.dyadic(24, 3).abs() - 0.25,
        2 => 1.0,
        _ => rng.dyadic(30, 3).abs() + 0.125,
    }
}

fn step_text(rng: &mut Rng, names: &[String], deriv_bias: bool) -> String {
    let k = if deriv_bias { rng.below(2) * 2 } else { rng.below(4) };
    match k {
        0 => "d".to_string(),
        1 => "i".to_string(),
        2 => format!("D {}", req_string(&pick_var(rng, names))),
        _ => {
            let v = if rng.chance(1, 3) { "w".to_string() } else { pick_var(rng, names) };
            format!("J {}", req_string(&v))
        }
    }
}

fn emit_for(rng: &mut Rng, text: &str, p: &AnyPoly, emit: &mut dyn FnMut(String), all: bool) {
    let ps = req_any(p);
    let names = poly_names(p);
    let pre = format!("txt {}", req_string(text));
    let mut kinds: Vec<u64> = if all { vec![0, 1, 1, 2, 2, 3, 4] } else { vec![rng.below(4), rng.below(4)] };
    if !all && rng.chance(1, 10) {
        kinds.push(4);
    }
    kinds.dedup();
    // (requests of the exponent-limit texts are megabytes each: no extra ones)
    if ps.len() > 100_000 {
        kinds.retain(|k| *k != 4);
    }
    for mut kind in kinds {
        // the univariate entry point on a multivariate polynomial is only an error: keep it rare
        if kind == 0 && names.len() > 1 && !all && rng.chance(3, 4) {
            kind = 1;
        }
        match kind {
            0 => emit(format!("{pre} deriv {ps}")),
            1 => emit(format!("{pre} pderiv {ps} {}", req_string(&pick_var(rng, &names)))),
            4 => {
                // differentiate repeatedly, past the point where nothing is left
                let k = rng.range(4, 7) as usize;
                let mut s = format!("{pre} chain {ps} {k}");
                for _ in 0..k {
                    if rng.chance(1, 3) && !names.is_empty() {
                        s.push_str(&format!(" D {}", req_string(rng.pick(&names[..]).as_str())));
                    } else {
                        s.push_str(" d");
                    }
                }
                s.push_str(&format!(" {}", rbits(pick_point(rng, true))));
                emit(s)
            }
            2 => {
                let k = rng.range(1, 3) as usize;
                let mut s = format!("{pre} chain {ps} {k}");
                for i in 0..k {
                    s.push(' ');
                    s.push_str(&step_text(rng, &names, i == 0));
                }
                s.push_str(&format!(" {}", rbits(pick_point(rng, true))));
                emit(s)
            }
            _ => {
                let k = rng.range(1, 3) as usize;
                let mut s = format!("{pre} chainm {ps} {k}");
                let mut bound: Vec<String> = names.clone();
                for i in 0..k {
                    let st = step_text(rng, &names, i == 0);
                    if let Some(rest) = st.strip_prefix("J ") {
                        // bind the fresh integration variable as well
                        let mut t = Toks::new(rest);
                        bound.push(t.string());
                    }
                    if st == "i" && names.is_empty() {
                        bound.push("x".to_string());
                    }
                    s.push(' ');
                    s.push_str(&st);
                }
                bound.sort();
                bound.dedup();
                if rng.chance(1, 12) && !bound.is_empty() {
                    bound.remove(rng.below(bound.len() as u64) as usize); // a missing binding
                }
                if bound.is_empty() && matches!(p, AnyPoly::S(_)) {
                    bound.push("x".to_string());
                }
                s.push_str(&format!(" {}", bound.len()));
                for b in &bound {
                    s.push_str(&format!(" {} {}", req_string(b), rbits(pick_point(rng, false))));
                }
                emit(s)
            }
        }
    }
}

pub fn generate(seed: u64, thorough: bool, emit: &mut dyn FnMut(String)) {
    // `Rng::new(s + 1)` is `Rng::new(s)` advanced by one draw; re-seeding from a mixed output makes the
    // streams of neighbouring seeds unrelated
    let mut rng = Rng::new(Rng::new(seed ^ 0xC03).next());
    // (a text the parser refuses is not this property's business: skipped, like the random ones)
    for t in FIXED_INTER {
        if let Some(p) = parse_inter(t) {
            emit_for(&mut rng, t, &p, emit, true);
        }
    }
    for t in FIXED_SIMPLE {
        if let Some(p) = parse_simple(t) {
            emit_for(&mut rng, t, &p, emit, true);
        }
    }
    let n = if thorough { 120000 } else { 1500 };
    for i in 0..n {
        let (text, p) = if i % 3 == 2 {
            let t = gen_simple_text(&mut rng);
            let p = parse_simple(&t);
            (t, p)
        } else {
            let t = gen_inter_text(&mut rng);
            let p = parse_inter(&t);
            (t, p)
        };
        // texts the parser refuses are not this property's business (C16)
        if let Some(p) = p {
            emit_for(&mut rng, &text, &p, emit, false);
        }
    }
    // hardening families (own stream, so that the requests above stay what they were)
    let mut rng = Rng::new(Rng::new(seed ^ 0xC03_0002).next());
    // every dense length 6..=70 at least once
    for len in 6..=70usize {
        let t = format!("{}x^{} + {}x^{} - x + {}", rng.range(1, 9), len - 1, rng.range(1, 9), len / 2, rng.range(0, 9));
        if let Some(p) = parse_simple(&t) {
            emit_for(&mut rng, &t, &p, emit, false);
        }
    }
    let m = if thorough { 40000 } else { 900 };
    for i in 0..m {
        let (text, p) = if i % 3 == 2 {
            let t = gen_simple_text_hard(&mut rng);
            let p = parse_simple(&t);
            (t, p)
        } else {
            let t = gen_inter_text_hard(&mut rng);
            let p = parse_inter(&t);
            (t, p)
        };
        if let Some(p) = p {
            emit_for(&mut rng, &text, &p, emit, false);
        }
    }
    round6(seed, thorough, emit);
}

/// SIXTH SEEDED ROUND (DESIGN.md section 17).
/// (O) BLOCK BOUNDARIES: every size parameter at blk-1, blk, blk+1, blk+2, 2 blk+1 for blk = 16, 32, 64, 128, 256 (1024 for
///     the cheap ones): the DEGREE of a dense univariate polynomial whose coefficients are all non-zero, non-constant and
///     non-symmetric (a chunk of the coefficient vector that is dropped, shifted by one, multiplied by the wrong power or
///     left at the source's value is visible coefficient-wise and in the value at x = +-1 and next to 1), the same text
///     through the multivariate parser (number of TERMS), multivariate polynomials with that many distinct monomials of
///     which a third do not contain the variable, a single EXPONENT at those values (the power-rule factor), the number
///     of VARIABLES IN ONE TERM (15..18, 31..34) with the differentiation variable first / in the middle / last.
/// (P) RESONANT / EXACT RELATIONS: coefficient times power exactly 1 (0.5x^2, 0.25x^4, 0.2x^5, 0.1x^10, 0.0625x^16),
///     derivatives that vanish EXACTLY at the evaluation point (x^3 - 3x at +-1, (x-a)^2 (x-b) at a, x^2y - 2xy at x = 1)
///     and the same points one ulp / 2^-40 off, derivative terms that are like terms or cancel exactly (x^2y - yx^2,
///     xyx - x^2y), powers exactly 1 and 2 next to each other, zero coefficients in the middle of a dense vector.
fn round6(seed: u64, thorough: bool, emit: &mut dyn FnMut(String)) {
    let mut rng = Rng::new(Rng::new(seed ^ 0xC03_0006).next());
    let near_one = [1.0, -1.0, 1.0 + 2f64.powi(-7), -(1.0 - 2f64.powi(-8)), 0.9375, 1.0 + 2f64.powi(-52), 2.0, 0.5];
    let coef = |k: usize, s: u64| -> i64 {
        let c = ((k * k * 3 + 5 * k + s as usize) % 17) as i64 - 8;
        if c == 0 { 9 } else { c }
    };
    let chain1 = |text: &str, p: &AnyPoly, steps: &str, k: usize, x: f64| format!("txt {} chain {} {k} {steps} {}", req_string(text), req_any(p), rbits(x));
    let chainm = |text: &str, p: &AnyPoly, steps: &str, k: usize, binds: &[(String, f64)]| {
        let mut s = format!("txt {} chainm {} {k} {steps} {}", req_string(text), req_any(p), binds.len());
        for (n, v) in binds {
            s.push_str(&format!(" {} {}", req_string(n), rbits(*v)));
        }
        s
    };
    let mut blocks: Vec<usize> = vec![16, 32, 64, 128, 256];
    if thorough {
        blocks.push(1024);
    }
    // ---- (O1) dense degree / (O2) term count through the multivariate parser
    for &blk in &blocks {
        for deg in [blk - 1, blk, blk + 1, blk + 2, 2 * blk + 1] {
            let s0 = rng.below(17);
            let var = *rng.pick(&["x", "x", "y", "t"]);
            let mut order: Vec<usize> = (0..=deg).collect();
            match rng.below(3) {
                0 => order.reverse(),
                1 => {
                    for i in (1..order.len()).rev() {
                        order.swap(i, rng.below(i as u64 + 1) as usize);
                    }
                }
                _ => {}
            }
            // (one time in three a zero coefficient in the middle of a block and at a seam)
            let holes = rng.chance(1, 3);
            let terms: Vec<(bool, String)> = order
                .iter()
                .filter(|k| !(holes && (**k == blk || **k == blk / 2 + 1)))
                .map(|&k| {
                    let c = coef(k, s0);
                    (c < 0, format!("{}{}^{}", c.abs(), var, k))
                })
                .collect();
            let text = join_terms(&mut rng, &terms);
            if let Some(p) = parse_simple(&text) {
                emit(format!("txt {} deriv {}", req_string(&text), req_any(&p)));
                for (i, x) in near_one.iter().enumerate() {
                    if i < 5 || deg <= 66 {
                        emit(chain1(&text, &p, "d", 1, *x));
                    }
                }
                emit(chain1(&text, &p, "d d", 2, -1.0));
                emit(chain1(&text, &p, "d i", 2, 1.0 + 2f64.powi(-7)));
                emit(chain1(&text, &p, "i d", 2, 1.0));
                emit(format!("txt {} pderiv {} {}", req_string(&text), req_any(&p), req_string(var)));
            }
            if deg <= 258 || thorough {
                if let Some(p) = parse_inter(&text) {
                    emit(format!("txt {} pderiv {} {}", req_string(&text), req_any(&p), req_string(var)));
                    emit(format!("txt {} deriv {}", req_string(&text), req_any(&p)));
                    emit(chain1(&text, &p, "d", 1, *rng.pick(&near_one[..5])));
                    emit(chainm(&text, &p, &format!("D {}", req_string(var)), 1, &[(var.to_string(), *rng.pick(&near_one[..5]))]));
                }
            }
        }
    }
    // ---- (O2) that many distinct monomials in two / three variables; a third of them without the variable
    for &blk in &blocks {
        if blk > 256 {
            continue;
        }
        for nterms in [blk - 1, blk, blk + 1, blk + 2, 2 * blk + 1] {
            let s0 = rng.below(17);
            let terms: Vec<(bool, String)> = (0..nterms)
                .map(|t| {
                    let c = coef(t, s0);
                    let (i, j) = (t % 3, t / 3 + 1);
                    let body = match i {
                        0 => format!("y^{j}"),
                        1 => format!("xy^{j}"),
                        _ => format!("x^{}y^{j}z", 2 + t % 4),
                    };
                    (c < 0, format!("{}{}", c.abs(), body))
                })
                .collect();
            let text = join_terms(&mut rng, &terms);
            if let Some(p) = parse_inter(&text) {
                for v in ["x", "y", "z", "q"] {
                    emit(format!("txt {} pderiv {} {}", req_string(&text), req_any(&p), req_string(v)));
                }
                for v in ["x", "y", "z"] {
                    let binds = [("x".to_string(), *rng.pick(&[1.0, -1.0, 2.0, 0.5, 1.5])), ("y".to_string(), *rng.pick(&near_one[..5])), ("z".to_string(), *rng.pick(&[1.0, -1.0, 3.0, 0.25]))];
                    emit(chainm(&text, &p, &format!("D {}", req_string(v)), 1, &binds));
                }
                let binds = [("x".to_string(), 1.0), ("y".to_string(), -1.0), ("z".to_string(), 2.0)];
                emit(chainm(&text, &p, "D 1 120 D 1 121", 2, &binds));
            }
        }
    }
    // ---- (O3) one exponent at the block values (the power-rule factor), both parsers
    for &blk in &[16usize, 32, 64, 128, 256, 1024, 4096] {
        for e in [blk - 1, blk, blk + 1, blk + 2, 2 * blk + 1] {
            let c = rng.range(2, 9);
            let t = format!("{c}x^{e}y - {}x^{}y^{e} + x", rng.range(2, 9), e - 1);
            if let Some(p) = parse_inter(&t) {
                emit(format!("txt {} pderiv {} 1 120", req_string(&t), req_any(&p)));
                emit(format!("txt {} pderiv {} 1 121", req_string(&t), req_any(&p)));
                let binds = [("x".to_string(), *rng.pick(&[1.0, -1.0, 1.0 + 2f64.powi(-10)])), ("y".to_string(), *rng.pick(&[1.0, -1.0, 1.0 - 2f64.powi(-11)]))];
                emit(chainm(&t, &p, "D 1 120", 1, &binds));
                emit(chainm(&t, &p, "D 1 121", 1, &binds));
            }
            if e <= 1026 || thorough {
                let t = format!("{c}x^{e} - {}x^{} + x - 4", rng.range(2, 9), e - 1);
                if let Some(p) = parse_simple(&t) {
                    emit(format!("txt {} deriv {}", req_string(&t), req_any(&p)));
                    emit(chain1(&t, &p, "d", 1, *rng.pick(&[1.0, -1.0, 1.0 + 2f64.powi(-10)])));
                }
            }
        }
    }
    // ---- (O4) number of variables in one term
    for nv in [15usize, 16, 17, 18, 31, 32, 33, 34, 51, 52] {
        for which in 0..3usize {
            let mut letters: Vec<char> = ALPHA.chars().collect();
            for i in (1..letters.len()).rev() {
                letters.swap(i, rng.below(i as u64 + 1) as usize);
            }
            let used: Vec<char> = letters.iter().take(nv).cloned().collect();
            let mut body = format!("{}", rng.range(2, 9));
            for (i, c) in used.iter().enumerate() {
                body.push(*c);
                body.push_str(&format!("^{}", 1 + (i * 7 + which) % 4));
            }
            let text = format!("{body} - {}{} + 3", used[0], used[nv - 1]);
            if let Some(p) = parse_inter(&text) {
                let names = poly_names(&p);
                // first / middle / last of the SORTED variable list and of the term as written
                let v = match which {
                    0 => names[0].clone(),
                    1 => names[names.len() / 2].clone(),
                    _ => names[names.len() - 1].clone(),
                };
                let w = used[[0, nv / 2, nv - 1][which]].to_string();
                for d in [v, w] {
                    emit(format!("txt {} pderiv {} {}", req_string(&text), req_any(&p), req_string(&d)));
                    let binds: Vec<(String, f64)> = names.iter().enumerate().map(|(i, n)| (n.clone(), [1.0, -1.0, 2.0, 0.5, 1.5, -0.5][(i * 5 + which) % 6])).collect();
                    emit(chainm(&text, &p, &format!("D {}", req_string(&d)), 1, &binds));
                }
            }
        }
    }
    // ---- (P) exact relations
    let nudges = |x: f64| -> Vec<f64> {
        if x == 0.0 {
            vec![0.0, -0.0, 5e-324, 2f64.powi(-40)]
        } else {
            vec![x, f64::from_bits(x.to_bits() + 1), f64::from_bits(x.to_bits() - 1), x * (1.0 + 2f64.powi(-40))]
        }
    };
    // univariate texts with the points at which the derivative vanishes exactly (or the factor c k is exactly 1)
    let mut uni: Vec<(String, Vec<f64>)> = vec![
        ("0.5x^2".into(), vec![1.0, 0.0]),
        ("0.5x^2 - x".into(), vec![1.0]),
        ("0.25x^4 - x".into(), vec![1.0]),
        ("0.125x^8 - x + 3".into(), vec![1.0]),
        ("0.2x^5 - x".into(), vec![1.0, -1.0]),
        ("0.1x^10 - x".into(), vec![1.0]),
        ("0.0625x^16 + 0.03125x^32 - 2x".into(), vec![1.0]),
        ("x^3 - 3x".into(), vec![1.0, -1.0]),
        ("x^2 - 2x + 1".into(), vec![1.0]),
        ("2x^3 - 3x^2".into(), vec![0.0, 1.0]),
        ("x^4 - 4x".into(), vec![1.0]),
        ("x^4 - 2x^2".into(), vec![0.0, 1.0, -1.0]),
        ("3x^4 - 4x^3".into(), vec![0.0, 1.0]),
        ("x^2 + x^1 + x^0".into(), vec![-0.5]),
        ("x^2 - x^2 + x".into(), vec![1.0]),
        ("x^3 + 0x^2 - 12x".into(), vec![2.0, -2.0]),
        ("0.5x^2 + 0.5x^2 - 2x".into(), vec![1.0]),
    ];
    // (x - a)^2 (x - b) = x^3 - (2a + b) x^2 + (a^2 + 2ab) x - a^2 b with small integers / halves: derivative zero at a
    for _ in 0..if thorough { 60 } else { 10 } {
        let a = rng.range(-6, 6) as f64 / 2.0;
        let b = rng.range(-5, 5) as f64;
        let (c2, c1, c0) = (-(2.0 * a + b), a * a + 2.0 * a * b, -a * a * b);
        let term = |c: f64, body: &str| (c < 0.0, format!("{}{}", c.abs(), body));
        let text = join_terms(&mut rng, &[(false, "x^3".to_string()), term(c2, "x^2"), term(c1, "x"), term(c0, "")]);
        uni.push((text, vec![a, (2.0 * b + a) / 3.0]));
    }
    for (text, pts) in &uni {
        for parser in 0..2 {
            let p = if parser == 0 { parse_simple(text) } else { parse_inter(text) };
            let Some(p) = p else { continue };
            emit(format!("txt {} deriv {}", req_string(text), req_any(&p)));
            emit(format!("txt {} pderiv {} 1 120", req_string(text), req_any(&p)));
            for x0 in pts {
                for x in nudges(*x0) {
                    emit(chain1(text, &p, "d", 1, x));
                    if parser == 1 {
                        emit(chainm(text, &p, "D 1 120", 1, &[("x".to_string(), x)]));
                    }
                }
                emit(chain1(text, &p, "d d", 2, *x0));
                emit(chain1(text, &p, "i d", 2, *x0));
            }
        }
    }
    // multivariate: like terms among the derivative's terms, exact cancellation, stationary points
    let multi: Vec<(&str, Vec<(&str, f64)>)> = vec![
        ("x^2y - 2xy", vec![("x", 1.0), ("y", 3.0)]),
        ("xy - x", vec![("x", 2.0), ("y", 1.0)]),
        ("x^2y^2 - 2xy", vec![("x", 2.0), ("y", 0.5)]),
        ("x^2y - yx^2", vec![("x", 1.5), ("y", 2.0)]),
        ("xyx - x^2y", vec![("x", 1.5), ("y", 2.0)]),
        ("xyx + x^2y", vec![("x", 1.5), ("y", 2.0)]),
        ("0.5x^2y + yx", vec![("x", -1.0), ("y", 2.0)]),
        ("x^2y + xy^2 - 3xy", vec![("x", 1.0), ("y", 1.0)]),
        ("x^1.5y - x^1.2y", vec![("x", 1.0), ("y", 2.0)]),
        ("x^2.5y + x^2.25y + x^2y", vec![("x", 4.0), ("y", 1.0)]),
        ("x^1.5 - 1.5x", vec![("x", 1.0)]),
        ("x^0.5 - 0.5x", vec![("x", 1.0)]),
        ("x^-1 + x", vec![("x", 1.0)]),
        ("x^-1y + xy", vec![("x", -1.0), ("y", 5.0)]),
        ("x^2 + y^2 - 2x - 2y", vec![("x", 1.0), ("y", 1.0)]),
        ("xy + yx + 2x", vec![("x", 3.0), ("y", -1.0)]),
        ("x^3y - 3xy + y", vec![("x", -1.0), ("y", 7.0)]),
        ("ab - ba + a", vec![("a", 1.0), ("b", 2.0)]),
        ("x^2y + 2xy - x^2y", vec![("x", 1.0), ("y", 1.0)]),
        ("x^1.5y + x^1.5y", vec![("x", 4.0), ("y", 1.0)]),
        ("x^1.7y - x^1.2y + x^-0.5y - x^-0.2y", vec![("x", 1.0), ("y", 2.0)]),
    ];
    for (text, at) in &multi {
        let Some(p) = parse_inter(text) else { continue };
        let names = poly_names(&p);
        for v in names.iter().chain(["q".to_string()].iter()) {
            emit(format!("txt {} pderiv {} {}", req_string(text), req_any(&p), req_string(v)));
        }
        for v in &names {
            for m in 0..4usize {
                // every variable nudged in turn
                for which in 0..at.len() {
                    let binds: Vec<(String, f64)> = at.iter().enumerate().map(|(i, (n, x))| (n.to_string(), if i == which { nudges(*x)[m] } else { *x })).collect();
                    emit(chainm(text, &p, &format!("D {}", req_string(v)), 1, &binds));
                    if m == 0 {
                        break;
                    }
                }
            }
            let binds: Vec<(String, f64)> = at.iter().map(|(n, x)| (n.to_string(), *x)).collect();
            emit(chainm(text, &p, &format!("D {} D {}", req_string(v), req_string(&names[0])), 2, &binds));
        }
        if names.len() == 1 {
            emit(format!("txt {} deriv {}", req_string(text), req_any(&p)));
            emit(chain1(text, &p, "d", 1, at[0].1));
        }
    }
}
