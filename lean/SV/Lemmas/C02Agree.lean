import SV.Props.C01
import SV.Props.C02
import Mathlib.Data.Rat.BigOperators
import Mathlib.Algebra.BigOperators.Intervals
/-!
Helper lemmas for `SV.Props.C02Agree` (agreement of the univariate and the multivariate parser on
their common language).

The common language is the univariate grammar of `SV.Lemmas.C01` (`C01.TermSyn`, `C01.render`) with
an ASCII letter as the variable.  This file

* translates that syntax into the multivariate syntax of `SV.Lemmas.C02Grammar` (`tr`), and shows
  that the translation renders to the *same text* (`render_tr`), is well formed (`tr_wf`) and has the
  meaning `(signed coefficient, [(letter, power)] or [])` (`sem_tr`);
* reads `Text.Num` expressions in an arbitrary field (`numK`, structurally: decimal literal, `/`, `+`)
  and relates that reading to the exact rational values `Num.val` / `C02.numVal` the two grammar
  theorems speak about (`numK_eq_cast`, `numVal_eq_val`);
* evaluates both parse results (`evalSimple_of_spec`, `evalInter_of_sem`).
-/
namespace SV.C02Agree
open SV SV.Text SV.Poly

/-! ### translation of the syntax -/

/-- the same spelling in the other file's type -/
def trU (u : Text.UDec) : C02.UDec := ⟨u.ip, u.fp, u.dot⟩

theorem trU_wf {u : Text.UDec} (hu : u.WF) : (trU u).WF :=
  ⟨hu.ip_digits, hu.fp_digits, hu.some_digit, hu.no_dot⟩

theorem trU_render (u : Text.UDec) : (trU u).render = u.render := rfl
theorem trU_value (u : Text.UDec) : (trU u).value = u.value := rfl

def trCoef : Option Text.UDec → C02.Coef
  | none => .none
  | some u => .dec (trU u)

/-- the exponent digits as a decimal spelling without `.` -/
def expU (ds : List Char) : C02.UDec := ⟨ds, [], false⟩

def trBody (v : Char) : C01.Body → List C02.Factor
  | .const => []
  | .var => [⟨v, none⟩]
  | .varPow ds => [⟨v, some (.dec false (expU ds))⟩]

/-- a univariate term with variable letter `v` as a multivariate term -/
def tr (v : Char) (t : C01.TermSyn) : C02.TermSyn := ⟨t.neg, trCoef t.coef, trBody v t.body⟩

theorem trCoef_render (o : Option Text.UDec) : (trCoef o).render = C01.renderCoef o := by
  cases o <;> rfl

theorem trBody_render (v : Char) (b : C01.Body) : C02.renderFactors (trBody v b) = b.render v := by
  cases b with
  | const => rfl
  | var => rfl
  | varPow ds =>
    simp [trBody, C02.renderFactors, C02.Factor.render, C02.Expo.render, C02.signChars, expU,
      C02.UDec.render, C01.Body.render]

theorem tr_body (v : Char) (t : C01.TermSyn) : (tr v t).body = t.renderAbs v := by
  unfold C02.TermSyn.body C01.TermSyn.renderAbs
  rw [show (tr v t).coef = trCoef t.coef from rfl, show (tr v t).factors = trBody v t.body from rfl,
    trCoef_render, trBody_render]

/-- **the translation is the same text** -/
theorem render_tr (v : Char) (lead : Bool) (ts : List C01.TermSyn) :
    C02.render lead (ts.map (tr v)) = C01.render v lead ts := by
  cases ts with
  | nil => rfl
  | cons t ts =>
    simp only [List.map_cons, C02.render, C01.render, tr_body, List.flatMap_map]
    rfl

theorem letter_varOK {v : Char} (hv : isAsciiLetter v = true) : C01.VarOK v :=
  ⟨C02.letter_not_digit hv, C02.letter_ne_dot hv, C02.letter_ne_plus hv, C02.letter_ne_dash hv,
    C02.letter_ne_caret hv⟩

theorem tr_wf {cap : Nat} {v : Char} (hv : isAsciiLetter v = true) {t : C01.TermSyn}
    (ht : t.WF cap) : (tr v t).WF := by
  rcases t with ⟨neg, coef, body⟩
  refine ⟨?_, ?_, ?_, ?_, ?_⟩
  · cases coef with
    | none => trivial
    | some u => exact trU_wf (ht.coef_wf u rfl)
  · intro f hf
    cases body <;> simp [tr, trBody] at hf <;> simp [hf, hv]
  · intro f hf e he
    cases body with
    | const => simp [tr, trBody] at hf
    | var =>
      simp only [tr, trBody, List.mem_cons, List.not_mem_nil, or_false] at hf
      subst hf; cases he
    | varPow ds =>
      simp only [tr, trBody, List.mem_cons, List.not_mem_nil, or_false] at hf
      subst hf
      simp only [Option.some.injEq] at he
      subst he
      obtain ⟨h1, h2, _⟩ := ht.exp_wf ds rfl
      exact ⟨h2, by simp [expU], Or.inl h1, fun _ => rfl⟩
  · cases body <;> simp [tr, trBody]
  · cases body with
    | const =>
      left
      have := ht.const_coef rfl
      cases coef with
      | none => exact absurd rfl this
      | some u => simp [tr, trCoef]
    | var => right; simp [tr, trBody]
    | varPow ds => right; simp [tr, trBody]

theorem tr_wf_all {cap : Nat} {v : Char} (hv : isAsciiLetter v = true) {ts : List C01.TermSyn}
    (hts : C01.WellFormed cap ts) : ∀ u ∈ ts.map (tr v), u.WF := by
  intro u hu
  obtain ⟨t, ht, rfl⟩ := List.mem_map.1 hu
  exact tr_wf hv (hts t ht)

/-- the variables a univariate term mentions, with their powers: nothing for a constant -/
def varsOf (v : Char) (t : C01.TermSyn) : List (String × ℚ) :=
  if t.body.writesVar then [(String.singleton v, (t.pow : ℚ))] else []

/-- **the translation has the same meaning**: signed coefficient value, and the variable with the
power written (none for a constant term) -/
theorem sem_tr (v : Char) (t : C01.TermSyn) : (tr v t).sem = (t.value, varsOf v t) := by
  rcases t with ⟨neg, coef, body⟩
  unfold C02.TermSyn.sem
  congr 1
  · cases coef <;> rfl
  · cases body with
    | const => simp [tr, trBody, varsOf, C01.Body.writesVar]
    | var =>
      simp [tr, trBody, varsOf, C01.Body.writesVar, C02.Factor.expValue, C01.TermSyn.pow,
        C01.Body.pow]
    | varPow ds =>
      simp [tr, trBody, varsOf, C01.Body.writesVar, C02.Factor.expValue, C01.TermSyn.pow,
        C01.Body.pow, C02.Expo.value, C02.sgn, expU, C02.UDec.value, C02.UDec.mant]

/-! ### numbers in a field -/

/-- The two exact-value functions (one per grammar file) are the same function. -/
theorem numVal_eq_val (n : Num) : C02.numVal n = n.val := by
  induction n with
  | dec d => rfl
  | div a b iha ihb => simp only [C02.numVal, Num.val, iha, ihb]
  | add a b iha ihb => simp only [C02.numVal, Num.val, iha, ihb]

/-- A `Text.Num` read in a field: a decimal literal `(-1)^neg · mant / 10^scale`, and the operations
`/`, `+` the parsers perform, as the field's own operations (no detour through `ℚ`). -/
def numK (K : Type) [DivisionRing K] : Num → K
  | .dec d => (if d.neg then -1 else 1) * (d.mant : K) / (10 : K) ^ d.scale
  | .div a b => numK K a / numK K b
  | .add a b => numK K a + numK K b

section
variable {K : Type} [Field K] [CharZero K]

/-- in characteristic 0 this is the image of the exact rational value -/
theorem numK_eq_cast (n : Num) : numK K n = ((n.val : ℚ) : K) := by
  induction n with
  | dec d =>
    simp only [numK, Num.val, Dec.val]
    cases d.neg <;> simp
  | div a b iha ihb => simp only [numK, Num.val, iha, ihb, Rat.cast_div]
  | add a b iha ihb => simp only [numK, Num.val, iha, ihb, Rat.cast_add]

theorem numK_zero : numK K Num.zero = 0 := by simp [numK, Num.zero]

/-! ### the univariate side -/

theorem getD_map_numK (l : List Num) (k : Nat) :
    (l.map (numK K)).getD k 0 = numK K (l.getD k Num.zero) := by
  rw [List.getD_eq_getElem?_getD, List.getD_eq_getElem?_getD, List.getElem?_map]
  cases l[k]? with
  | none => simp [numK_zero]
  | some a => rfl

/-- `Σ_k (Σ_{t of power k} val t)·x^k = Σ_t val t · x^(pow t)` when every power is below `n`
(`C01.sum_by_power` in any commutative semiring) -/
theorem sum_by_power {R : Type} [CommSemiring R] (val : C01.TermSyn → R) (ts : List C01.TermSyn)
    (n : Nat) (hn : ∀ t ∈ ts, t.pow < n) (x : R) :
    (∑ k ∈ Finset.range n, ((ts.filter fun t => decide (t.pow = k)).map val).sum * x ^ k) =
      (ts.map fun t => val t * x ^ t.pow).sum := by
  induction ts with
  | nil => simp
  | cons t ts ih =>
    have hstep : ∀ k, (((t :: ts).filter fun t => decide (t.pow = k)).map val).sum =
        (if t.pow = k then val t else 0) + ((ts.filter fun t => decide (t.pow = k)).map val).sum := by
      intro k
      by_cases h : t.pow = k
      · rw [List.filter_cons_of_pos (by simpa using h), List.map_cons, List.sum_cons, if_pos h]
      · rw [List.filter_cons_of_neg (by simpa using h), if_neg h, zero_add]
    have ht : t.pow ∈ Finset.range n := Finset.mem_range.2 (hn t (by simp))
    simp only [hstep, add_mul, Finset.sum_add_distrib, ite_mul, zero_mul, Finset.sum_ite_eq, ht,
      if_true, List.map_cons, List.sum_cons]
    rw [ih (fun t' ht' => hn t' (by simp [ht']))]

/-- a coefficient vector with the entries `C01.parse_render` describes, read in `K` and evaluated by
the model of `eval_simple_polynomial`, is the sum of the terms as written -/
theorem evalSimple_of_spec {ts : List C01.TermSyn} {cs : List Num}
    (hlen : cs.length = C01.maxPow ts + 1)
    (hval : ∀ k, (cs.getD k Num.zero).val =
      ((ts.filter fun t => decide (t.pow = k)).map C01.TermSyn.value).sum) (x : K) :
    evalSimple (cs.map (numK K)) x = (ts.map fun t => ((t.value : ℚ) : K) * x ^ t.pow).sum := by
  rw [SV.Props.C01.eval_eq_sum, List.length_map, hlen]
  simp only [getD_map_numK, numK_eq_cast, hval, Rat.cast_list_sum, List.map_map]
  exact sum_by_power (fun t => ((t.value : ℚ) : K)) ts (C01.maxPow ts + 1)
    (fun t ht => Nat.lt_succ_of_le (C01.pow_le_maxPow ht)) x

/-! ### the multivariate side -/

/-- a parsed term with its numbers read in `K` -/
def instTerm (K : Type) [DivisionRing K] (t : C02.ITerm) : Term K :=
  ⟨numK K t.coef, t.vars.map fun p => (p.1, numK K p.2)⟩

/-- a parsed multivariate polynomial with its numbers read in `K`: the `IntermediatePolynomial` -/
def instPoly (K : Type) [DivisionRing K] (p : C02.IParsed) : IPoly K :=
  ⟨p.terms.map (instTerm K), p.variables⟩

/-- value of a meaning `(coefficient, [(name, exponent)])` when every variable has the value `x` -/
def semVal (powf : K → K → K) (x : K) (s : ℚ × List (String × ℚ)) : K :=
  (s.1 : K) * (s.2.map fun p => powf x (p.2 : K)).prod

theorem termVal_instTerm (powf : K → K → K) (x : K) (t : C02.ITerm) :
    SV.Props.C02.termVal powf (fun _ => x) (instTerm K t) = semVal powf x t.sem := by
  simp only [SV.Props.C02.termVal, instTerm, semVal, C02.ITerm.sem, List.map_map, numK_eq_cast,
    numVal_eq_val]
  rfl

omit [CharZero K] in
theorem semVal_tr (powf : K → K → K) (hpow : ∀ (x : K) (n : ℕ), powf x (n : K) = x ^ n) (x : K)
    (v : Char) (t : C01.TermSyn) :
    semVal powf x (tr v t).sem = ((t.value : ℚ) : K) * x ^ t.pow := by
  rw [sem_tr]
  unfold semVal varsOf
  cases hb : t.body.writesVar with
  | true => simp [hpow]
  | false =>
    have : t.pow = 0 := by
      unfold C01.TermSyn.pow
      cases hbody : t.body <;> simp [hbody, C01.Body.writesVar] at hb ⊢
      rfl
    simp [this]

omit [Field K] [CharZero K] in
theorem lookup_single (n : String) (x : K) : lookup [(n, x)] n = some x := by
  simp [lookup]

theorem eq_singleton_of_nodup {α : Type} {l : List α} {a : α} (hnd : l.Nodup)
    (hall : ∀ b ∈ l, b = a) (hmem : a ∈ l) : l = [a] := by
  match l, hnd, hall, hmem with
  | [], _, _, hmem => simp at hmem
  | [b], _, hall, _ => rw [hall b (by simp)]
  | b :: c :: rest, hnd, hall, _ =>
    have hb := hall b (by simp)
    have hc := hall c (by simp)
    subst hb
    subst hc
    simp at hnd

/-- Sum of the parsed terms under the assignment `σ`, given their meanings: if `σ` binds every
variable that occurs to `x`, the model of `eval_intermediate_polynomial` returns the sum of the
meanings' values. -/
theorem evalTerms_of_sem (powf : K → K → K) (x : K) (terms : List C02.ITerm)
    (σ : List (String × K)) (hσ : ∀ t ∈ terms, ∀ p ∈ t.vars, lookup σ p.1 = some x) :
    evalTerms powf (terms.map (instTerm K)) σ =
      .ok (((terms.map C02.ITerm.sem).map (semVal powf x)).sum) := by
  rw [SV.Props.C02.eval_eq_sum_prod powf _ σ (fun _ => x)]
  · simp only [List.map_map]
    congr 2
    apply List.map_congr_left
    intro t _
    exact termVal_instTerm powf x t
  · intro t ht p hp
    obtain ⟨t', ht', rfl⟩ := List.mem_map.1 ht
    simp only [instTerm, List.mem_map] at hp
    obtain ⟨p', hp', rfl⟩ := hp
    exact hσ t' ht' p' hp'

/-! ### both parsers on one text of the common language -/

theorem letter_of_mem_factors {v : Char} {t : C01.TermSyn} {f : C02.Factor}
    (hf : f ∈ (tr v t).factors) : f.letter = v ∧ t.body.writesVar = true := by
  rcases t with ⟨neg, coef, body⟩
  cases body <;> simp [tr, trBody] at hf <;> simp [hf, C01.Body.writesVar]

theorem exists_factor_of_writesVar {v : Char} {ts : List C01.TermSyn}
    (h : C01.writesVar ts = true) : ∃ t ∈ ts.map (tr v), ∃ f ∈ t.factors, f.letter = v := by
  unfold C01.writesVar at h
  obtain ⟨t, ht, hb⟩ := List.any_eq_true.1 h
  refine ⟨tr v t, List.mem_map.2 ⟨t, ht, rfl⟩, ?_⟩
  rcases t with ⟨neg, coef, body⟩
  cases body <;> simp [tr, trBody, C01.Body.writesVar] at hb ⊢

/-- the variable list the multivariate parser returns on a text of the common language -/
theorem variables_of_common {cc : CharClass} {v : Char} {ts : List C01.TermSyn} {s : List Char}
    {p : C02.IParsed} (hp : C02.parse cc s = .ok p)
    (hmem : ∀ n, n ∈ p.variables ↔
      ∃ t ∈ ts.map (tr v), ∃ f ∈ t.factors, n = String.singleton f.letter) :
    p.variables = if C01.writesVar ts then [String.singleton v] else [] := by
  have hall : ∀ n ∈ p.variables, n = String.singleton v ∧ C01.writesVar ts = true := by
    intro n hn
    obtain ⟨t, ht, f, hf, rfl⟩ := (hmem n).1 hn
    obtain ⟨t', ht', rfl⟩ := List.mem_map.1 ht
    obtain ⟨h1, h2⟩ := letter_of_mem_factors hf
    exact ⟨by rw [h1], List.any_eq_true.2 ⟨t', ht', h2⟩⟩
  cases hw : C01.writesVar ts with
  | false =>
    simp only [Bool.false_eq_true, if_false]
    apply List.eq_nil_iff_forall_not_mem.2
    intro n hn
    have := (hall n hn).2
    rw [hw] at this
    cases this
  | true =>
    simp only [if_true]
    apply eq_singleton_of_nodup (SV.Props.C02.parse_canonical cc s p hp).2.2.1
      (fun n hn => (hall n hn).1)
    obtain ⟨t, ht, f, hf, hl⟩ := exists_factor_of_writesVar (v := v) hw
    exact (hmem _).2 ⟨t, ht, f, hf, by rw [hl]⟩

/-- **Core of the agreement theorem** (hypotheses in the weak form the converse direction needs: the
letter has to be alphabetic for `cc` only if it is written at all).  For every text of the common
language both parsers accept, the variable information agrees, and the two evaluations — the dense
`eval_simple_polynomial` and the sparse `eval_intermediate_polynomial` (through
`eval_univariate` as well as with the explicit binding) — both return the sum of the written terms. -/
theorem agree_core (powf : K → K → K) (hpow : ∀ (x : K) (n : ℕ), powf x (n : K) = x ^ n)
    {cc : CharClass} (h1 : cc.Sane) (h2 : C02.Sane cc) (cap : Nat) {v : Char}
    (hv : isAsciiLetter v = true) (lead : Bool) {ts : List C01.TermSyn}
    (hwf : C01.WellFormed cap ts) (hva : C01.writesVar ts = true → cc.isAlpha v = true)
    {s : List Char} (hs : stripWs cc s = C01.render v lead ts) :
    ∃ p1 p2, C01.parse cc cap s = .ok p1 ∧ C02.parse cc s = .ok p2 ∧
      p1.var = (if C01.writesVar ts then some v else none) ∧
      p2.variables = (if C01.writesVar ts then [String.singleton v] else []) ∧
      ∀ x : K,
        evalSimple (p1.coeffs.map (numK K)) x =
          (ts.map fun t => ((t.value : ℚ) : K) * x ^ t.pow).sum ∧
        evalTerms powf (instPoly K p2).terms [(String.singleton v, x)] =
          .ok ((ts.map fun t => ((t.value : ℚ) : K) * x ^ t.pow).sum) ∧
        evalUni powf (instPoly K p2) x =
          .ok ((ts.map fun t => ((t.value : ℚ) : K) * x ^ t.pow).sum) := by
  obtain ⟨p1, hp1, hvar1, hlen, hval⟩ :=
    C01.parse_render_spec h1 (letter_varOK hv) hwf hva hs
  by_cases hne : ts = []
  · subst hne
    have hs0 : stripWs cc s = [] := by rw [hs]; rfl
    refine ⟨p1, ⟨[], []⟩, hp1, SV.Props.C02.parse_empty cc s hs0, hvar1, by simp [C01.writesVar],
      fun x => ⟨evalSimple_of_spec hlen hval x, ?_, ?_⟩⟩
    · simp [instPoly, evalTerms, evalTermsFrom]
    · simp [instPoly, evalUni, evalTerms, evalTermsFrom]
  · have hs2 : stripWs cc s = C02.render lead (ts.map (tr v)) := by rw [render_tr]; exact hs
    obtain ⟨p2, hp2, _, hsem, hmem⟩ := SV.Props.C02.parse_render_inter cc h2 lead (ts.map (tr v))
      (by simpa using hne) (tr_wf_all hv hwf) s hs2
    have hvars := variables_of_common hp2 hmem
    have hcanon := (SV.Props.C02.parse_canonical cc s p2 hp2).2.2.2
    -- every variable that occurs in a term is the letter, and then the letter is written
    have hocc : ∀ t ∈ p2.terms, ∀ p ∈ t.vars,
        p.1 = String.singleton v ∧ C01.writesVar ts = true := by
      intro t ht p hp
      have hin : p.1 ∈ p2.variables := (hcanon p.1).2 ⟨t, ht, p, hp, rfl⟩
      rw [hvars] at hin
      cases hw : C01.writesVar ts with
      | false => rw [hw] at hin; simp at hin
      | true => rw [hw] at hin; simp at hin; exact ⟨hin, rfl⟩
    have hsum : ∀ x : K, ((p2.terms.map C02.ITerm.sem).map (semVal powf x)).sum =
        (ts.map fun t => ((t.value : ℚ) : K) * x ^ t.pow).sum := by
      intro x
      rw [hsem]
      simp only [List.map_map]
      congr 1
      apply List.map_congr_left
      intro t _
      exact semVal_tr powf hpow x v t
    have hbind : ∀ x : K, evalTerms powf (instPoly K p2).terms [(String.singleton v, x)] =
        .ok ((ts.map fun t => ((t.value : ℚ) : K) * x ^ t.pow).sum) := by
      intro x
      rw [← hsum x]
      apply evalTerms_of_sem
      intro t ht p hp
      rw [(hocc t ht p hp).1]
      exact lookup_single _ x
    refine ⟨p1, p2, hp1, hp2, hvar1, hvars, fun x => ⟨evalSimple_of_spec hlen hval x, hbind x, ?_⟩⟩
    unfold evalUni
    simp only [instPoly, hvars]
    cases hw : C01.writesVar ts with
    | true =>
      simp only [if_true, List.length_singleton, gt_iff_lt, Nat.lt_irrefl, if_false]
      exact hbind x
    | false =>
      simp only [Bool.false_eq_true, if_false, List.length_nil, gt_iff_lt, Nat.not_lt_zero]
      rw [← hsum x]
      apply evalTerms_of_sem
      intro t ht p hp
      have := (hocc t ht p hp).2
      rw [hw] at this
      cases this

end

end SV.C02Agree
