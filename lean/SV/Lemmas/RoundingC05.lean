import SV.Model.C05
import SV.Lemmas.Rounding
import SV.Lemmas.RoundingPoly
import Mathlib.Algebra.BigOperators.Group.List.Lemmas
import Mathlib.Tactic.FieldSimp
import SV.Lemmas.C05
import SV.Props.C01
/-!
Helper lemmas for the rounding analysis of `SV.C05.definiteIntegral` (composite Simpson) at the
rounding scalar `Fl M`.

## A calculus of rounded sums

`M.Approx m v L` — "`v` is the sum of the terms of the list `L`, each multiplied by an accumulated
factor of at most `m` roundings": `v = Σ Lᵢ·tᵢ`, `M.Fac m tᵢ`.  It is closed under the floating-point
operations that occur in summation-type code:

* `Approx.single`          a datum is its own one-term sum, no rounding
* `Approx.add_fl/sub_fl`   `x + y`, `x − y` at `Fl M`: lists appended, `max m₁ m₂ + 1` roundings
* `Approx.smul`            multiplication by an exact constant and by `k` rounding factors:
                           terms scaled, `m + k` roundings (`lit_mul_approx`: by a literal `c_f64`)
* `Approx.abs_sub_le`      `|v − ΣLᵢ| ≤ γ_m·Σ|Lᵢ|`

so the analysis of a loop is the computation of its term list.  It yields the rounding envelope of
the composite rule (`definiteIntegral_approx`) **and** the drift of the running abscissae
`xi += 2h` (`node13_approx`, `mid13_approx`, `node38_approx`) from the same few lemmas.

## The rule at `Fl M`

`hFl a b n = (b − a)/n`, `node13 h a k` (`xi` after `k` passes of `xi += 2h` from `a`),
`mid13 h a k = node13 h a (k+1) − h`, `node38 h b j` (`b − h·3, b − h·2, b − h·1, b`) are the
abscissae the code really evaluates the integrand at — themselves results of rounded operations.
`ruleTerms` is the list of all terms `coefficient × sample term` in the order of accumulation;
`simpsonSum` is the rule as a closed-form real expression in the sample values.
-/
namespace SV
open Finset

variable {M : FlModel}

/-- `≤` on the rounding scalar is `≤` of the real values (comparisons are exact); with it the models
whose section variables include `[LE S]` elaborate at `Fl M` -/
instance : LE (Fl M) := ⟨fun a b => a.val ≤ b.val⟩
noncomputable instance : DecidableRel (α := Fl M) (· ≤ ·) := fun _ _ => Classical.propDecidable _

/-! ### the calculus -/

/-- `v = Σ Lᵢ·tᵢ` with every `tᵢ` an accumulated factor of at most `m` roundings -/
inductive FlModel.Approx (M : FlModel) (m : ℕ) : ℝ → List ℝ → Prop
  | nil : FlModel.Approx M m 0 []
  | cons (x t v : ℝ) (L : List ℝ) : M.Fac m t → FlModel.Approx M m v L →
      FlModel.Approx M m (x * t + v) (x :: L)

namespace FlModel.Approx

theorem of_eq {m : ℕ} {v v' : ℝ} {L : List ℝ} (h : M.Approx m v L) (e : v' = v) :
    M.Approx m v' L := e ▸ h

theorem single (x : ℝ) : M.Approx 0 x [x] :=
  (Approx.cons x 1 0 [] fac_zero_one Approx.nil).of_eq (by ring)

theorem mono {m m' : ℕ} {v : ℝ} {L : List ℝ} (h : M.Approx m v L) (hm : m ≤ m') :
    M.Approx m' v L := by
  induction h with
  | nil => exact Approx.nil
  | cons x t v L ht _ ih => exact Approx.cons x t v L (ht.mono hm) ih

theorem append {m : ℕ} {v v' : ℝ} {L L' : List ℝ} (h : M.Approx m v L) (h' : M.Approx m v' L') :
    M.Approx m (v + v') (L ++ L') := by
  induction h with
  | nil => simpa using h'
  | cons x t v L ht _ ih =>
    exact (Approx.cons x t _ _ ht ih).of_eq (by ring)

/-- multiplication by an exact constant `c` and by `k` rounding factors -/
theorem smul {m k : ℕ} {v : ℝ} {L : List ℝ} (c s : ℝ) (hs : M.Fac k s) (h : M.Approx m v L) :
    M.Approx (m + k) (c * v * s) (L.map (c * ·)) := by
  induction h with
  | nil => exact Approx.nil.of_eq (by ring)
  | cons x t v L ht _ ih =>
    exact (Approx.cons (c * x) (t * s) _ _ (ht.mul hs) ih).of_eq (by ring)

theorem neg {m : ℕ} {v : ℝ} {L : List ℝ} (h : M.Approx m v L) :
    M.Approx m (-v) (L.map Neg.neg) := by
  induction h with
  | nil => exact Approx.nil.of_eq (by ring)
  | cons x t v L ht _ ih =>
    exact (Approx.cons (-x) t _ _ ht ih).of_eq (by ring)

/-- one more rounding on the whole sum -/
theorem rnd {m : ℕ} {v : ℝ} {L : List ℝ} (d : ℝ) (hd : M.Fac 1 d) (h : M.Approx m v L) :
    M.Approx (m + 1) (v * d) L := by
  have := h.smul 1 d hd
  simp only [one_mul, List.map_id'] at this
  exact this

/-- a floating-point addition of two rounded sums -/
theorem add_fl {m₁ m₂ : ℕ} {x y : Fl M} {L₁ L₂ : List ℝ} (hx : M.Approx m₁ x.val L₁)
    (hy : M.Approx m₂ y.val L₂) : M.Approx (max m₁ m₂ + 1) (x + y).val (L₁ ++ L₂) := by
  obtain ⟨d, hd, hadd⟩ := Fl.add_fac x y
  rw [hadd]
  exact ((hx.mono (le_max_left _ _)).append (hy.mono (le_max_right _ _))).rnd d hd

/-- a floating-point subtraction of two rounded sums -/
theorem sub_fl {m₁ m₂ : ℕ} {x y : Fl M} {L₁ L₂ : List ℝ} (hx : M.Approx m₁ x.val L₁)
    (hy : M.Approx m₂ y.val L₂) :
    M.Approx (max m₁ m₂ + 1) (x - y).val (L₁ ++ L₂.map Neg.neg) := by
  obtain ⟨d, hd, hsub⟩ := Fl.sub_fac x y
  rw [hsub, sub_eq_add_neg]
  exact ((hx.mono (le_max_left _ _)).append (hy.neg.mono (le_max_right _ _))).rnd d hd

/-- **the bound**: a rounded sum differs from the exact sum of its terms by at most
`γ_m·Σ|Lᵢ|` -/
theorem abs_sub_le {m : ℕ} {v : ℝ} {L : List ℝ} (h : M.Approx m v L) (hm : m * M.u < 1) :
    |v - L.sum| ≤ M.gamma m * (L.map fun x => |x|).sum := by
  induction h with
  | nil => simp
  | cons x t v L ht _ ih =>
    rw [List.sum_cons, List.map_cons, List.sum_cons, mul_add]
    have h1 : |x * t + v - (x + L.sum)| ≤ |(t - 1) * x| + |v - L.sum| := by
      rw [show x * t + v - (x + L.sum) = (t - 1) * x + (v - L.sum) by ring]
      exact abs_add_le _ _
    have h2 : |(t - 1) * x| ≤ M.gamma m * |x| := by
      rw [abs_mul]
      exact mul_le_mul_of_nonneg_right (ht.abs_sub_one_le hm) (abs_nonneg _)
    linarith

/-- from the weights form over `range n` (`eval_weights`, `sumFrom_rounding_weights`, …) -/
theorem of_weights {m : ℕ} (n : ℕ) (e t : ℕ → ℝ) (ht : ∀ k, k < n → M.Fac m (t k)) :
    M.Approx m (∑ k ∈ range n, e k * t k) ((List.range n).map e) := by
  induction n with
  | zero => simpa using (Approx.nil : M.Approx m 0 [])
  | succ n ih =>
    rw [Finset.sum_range_succ, List.range_succ, List.map_append]
    refine (ih fun k hk => ht k (by omega)).append ?_
    exact (Approx.cons (e n) (t n) 0 [] (ht n (by omega)) Approx.nil).of_eq (by simp)

end FlModel.Approx

/-- a list sum over `List.range` as a `Finset` sum -/
theorem list_sum_map_range (n : ℕ) (e : ℕ → ℝ) :
    ((List.range n).map e).sum = ∑ k ∈ range n, e k := by
  induction n with
  | zero => simp
  | succ n ih => rw [List.range_succ, List.map_append, List.sum_append, ih, Finset.sum_range_succ]; simp

/-- a flat-mapped list sum over `List.range` as a `Finset` sum -/
theorem list_sum_flatMap_range (n : ℕ) (F : ℕ → List ℝ) :
    ((List.range n).flatMap F).sum = ∑ k ∈ range n, (F k).sum := by
  induction n with
  | zero => simp
  | succ n ih =>
    rw [List.range_succ, List.flatMap_append, List.sum_append, ih, Finset.sum_range_succ]
    simp

theorem list_sum_map_mul (c : ℝ) (L : List ℝ) : (L.map (c * ·)).sum = c * L.sum := by
  induction L with
  | nil => simp
  | cons x L ih => simp only [List.map_cons, List.sum_cons, ih]; ring

theorem list_map_abs_map_mul (c : ℝ) (L : List ℝ) :
    (L.map (c * ·)).map (fun x => |x|) = (L.map fun x => |x|).map (|c| * ·) := by
  simp only [List.map_map]
  apply List.map_congr_left
  intro x _
  simp [abs_mul]

namespace C05
open SV.Poly

/-! ### the pieces of the model at `Fl M` -/

/-- a literal `k_f64` / cast: `k` with (at most) one rounding -/
theorem lit_fac (k : ℕ) : ∃ c, M.Fac 1 c ∧ (lit k : Fl M).val = (k : ℝ) * c := Fl.natCast_fac k

/-- `lit k * x`: the terms of `x` scaled by `k`, two more roundings (cast and product) -/
theorem lit_mul_approx {m : ℕ} (k : ℕ) {x : Fl M} {L : List ℝ} (hx : M.Approx m x.val L) :
    M.Approx (m + 2) (lit k * x).val (L.map ((k : ℝ) * ·)) := by
  obtain ⟨c, hc, hk⟩ := lit_fac (M := M) k
  obtain ⟨d, hd, hmul⟩ := Fl.mul_fac (lit k : Fl M) x
  have := hx.smul (k : ℝ) (c * d) (hc.mul hd)
  refine this.of_eq ?_
  rw [hmul, hk]; ring

/-- `x * lit k` likewise -/
theorem mul_lit_approx {m : ℕ} (k : ℕ) {x : Fl M} {L : List ℝ} (hx : M.Approx m x.val L) :
    M.Approx (m + 2) (x * lit k).val (L.map ((k : ℝ) * ·)) := by
  obtain ⟨c, hc, hk⟩ := lit_fac (M := M) k
  obtain ⟨d, hd, hmul⟩ := Fl.mul_fac x (lit k : Fl M)
  have := hx.smul (k : ℝ) (c * d) (hc.mul hd)
  refine this.of_eq ?_
  rw [hmul, hk]; ring

/-- the computed segment width `(end − start) / segments as f64` -/
noncomputable def hFl (a b : Fl M) (n : ℕ) : Fl M := (b - a) / (n : Fl M)

/-- … is the exact width times three rounding factors (subtraction, cast, division) -/
theorem hFl_fac (a b : Fl M) (n : ℕ) :
    ∃ η, M.Fac 3 η ∧ (hFl a b n).val = (b.val - a.val) / (n : ℝ) * η := by
  obtain ⟨d1, hd1, hsub⟩ := Fl.sub_fac b a
  obtain ⟨c, hc, hn⟩ := Fl.natCast_fac (M := M) n
  obtain ⟨d2, hd2, hdiv⟩ := Fl.div_fac (b - a) (n : Fl M)
  refine ⟨d1 * d2 / c, (hd1.mul hd2).div hc, ?_⟩
  unfold hFl
  rw [hdiv, hsub, hn]
  have hc0 : c ≠ 0 := hc.pos.ne'
  by_cases hn0 : (n : ℝ) = 0
  · simp [hn0]
  · field_simp

/-- `xi` after `k` passes of `xi += 2_f64 * segment_width` from `s` -/
noncomputable def node13 (h s : Fl M) : ℕ → Fl M
  | 0 => s
  | k + 1 => node13 h s k + lit 2 * h

/-- the midpoint `xi − segment_width` of panel `k` (formed after `xi` has been advanced) -/
noncomputable def mid13 (h s : Fl M) (k : ℕ) : Fl M := node13 h s (k + 1) - h

/-- the four points of the 3/8 panel: `end − h·3, end − h·2, end − h·1, end` -/
noncomputable def node38 (h b : Fl M) (j : ℕ) : Fl M :=
  if j = 0 then b - h * lit 3 else if j = 1 then b - h * lit 2
  else if j = 2 then b - h * lit 1 else b

section rule
variable {f : Fl M → Except PErr (Fl M)} {g : Fl M → Fl M} {T : Fl M → List ℝ} {mf : ℕ}

/-- the terms one pass of the 1/3 loop adds: `4·f(xi − h) + c·f(xi)` (`c = 2`, last pass `c = 1`) -/
noncomputable def panelTerms (T : Fl M → List ℝ) (h s : Fl M) (c : ℝ) (k : ℕ) : List ℝ :=
  (T (mid13 h s k)).map ((4 : ℝ) * ·) ++ (T (node13 h s (k + 1))).map (c * ·)

/-- `4_f64 * u + 2_f64 * v` -/
theorem panel_approx (hg : ∀ x, M.Approx mf (g x).val (T x)) (h s : Fl M) (k : ℕ) :
    M.Approx (mf + 3)
      (lit 4 * g (mid13 h s k) + lit 2 * g (node13 h s (k + 1))).val (panelTerms T h s 2 k) := by
  have h1 := lit_mul_approx 4 (hg (mid13 h s k))
  have h2 := lit_mul_approx 2 (hg (node13 h s (k + 1)))
  have := h1.add_fl h2
  rw [max_self] at this
  simpa [panelTerms] using this

/-- `4_f64 * u + v` (the last pass) -/
theorem panel_last_approx (hg : ∀ x, M.Approx mf (g x).val (T x)) (h s : Fl M) (k : ℕ) :
    M.Approx (mf + 3)
      (lit 4 * g (mid13 h s k) + g (node13 h s (k + 1))).val (panelTerms T h s 1 k) := by
  have h1 := lit_mul_approx 4 (hg (mid13 h s k))
  have h2 := hg (node13 h s (k + 1))
  have := h1.add_fl h2
  rw [max_eq_left (by omega : mf ≤ mf + 2)] at this
  simpa [panelTerms] using this

/-- the loop of `simpson13`: `cnt` passes from `xi = node j` add the terms of the panels
`j, …, j+cnt−1`; every earlier term takes part in `cnt` more additions -/
theorem s13Loop_approx (hf : ∀ x, f x = .ok (g x)) (hg : ∀ x, M.Approx mf (g x).val (T x))
    (h s : Fl M) :
    ∀ (cnt j : ℕ) (sum : Fl M) (L : List ℝ) (m : ℕ), mf + 3 ≤ m → M.Approx m sum.val L →
      ∃ sum', s13Loop f h cnt (node13 h s j) sum = .ok (node13 h s (j + cnt), sum') ∧
        M.Approx (m + cnt) sum'.val (L ++ (List.range' j cnt).flatMap (panelTerms T h s 2)) := by
  intro cnt
  induction cnt with
  | zero =>
    intro j sum L m _ hL
    exact ⟨sum, rfl, by simpa using hL⟩
  | succ cnt ih =>
    intro j sum L m hm hL
    have hstep := hL.add_fl (panel_approx hg h s j)
    rw [max_eq_left hm] at hstep
    obtain ⟨sum', h1, h2⟩ := ih (j + 1) _ _ (m + 1) (by omega) hstep
    refine ⟨sum', ?_, ?_⟩
    · unfold s13Loop
      have e1 : node13 h s j + lit 2 * h = node13 h s (j + 1) := rfl
      have e2 : node13 h s (j + 1) - h = mid13 h s j := rfl
      simp only [e1, e2, hf]
      rw [h1, show j + 1 + cnt = j + (cnt + 1) by omega]
    · rw [List.range'_succ, List.flatMap_cons, ← List.append_assoc]
      exact h2.of_eq rfl |>.mono (by omega)

/-- the terms of `simpson13` with `q + 1` panels, before the final scaling -/
noncomputable def sum13Terms (T : Fl M → List ℝ) (h s : Fl M) (q : ℕ) : List ℝ :=
  T s ++ (List.range q).flatMap (panelTerms T h s 2) ++ panelTerms T h s 1 q

/-- `simpson13` with `q + 1 = segments/2` panels and computed width `h = H·η`: the value is the
rounded sum of the terms `(H/3)·w·(term of the sample)`, each with at most `mf + q + 10` roundings
(`mf` of the sample, 3 inside its panel, `q + 1` additions, and `h·sum/3` with the 3 of `h`). -/
theorem simpson13_approx (hf : ∀ x, f x = .ok (g x)) (hg : ∀ x, M.Approx mf (g x).val (T x))
    (h s : Fl M) (rem q : ℕ) (hq : rem / 2 = q + 1) (H η : ℝ) (hη : M.Fac 3 η)
    (hh : h.val = H * η) :
    ∃ v, simpson13 f h s rem = .ok v ∧
      M.Approx (mf + q + 10) v.val ((sum13Terms T h s q).map (H / 3 * ·)) := by
  have h0 : M.Approx (mf + 3) (g s).val (T s) := (hg s).mono (by omega)
  obtain ⟨sum', h1, h2⟩ := s13Loop_approx hf hg h s q 0 (g s) (T s) (mf + 3) (le_refl _) h0
  have hlast := h2.add_fl (panel_last_approx hg h s q)
  rw [max_eq_left (by omega : mf + 3 ≤ mf + 3 + q)] at hlast
  obtain ⟨d1, hd1, hmul⟩ := Fl.mul_fac h (sum' + (lit 4 * g (mid13 h s q) + g (node13 h s (q + 1))))
  obtain ⟨c, hc, h3⟩ := lit_fac (M := M) 3
  obtain ⟨d2, hd2, hdiv⟩ :=
    Fl.div_fac (h * (sum' + (lit 4 * g (mid13 h s q) + g (node13 h s (q + 1))))) (lit 3 : Fl M)
  refine ⟨h * (sum' + (lit 4 * g (mid13 h s q) + g (node13 h s (q + 1)))) / lit 3, ?_, ?_⟩
  · unfold simpson13
    have e0 : node13 h s 0 = s := rfl
    have e1 : node13 h s (0 + q) + lit 2 * h = node13 h s (q + 1) := by
      rw [Nat.zero_add]; rfl
    have e2 : node13 h s (q + 1) - h = mid13 h s q := rfl
    rw [e0] at h1
    simp only [hf, hq, Nat.add_sub_cancel, h1, e1, e2]
  · have hfac : M.Fac 6 (η * d1 * d2 / c) := ((hη.mul hd1).mul hd2).div hc
    have key := (hlast.smul (H / 3) (η * d1 * d2 / c) hfac).mono (by omega : _ ≤ mf + q + 10)
    rw [← List.range_eq_range'] at key
    refine key.of_eq ?_
    rw [hdiv, hmul, h3, hh]
    have hc0 : c ≠ 0 := hc.pos.ne'
    push_cast
    field_simp

/-- the terms of `simpson38` on the points `p0 … p3`, before the final scaling -/
noncomputable def sum38Terms (T : Fl M → List ℝ) (p0 p1 p2 p3 : Fl M) : List ℝ :=
  T p0 ++ (T p1).map ((3 : ℝ) * ·) ++ (T p2).map ((3 : ℝ) * ·) ++ T p3

/-- `simpson38`: at most `mf + 13` roundings per term (`mf` of the sample, at most 5 in
`f0 + 3 f1 + 3 f2 + f3`, and `3·h·sum/8` with the 3 of `h` and the two literals) -/
theorem simpson38_approx (hf : ∀ x, f x = .ok (g x)) (hg : ∀ x, M.Approx mf (g x).val (T x))
    (h p0 p1 p2 p3 : Fl M) (H η : ℝ) (hη : M.Fac 3 η) (hh : h.val = H * η) :
    ∃ v, simpson38 f h p0 p1 p2 p3 = .ok v ∧
      M.Approx (mf + 13) v.val ((sum38Terms T p0 p1 p2 p3).map (3 * H / 8 * ·)) := by
  have a1 := (hg p0).add_fl (lit_mul_approx 3 (hg p1))
  rw [max_eq_right (by omega : mf ≤ mf + 2)] at a1
  have a2 := a1.add_fl (lit_mul_approx 3 (hg p2))
  rw [max_eq_left (by omega : mf + 2 ≤ mf + 2 + 1)] at a2
  have a3 := a2.add_fl (hg p3)
  rw [max_eq_left (by omega : mf ≤ mf + 2 + 1 + 1)] at a3
  obtain ⟨c3, hc3, h3⟩ := lit_fac (M := M) 3
  obtain ⟨c8, hc8, h8⟩ := lit_fac (M := M) 8
  obtain ⟨d1, hd1, hm1⟩ := Fl.mul_fac (lit 3 : Fl M) h
  obtain ⟨d2, hd2, hm2⟩ :=
    Fl.mul_fac (lit 3 * h) (g p0 + lit 3 * g p1 + lit 3 * g p2 + g p3)
  obtain ⟨d3, hd3, hdiv⟩ :=
    Fl.div_fac (lit 3 * h * (g p0 + lit 3 * g p1 + lit 3 * g p2 + g p3)) (lit 8 : Fl M)
  refine ⟨lit 3 * h * (g p0 + lit 3 * g p1 + lit 3 * g p2 + g p3) / lit 8, ?_, ?_⟩
  · unfold simpson38
    simp only [hf]
  · have hfac : M.Fac 8 (c3 * η * d1 * d2 * d3 / c8) :=
      ((((hc3.mul hη).mul hd1).mul hd2).mul hd3).div hc8
    have key := (a3.smul (3 * H / 8) (c3 * η * d1 * d2 * d3 / c8) hfac).mono
      (by omega : _ ≤ mf + 13)
    refine key.of_eq ?_
    rw [hdiv, hm2, hm1, h3, h8, hh]
    have hc0 : c8 ≠ 0 := hc8.pos.ne'
    push_cast
    field_simp

/-- all the terms of `definite_integral(…, n)`, `n ≥ 2`, in the order of accumulation, with exact
width `H` in the coefficients and the computed width `h` in the abscissae -/
noncomputable def ruleTerms (T : Fl M → List ℝ) (h a b : Fl M) (n : ℕ) (H : ℝ) : List ℝ :=
  if n % 2 = 0 then (sum13Terms T h a (n / 2 - 1)).map (H / 3 * ·)
  else
    (sum38Terms T (node38 h b 0) (node38 h b 1) (node38 h b 2) (node38 h b 3)).map (3 * H / 8 * ·)
      ++ (if n = 3 then [] else (sum13Terms T h a ((n - 3) / 2 - 1)).map (H / 3 * ·))

/-- **The composite rule as the code computes it.**  For every `n ≥ 2` (even, odd, 3) the value of
`definite_integral` is the rounded sum of its terms with at most `mf + n/2 + 13` roundings each. -/
theorem definiteIntegral_approx (hf : ∀ x, f x = .ok (g x))
    (hg : ∀ x, M.Approx mf (g x).val (T x)) (a b : Fl M) (n : ℕ) (hn : 2 ≤ n) :
    ∃ v, definiteIntegral f a b n = .ok v ∧
      M.Approx (mf + n / 2 + 13) v.val
        (ruleTerms T (hFl a b n) a b n ((b.val - a.val) / (n : ℝ))) := by
  obtain ⟨η, hη, hh⟩ := hFl_fac a b n
  have h0 : M.Approx 0 (0 : Fl M).val [] := FlModel.Approx.nil
  unfold definiteIntegral
  rw [if_neg (by omega)]
  have eh : (b - a) / (n : Fl M) = hFl a b n := rfl
  simp only [eh]
  by_cases hpar : n % 2 = 0
  · -- even
    obtain ⟨v, hv, hA⟩ := simpson13_approx hf hg (hFl a b n) a n (n / 2 - 1) (by omega) _ η hη hh
    have := h0.add_fl hA
    refine ⟨0 + v, ?_, ?_⟩
    · simp only [hpar, ne_eq, not_true_eq_false, if_false]
      rw [if_pos (by omega), hv]
    · simp only [ruleTerms, hpar, if_true]
      rw [List.nil_append] at this
      exact this.mono (by rw [Nat.zero_max]; omega)
  · -- odd
    obtain ⟨v8, hv8, hA8⟩ := simpson38_approx hf hg (hFl a b n)
      (node38 (hFl a b n) b 0) (node38 (hFl a b n) b 1) (node38 (hFl a b n) b 2)
      (node38 (hFl a b n) b 3) _ η hη hh
    have e0 : b - hFl a b n * lit 3 = node38 (hFl a b n) b 0 := rfl
    have e1 : b - hFl a b n * lit 2 = node38 (hFl a b n) b 1 := rfl
    have e2 : b - hFl a b n * lit 1 = node38 (hFl a b n) b 2 := rfl
    have e3 : node38 (hFl a b n) b 3 = b := rfl
    rw [e3] at hv8
    have hs8 := h0.add_fl hA8
    rw [List.nil_append, Nat.zero_max] at hs8
    by_cases h3 : n = 3
    · refine ⟨0 + v8, ?_, ?_⟩
      · simp only [hpar, ne_eq, not_false_eq_true, if_true, e0, e1, e2, hv8]
        rw [if_neg (by omega)]
      · simp only [ruleTerms, h3, if_true, List.append_nil]
        rw [h3] at hs8
        exact hs8.mono (by omega)
    · obtain ⟨v, hv, hA⟩ := simpson13_approx hf hg (hFl a b n) a (n - 3) ((n - 3) / 2 - 1)
        (by omega) _ η hη hh
      have := hs8.add_fl hA
      refine ⟨0 + v8 + v, ?_, ?_⟩
      · simp only [hpar, ne_eq, not_false_eq_true, if_true, e0, e1, e2, hv8]
        rw [if_pos (by omega), hv]
      · simp only [ruleTerms, hpar, if_false, h3]
        exact this.mono (by
          rw [Nat.add_le_add_iff_right, Nat.max_le]
          omega)

end rule

/-! ### closed forms of the term sums -/

/-- the 1/3 part with `q + 1` panels as an expression in the sample values at the nodes (`F13 k`,
`k = 0 … q+1`) and at the midpoints (`Fmid k`, `k = 0 … q`), before the scaling by `H/3` -/
noncomputable def S13 (q : ℕ) (F13 Fmid : ℕ → ℝ) : ℝ :=
  F13 0 + ∑ k ∈ range q, (4 * Fmid k + 2 * F13 (k + 1)) + (4 * Fmid q + F13 (q + 1))

/-- the 3/8 panel, before the scaling by `3H/8` -/
noncomputable def S38 (F : ℕ → ℝ) : ℝ := F 0 + 3 * F 1 + 3 * F 2 + F 3

/-- **composite Simpson as `definite_integral` arranges it**, `n ≥ 2`, width `H`, in terms of the
sample values: even `n`: `n/2` panels of the 1/3 rule from the start; odd `n`: the 3/8 rule on the
last three segments and `(n−3)/2` panels of the 1/3 rule from the start (none for `n = 3`) -/
noncomputable def simpsonSum (n : ℕ) (H : ℝ) (F13 Fmid F38 : ℕ → ℝ) : ℝ :=
  if n % 2 = 0 then H / 3 * S13 (n / 2 - 1) F13 Fmid
  else 3 * H / 8 * S38 F38 + (if n = 3 then 0 else H / 3 * S13 ((n - 3) / 2 - 1) F13 Fmid)

theorem S13_succ (q : ℕ) (F13 Fmid : ℕ → ℝ) :
    S13 (q + 1) F13 Fmid = S13 q F13 Fmid + (F13 (q + 1) + 4 * Fmid (q + 1) + F13 (q + 2)) := by
  unfold S13
  rw [Finset.sum_range_succ]
  ring

theorem S13_sub (q : ℕ) (F F' G G' : ℕ → ℝ) :
    S13 q (fun k => F k - F' k) (fun k => G k - G' k) = S13 q F G - S13 q F' G' := by
  induction q with
  | zero => simp [S13]; ring
  | succ q ih => rw [S13_succ, S13_succ, S13_succ, ih]; ring

/-- `|S13| ≤ (6q + 6)·C` when every sample is at most `C` in magnitude (the weights
`1, 4, 2, …, 4, 1` of `q + 1` panels add up to `6(q + 1)`) -/
theorem S13_abs_le (q : ℕ) (F G : ℕ → ℝ) (C : ℝ) (hF : ∀ k, k ≤ q + 1 → |F k| ≤ C)
    (hG : ∀ k, k ≤ q → |G k| ≤ C) : |S13 q F G| ≤ (6 * (q : ℝ) + 6) * C := by
  induction q with
  | zero =>
    have h0 := hF 0 (by omega)
    have h1 := hF 1 (by omega)
    have h2 := hG 0 (by omega)
    simp only [S13, Finset.range_zero, Finset.sum_empty, add_zero, Nat.cast_zero, mul_zero,
      zero_add]
    rw [abs_le] at *
    constructor <;> linarith [h0.1, h0.2, h1.1, h1.2, h2.1, h2.2]
  | succ q ih =>
    have h0 := ih (fun k hk => hF k (by omega)) (fun k hk => hG k (by omega))
    have h1 := hF (q + 1) (by omega)
    have h2 := hF (q + 2) (by omega)
    have h3 := hG (q + 1) (by omega)
    rw [S13_succ]
    push_cast
    rw [abs_le] at *
    constructor <;> linarith [h0.1, h0.2, h1.1, h1.2, h2.1, h2.2, h3.1, h3.2]

/-- telescoping: if every panel integrates `G` exactly, so does the 1/3 part -/
theorem S13_telescope (q : ℕ) (H : ℝ) (F Fm G : ℕ → ℝ)
    (hp : ∀ k, H / 3 * (F k + 4 * Fm k + F (k + 1)) = G (k + 1) - G k) :
    H / 3 * S13 q F Fm = G (q + 1) - G 0 := by
  induction q with
  | zero =>
    have := hp 0
    simp only [S13, Finset.range_zero, Finset.sum_empty, add_zero, zero_add] at this ⊢
    linarith
  | succ q ih =>
    rw [S13_succ, mul_add, ih, hp (q + 1)]
    ring

theorem S38_abs_le (F : ℕ → ℝ) (C : ℝ) (hF : ∀ j, j < 4 → |F j| ≤ C) : |S38 F| ≤ 8 * C := by
  have h0 := hF 0 (by omega)
  have h1 := hF 1 (by omega)
  have h2 := hF 2 (by omega)
  have h3 := hF 3 (by omega)
  unfold S38
  rw [abs_le] at *
  constructor <;> linarith [h0.1, h0.2, h1.1, h1.2, h2.1, h2.2, h3.1, h3.2]

theorem simpsonSum_sub (n : ℕ) (H : ℝ) (F F' G G' E E' : ℕ → ℝ) :
    simpsonSum n H (fun k => F k - F' k) (fun k => G k - G' k) (fun j => E j - E' j)
      = simpsonSum n H F G E - simpsonSum n H F' G' E' := by
  unfold simpsonSum
  simp only [S13_sub, S38]
  split_ifs <;> ring

/-- **the weights of the rule add up to the interval**: if every sample is at most `C` in
magnitude then `|rule| ≤ C·n·|H|` (`n·|H| = |b − a|`) -/
theorem simpsonSum_abs_le (n : ℕ) (hn : 2 ≤ n) (H : ℝ) (F G E : ℕ → ℝ) (C : ℝ)
    (hF : ∀ k, k ≤ n / 2 → |F k| ≤ C) (hG : ∀ k, k < n / 2 → |G k| ≤ C)
    (hE : n % 2 = 1 → ∀ j, j < 4 → |E j| ≤ C) :
    |simpsonSum n H F G E| ≤ C * ((n : ℝ) * |H|) := by
  have hC : 0 ≤ C := (abs_nonneg _).trans (hF 0 (by omega))
  have hH := abs_nonneg H
  unfold simpsonSum
  by_cases hpar : n % 2 = 0
  · rw [if_pos hpar, abs_mul, abs_div, abs_of_pos (by norm_num : (0 : ℝ) < 3)]
    have hb := S13_abs_le (n / 2 - 1) F G C (fun k hk => hF k (by omega))
      (fun k hk => hG k (by omega))
    have hq : ((n / 2 - 1 : ℕ) : ℝ) = (n : ℝ) / 2 - 1 := by
      have : n / 2 - 1 + 1 = n / 2 := by omega
      have h2 : (n / 2) * 2 = n := by omega
      have e1 : ((n / 2 - 1 : ℕ) : ℝ) + 1 = ((n / 2 : ℕ) : ℝ) := by exact_mod_cast this
      have e2 : ((n / 2 : ℕ) : ℝ) * 2 = n := by exact_mod_cast h2
      linarith
    rw [hq] at hb
    calc |H| / 3 * |S13 (n / 2 - 1) F G|
        ≤ |H| / 3 * ((6 * ((n : ℝ) / 2 - 1) + 6) * C) :=
          mul_le_mul_of_nonneg_left hb (by positivity)
      _ = C * (n * |H|) := by ring
  · rw [if_neg hpar]
    have hodd : n % 2 = 1 := by omega
    have h8 := S38_abs_le E C (hE hodd)
    have t8 : |3 * H / 8 * S38 E| ≤ 3 * |H| * C := by
      rw [abs_mul, abs_div, abs_mul, abs_of_pos (by norm_num : (0 : ℝ) < 3),
        abs_of_pos (by norm_num : (0 : ℝ) < 8)]
      calc 3 * |H| / 8 * |S38 E| ≤ 3 * |H| / 8 * (8 * C) :=
            mul_le_mul_of_nonneg_left h8 (by positivity)
        _ = 3 * |H| * C := by ring
    by_cases h3 : n = 3
    · rw [if_pos h3, add_zero, h3]
      push_cast
      linarith
    · rw [if_neg h3]
      have hb := S13_abs_le ((n - 3) / 2 - 1) F G C (fun k hk => hF k (by omega))
        (fun k hk => hG k (by omega))
      have hq : (((n - 3) / 2 - 1 : ℕ) : ℝ) = ((n : ℝ) - 3) / 2 - 1 := by
        have h2 : ((n - 3) / 2 - 1 + 1) * 2 + 3 = n := by omega
        have e2 : ((((n - 3) / 2 - 1 : ℕ) : ℝ) + 1) * 2 + 3 = n := by exact_mod_cast h2
        linarith
      rw [hq] at hb
      have t3 : |H / 3 * S13 ((n - 3) / 2 - 1) F G| ≤ ((n : ℝ) - 3) * |H| * C := by
        rw [abs_mul, abs_div, abs_of_pos (by norm_num : (0 : ℝ) < 3)]
        calc |H| / 3 * |S13 ((n - 3) / 2 - 1) F G|
            ≤ |H| / 3 * ((6 * (((n : ℝ) - 3) / 2 - 1) + 6) * C) :=
              mul_le_mul_of_nonneg_left hb (by positivity)
          _ = ((n : ℝ) - 3) * |H| * C := by ring
      calc |3 * H / 8 * S38 E + H / 3 * S13 ((n - 3) / 2 - 1) F G|
          ≤ |3 * H / 8 * S38 E| + |H / 3 * S13 ((n - 3) / 2 - 1) F G| := abs_add_le _ _
        _ ≤ 3 * |H| * C + ((n : ℝ) - 3) * |H| * C := add_le_add t8 t3
        _ = C * (n * |H|) := by ring

theorem S13_nonneg (q : ℕ) (F G : ℕ → ℝ) (hF : ∀ k, 0 ≤ F k) (hG : ∀ k, 0 ≤ G k) :
    0 ≤ S13 q F G := by
  unfold S13
  have h1 : 0 ≤ ∑ k ∈ range q, (4 * G k + 2 * F (k + 1)) :=
    Finset.sum_nonneg fun k _ => by linarith [hF (k + 1), hG k]
  linarith [hF 0, hG q, hF (q + 1)]

/-- the rule is non-negative on non-negative samples (all weights are positive) -/
theorem simpsonSum_nonneg (n : ℕ) (H : ℝ) (hH : 0 ≤ H) (F G E : ℕ → ℝ) (hF : ∀ k, 0 ≤ F k)
    (hG : ∀ k, 0 ≤ G k) (hE : ∀ j, 0 ≤ E j) : 0 ≤ simpsonSum n H F G E := by
  have h8 : 0 ≤ S38 E := by unfold S38; linarith [hE 0, hE 1, hE 2, hE 3]
  unfold simpsonSum
  split_ifs
  · exact mul_nonneg (by positivity) (S13_nonneg _ F G hF hG)
  · rw [add_zero]; exact mul_nonneg (by positivity) h8
  · exact add_nonneg (mul_nonneg (by positivity) h8)
      (mul_nonneg (by positivity) (S13_nonneg _ F G hF hG))

theorem simpsonSum_abs_nonneg (n : ℕ) (H : ℝ) (F G E : ℕ → ℝ) :
    0 ≤ simpsonSum n |H| (fun k => |F k|) (fun k => |G k|) (fun j => |E j|) :=
  simpsonSum_nonneg n |H| (abs_nonneg _) _ _ _ (fun _ => abs_nonneg _) (fun _ => abs_nonneg _)
    (fun _ => abs_nonneg _)

section sums
variable (T : Fl M → List ℝ)

theorem panelTerms_sum (h s : Fl M) (c : ℝ) (k : ℕ) :
    (panelTerms T h s c k).sum = 4 * (T (mid13 h s k)).sum + c * (T (node13 h s (k + 1))).sum := by
  simp only [panelTerms, List.sum_append, list_sum_map_mul]

theorem sum13Terms_sum (h s : Fl M) (q : ℕ) :
    (sum13Terms T h s q).sum
      = S13 q (fun k => (T (node13 h s k)).sum) (fun k => (T (mid13 h s k)).sum) := by
  have e : node13 h s 0 = s := rfl
  simp only [sum13Terms, S13, List.sum_append, list_sum_flatMap_range, panelTerms_sum, e, one_mul]

theorem sum38Terms_sum (p0 p1 p2 p3 : Fl M) :
    (sum38Terms T p0 p1 p2 p3).sum
      = (T p0).sum + 3 * (T p1).sum + 3 * (T p2).sum + (T p3).sum := by
  simp only [sum38Terms, List.sum_append, list_sum_map_mul]

/-- the exact sum of the terms of the rule is the rule applied to the sums of the sample terms -/
theorem ruleTerms_sum (h a b : Fl M) (n : ℕ) (H : ℝ) :
    (ruleTerms T h a b n H).sum
      = simpsonSum n H (fun k => (T (node13 h a k)).sum) (fun k => (T (mid13 h a k)).sum)
          (fun j => (T (node38 h b j)).sum) := by
  unfold ruleTerms simpsonSum
  split_ifs <;>
    simp only [List.sum_append, list_sum_map_mul, sum13Terms_sum, sum38Terms_sum, S38,
      List.sum_nil]

theorem panelTerms_abs (h s : Fl M) (c : ℝ) (hc : 0 ≤ c) (k : ℕ) :
    (panelTerms T h s c k).map (fun x => |x|)
      = panelTerms (fun x => (T x).map fun y => |y|) h s c k := by
  simp only [panelTerms, List.map_append, list_map_abs_map_mul, abs_of_nonneg hc,
    abs_of_pos (by norm_num : (0 : ℝ) < 4)]

theorem sum13Terms_abs (h s : Fl M) (q : ℕ) :
    (sum13Terms T h s q).map (fun x => |x|)
      = sum13Terms (fun x => (T x).map fun y => |y|) h s q := by
  simp only [sum13Terms, List.map_append, List.map_flatMap,
    panelTerms_abs T h s 2 (by norm_num), panelTerms_abs T h s 1 (by norm_num)]

theorem sum38Terms_abs (p0 p1 p2 p3 : Fl M) :
    (sum38Terms T p0 p1 p2 p3).map (fun x => |x|)
      = sum38Terms (fun x => (T x).map fun y => |y|) p0 p1 p2 p3 := by
  simp only [sum38Terms, List.map_append, list_map_abs_map_mul,
    abs_of_pos (by norm_num : (0 : ℝ) < 3)]

/-- the absolute values of the terms of the rule are the terms of the rule with width `|H|` on the
absolute values of the sample terms (all weights of Simpson's rules are positive) -/
theorem ruleTerms_abs (h a b : Fl M) (n : ℕ) (H : ℝ) :
    (ruleTerms T h a b n H).map (fun x => |x|)
      = ruleTerms (fun x => (T x).map fun y => |y|) h a b n |H| := by
  have e3 : |H / 3| = |H| / 3 := by rw [abs_div, abs_of_pos (by norm_num : (0 : ℝ) < 3)]
  have e8 : |3 * H / 8| = 3 * |H| / 8 := by
    rw [abs_div, abs_mul, abs_of_pos (by norm_num : (0 : ℝ) < 3),
      abs_of_pos (by norm_num : (0 : ℝ) < 8)]
  unfold ruleTerms
  split_ifs <;>
    simp only [List.map_append, list_map_abs_map_mul, sum13Terms_abs, sum38Terms_abs, e3, e8,
      List.map_nil]

end sums

/-! ### the drift of the computed abscissae -/

section drift
variable (h : Fl M) (H η : ℝ) (hη : M.Fac 3 η) (hh : h.val = H * η)
include hη hh

theorem h_approx : M.Approx 3 h.val [H] :=
  (FlModel.Approx.cons H η 0 [] hη FlModel.Approx.nil).of_eq (by rw [hh]; ring)

/-- `xi` after `k` passes of `xi += 2h`: the rounded sum of `s` and `k` copies of `2H` -/
theorem node13_approx (s : Fl M) :
    ∀ k, M.Approx (k + 5) (node13 h s k).val (s.val :: List.replicate k (2 * H)) := by
  intro k
  induction k with
  | zero => exact (FlModel.Approx.single s.val).mono (by omega)
  | succ k ih =>
    have h2 := lit_mul_approx 2 (h_approx h H η hη hh)
    have := ih.add_fl h2
    rw [max_eq_left (by omega : 3 + 2 ≤ k + 5)] at this
    have e : node13 h s (k + 1) = node13 h s k + lit 2 * h := rfl
    rw [e, List.replicate_succ', ← List.cons_append]
    simpa using this

/-- the midpoint `xi − h` -/
theorem mid13_approx (s : Fl M) (k : ℕ) :
    M.Approx (k + 7) (mid13 h s k).val (s.val :: List.replicate (k + 1) (2 * H) ++ [-H]) := by
  have := (node13_approx h H η hη hh s (k + 1)).sub_fl (h_approx h H η hη hh)
  rw [max_eq_left (by omega : 3 ≤ k + 1 + 5)] at this
  simpa [mid13] using this

/-- a point `end − h·j` of the 3/8 panel -/
theorem sub_mul_lit_approx (b : Fl M) (j : ℕ) :
    M.Approx 6 (b - h * lit j).val [b.val, -((j : ℝ) * H)] := by
  have := (FlModel.Approx.single b.val).sub_fl (mul_lit_approx j (h_approx h H η hη hh))
  rw [max_eq_right (by omega : 0 ≤ 3 + 2)] at this
  simpa using this

theorem node13_drift (s : Fl M) (k : ℕ) (hu : ((k + 5 : ℕ) : ℝ) * M.u < 1) :
    |(node13 h s k).val - (s.val + (k : ℝ) * (2 * H))|
      ≤ M.gamma (k + 5) * (|s.val| + (k : ℝ) * (2 * |H|)) := by
  have := (node13_approx h H η hη hh s k).abs_sub_le hu
  simpa [List.sum_replicate, abs_mul] using this

theorem mid13_drift (s : Fl M) (k : ℕ) (hu : ((k + 7 : ℕ) : ℝ) * M.u < 1) :
    |(mid13 h s k).val - (s.val + ((k : ℝ) + 1) * (2 * H) - H)|
      ≤ M.gamma (k + 7) * (|s.val| + ((k : ℝ) + 1) * (2 * |H|) + |H|) := by
  have := (mid13_approx h H η hη hh s k).abs_sub_le hu
  simp only [List.cons_append, List.sum_cons, List.sum_append, List.sum_replicate, List.map_cons,
    List.map_append, List.map_replicate, List.sum_nil, List.map_nil, nsmul_eq_mul, abs_neg,
    abs_mul, add_zero, Nat.cast_add, Nat.cast_one] at this
  rw [abs_of_pos (by norm_num : (0 : ℝ) < 2)] at this
  have e : s.val + (((k : ℝ) + 1) * (2 * H) + -H) = s.val + ((k : ℝ) + 1) * (2 * H) - H := by ring
  rw [e] at this
  linarith

theorem node38_drift (b : Fl M) (j : ℕ) (hu : ((6 : ℕ) : ℝ) * M.u < 1) :
    |(b - h * lit j).val - (b.val - (j : ℝ) * H)| ≤ M.gamma 6 * (|b.val| + (j : ℝ) * |H|) := by
  have := (sub_mul_lit_approx h H η hη hh b j).abs_sub_le hu
  simp only [List.sum_cons, List.sum_nil, List.map_cons, List.map_nil, abs_neg, abs_mul,
    Nat.abs_cast, add_zero] at this
  rw [show b.val + -((j : ℝ) * H) = b.val - (j : ℝ) * H by ring] at this
  exact this

end drift

/-! ### real-analysis side: polynomials near the exact abscissae -/

section realpoly

/-- `|x^k − y^k| ≤ k·Y^(k−1)·|x − y|` on `[−Y, Y]` -/
theorem abs_pow_sub_pow_le (x y Y : ℝ) (hx : |x| ≤ Y) (hy : |y| ≤ Y) (k : ℕ) :
    |x ^ k - y ^ k| ≤ (k : ℝ) * Y ^ (k - 1) * |x - y| := by
  have hY : 0 ≤ Y := (abs_nonneg x).trans hx
  induction k with
  | zero => simp
  | succ k ih =>
    cases k with
    | zero => simp
    | succ k =>
      have e : x ^ (k + 1 + 1) - y ^ (k + 1 + 1)
          = x ^ (k + 1) * (x - y) + (x ^ (k + 1) - y ^ (k + 1)) * y := by ring
      have h1 : |x ^ (k + 1) * (x - y)| ≤ Y ^ (k + 1) * |x - y| := by
        rw [abs_mul, abs_pow]
        exact mul_le_mul_of_nonneg_right (pow_le_pow_left₀ (abs_nonneg x) hx _) (abs_nonneg _)
      have h2 : |(x ^ (k + 1) - y ^ (k + 1)) * y|
          ≤ ((k + 1 : ℕ) : ℝ) * Y ^ (k + 1 - 1) * |x - y| * Y := by
        rw [abs_mul]
        exact mul_le_mul ih hy (abs_nonneg _) (by positivity)
      rw [e]
      refine (abs_add_le _ _).trans ((add_le_add h1 h2).trans (le_of_eq ?_))
      simp only [Nat.add_sub_cancel]
      push_cast
      ring

variable (c : ℕ → ℝ) (L : ℕ)

/-- `Σ_{k<L} c_k x^k` -/
noncomputable def qv (x : ℝ) : ℝ := ∑ k ∈ range L, c k * x ^ k

/-- `Σ_{k<L} |c_k|·Y^k` -/
noncomputable def B0 (Y : ℝ) : ℝ := ∑ k ∈ range L, |c k| * Y ^ k

/-- `Σ_{k<L} k·|c_k|·Y^(k−1)`, a bound of `|p'|` on `[−Y, Y]` -/
noncomputable def B1 (Y : ℝ) : ℝ := ∑ k ∈ range L, (k : ℝ) * |c k| * Y ^ (k - 1)

theorem qv_lipschitz (x y Y : ℝ) (hx : |x| ≤ Y) (hy : |y| ≤ Y) :
    |qv c L x - qv c L y| ≤ |x - y| * B1 c L Y := by
  unfold qv B1
  rw [← Finset.sum_sub_distrib, Finset.mul_sum]
  refine (Finset.abs_sum_le_sum_abs _ _).trans (Finset.sum_le_sum fun k _ => ?_)
  rw [← mul_sub, abs_mul]
  have := abs_pow_sub_pow_le x y Y hx hy k
  calc |c k| * |x ^ k - y ^ k| ≤ |c k| * ((k : ℝ) * Y ^ (k - 1) * |x - y|) :=
        mul_le_mul_of_nonneg_left this (abs_nonneg _)
    _ = |x - y| * ((k : ℝ) * |c k| * Y ^ (k - 1)) := by ring

theorem sum_abs_le_B0 (x Y : ℝ) (hx : |x| ≤ Y) :
    ∑ k ∈ range L, |c k * x ^ k| ≤ B0 c L Y := by
  unfold B0
  refine Finset.sum_le_sum fun k _ => ?_
  rw [abs_mul, abs_pow]
  exact mul_le_mul_of_nonneg_left (pow_le_pow_left₀ (abs_nonneg x) hx _) (abs_nonneg _)

theorem B0_nonneg (Y : ℝ) (hY : 0 ≤ Y) : 0 ≤ B0 c L Y :=
  Finset.sum_nonneg fun k _ => by positivity

theorem B1_nonneg (Y : ℝ) (hY : 0 ≤ Y) : 0 ≤ B1 c L Y :=
  Finset.sum_nonneg fun k _ => by positivity

/-- `Y·B1(Y) = Σ k·|c_k|·Y^k` -/
theorem mul_B1 (Y : ℝ) : Y * B1 c L Y = ∑ k ∈ range L, (k : ℝ) * |c k| * Y ^ k := by
  unfold B1
  rw [Finset.mul_sum]
  refine Finset.sum_congr rfl fun k _ => ?_
  cases k with
  | zero => simp
  | succ k => simp only [Nat.add_sub_cancel]; ring

/-- a point between `a` and `b` is at most `max |a| |b|` in magnitude -/
theorem abs_le_of_hull (a b x : ℝ) (h1 : min a b ≤ x) (h2 : x ≤ max a b) :
    |x| ≤ max |a| |b| := by
  have ha := le_max_left |a| |b|
  have hb := le_max_right |a| |b|
  rw [abs_le]
  rcases le_total a b with h | h
  · rw [min_eq_left h] at h1
    rw [max_eq_right h] at h2
    exact ⟨by linarith [neg_abs_le a], by linarith [le_abs_self b]⟩
  · rw [min_eq_right h] at h1
    rw [max_eq_left h] at h2
    exact ⟨by linarith [neg_abs_le b], by linarith [le_abs_self a]⟩

/-- the exact abscissa `a + s·(b−a)/n`, `0 ≤ s ≤ n` -/
theorem abs_node_le (a b : ℝ) (n : ℕ) (hn : 0 < n) (s : ℝ) (h0 : 0 ≤ s) (h1 : s ≤ n) :
    |a + s * ((b - a) / n)| ≤ max |a| |b| := by
  obtain ⟨h2, h3⟩ := node_mem a b n hn s h0 h1
  exact abs_le_of_hull a b _ h2 h3

end realpoly

/-- **Composite Simpson is exact for cubics**, in the closed form of the rule with the exact
abscissae `a + k·2H`, `a + (k+1)·2H − H`, `b − (3−j)·H` (`H = (b−a)/n`), every `n ≥ 2` -/
theorem simpsonSum_exact_cubic (q P : Polynomial ℝ) (hP : Polynomial.derivative P = q)
    (hq : q.natDegree ≤ 3) (a b : ℝ) (n : ℕ) (hn : 2 ≤ n) :
    simpsonSum n ((b - a) / n) (fun k => q.eval (a + (k : ℝ) * (2 * ((b - a) / n))))
        (fun k => q.eval (a + ((k : ℝ) + 1) * (2 * ((b - a) / n)) - (b - a) / n))
        (fun j => q.eval (b - ((3 - j : ℕ) : ℝ) * ((b - a) / n)))
      = P.eval b - P.eval a := by
  have c4 : q.coeff 4 = 0 := Polynomial.coeff_eq_zero_of_natDegree_lt (by omega)
  have h13 := fun x h => poly_panel13 q P hP (show q.natDegree ≤ 4 by omega) x h
  have h38 := fun x h => poly_panel38 q P hP (show q.natDegree ≤ 4 by omega) x h
  simp only [c4, mul_zero, add_zero] at h13 h38
  have hn0 : (n : ℝ) ≠ 0 := by exact_mod_cast (by omega : n ≠ 0)
  set H := (b - a) / (n : ℝ) with hH
  have hnH : (n : ℝ) * H = b - a := by rw [hH]; field_simp
  -- the 1/3 part with `q' + 1` panels
  have tele : ∀ q' : ℕ, H / 3 * S13 q' (fun k => q.eval (a + (k : ℝ) * (2 * H)))
        (fun k => q.eval (a + ((k : ℝ) + 1) * (2 * H) - H))
      = P.eval (a + ((q' + 1 : ℕ) : ℝ) * (2 * H)) - P.eval a := by
    intro q'
    have := S13_telescope q' H (fun k => q.eval (a + (k : ℝ) * (2 * H)))
      (fun k => q.eval (a + ((k : ℝ) + 1) * (2 * H) - H))
      (fun k => P.eval (a + (k : ℝ) * (2 * H))) (fun k => by
        have := h13 (a + (k : ℝ) * (2 * H)) H
        have e1 : a + (k : ℝ) * (2 * H) + H = a + ((k : ℝ) + 1) * (2 * H) - H := by ring
        have e2 : a + (k : ℝ) * (2 * H) + 2 * H = a + ((k + 1 : ℕ) : ℝ) * (2 * H) := by
          push_cast; ring
        rw [e1, e2] at this
        exact this)
    rw [this]
    simp
  unfold simpsonSum
  by_cases hpar : n % 2 = 0
  · rw [if_pos hpar, tele]
    have e : a + ((n / 2 - 1 + 1 : ℕ) : ℝ) * (2 * H) = b := by
      have h1 : n / 2 - 1 + 1 = n / 2 := by omega
      have h2 : (n / 2) * 2 = n := by omega
      have e2 : ((n / 2 : ℕ) : ℝ) * 2 = n := by exact_mod_cast h2
      rw [h1]
      linear_combination H * e2 + hnH
    rw [e]
  · rw [if_neg hpar]
    have p8 : 3 * H / 8 * S38 (fun j => q.eval (b - ((3 - j : ℕ) : ℝ) * H))
        = P.eval b - P.eval (b - 3 * H) := by
      have := h38 (b - 3 * H) H
      unfold S38
      simp only [Nat.sub_zero, Nat.cast_ofNat, Nat.reduceSub, Nat.cast_one, one_mul,
        Nat.sub_self, Nat.cast_zero, zero_mul, sub_zero]
      rw [show b - 3 * H + H = b - 2 * H by ring, show b - 3 * H + 2 * H = b - H by ring,
        show b - 3 * H + 3 * H = b by ring] at this
      exact this
    rw [p8]
    by_cases h3 : n = 3
    · rw [if_pos h3, add_zero]
      have : b - 3 * H = a := by
        rw [h3] at hnH
        push_cast at hnH
        linarith
      rw [this]
    · rw [if_neg h3, tele]
      have e : a + (((n - 3) / 2 - 1 + 1 : ℕ) : ℝ) * (2 * H) = b - 3 * H := by
        have h1 : (n - 3) / 2 - 1 + 1 = (n - 3) / 2 := by omega
        have h2 : ((n - 3) / 2) * 2 + 3 = n := by omega
        have e2 : (((n - 3) / 2 : ℕ) : ℝ) * 2 + 3 = n := by exact_mod_cast h2
        rw [h1]
        linear_combination H * e2 + hnH
      rw [e]
      ring

/-! ### assembly: a cubic evaluated with `evalSimple` -/

section assembly
open Polynomial
variable (cs : List (Fl M))

/-- coefficient `k` of the list, as a real -/
def cf (k : ℕ) : ℝ := (cs.getD k 0).val

/-- the terms `c_k·x^k` of one evaluation of the polynomial at the floating-point number `x` -/
noncomputable def polyTerms (x : Fl M) : List ℝ :=
  (List.range cs.length).map fun k => cf cs k * x.val ^ k

/-- `eval_simple_polynomial` as a rounded sum: at most `len + 1` roundings per term
(`SV.Props.C01Rounding.eval_weights`) -/
theorem evalSimple_approx (x : Fl M) :
    M.Approx (cs.length + 1) (evalSimple cs x).val (polyTerms cs x) := by
  obtain ⟨t0, t, _, ht, hval⟩ := evalSimpleFrom_weights x cs 0 (0 : Fl M)
  have := FlModel.Approx.of_weights (M := M) (m := cs.length + 1) cs.length
    (fun k => cf cs k * x.val ^ k) t (fun k hk => by simpa using ht k hk)
  refine this.of_eq ?_
  unfold evalSimple
  rw [hval]
  simp [cf]

theorem polyTerms_sum (x : Fl M) : (polyTerms cs x).sum = qv (cf cs) cs.length x.val :=
  list_sum_map_range _ _

theorem polyTerms_abs_sum (x : Fl M) :
    ((polyTerms cs x).map fun y => |y|).sum = ∑ k ∈ range cs.length, |cf cs k * x.val ^ k| := by
  unfold polyTerms
  rw [List.map_map]
  exact list_sum_map_range _ _

/-- the Mathlib polynomial of the coefficient list evaluates to `Σ c_k x^k` -/
theorem eval_ofCoeffs_val (x : ℝ) :
    (ofCoeffs (cs.map Fl.val)).eval x = qv (cf cs) cs.length x := by
  rw [← evalSimple_eq, SV.Props.C01.eval_eq_sum, List.length_map]
  unfold qv cf
  refine Finset.sum_congr rfl fun k hk => ?_
  rw [getD_map_of_lt cs Fl.val 0 0 (by simpa using hk)]

/-- the drift allowance of the abscissae: `4·γ_{n/2+6}·X` -/
noncomputable def drift (M : FlModel) (n : ℕ) (X : ℝ) : ℝ := 4 * M.gamma (n / 2 + 6) * X

/-- every abscissa the code evaluates at is within `drift` of the exact abscissa, which lies
between `a` and `b` -/
theorem nodes_near (a b : Fl M) (n : ℕ) (hn : 2 ≤ n) (hu6 : ((n / 2 + 6 : ℕ) : ℝ) * M.u < 1) :
    (∀ k, k ≤ n / 2 →
      |(node13 (hFl a b n) a k).val - (a.val + (k : ℝ) * (2 * ((b.val - a.val) / n)))|
        ≤ drift M n (max |a.val| |b.val|) ∧
      |a.val + (k : ℝ) * (2 * ((b.val - a.val) / n))| ≤ max |a.val| |b.val|) ∧
    (∀ k, k < n / 2 →
      |(mid13 (hFl a b n) a k).val
          - (a.val + ((k : ℝ) + 1) * (2 * ((b.val - a.val) / n)) - (b.val - a.val) / n)|
        ≤ drift M n (max |a.val| |b.val|) ∧
      |a.val + ((k : ℝ) + 1) * (2 * ((b.val - a.val) / n)) - (b.val - a.val) / n|
        ≤ max |a.val| |b.val|) ∧
    (n % 2 = 1 → ∀ j, j < 4 →
      |(node38 (hFl a b n) b j).val - (b.val - ((3 - j : ℕ) : ℝ) * ((b.val - a.val) / n))|
        ≤ drift M n (max |a.val| |b.val|) ∧
      |b.val - ((3 - j : ℕ) : ℝ) * ((b.val - a.val) / n)| ≤ max |a.val| |b.val|) := by
  obtain ⟨η, hη, hh⟩ := hFl_fac a b n
  set X := max |a.val| |b.val| with hX
  set H := (b.val - a.val) / (n : ℝ) with hH
  set h := hFl a b n with hh'
  have hn0 : (n : ℝ) ≠ 0 := by exact_mod_cast (by omega : n ≠ 0)
  have hnpos : 0 < n := by omega
  have hn2 : (2 : ℝ) ≤ n := by exact_mod_cast hn
  have hnH' : (n : ℝ) * H = b.val - a.val := by rw [hH]; field_simp
  have hnH : (n : ℝ) * |H| = |b.val - a.val| := by
    rw [← hnH', abs_mul, Nat.abs_cast]
  have haX : |a.val| ≤ X := le_max_left _ _
  have hbX : |b.val| ≤ X := le_max_right _ _
  have hX0 : 0 ≤ X := (abs_nonneg _).trans haX
  have hW : |b.val - a.val| ≤ 2 * X := by
    have := abs_sub b.val a.val
    linarith
  have hH0 := abs_nonneg H
  have hg6 := M.gamma_nonneg hu6
  have key : ∀ (m : ℕ) (A : ℝ), m ≤ n / 2 + 6 → 0 ≤ A → A ≤ 4 * X →
      M.gamma m * A ≤ drift M n X := by
    intro m A hm hA0 hA
    calc M.gamma m * A ≤ M.gamma (n / 2 + 6) * A :=
          mul_le_mul_of_nonneg_right (M.gamma_mono hm hu6) hA0
      _ ≤ M.gamma (n / 2 + 6) * (4 * X) := mul_le_mul_of_nonneg_left hA hg6
      _ = drift M n X := by unfold drift; ring
  refine ⟨fun k hk => ⟨?_, ?_⟩, fun k hk => ⟨?_, ?_⟩, fun hodd j hj => ?_⟩
  · have hk2 : (k : ℝ) * 2 ≤ n := by exact_mod_cast (by omega : k * 2 ≤ n)
    have hkH : (k : ℝ) * (2 * |H|) ≤ 2 * X := by
      calc (k : ℝ) * (2 * |H|) = ((k : ℝ) * 2) * |H| := by ring
        _ ≤ (n : ℝ) * |H| := mul_le_mul_of_nonneg_right hk2 hH0
        _ ≤ 2 * X := hnH ▸ hW
    refine (node13_drift h H η hη hh a k (M.hyp_mono (by omega) hu6)).trans
      (key _ _ (by omega) (by positivity) (by linarith))
  · have := abs_node_le a.val b.val n hnpos ((k : ℝ) * 2) (by positivity)
      (by exact_mod_cast (by omega : k * 2 ≤ n))
    rw [show a.val + (k : ℝ) * (2 * H) = a.val + (k : ℝ) * 2 * H by ring]
    exact this
  · have hk2 : ((k : ℝ) + 1) * 2 ≤ n := by exact_mod_cast (by omega : (k + 1) * 2 ≤ n)
    have hkH : ((k : ℝ) + 1) * (2 * |H|) ≤ 2 * X := by
      calc ((k : ℝ) + 1) * (2 * |H|) = (((k : ℝ) + 1) * 2) * |H| := by ring
        _ ≤ (n : ℝ) * |H| := mul_le_mul_of_nonneg_right hk2 hH0
        _ ≤ 2 * X := hnH ▸ hW
    have hH1 : |H| ≤ X := by
      have : 2 * |H| ≤ (n : ℝ) * |H| := mul_le_mul_of_nonneg_right hn2 hH0
      linarith
    refine (mid13_drift h H η hη hh a k (M.hyp_mono (by omega) hu6)).trans
      (key _ _ (by omega) (by positivity) (by linarith))
  · have := abs_node_le a.val b.val n hnpos (((k : ℝ) + 1) * 2 - 1)
      (by have : (0 : ℝ) ≤ k := Nat.cast_nonneg k; linarith)
      (by have : ((k : ℝ) + 1) * 2 ≤ n := by exact_mod_cast (by omega : (k + 1) * 2 ≤ n)
          linarith)
    rw [show a.val + ((k : ℝ) + 1) * (2 * H) - H = a.val + (((k : ℝ) + 1) * 2 - 1) * H by ring]
    exact this
  · have hn3 : (3 : ℝ) ≤ n := by exact_mod_cast (by omega : 3 ≤ n)
    have h3H : 3 * |H| ≤ 2 * X := by
      have : 3 * |H| ≤ (n : ℝ) * |H| := mul_le_mul_of_nonneg_right hn3 hH0
      linarith
    have hmag : ∀ i : ℕ, i ≤ 3 → |b.val - (i : ℝ) * H| ≤ X := by
      intro i hi
      have hi' : (i : ℝ) ≤ 3 := by exact_mod_cast hi
      have := abs_node_le a.val b.val n hnpos ((n : ℝ) - i) (by linarith)
        (by have : (0 : ℝ) ≤ i := Nat.cast_nonneg i; linarith)
      rw [show b.val - (i : ℝ) * H = a.val + ((n : ℝ) - i) * H by linear_combination -hnH']
      exact this
    have hdr : ∀ i : ℕ, i ≤ 3 →
        |(b - h * lit i).val - (b.val - (i : ℝ) * H)| ≤ drift M n X := by
      intro i hi
      have hi' : (i : ℝ) ≤ 3 := by exact_mod_cast hi
      have hiH : (i : ℝ) * |H| ≤ 2 * X :=
        (mul_le_mul_of_nonneg_right hi' hH0).trans h3H
      exact (node38_drift h H η hη hh b i (M.hyp_mono (by omega) hu6)).trans
        (key _ _ (by omega) (by positivity) (by linarith))
    have hj' : j = 0 ∨ j = 1 ∨ j = 2 ∨ j = 3 := by omega
    rcases hj' with rfl | rfl | rfl | rfl
    · exact ⟨hdr 3 (by omega), hmag 3 (by omega)⟩
    · exact ⟨hdr 2 (by omega), hmag 2 (by omega)⟩
    · exact ⟨hdr 1 (by omega), hmag 1 (by omega)⟩
    · refine ⟨?_, hmag 0 (by omega)⟩
      have e : node38 h b 3 = b := rfl
      rw [e]
      simp only [Nat.sub_self, Nat.cast_zero, zero_mul, sub_zero, sub_self, abs_zero]
      unfold drift
      positivity

/-- **Composite Simpson on a cubic, everything rounded** (abscissae, evaluations, weighted sum).
`X = max(|a|,|b|)`, `D = drift = 4γ_{n/2+6}·X`, `X̂ = X + D`:
`|computed − ∫| ≤ |b−a|·(γ_{n/2+len+14}·Σ|c_k|X̂^k + D·Σ k|c_k|X̂^{k−1})`. -/
theorem definiteIntegral_cubic_core (hlen : cs.length ≤ 4) (P : ℝ[X])
    (hP : derivative P = ofCoeffs (cs.map Fl.val)) (a b : Fl M) (n : ℕ) (hn : 2 ≤ n)
    (hu : ((n / 2 + cs.length + 14 : ℕ) : ℝ) * M.u < 1) :
    ∃ v, definiteIntegral (fun x => Except.ok (evalSimple cs x)) a b n = .ok v ∧
      |v.val - (P.eval b.val - P.eval a.val)|
        ≤ |b.val - a.val| *
          (M.gamma (n / 2 + cs.length + 14)
              * B0 (cf cs) cs.length
                  (max |a.val| |b.val| + drift M n (max |a.val| |b.val|))
            + drift M n (max |a.val| |b.val|)
              * B1 (cf cs) cs.length
                  (max |a.val| |b.val| + drift M n (max |a.val| |b.val|))) := by
  have hu6 : ((n / 2 + 6 : ℕ) : ℝ) * M.u < 1 := M.hyp_mono (by omega) hu
  obtain ⟨N13, Nmid, N38⟩ := nodes_near a b n hn hu6
  set X := max |a.val| |b.val| with hX
  set D := drift M n X with hD
  set H := (b.val - a.val) / (n : ℝ) with hH
  set h := hFl a b n with hh'
  have hn0 : (n : ℝ) ≠ 0 := by exact_mod_cast (by omega : n ≠ 0)
  have hnH : (n : ℝ) * |H| = |b.val - a.val| := by
    rw [hH, abs_div, Nat.abs_cast]; field_simp
  have hX0 : 0 ≤ X := (abs_nonneg _).trans (le_max_left _ _)
  have hD0 : 0 ≤ D := by
    have := M.gamma_nonneg hu6
    rw [hD]; unfold drift; positivity
  have hXh : X ≤ X + D := by linarith
  -- what closeness gives for the polynomial
  have near : ∀ xh x : ℝ, |xh - x| ≤ D → |x| ≤ X →
      |qv (cf cs) cs.length xh - qv (cf cs) cs.length x| ≤ D * B1 (cf cs) cs.length (X + D) ∧
      ∑ k ∈ range cs.length, |cf cs k * xh ^ k| ≤ B0 (cf cs) cs.length (X + D) := by
    intro xh x h1 h2
    have hxh : |xh| ≤ X + D := by
      have := abs_add_le (xh - x) x
      rw [sub_add_cancel] at this
      linarith
    refine ⟨?_, sum_abs_le_B0 _ _ _ _ hxh⟩
    exact (qv_lipschitz _ _ xh x (X + D) hxh (h2.trans hXh)).trans
      (mul_le_mul_of_nonneg_right h1 (B1_nonneg _ _ _ (by linarith)))
  -- the rule as computed
  obtain ⟨v, hv, hA⟩ := definiteIntegral_approx (f := fun x => Except.ok (evalSimple cs x))
    (fun _ => rfl) (evalSimple_approx cs) a b n hn
  refine ⟨v, hv, ?_⟩
  have hm : cs.length + 1 + n / 2 + 13 = n / 2 + cs.length + 14 := by omega
  rw [hm] at hA
  have hB := hA.abs_sub_le hu
  rw [ruleTerms_abs, ruleTerms_sum, ruleTerms_sum] at hB
  simp only [polyTerms_sum, polyTerms_abs_sum] at hB
  -- the envelope of the weighted sum
  have hR := simpsonSum_abs_le n hn |H|
    (fun k => ∑ i ∈ range cs.length, |cf cs i * (node13 h a k).val ^ i|)
    (fun k => ∑ i ∈ range cs.length, |cf cs i * (mid13 h a k).val ^ i|)
    (fun j => ∑ i ∈ range cs.length, |cf cs i * (node38 h b j).val ^ i|)
    (B0 (cf cs) cs.length (X + D))
    (fun k hk => by
      rw [abs_of_nonneg (Finset.sum_nonneg fun i _ => abs_nonneg _)]
      exact (near _ _ (N13 k hk).1 (N13 k hk).2).2)
    (fun k hk => by
      rw [abs_of_nonneg (Finset.sum_nonneg fun i _ => abs_nonneg _)]
      exact (near _ _ (Nmid k hk).1 (Nmid k hk).2).2)
    (fun hodd j hj => by
      rw [abs_of_nonneg (Finset.sum_nonneg fun i _ => abs_nonneg _)]
      exact (near _ _ (N38 hodd j hj).1 (N38 hodd j hj).2).2)
  rw [abs_abs, hnH] at hR
  -- the exact rule at the exact abscissae is the integral
  have hq3 : (ofCoeffs (cs.map Fl.val)).natDegree ≤ 3 :=
    natDegree_ofCoeffs_le _ 3 (by simpa using hlen)
  have hE := simpsonSum_exact_cubic _ P hP hq3 a.val b.val n hn
  simp only [eval_ofCoeffs_val] at hE
  -- moving the samples to the exact abscissae
  have hS := simpsonSum_abs_le n hn H
    (fun k => qv (cf cs) cs.length (node13 h a k).val
      - qv (cf cs) cs.length (a.val + (k : ℝ) * (2 * H)))
    (fun k => qv (cf cs) cs.length (mid13 h a k).val
      - qv (cf cs) cs.length (a.val + ((k : ℝ) + 1) * (2 * H) - H))
    (fun j => qv (cf cs) cs.length (node38 h b j).val
      - qv (cf cs) cs.length (b.val - ((3 - j : ℕ) : ℝ) * H))
    (D * B1 (cf cs) cs.length (X + D))
    (fun k hk => (near _ _ (N13 k hk).1 (N13 k hk).2).1)
    (fun k hk => (near _ _ (Nmid k hk).1 (Nmid k hk).2).1)
    (fun hodd j hj => (near _ _ (N38 hodd j hj).1 (N38 hodd j hj).2).1)
  rw [simpsonSum_sub, hE, hnH] at hS
  -- together
  have hγ := M.gamma_nonneg hu
  have h1 : M.gamma (n / 2 + cs.length + 14) *
      simpsonSum n |H|
        (fun k => ∑ i ∈ range cs.length, |cf cs i * (node13 h a k).val ^ i|)
        (fun k => ∑ i ∈ range cs.length, |cf cs i * (mid13 h a k).val ^ i|)
        (fun j => ∑ i ∈ range cs.length, |cf cs i * (node38 h b j).val ^ i|)
      ≤ M.gamma (n / 2 + cs.length + 14)
        * (B0 (cf cs) cs.length (X + D) * |b.val - a.val|) :=
    mul_le_mul_of_nonneg_left ((le_abs_self _).trans hR) hγ
  have h2 := abs_sub_le v.val
    (simpsonSum n H (fun k => qv (cf cs) cs.length (node13 h a k).val)
      (fun k => qv (cf cs) cs.length (mid13 h a k).val)
      (fun j => qv (cf cs) cs.length (node38 h b j).val))
    (P.eval b.val - P.eval a.val)
  calc |v.val - (P.eval b.val - P.eval a.val)|
      ≤ M.gamma (n / 2 + cs.length + 14) * (B0 (cf cs) cs.length (X + D) * |b.val - a.val|)
        + D * B1 (cf cs) cs.length (X + D) * |b.val - a.val| := by linarith
    _ = _ := by ring

/-- `definite_integral` on a `SimplePolynomial` is the integrator on `evalSimple` -/
theorem definiteIntegralP_simple (powf : Fl M → Fl M → Fl M) (var : Option Char) (a b : Fl M)
    (n : ℕ) :
    definiteIntegralP powf (.simple ⟨cs, var⟩) a b n
      = definiteIntegral (fun x => Except.ok (evalSimple cs x)) a b n := rfl

/-- the bound of `definiteIntegral_cubic_core` in one term:
`≤ γ_{n/2+len+14}·|b−a|·Σ (4k+1)|c_k|X̂^k` -/
theorem definiteIntegral_cubic_clean (hlen : cs.length ≤ 4) (P : ℝ[X])
    (hP : derivative P = ofCoeffs (cs.map Fl.val)) (a b : Fl M) (n : ℕ) (hn : 2 ≤ n)
    (hu : ((n / 2 + cs.length + 14 : ℕ) : ℝ) * M.u < 1) :
    ∃ v, definiteIntegral (fun x => Except.ok (evalSimple cs x)) a b n = .ok v ∧
      |v.val - (P.eval b.val - P.eval a.val)|
        ≤ M.gamma (n / 2 + cs.length + 14) * |b.val - a.val| *
          ∑ k ∈ range cs.length, (4 * (k : ℝ) + 1) * |cf cs k|
            * (max |a.val| |b.val| + drift M n (max |a.val| |b.val|)) ^ k := by
  obtain ⟨v, hv, hB⟩ := definiteIntegral_cubic_core cs hlen P hP a b n hn hu
  refine ⟨v, hv, hB.trans ?_⟩
  have hu6 : ((n / 2 + 6 : ℕ) : ℝ) * M.u < 1 := M.hyp_mono (by omega) hu
  set X := max |a.val| |b.val| with hX
  have hX0 : 0 ≤ X := (abs_nonneg _).trans (le_max_left _ _)
  have hg6 := M.gamma_nonneg hu6
  have hgm := M.gamma_nonneg hu
  have hmono : M.gamma (n / 2 + 6) ≤ M.gamma (n / 2 + cs.length + 14) :=
    M.gamma_mono (by omega) hu
  have hD0 : 0 ≤ drift M n X := by unfold drift; positivity
  set Xh := X + drift M n X with hXh
  have hXh0 : 0 ≤ Xh := by linarith
  have hsum0 : 0 ≤ ∑ k ∈ range cs.length, (k : ℝ) * |cf cs k| * Xh ^ k :=
    Finset.sum_nonneg fun k _ => by positivity
  -- `D·B1(X̂) ≤ 4γ_m·Σ k|c_k|X̂^k`
  have h1 : drift M n X * B1 (cf cs) cs.length Xh
      ≤ 4 * M.gamma (n / 2 + cs.length + 14)
        * ∑ k ∈ range cs.length, (k : ℝ) * |cf cs k| * Xh ^ k := by
    have hB1 := B1_nonneg (cf cs) cs.length Xh hXh0
    calc drift M n X * B1 (cf cs) cs.length Xh
        = 4 * M.gamma (n / 2 + 6) * (X * B1 (cf cs) cs.length Xh) := by unfold drift; ring
      _ ≤ 4 * M.gamma (n / 2 + 6) * (Xh * B1 (cf cs) cs.length Xh) :=
          mul_le_mul_of_nonneg_left (mul_le_mul_of_nonneg_right (by linarith) hB1)
            (by positivity)
      _ = 4 * M.gamma (n / 2 + 6) * ∑ k ∈ range cs.length, (k : ℝ) * |cf cs k| * Xh ^ k := by
          rw [mul_B1]
      _ ≤ _ := mul_le_mul_of_nonneg_right (by linarith) hsum0
  have h2 : ∑ k ∈ range cs.length, (4 * (k : ℝ) + 1) * |cf cs k| * Xh ^ k
      = B0 (cf cs) cs.length Xh + 4 * ∑ k ∈ range cs.length, (k : ℝ) * |cf cs k| * Xh ^ k := by
    unfold B0
    rw [Finset.mul_sum, ← Finset.sum_add_distrib]
    exact Finset.sum_congr rfl fun k _ => by ring
  rw [h2]
  have hW := abs_nonneg (b.val - a.val)
  calc |b.val - a.val| * (M.gamma (n / 2 + cs.length + 14) * B0 (cf cs) cs.length Xh
        + drift M n X * B1 (cf cs) cs.length Xh)
      ≤ |b.val - a.val| * (M.gamma (n / 2 + cs.length + 14) * B0 (cf cs) cs.length Xh
        + 4 * M.gamma (n / 2 + cs.length + 14)
          * ∑ k ∈ range cs.length, (k : ℝ) * |cf cs k| * Xh ^ k) :=
        mul_le_mul_of_nonneg_left (by linarith) hW
    _ = _ := by ring

/-- the allowance of the oracle: `32(n+8)·u·|b−a|·Σ(k+1)|c_k|X^k` as soon as
`(n/2+18)·u ≤ 1/64` -/
theorem definiteIntegral_cubic_allowance (hlen : cs.length ≤ 4) (P : ℝ[X])
    (hP : derivative P = ofCoeffs (cs.map Fl.val)) (a b : Fl M) (n : ℕ) (hn : 2 ≤ n)
    (hu : ((n / 2 + 18 : ℕ) : ℝ) * M.u ≤ 1 / 64) :
    ∃ v, definiteIntegral (fun x => Except.ok (evalSimple cs x)) a b n = .ok v ∧
      |v.val - (P.eval b.val - P.eval a.val)|
        ≤ 32 * ((n : ℝ) + 8) * M.u * |b.val - a.val| *
          ∑ k ∈ range cs.length, ((k : ℝ) + 1) * |cf cs k| * (max |a.val| |b.val|) ^ k := by
  have hu18 : ((n / 2 + 18 : ℕ) : ℝ) * M.u < 1 := by linarith
  have hum : ((n / 2 + cs.length + 14 : ℕ) : ℝ) * M.u < 1 := M.hyp_mono (by omega) hu18
  obtain ⟨v, hv, hB⟩ := definiteIntegral_cubic_clean cs hlen P hP a b n hn hum
  refine ⟨v, hv, hB.trans ?_⟩
  set X := max |a.val| |b.val| with hX
  have hX0 : 0 ≤ X := (abs_nonneg _).trans (le_max_left _ _)
  have hu0 := M.hu.1
  have hW := abs_nonneg (b.val - a.val)
  have h18 := M.gamma_le_two_mul (n := n / 2 + 18) (by linarith)
  have hgm : M.gamma (n / 2 + cs.length + 14) ≤ 2 * (((n / 2 + 18 : ℕ) : ℝ) * M.u) :=
    (M.gamma_mono (by omega) hu18).trans h18
  have hg6 : M.gamma (n / 2 + 6) ≤ 1 / 32 := by
    have := (M.gamma_mono (by omega : n / 2 + 6 ≤ n / 2 + 18) hu18).trans h18
    linarith
  have hg60 := M.gamma_nonneg (M.hyp_mono (by omega : n / 2 + 6 ≤ n / 2 + 18) hu18)
  have hgm0 := M.gamma_nonneg hum
  -- `X̂ = X·r`, `1 ≤ r ≤ 9/8`
  set r := 1 + 4 * M.gamma (n / 2 + 6) with hr
  have hr1 : 1 ≤ r := by linarith
  have hr2 : r ≤ 9 / 8 := by linarith
  have hXh : X + drift M n X = X * r := by unfold drift; ring
  rw [hXh]
  have hterm : ∀ k, k < cs.length →
      (4 * (k : ℝ) + 1) * |cf cs k| * (X * r) ^ k
        ≤ (4 * (729 / 512)) * (((k : ℝ) + 1) * |cf cs k| * X ^ k) := by
    intro k hk
    have hk3 : k ≤ 3 := by omega
    have hrk : r ^ k ≤ 729 / 512 := by
      calc r ^ k ≤ r ^ 3 := pow_le_pow_right₀ hr1 hk3
        _ ≤ (9 / 8) ^ 3 := pow_le_pow_left₀ (by linarith) hr2 3
        _ = 729 / 512 := by norm_num
    have hk0 : (0 : ℝ) ≤ k := Nat.cast_nonneg k
    have hc0 := abs_nonneg (cf cs k)
    have hXk : 0 ≤ X ^ k := by positivity
    rw [mul_pow]
    calc (4 * (k : ℝ) + 1) * |cf cs k| * (X ^ k * r ^ k)
        = ((4 * (k : ℝ) + 1) * |cf cs k| * X ^ k) * r ^ k := by ring
      _ ≤ ((4 * (k : ℝ) + 1) * |cf cs k| * X ^ k) * (729 / 512) :=
          mul_le_mul_of_nonneg_left hrk (by positivity)
      _ ≤ (4 * ((k : ℝ) + 1) * |cf cs k| * X ^ k) * (729 / 512) := by
          apply mul_le_mul_of_nonneg_right _ (by norm_num)
          apply mul_le_mul_of_nonneg_right _ hXk
          apply mul_le_mul_of_nonneg_right _ hc0
          linarith
      _ = _ := by ring
  have hsum : ∑ k ∈ range cs.length, (4 * (k : ℝ) + 1) * |cf cs k| * (X * r) ^ k
      ≤ (4 * (729 / 512)) * ∑ k ∈ range cs.length, ((k : ℝ) + 1) * |cf cs k| * X ^ k := by
    rw [Finset.mul_sum]
    exact Finset.sum_le_sum fun k hk => hterm k (by simpa using hk)
  have hB0 : 0 ≤ ∑ k ∈ range cs.length, ((k : ℝ) + 1) * |cf cs k| * X ^ k :=
    Finset.sum_nonneg fun k _ => by positivity
  have hcast : ((n / 2 + 18 : ℕ) : ℝ) ≤ (n : ℝ) / 2 + 18 := by
    have h2 : (n / 2) * 2 ≤ n := by omega
    have e2 : ((n / 2 : ℕ) : ℝ) * 2 ≤ n := by exact_mod_cast h2
    push_cast
    linarith
  have hn0 : (0 : ℝ) ≤ n := Nat.cast_nonneg n
  calc M.gamma (n / 2 + cs.length + 14) * |b.val - a.val|
        * ∑ k ∈ range cs.length, (4 * (k : ℝ) + 1) * |cf cs k| * (X * r) ^ k
      ≤ (2 * (((n / 2 + 18 : ℕ) : ℝ) * M.u)) * |b.val - a.val|
        * ((4 * (729 / 512)) * ∑ k ∈ range cs.length, ((k : ℝ) + 1) * |cf cs k| * X ^ k) := by
        apply mul_le_mul (mul_le_mul_of_nonneg_right hgm hW) hsum _ (by positivity)
        exact Finset.sum_nonneg fun k _ => by positivity
    _ = (((n / 2 + 18 : ℕ) : ℝ) * (729 / 64)) * (M.u * |b.val - a.val|
        * ∑ k ∈ range cs.length, ((k : ℝ) + 1) * |cf cs k| * X ^ k) := by ring
    _ ≤ (32 * ((n : ℝ) + 8)) * (M.u * |b.val - a.val|
        * ∑ k ∈ range cs.length, ((k : ℝ) + 1) * |cf cs k| * X ^ k) := by
        apply mul_le_mul_of_nonneg_right _ (by positivity)
        linarith
    _ = _ := by ring

end assembly

end C05
end SV
