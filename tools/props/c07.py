"""C07 plug-in: the property's oracle in exact rationals (written from the statement, not from the model).

Clauses checked on the implementation's answer to `newton <poly> <x0> <tol> <itermax> <mode>`:

 1. never a panic; every `ok x` has a finite x (errors are values);
 2. soundness half: every `ok x` satisfies |g(x)| <= (M/2)*(tol/100*|x|)^2 + slack, with g the polynomial
    (root mode) or its exact derivative (extrema mode), M = sum k(k-1)|c_k| X^(k-2) >= max|g''| on [-X, X] and
    X = |x|*(1 + tol/100) (the last step is shorter than tol/100*|x|, so the previous iterate lies in [-X, X]);
 3. convergence half: if g has degree n in 1..6, all its roots are real, simple and separated (decided exactly
    with a Sturm sequence; adjacent roots at least 2 % of the root span apart), and x0 lies outside the root
    interval, then every `ok x` has |x - r| <= n*tol/100*|x| + slack for the extreme root r on x0's side; and
    when moreover the budget is ample (itermax >= 2000), 1e-9 <= tol < 100 and the root is well conditioned
    (kappa <= 1e4), a value MUST be returned.

Rounding slack of clause 2.  Let u = 1.1e-16, A(t) = sum |c| |t|^k over the UN-merged terms (the code adds terms of
equal power one by one, so cancellation between them costs error at the scale of the terms), A'(t) = sum k|c||t|^(k-1).
The code computes gf = g(xo) + e_g and df = g'(xo) + e_d with |e_g| <= 2n*u*A(xo), |e_d| <= 2n*u*A'(xo) (n <= 8 terms, each a
product of a coefficient and a power obtained by <= 6 multiplications), then D = (gf/df)(1+d1), x = (xo - D)(1+d2),
|d_i| <= u.  Exact Taylor at xo: g(x) = g(xo) + g'(xo)(x - xo) + R, |R| <= M/2 (x-xo)^2.  Substituting x - xo = -D + rho
(|rho| <= u|x|) and g'(xo) D = gf (1 - e_d/df)(1 + d1) gives
    |g(x)| <= M/2 (x-xo)^2 + |e_g| + |D||e_d| + u|gf| + u|x||g'(xo)|   (+ second-order terms)
           <= M/2 (x-xo)^2 + (2n+1) u A(X) + (2n+1) u X A'(X),        X = |x|(1 + tol/100) >= |xo|, |D| <= tol/100*|x|,
i.e. at most 17u*(A(X) + X*A'(X)) ~ 1.9e-15*(...).  The slack used is 1e-13*(A(X) + X*A'(X)), about 50x that, so a correct
implementation cannot trip it; it is still ~1e-13 relative to the size of the terms, far below any genuine residual.
An absolute floor 2^-1070*(1 + sum|c| + A'(X)) accounts for f64 underflow (every power and product may be off by 2^-1074
in absolute terms): near a multiple root at 0 the code's g(x) underflows to 0 and it stops with x ~ 1e-162.
Exponents above 64 - up to the grammar's limit MAX_POWER = 65536 and beyond for hand-built polynomials - are judged by
the same clause 2 in outward-rounded interval arithmetic (`Dy`: 320-bit dyadic bounds; x^65536 is never expanded).  There
the per-term rounding allowance grows with the exponent: square-and-multiply `powi` (and `powf`) err by at most 2k u
relative on x^k, so |e_g| <= sum (2k + n) u |c_k| |xo|^k and |D||e_d| <= tau sum (2k + n) u k |c_k| |xo|^k; the allowance
is  sum_k [ f(k) + k (1 + tau f(k)/1e-13) 1e-13 ] |c_k| X^k  with f(k) = 1e-13 max(1, k/16)  (>= 25 x the derived bound at
every k; for k <= 16 it is the allowance above).  A derivative whose power rule loses the top exponent (a u16 / i16 / u8
conversion of 65536, 32768, 256) turns Newton into a first-order iteration: the residual is then ~ |g'| tol% |x|, ten to
a million times the second-order bound, and is reported here with the returned x.
For clause 3 a relative coefficient perturbation u moves a simple root r by u*A(r)/|g'(r)|; slack = 1e-12*A(r)/|g'(r)| +
1e-13*|x| + the width of the exact isolating interval of r (<= 2^-64 |r|) + 2^-1070/|g'(r)| (where |g| is below a few units
of 2^-1074 the code's g is 0: the statement's own g(x) has left the range of binary64 there).  The must-return half
abstains where gradual underflow has taken the relative precision the tolerance asks for (tol/100 * A(r) < 2^-1046).
"""
import math, os, importlib.util
from fractions import Fraction as Fr

_spec = importlib.util.spec_from_file_location("prop_c06_shared", os.path.join(os.path.dirname(os.path.abspath(__file__)), "c06.py"))
c06 = importlib.util.module_from_spec(_spec)
_spec.loader.exec_module(c06)

RULE = ("(round 3: the edge of the grammar - top exponents 65536 = MAX_POWER [36 per run], 65535, 65537, 65534, 2^15 +-1, 2^8 +-1, 2^7 +-1, 2^17, 100000, 70000, 4096, 1000 in  a x^n + b x - c  with the top term alive in the slope at the root [n a r^(n-1) / b in 0.02..30], dense and sparse form, both modes, both signs of the root, judged by the second-order residual bound in 320-bit interval arithmetic; the edge of the number range - amplitudes 2^-1000..2^-1060 [subnormal slopes] and 2^960..2^1005, the real line rescaled by 2^+-(100..330)) (hardening: every returned value is re-derived in the harness through the public API [finite; one more Newton step from it obeys the second-order bound]; the real line rescaled to every decade 1e-20..1e20 and binade 2^-70..2^60, ill-scaled polynomials with every root at its own scale, degrees 8..24, signed-zero / subnormal / 1e300 starting points, caps next to the integer limits, other variable names) requests: real-rooted polynomials with separated roots (degree 1..6, a root at 0, the real line scaled by 2^-20..2^20) "
        "started outside the root interval with ample budget; polynomials from arbitrary roots (degree 0..7, double roots, complex "
        "pairs) from any start with tolerances 1e-12..1e3 and <= 0, caps 0..5000; iterates that land exactly on 0, zero derivatives, "
        "cycles, constants; arbitrary polynomials of both kinds; both modes; non-trivial = the model returns a value (`ok`); "
        "distinct = distinct request lines")


# ---------------------------------------------------------------- exact polynomial arithmetic (lists, low -> high)

def trim(p):
    p = list(p)
    while p and p[-1] == 0:
        p.pop()
    return p


def pev(p, x):
    acc = Fr(0)
    for c in reversed(p):
        acc = acc * x + c
    return acc


def pder(p):
    return trim([c * k for k, c in enumerate(p)][1:])


def prem(a, b):
    a = list(a)
    db = len(b) - 1
    while len(a) - 1 >= db and a:
        q = a[-1] / b[-1]
        sh = len(a) - 1 - db
        for i, c in enumerate(b):
            a[sh + i] -= q * c
        a.pop()
        a = trim(a) if a and a[-1] == 0 else a
    return trim(a)


def sturm(p):
    chain = [p, pder(p)]
    while chain[-1]:
        r = prem(chain[-2], chain[-1])
        if not r:
            break
        chain.append([-c for c in r])
    if not chain[-1]:
        chain.pop()
    return chain


def sgn(v):
    return (v > 0) - (v < 0)


def variations(signs):
    s = [x for x in signs if x != 0]
    return sum(1 for a, b in zip(s, s[1:]) if a != b)


def to_int(p):
    """integer polynomial with the same sign everywhere (multiply by the common denominator)"""
    L = 1
    for c in p:
        L = L * c.denominator // math.gcd(L, c.denominator)
    return [int(c * L) for c in p]


def sign_at(P, x):
    """sign of the integer polynomial P at the rational x = m/d: sign(sum P[i] m^i d^(n-i)), integers only"""
    m, d = x.numerator, x.denominator
    n = len(P) - 1
    acc = 0
    dp = 1
    # Horner on sum_i P[i] m^i d^(n-i):  acc_j = acc_{j+1} * m + P[j] * d^(n-j)
    for j in range(n, -1, -1):
        acc = acc * m + P[j] * dp
        dp *= d
    return (acc > 0) - (acc < 0)


def var_at(chain, x):
    return variations([sign_at(q, x) for q in chain])


def var_inf(chain, plus):
    out = []
    for q in chain:
        s = sgn(q[-1])
        if not plus and (len(q) - 1) % 2 == 1:
            s = -s
        out.append(s)
    return variations(out)


class Roots:
    """all roots of p real and simple: isolating intervals (a, b] (a == b for a root hit exactly), refinable"""

    def __init__(self, p):
        self.ok = False
        p = trim(p)
        n = len(p) - 1
        if n < 1:
            return
        ch = sturm(p)
        if len(ch[-1]) != 1:          # gcd(p, p') not constant: a multiple root
            return
        self.chain = [to_int(q) for q in ch]
        self.P = self.chain[0]
        if var_inf(self.chain, False) - var_inf(self.chain, True) != n:
            return
        bound = 1 + max(abs(c / p[-1]) for c in p[:-1])
        B = Fr(1)
        while B < bound:
            B *= 2
        while B / 2 >= bound:
            B /= 2
        self.iv = []
        self._isolate(-B, B, n, var_at(self.chain, -B), var_at(self.chain, B))
        self.iv.sort()
        self.ok = len(self.iv) == n

    def _isolate(self, a, b, k, va, vb):
        if k == 0:
            return
        if k == 1:
            self.iv.append((a, b))
            return
        m = (a + b) / 2
        vm = var_at(self.chain, m)
        self._isolate(a, m, va - vm, va, vm)
        self._isolate(m, b, vm - vb, vm, vb)

    def refine(self, idx, width_ok):
        """shrink interval idx (one root in (a, b]) until width_ok(a, b)"""
        a, b = self.iv[idx]
        if a != b:
            if sign_at(self.P, b) == 0:
                a = b
            else:
                sb = sign_at(self.P, b)
                for _ in range(2000):
                    if width_ok(a, b):
                        break
                    m = (a + b) / 2
                    sm = sign_at(self.P, m)
                    if sm == 0:
                        a = b = m
                        break
                    if sm == sb:
                        b = m
                    else:
                        a = m
        self.iv[idx] = (a, b)
        return a, b


def to_list(cs):
    if not cs:
        return []
    n = max(cs)
    return trim([cs.get(k, Fr(0)) for k in range(n + 1)])


# ---------------------------------------------------------------- outward-rounded dyadic bounds for huge exponents

PREC = 320
FLOOR_EXP = -40000      # below 2^-40000 an upper bound is 2^-40000 and a lower bound is 0
MAXPOW = 1 << 20        # exponents the oracle evaluates (the grammar stops at 65536; hand-built polynomials go beyond)


def _norm(m, e, up):
    """m * 2^e (m >= 0) cut to PREC bits, rounded up or down"""
    if m == 0:
        return (0, 0)
    bl = m.bit_length()
    if bl > PREC:
        sh = bl - PREC
        q = m >> sh
        if up and (q << sh) != m:
            q += 1
        m, e = q, e + sh
    if e + m.bit_length() < FLOOR_EXP:
        return (1, FLOOR_EXP) if up else (0, 0)
    return (m, e)


def dy_of(q, up):
    """bound of the non-negative rational q"""
    if q == 0:
        return (0, 0)
    n, d = q.numerator, q.denominator
    if d & (d - 1) == 0:
        return _norm(n, -(d.bit_length() - 1), up)
    sh = PREC + 8 + max(0, d.bit_length() - n.bit_length())
    m = (n << sh) // d
    if up:
        m += 1
    return _norm(m, -sh, up)


def dy_mul(a, b, up):
    return _norm(a[0] * b[0], a[1] + b[1], up)


def dy_pow(a, k, up):
    """bound of a^k (a a bound of the same direction of a non-negative number)"""
    r = (1, 0)
    base = a
    while k:
        if k & 1:
            r = dy_mul(r, base, up)
        k >>= 1
        if k:
            base = dy_mul(base, base, up)
    return r


def dy_fr(a):
    m, e = a
    return Fr(m * (1 << e)) if e >= 0 else Fr(m, 1 << (-e))


def pow_lo_hi(ax, k):
    """(lower, upper) Fractions around ax^k for the non-negative rational ax"""
    return dy_fr(dy_pow(dy_of(ax, False), k, False)), dy_fr(dy_pow(dy_of(ax, True), k, True))


def high_degree_check(r, x, tol):
    """clause 2 for polynomials with exponents above 64, in interval arithmetic; returns a message or None"""
    xq, tq = Fr(x), Fr(tol)
    ax = abs(xq)
    tau = tq / 100
    step = tau * ax
    Xq = ax * (1 + tau)
    # |g(x)| from below
    glo = ghi = Fr(0)
    for k, c in r.g.items():
        if c == 0:
            continue
        plo, phi = pow_lo_hi(ax, k)
        if xq < 0 and k % 2 == 1:
            plo, phi = -phi, -plo
        a, b = c * plo, c * phi
        glo += min(a, b)
        ghi += max(a, b)
    res_lo = glo if glo > 0 else (-ghi if ghi < 0 else Fr(0))
    # M, the allowance and the floor from above, term by term at X = |x| (1 + tau)
    Xup = dy_of(Xq, True)
    tau_f = tau if tau < 10 ** 6 else Fr(10 ** 6)
    M = Fr(0)
    slack = Fr(0)
    dsum = Fr(0)
    for k, c in r.gabs.items():
        if c == 0:
            continue
        f = Fr(max(16, k), 16) / 10 ** 13
        xk = dy_fr(dy_pow(Xup, k, True))
        slack += (f + k * (Fr(1, 10 ** 13) + tau_f * f)) * c * xk
        if k >= 1:
            dsum += k * c * dy_fr(dy_pow(Xup, k - 1, True))
        if k >= 2:
            M += k * (k - 1) * c * dy_fr(dy_pow(Xup, k - 2, True))
    slack += Fr(1, 2 ** 1070) * (1 + sum(r.gabs.values(), Fr(0)) + dsum)
    bound = M / 2 * step * step
    if res_lo > bound + slack:
        return (f"returned x = {x!r} has |g(x)| >= {c06.fl(res_lo):.6g} > (M/2)(tol/100*|x|)^2 = {c06.fl(bound):.6g} "
                f"(+ slack {c06.fl(slack):.3g}); highest exponent {max(r.g)}")
    return None


# ---------------------------------------------------------------- request

def parse_newton(req):
    r = c06.parse(req, MAXPOW)
    r.x0, r.tol = c06.fbits(r.rest[0]), c06.fbits(r.rest[1])
    r.itermax = int(r.rest[2])
    r.mode = r.rest[3]
    r.g = r.gabs = None
    if r.p is not None:
        r.g = r.p if r.mode == "root" else c06.deriv(r.p)
        r.gabs = r.pabs if r.mode == "root" else c06.deriv(r.pabs)
    return r


def monotone_setting(r):
    """returns (n, extreme root interval (a, b), kappa_abs, kappa_rel, |g'(r)|) when g is real-rooted with simple separated
    roots and x0 lies outside the root interval; else None"""
    if r.g is None or not math.isfinite(r.x0):
        return None
    if r.g and max(r.g) > 6:
        return None
    g = to_list(r.g)
    n = len(g) - 1
    if n < 1 or n > 6:
        return None
    # strip a simple root at 0
    zero_root = g[0] == 0
    h = g[1:] if zero_root else g
    if zero_root and (not h or h[0] == 0):
        return None
    ivs = []
    R = None
    if len(h) - 1 >= 1:
        R = Roots(h)
        if not R.ok:
            return None
        ivs = list(R.iv)
    if len(ivs) + (1 if zero_root else 0) != n:
        return None
    # refine every interval until the separation question is decided
    lo_all = min([a for a, _ in ivs] + ([Fr(0)] if zero_root else []))
    hi_all = max([b for _, b in ivs] + ([Fr(0)] if zero_root else []))
    span0 = hi_all - lo_all
    if R is not None and span0 > 0:
        for i in range(len(ivs)):
            R.refine(i, lambda a, b: (b - a) * 400 <= span0)
        ivs = list(R.iv)
    allr = sorted(ivs + ([(Fr(0), Fr(0))] if zero_root else []))
    span = allr[-1][1] - allr[0][0]
    for (a1, b1), (a2, b2) in zip(allr, allr[1:]):
        if a2 - b1 < span / 50:
            return None
    x0 = Fr(r.x0)
    if x0 > allr[-1][1]:
        ext = allr[-1]
    elif x0 < allr[0][0]:
        ext = allr[0]
    else:
        return None
    if ext[0] != ext[1]:
        idx = R.iv.index(ext)
        ext = R.refine(idx, lambda a, b: (b - a) * (1 << 64) <= max(abs(a), abs(b)))
    rmid = (ext[0] + ext[1]) / 2
    dg = abs(pev(pder(g), rmid))
    if dg == 0:
        return None
    A = c06.absum(r.gabs, rmid)
    kabs = A / dg
    krel = kabs / abs(rmid) if rmid != 0 else Fr(0)
    return n, ext, kabs, krel, dg


def oracle(req, impl):
    it = impl.split()
    if not it or it[0] in ("panic", "harness-panic", "process-abort", "wrapper-mismatch"):
        return "the call did not return a value or an error value: " + impl[:80]
    r = parse_newton(req)
    tol = r.tol
    x = None
    if it[0] == "ok":
        x = c06.fbits(it[1][1:])
        if not math.isfinite(x):
            return "returned value is not finite"
        if r.g is not None and math.isfinite(tol) and tol > 0 and r.g and max(r.g) > 64:
            why = high_degree_check(r, x, tol)
            if why:
                return why
        elif r.g is not None and math.isfinite(tol) and tol > 0:
            xq, tq = Fr(x), Fr(tol)
            X = abs(xq) * (1 + tq / 100)
            M = c06.d2bound(r.g, X)
            step = tq / 100 * abs(xq)
            bound = M / 2 * step * step
            # magnitudes of the un-merged terms: the code adds terms of equal power one by one, so cancellation
            # between them (3 - 4x^4 - 3) costs rounding error at the scale of the terms, not of their sum
            slack = Fr(1, 10 ** 13) * (c06.absum(r.gabs, X) + X * c06.dbound(r.gabs, X))
            # absolute floor of f64 (underflow): every power / product may be off by 2^-1074 in absolute terms
            slack += Fr(1, 2 ** 1070) * (1 + sum(r.gabs.values(), Fr(0)) + c06.dbound(r.gabs, X))
            res = abs(c06.ev(r.g, xq))
            if res > bound + slack:
                return (f"returned x = {x!r} has |g(x)| = {c06.fl(res):.6g} > (M/2)(tol/100*|x|)^2 = {c06.fl(bound):.6g} "
                        f"(+ slack {c06.fl(slack):.3g})")
    if it[0] != "ok" and not (r.itermax >= 2000 and math.isfinite(tol) and 1e-9 <= tol < 100):
        return None
    ms = monotone_setting(r)
    if ms is None:
        return None
    n, ext, kabs, krel, dg = ms
    if krel > 10 ** 4:
        return None
    if it[0] == "ok":
        if not (math.isfinite(tol) and tol > 0):
            return None
        xq = Fr(x)
        dist = max(abs(xq - ext[0]), abs(xq - ext[1]))
        allowed = n * Fr(tol) / 100 * abs(xq) + Fr(1, 10 ** 12) * kabs + Fr(1, 10 ** 13) * abs(xq) + (ext[1] - ext[0])
        # the absolute floor of binary64: where |g| is below a few units of 2^-1074 the code's g is 0 and the point is a
        # root to it (the statement's own g(x) has left the range there): a distance of 2^-1070 / |g'(r)| is granted
        allowed += Fr(1, 2 ** 1070) / dg
        if dist > allowed:
            return (f"monotone case (all {n} roots real and separated, start outside): returned x = {x!r} is "
                    f"{c06.fl(dist):.6g} away from the extreme root {c06.fl(ext[0])!r}, allowed {c06.fl(allowed):.6g}")
        return None
    # binary64 overflow at the start (x0 = -1e300 for x^2 - 4): g(x0) is not a number the code can hold, the iteration
    # degenerates to NaN by IEEE rules and the error value is the documented outcome; the statement's "wherever the
    # root lies" is about the position of the root, not about starting points beyond the range of the arithmetic.
    # From a representable start the iterates move monotonically towards the root, so no later overflow is possible.
    x0q = Fr(r.x0)
    if c06.absum(r.gabs, x0q) > 10 ** 300 or c06.dbound(r.gabs, abs(x0q)) > 10 ** 300:
        return None
    # gradual underflow at the other end of the range: with terms of size T at the root the code knows g only to
    # n 2^-1075 in absolute terms, so the relative step it can resolve is n 2^-1075 kappa / T (kappa = T / |r g'(r)| <=
    # 1e4 = 2^13.3 here); the relative step test tol/100 is certain to be reachable when tol/100 * T >= 2^-1046 - that
    # leaves a factor 2^12 - and then |g'| >= 2^-1063 / |r| still has its leading bits.  Below that the oracle abstains.
    rq = (ext[0] + ext[1]) / 2
    if c06.absum(r.gabs, rq if rq != 0 else x0q) * Fr(tol) / 100 < Fr(1, 2 ** 1046):
        return None
    return (f"monotone case (all {n} roots real and separated, start outside, budget >= 2000, 1e-9 <= tol < 100): "
            f"no value was returned: " + impl[:60])


# K: the rule shared with C06 (tools/props/c06.py): ok / err / panic and the returned value are compared; the error
# kind and the pass count are not (the statement says "an error value" and never speaks of the number of passes); a
# run marked `~` by the harness (a stop test decided within rounding of the tolerance) is left to S.
compare = c06.compare


def nontrivial(req, model):
    return model.startswith("ok ")


def tag(req, model):
    t = req.split()
    m = model.split()
    out = m[0] if m else "empty"
    if out == "err":
        out = m[1].split(":")[0]
    return f"{t[0]}:{t[1]}:{t[-1]}:{out}"
