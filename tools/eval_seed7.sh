#!/bin/bash
# eval_seed5.sh <Cxx> <verif-copy>: confirm one round-6 seed (worktree /tmp/seed7/Cxx, directory seed/) and run
# the check of a private copy of /verif against it.  Keeps it as /verif/seeded/Cxx-s7/.
set -u
P=$1; V=$2; X=""; W=/tmp/seed7/$P; ID=$P-s7
export CARGO_NET_OFFLINE=true
cd $W || exit 2
[ -f seed/patch.diff ] || { echo "$ID: no patch"; exit 2; }
git checkout -q -- . ; rm -f spindalis/tests/seed_demo.rs spindalis_core/tests/seed_demo.rs spindalis_macros/tests/seed_demo.rs
git apply seed/patch.diff || { echo "$ID: patch does not apply"; exit 2; }
SUITE=$(cargo test --workspace --no-fail-fast --offline -j 6 2>&1 | grep -E "^test result" | awk '{p+=$4; f+=$6} END {print p" passed "f" failed"}')
# where does the demo go?
PKG=spindalis; FLAGS=""
if grep -q "verif_hooks\|cfg(spindalis_verif)" seed/demo.rs; then PKG=spindalis_core; FLAGS="--cfg spindalis_verif"; fi
if grep -q "spindalis_macros::" seed/demo.rs && ! grep -q "use spindalis::" seed/demo.rs; then PKG=spindalis_macros; fi
mkdir -p $PKG/tests; cp seed/demo.rs $PKG/tests/seed_demo.rs
DW=$(RUSTFLAGS="$FLAGS" cargo test -p $PKG --test seed_demo --offline -j 6 2>&1 | grep -E "^test result|^error" | tail -1)
git apply -R seed/patch.diff
DO=$(RUSTFLAGS="$FLAGS" cargo test -p $PKG --test seed_demo --offline -j 6 2>&1 | grep -E "^test result|^error" | tail -1)
rm -f $PKG/tests/seed_demo.rs
git apply seed/patch.diff
rm -rf $W/target
cd $V
OUT=$(VERIF_REPO=$W ./check $P 2>&1 | tail -6)
QUICK=$(echo "$OUT" | grep -c "^VIOLATION")
TH=""
if [ "$QUICK" = "0" ]; then TH=$(VERIF_REPO=$W ./check $P --tier thorough 2>&1 | tail -4); fi
REPLAY=$(echo "$OUT$TH" | grep "^VIOLATION" | head -1 | sed 's/.*replay=\([^ ]*\).*/\1/')
mkdir -p /verif/seeded/$ID
cp $W/seed/patch.diff /verif/seeded/$ID/patch.diff; cp $W/seed/demo.rs /verif/seeded/$ID/demo.rs; cp $W/seed/notes.md /verif/seeded/$ID/notes.md 2>/dev/null
[ -n "$REPLAY" ] && [ -f "$REPLAY" ] && cp "$REPLAY" /verif/seeded/$ID/replay.json
python3 - "$P" "$ID" "$SUITE" "$DW" "$DO" "$QUICK" "$OUT" "$TH" "$PKG" <<'PY'
import sys, json
P, ID, suite, dw, do, quick, out, th, pkg = sys.argv[1:10]
cq = quick != "0"
json.dump({"property": P, "id": ID, "round": 7, "kind": "adversarial",
  "confirmed": {"suite_with_change": suite, "demo_with_change": dw, "demo_without_change": do, "demo_package": pkg},
  "check_quick": {"caught": cq, "no_failing_input": "no-failing-input-found" in out, "tail": out[-700:]},
  "check_thorough": ({"caught": "VIOLATION" in th, "no_failing_input": "no-failing-input-found" in th, "tail": th[-500:]} if not cq else None),
  "ran": ["cargo test --workspace --no-fail-fast --offline (with the change, demo removed)",
          f"cargo test -p {pkg} --test seed_demo --offline (with and without the change)",
          f"VERIF_REPO=<worktree> ./check {P} [--tier thorough] in a private copy of /verif"]},
  open(f"/verif/seeded/{ID}/meta.json", "w"), indent=1)
print(ID, "| suite:", suite, "| demo with:", dw[:40], "| without:", do[:40], "| quick:", cq, "nfi" if "no-failing-input-found" in out else "", "| thorough:", ("VIOLATION" in th) if not cq else "-")
PY
cd $W; git checkout -q -- .
