import SV.Lemmas.C17Inter
import SV.Lemmas.C17Simple
/-!
Lemmas for the print / parse round trips of C17, part 5: `displayInter`
(`Display for IntermediatePolynomial`) and `displayTerm` (`Display for Term`) print renderings of the
multivariate grammar of `SV.Lemmas.C17Inter`:

* `stripWs_displayInter`   the printed polynomial without white space is `renderI (interSyns prec terms)`
* `displayTerm_eq`         the printed term is `renderI [termSyn t]`
* values of the read-back coefficient and exponents (`interSyn_num_val`, `varSynOf_num_val`)
* `readVars_sorted`        distinct letters in ascending order are read back as they stand
-/
namespace SV.C17
open SV SV.Text SV.C01 SV.C02

/-! ### signed texts -/

/-- does the text start with `-` -/
def textNeg (t : List Char) : Bool := t.head? == some '-'

/-- the text after its sign -/
def textAbs (t : List Char) : List Char := if textNeg t then t.drop 1 else t

/-- **formatter hypothesis for a signed number** (`{}`/`{:.p}` of an exponent, of a `Term`'s
coefficient): an optional `-`, then a plain decimal spelling with an integer digit -/
def SignedText (t : List Char) : Prop := ∃ n b, IsSpelling b ∧ t = signText n ++ b

theorem spelling_head {b : List Char} (hb : IsSpelling b) : b.head? ≠ some '-' := by
  obtain ⟨u, hu, _, rfl⟩ := hb
  exact UDec.render_head hu

theorem textNeg_append (n : Bool) {b : List Char} (hb : IsSpelling b) :
    textNeg (signText n ++ b) = n := by
  have hh := spelling_head hb
  cases n with
  | true => simp [textNeg, signText]
  | false =>
    simp only [textNeg, signText, Bool.false_eq_true, if_false, List.nil_append]
    cases hb' : b.head? with
    | none => rfl
    | some c =>
      have : c ≠ '-' := fun e => hh (by rw [hb', e])
      simp [this]

theorem textAbs_append (n : Bool) {b : List Char} (hb : IsSpelling b) :
    textAbs (signText n ++ b) = b := by
  unfold textAbs
  rw [textNeg_append n hb]
  cases n <;> simp [signText]

theorem SignedText.spec {t : List Char} (h : SignedText t) :
    IsSpelling (textAbs t) ∧ t = signText (textNeg t) ++ textAbs t := by
  obtain ⟨n, b, hb, rfl⟩ := h
  rw [textNeg_append n hb, textAbs_append n hb]
  exact ⟨hb, rfl⟩

/-- the value of a signed text -/
def signedValue (t : List Char) : ℚ := (if textNeg t then -1 else 1) * textValue (textAbs t)

/-- the value of a concrete signed text, from the parser's reading of it (for examples) -/
theorem signedValue_of_parse (n : Bool) {b : List Char} {m sc : Nat} (hs : isSpellingB b = true)
    (h : parseUDec b = some (m, sc)) :
    signedValue (signText n ++ b) = (if n then -1 else 1) * ((m : ℚ) / (10 : ℚ) ^ sc) := by
  have hb := isSpelling_of_b hs
  unfold signedValue
  rw [textNeg_append n hb, textAbs_append n hb, textValue_of_parse hs h]

/-! ### variables -/

/-- the text one variable contributes -/
def varPiece (prec : Bool) (p : String × Item) : List Char :=
  p.1.toList ++ (if p.2.isOne then [] else if prec then trimFraction ('^' :: p.2.text) else '^' :: p.2.text)

theorem vars_foldl (prec : Bool) (vars : List (String × Item)) (acc : List Char) :
    vars.foldl (fun acc (x : String × Item) =>
        match x with
        | (v, e) =>
          let acc := acc ++ v.toList
          if e.isOne then acc
          else if prec then acc ++ trimFraction ('^' :: e.text) else acc ++ ('^' :: e.text)) acc =
      acc ++ vars.flatMap (varPiece prec) := by
  induction vars generalizing acc with
  | nil => simp
  | cons p ps ih =>
    rcases p with ⟨v, e⟩
    rw [List.foldl_cons, ih, List.flatMap_cons]
    simp only [varPiece]
    split_ifs <;> simp

/-- a variable name as the parser can read it: one ASCII letter -/
def NameOK (v : String) : Prop := ∃ c, isAsciiLetter c = true ∧ v = String.singleton c

/-- hypothesis for one printed variable: the name is an ASCII letter and a printed exponent is a signed
spelling -/
def VarItemOK (p : String × Item) : Prop := NameOK p.1 ∧ (p.2.isOne = false → SignedText p.2.text)

/-- the syntax one variable is printed as -/
def varSynOf (prec : Bool) (p : String × Item) : VarSyn :=
  ⟨p.1.toList.headD 'x',
    if p.2.isOne then none
    else some (textNeg p.2.text, udecOf (numText prec (textAbs p.2.text)))⟩

theorem varPiece_eq (prec : Bool) {p : String × Item} (h : VarItemOK p) :
    varPiece prec p = (varSynOf prec p).render := by
  rcases p with ⟨v, e⟩
  obtain ⟨⟨c, _, rfl⟩, he⟩ := h
  simp only [varPiece, varSynOf, VarSyn.render, VarSyn.expText, String.toList_singleton,
    List.headD_cons, List.cons_append, List.nil_append, List.cons.injEq, true_and]
  cases hone : e.isOne with
  | true => simp
  | false =>
    obtain ⟨hb, ht⟩ := (he hone).spec
    simp only at hb ht
    have hr : (udecOf (numText prec (textAbs e.text))).render = numText prec (textAbs e.text) :=
      (hb.numText prec).udecOf.2.2
    simp only [Bool.false_eq_true, if_false, hr]
    cases prec with
    | false =>
      simp only [Bool.false_eq_true, if_false, numText]
      rw [← ht]
    | true =>
      simp only [if_true, numText]
      have hpre : '.' ∉ '^' :: signText (textNeg e.text) := by
        intro h
        simp only [List.mem_cons] at h
        rcases h with h | h
        · revert h; decide
        · have := mem_signText h; revert this; decide
      have := trimFraction_prefix hpre hb
      rw [List.cons_append, ← ht] at this
      exact this

theorem varSynOf_wf (prec : Bool) {p : String × Item} (h : VarItemOK p) : (varSynOf prec p).WF := by
  rcases p with ⟨v, e⟩
  obtain ⟨⟨c, hc, rfl⟩, he⟩ := h
  refine ⟨by simpa [varSynOf] using hc, ?_⟩
  intro n u hu
  simp only [varSynOf] at hu
  cases hone : e.isOne with
  | true => rw [hone] at hu; simp at hu
  | false =>
    rw [hone] at hu
    simp only [Bool.false_eq_true, if_false, Option.some.injEq, Prod.mk.injEq] at hu
    obtain ⟨hb, _⟩ := (he hone).spec
    rw [← hu.2]
    exact (hb.numText prec).udecOf.1

theorem varsPieces_eq (prec : Bool) {vars : List (String × Item)} (h : ∀ p ∈ vars, VarItemOK p) :
    vars.flatMap (varPiece prec) = varsText (vars.map (varSynOf prec)) := by
  unfold varsText
  rw [List.flatMap_map]
  apply List.flatMap_congr
  intro p hp
  exact varPiece_eq prec (h p hp)

/-! ### `displayInter` -/

/-- the text one term contributes -/
def ipiece (prec : Bool) (first : Bool) (t : ITermItems) : List Char :=
  (if !first then (if t.coef.sign = .neg then [' ', '-', ' '] else [' ', '+', ' '])
    else if t.coef.sign = .neg then ['-'] else []) ++
    ((if !t.coef.isOne ∨ t.vars = [] then numText prec t.coef.text else []) ++
      t.vars.flatMap (varPiece prec))

theorem igo_cons (prec : Bool) (t : ITermItems) (rest : List ITermItems) (first : Bool)
    (acc : List Char) :
    displayInter.go prec (t :: rest) first acc =
      displayInter.go prec rest false (acc ++ ipiece prec first t) := by
  rw [displayInter.go, vars_foldl]
  congr 1
  unfold ipiece
  cases first <;> split_ifs <;> simp

theorem igo_acc (prec : Bool) (l : List ITermItems) (first : Bool) (acc : List Char) :
    displayInter.go prec l first acc = acc ++ displayInter.go prec l first [] := by
  induction l generalizing first acc with
  | nil => simp [displayInter.go]
  | cons t rest ih =>
    rw [igo_cons, igo_cons, ih false (acc ++ _), ih false ([] ++ _)]
    simp

/-- hypothesis for one printed term of a polynomial: a printed coefficient is a spelling (of the
magnitude), every variable is fine -/
def InterItemOK (t : ITermItems) : Prop :=
  ((!t.coef.isOne ∨ t.vars = []) → IsSpelling t.coef.text) ∧ ∀ p ∈ t.vars, VarItemOK p

/-- the syntax a term of a polynomial is printed as -/
def interSyn (prec : Bool) (t : ITermItems) : ITermSyn :=
  ⟨decide (t.coef.sign = .neg),
    if !t.coef.isOne ∨ t.vars = [] then some (udecOf (numText prec t.coef.text)) else none,
    t.vars.map (varSynOf prec)⟩

/-- the zero polynomial is printed as the term `0` -/
def zeroI : ITermSyn := ⟨false, some ⟨['0'], [], false⟩, []⟩

def interSyns (prec : Bool) (terms : List ITermItems) : List ITermSyn :=
  if terms = [] then [zeroI] else terms.map (interSyn prec)

theorem interSyn_wf (prec : Bool) {t : ITermItems} (h : InterItemOK t) : (interSyn prec t).WF := by
  refine ⟨?_, ?_, ?_⟩
  · intro u hu
    simp only [interSyn] at hu
    split at hu
    · rename_i hp
      simp only [Option.some.injEq] at hu
      subst hu
      exact ((h.1 hp).numText prec).udecOf.1
    · simp at hu
  · intro x hx
    simp only [interSyn, List.mem_map] at hx
    obtain ⟨p, hp, rfl⟩ := hx
    exact varSynOf_wf prec (h.2 p hp)
  · simp only [interSyn]
    by_cases hp : (!t.coef.isOne) = true ∨ t.vars = []
    · left; rw [if_pos hp]; simp
    · right
      simp only [not_or] at hp
      simpa using hp.2

theorem zeroI_wf : zeroI.WF :=
  ⟨fun u hu => by
      simp only [zeroI, Option.some.injEq] at hu
      subst hu
      exact UDec.wf_of_wfb (by decide),
    fun x hx => by simp [zeroI] at hx, Or.inl (by simp [zeroI])⟩

theorem ipiece_body (prec : Bool) {t : ITermItems} (h : InterItemOK t) :
    ((if !t.coef.isOne ∨ t.vars = [] then numText prec t.coef.text else []) ++
      t.vars.flatMap (varPiece prec)) = (interSyn prec t).renderAbs := by
  unfold ITermSyn.renderAbs
  rw [varsPieces_eq prec h.2]
  congr 1
  simp only [interSyn]
  split
  · rename_i hp
    simp only [renderCoef]
    exact ((h.1 hp).numText prec).udecOf.2.2.symm
  · rfl

theorem stripWs_renderAbsI {cc : CharClass} (hcc : cc.Sane) (hn : NumSane cc) {t : ITermSyn}
    (ht : t.WF) : stripWs cc t.renderAbs = t.renderAbs :=
  stripWs_eq_self fun _ hc => (mem_renderAbsI ht hc).not_ws hcc hn

theorem stripWs_igo_later {cc : CharClass} (hcc : cc.Sane) (hn : NumSane cc)
    (hsp : cc.isWs ' ' = true) (prec : Bool) (l : List ITermItems) (h : ∀ t ∈ l, InterItemOK t) :
    stripWs cc (displayInter.go prec l false []) =
      (l.map (interSyn prec)).flatMap fun t => (if t.neg then '-' else '+') :: t.renderAbs := by
  induction l with
  | nil => simp [displayInter.go, stripWs]
  | cons t rest ih =>
    have ht := h t (by simp)
    have hrest : ∀ t' ∈ rest, InterItemOK t' := fun t' h' => h t' (by simp [h'])
    rw [igo_cons, igo_acc, stripWs_append, ih hrest, List.nil_append, ipiece, ipiece_body prec ht,
      stripWs_append, stripWs_renderAbsI hcc hn (interSyn_wf prec ht), List.map_cons,
      List.flatMap_cons]
    congr 1
    by_cases hs : t.coef.sign = .neg
    · simp [interSyn, hs, stripWs_minus hcc hsp]
    · simp [interSyn, hs, stripWs_plus hcc hsp]

/-- **the printed polynomial without its white space is the rendering of `interSyns`** -/
theorem stripWs_displayInter {cc : CharClass} (hcc : cc.Sane) (hn : NumSane cc)
    (hsp : cc.isWs ' ' = true) (prec : Bool) (terms : List ITermItems)
    (h : ∀ t ∈ terms, InterItemOK t) :
    stripWs cc (displayInter prec terms) = renderI (interSyns prec terms) := by
  unfold displayInter interSyns
  cases terms with
  | nil =>
    have : cc.isWs '0' = false := hcc.digit_not_ws '0' (by decide)
    simp [renderI, zeroI, ITermSyn.renderPart, ITermSyn.renderAbs, signText, renderCoef, UDec.render,
      varsText, stripWs, this]
  | cons t rest =>
    have ht := h t (by simp)
    have hrest : ∀ t' ∈ rest, InterItemOK t' := fun t' h' => h t' (by simp [h'])
    rw [if_neg (by simp), if_neg (by simp), igo_cons, igo_acc, stripWs_append,
      stripWs_igo_later hcc hn hsp prec rest hrest, List.nil_append, ipiece, ipiece_body prec ht,
      stripWs_append, stripWs_renderAbsI hcc hn (interSyn_wf prec ht), List.map_cons, renderI,
      ITermSyn.renderPart]
    congr 2
    by_cases hs : t.coef.sign = .neg
    · simp [interSyn, hs, signText, stripWs, hcc.sym_not_ws.2.2.1]
    · simp [interSyn, hs, signText, stripWs]

theorem interSyns_wf (prec : Bool) {terms : List ITermItems} (h : ∀ t ∈ terms, InterItemOK t) :
    IWellFormed (interSyns prec terms) := by
  unfold interSyns
  split
  · intro t ht
    simp only [List.mem_cons, List.not_mem_nil, or_false] at ht
    subst ht
    exact zeroI_wf
  · intro t ht
    obtain ⟨t', ht', rfl⟩ := List.mem_map.1 ht
    exact interSyn_wf prec (h t' ht')

/-! ### `displayTerm` -/

/-- hypothesis for a printed `Term`: a printed coefficient is a signed spelling -/
def TermItemOK (t : ITermItems) : Prop :=
  ((!t.coef.isOne ∨ t.vars = []) → SignedText t.coef.text) ∧ ∀ p ∈ t.vars, VarItemOK p

/-- the syntax a `Term` is printed as -/
def termSyn (t : ITermItems) : ITermSyn :=
  if !t.coef.isOne ∨ t.vars = [] then
    ⟨textNeg t.coef.text, some (udecOf (textAbs t.coef.text)), t.vars.map (varSynOf false)⟩
  else ⟨false, none, t.vars.map (varSynOf false)⟩

theorem displayTerm_eq {t : ITermItems} (h : TermItemOK t) : displayTerm t = renderI [termSyn t] := by
  unfold displayTerm
  simp only
  have := vars_foldl false t.vars
  simp only [Bool.false_eq_true, if_false] at this
  rw [this, varsPieces_eq false h.2]
  simp only [renderI, List.flatMap_nil, List.append_nil, ITermSyn.renderPart, ITermSyn.renderAbs,
    termSyn]
  split
  · rename_i hp
    obtain ⟨hb, ht⟩ := (h.1 hp).spec
    simp only [renderCoef, hb.udecOf.2.2]
    rw [← List.append_assoc, ← ht]
  · simp [signText, renderCoef]

theorem termSyn_wf {t : ITermItems} (h : TermItemOK t) : (termSyn t).WF := by
  unfold termSyn
  split
  · rename_i hp
    refine ⟨?_, ?_, Or.inl (by simp)⟩
    · intro u hu
      simp only [Option.some.injEq] at hu
      subst hu
      exact (h.1 hp).spec.1.udecOf.1
    · intro x hx
      simp only [List.mem_map] at hx
      obtain ⟨p, hp', rfl⟩ := hx
      exact varSynOf_wf false (h.2 p hp')
  · rename_i hp
    refine ⟨fun u hu => by simp at hu, ?_, Or.inr ?_⟩
    · intro x hx
      simp only [List.mem_map] at hx
      obtain ⟨p, hp', rfl⟩ := hx
      exact varSynOf_wf false (h.2 p hp')
    · simp only [not_or] at hp
      simpa using hp.2

/-! ### values -/

theorem ITermSyn.num_val (t : ITermSyn) :
    t.num.val = (if t.neg then -1 else 1) * coefValue t.coef := by
  unfold ITermSyn.num coefValue
  rcases t with ⟨neg, _ | u, vars⟩
  · cases neg <;> simp
  · simp only [Num.val_dec, Dec.val_mk]

/-- the coefficient read back from a printed term of a polynomial: sign × (value of the text, or 1 if
it was elided) -/
theorem interSyn_num_val (prec : Bool) {t : ITermItems} (h : InterItemOK t) :
    (interSyn prec t).num.val =
      (if t.coef.sign = .neg then -1 else 1) *
        (if !t.coef.isOne ∨ t.vars = [] then textValue t.coef.text else 1) := by
  rw [ITermSyn.num_val]
  simp only [interSyn, decide_eq_true_eq]
  congr 1
  split
  · rename_i hp
    simp only [coefValue]
    exact textValue_numText (h.1 hp) prec
  · rfl

/-- the exponent read back from a printed variable: 1 if elided, else the signed value of its text -/
theorem varSynOf_num_val (prec : Bool) {p : String × Item} (h : VarItemOK p) :
    (varSynOf prec p).num.val = if p.2.isOne then 1 else signedValue p.2.text := by
  rcases p with ⟨v, e⟩
  simp only [varSynOf, VarSyn.num]
  cases hone : e.isOne with
  | true => simp
  | false =>
    obtain ⟨hb, _⟩ := (h.2 hone).spec
    simp only [Bool.false_eq_true, if_false, Num.val_dec, Dec.val_mk, signedValue]
    congr 1
    exact textValue_numText hb prec

theorem termSyn_num_val {t : ITermItems} :
    (termSyn t).num.val =
      if !t.coef.isOne ∨ t.vars = [] then signedValue t.coef.text else 1 := by
  rw [ITermSyn.num_val]
  unfold termSyn
  split
  · simp only [coefValue, signedValue]; rfl
  · simp [coefValue]

/-! ### variables that are already in the parser's order -/

theorem addVar_new {acc : List (String × Num)} {name : String} (p : Num)
    (h : ∀ q ∈ acc, q.1 ≠ name) : addVar acc name p = acc ++ [(name, p)] := by
  unfold addVar
  rw [if_neg]
  simp only [List.any_eq_true, decide_eq_true_eq, not_exists, not_and]
  exact fun q hq => h q hq

theorem foldl_addVar_distinct (vs : List VarSyn) (acc : List (String × Num))
    (hd : (acc.map (·.1) ++ vs.map fun x => String.singleton x.name).Nodup) :
    vs.foldl (fun acc x => addVar acc (String.singleton x.name) x.num) acc =
      acc ++ vs.map fun x => (String.singleton x.name, x.num) := by
  induction vs generalizing acc with
  | nil => simp
  | cons x xs ih =>
    rw [List.foldl_cons]
    have hnew : ∀ q ∈ acc, q.1 ≠ String.singleton x.name := by
      intro q hq e
      rw [List.nodup_append] at hd
      exact hd.2.2 q.1 (List.mem_map.2 ⟨q, hq, rfl⟩) (String.singleton x.name) (by simp) e
    rw [addVar_new _ hnew, ih]
    · simp
    · simpa [List.map_append, List.append_assoc] using hd

/-- letters in strictly ascending order are read back as they stand -/
theorem readVars_sorted (vs : List VarSyn)
    (h : (vs.map fun x => String.singleton x.name).Pairwise (· < ·)) :
    readVars vs = vs.map fun x => (String.singleton x.name, x.num) := by
  unfold readVars
  have hnd : (vs.map fun x => String.singleton x.name).Nodup :=
    h.imp fun hlt => String.ne_of_lt hlt
  rw [foldl_addVar_distinct vs [] (by simpa using hnd), List.nil_append]
  apply List.mergeSort_of_pairwise
  rw [List.pairwise_map]
  rw [List.pairwise_map] at h
  exact h.imp fun hlt => by
    simpa using String.not_lt.1 (String.lt_asymm hlt)

end SV.C17
