import SV.Model.Basic
/-!
Shared model of the two polynomial representations of `spindalis_core` and the operations
on them that do not involve text:

* `SimplePolynomial { coefficients: Vec<f64>, variable: Option<char> }` — dense, index = power
  - `eval_simple_polynomial`  (polynomials/simple.rs)      → `evalSimple`
  - `simple_derivative`       (derivatives/simple.rs)       → `simpleDeriv`
  - `indefinite_integral_simple` (integrals/simple_indefinite.rs) → `simpleInteg`
* `IntermediatePolynomial { terms: Vec<Term>, variables: Vec<String> }`,
  `Term { coefficient: f64, variables: Vec<(String, f64)> }`
  - `eval_intermediate_polynomial` (polynomials/intermediate.rs) → `evalTerms`
  - `partial_derivative`      (derivatives/intermediate.rs) → `partialDeriv`
  - `indefinite_integral_intermediate`                      → `integInter`
  - the `PolynomialTraits` wrappers of polynomials/structs/{simple,intermediate}.rs

Import-free and generic in the scalar `S`; `powf` (and nothing else from libm) is a parameter.
-/
namespace SV.Poly

/-- kinds of `PolynomialError` (payloads dropped except the unbound variable's name) -/
inductive PErr where
  | invalidCoefficient | invalidConstant | invalidExponent | invalidFractionalExponent
  | invalidFraction | invalidNumber | syntaxError | missingVariable
  | tooManyVariables | tooFewVariables | unexpectedChar | variableNotFound (v : String)
  | unexpectedToken | unexpectedEndOfTokens
deriving Repr, DecidableEq

def PErr.kind : PErr → String
  | .invalidCoefficient => "InvalidCoefficient" | .invalidConstant => "InvalidConstant"
  | .invalidExponent => "InvalidExponent" | .invalidFractionalExponent => "InvalidFractionalExponent"
  | .invalidFraction => "InvalidFraction" | .invalidNumber => "InvalidNumber"
  | .syntaxError => "PolynomialSyntaxError" | .missingVariable => "MissingVariable"
  | .tooManyVariables => "TooManyVariables" | .tooFewVariables => "TooFewVariables"
  | .unexpectedChar => "UnexpectedChar" | .variableNotFound _ => "VariableNotFound"
  | .unexpectedToken => "UnexpectedToken" | .unexpectedEndOfTokens => "UnexpectedEndOfTokens"

variable {S : Type}

/-! ### `f64::powi` -/
section powi
variable [Mul S] [Div S] [OfNat S 1]

/-- The square-and-multiply loop of compiler-rt's `__powidf2`, which `f64::powi` lowers to
(measured bit-identical on this image).  `b` is the magnitude of the exponent; the loop runs
while `b ≠ 0`, so fuel `b` (it at least halves) is never exhausted. -/
def powiLoop : Nat → S → Nat → S → S
  | 0, _, _, r => r
  | fuel + 1, a, b, r =>
    let r := if b % 2 = 1 then r * a else r
    let b := b / 2
    if b = 0 then r else powiLoop fuel (a * a) b r

def powi (x : S) (n : Int) : S :=
  let r := powiLoop (n.natAbs + 1) x n.natAbs 1
  if n < 0 then 1 / r else r

end powi

/-! ### dense univariate polynomials -/
section simple
variable [Add S] [Mul S] [Div S] [OfNat S 0] [OfNat S 1] [NatCast S]

/-- `coeffs.iter().enumerate().map(|(i,c)| c * x.powi(i)).sum()` (left to right from 0) -/
def evalSimpleFrom (x : S) : Nat → List S → S → S
  | _, [], acc => acc
  | k, c :: cs, acc => evalSimpleFrom x (k + 1) cs (acc + c * powi x (k : Int))

def evalSimple (cs : List S) (x : S) : S := evalSimpleFrom x 0 cs 0

/-- `for (power, coeff) in coefficients.enumerate().skip(1) { push(coeff * power as f64) }` -/
def derivFrom : Nat → List S → List S
  | _, [] => []
  | k, c :: cs => (c * (k : S)) :: derivFrom (k + 1) cs

def simpleDeriv : List S → List S
  | [] => []
  | _ :: cs => derivFrom 1 cs

/-- `push(0); for (power, coeff) in enumerate() { push(coeff / (power as f64 + 1.0)) }` -/
def integFrom : Nat → List S → List S
  | _, [] => []
  | k, c :: cs => (c / ((k : S) + 1)) :: integFrom (k + 1) cs

def simpleInteg (cs : List S) : List S := 0 :: integFrom 0 cs

end simple

/-- `SimplePolynomial` -/
structure SPoly (S : Type) where
  coeffs : List S
  var : Option Char
deriving Repr

/-! ### sparse multivariate polynomials -/

structure Term (S : Type) where
  coef : S
  vars : List (String × S)
deriving Repr

/-- `IntermediatePolynomial` -/
structure IPoly (S : Type) where
  terms : List (Term S)
  variables : List String
deriving Repr

/-- `HashMap` built by `collect()` from the binding list: the last binding of a name wins -/
def lookup (σ : List (String × S)) (v : String) : Option S :=
  match σ.reverse.find? (fun p => p.1 = v) with
  | some p => some p.2
  | none => none

/-- number of distinct names bound (`vars_map.len()`) -/
def distinctNames (σ : List (String × S)) : Nat := (σ.map (·.1)).eraseDups.length

section inter
variable [Add S] [Mul S] [OfNat S 0]

/-- one term: `term_value = coefficient; for (var,pow) { term_value *= value.powf(pow) }`;
the first unbound variable aborts with `VariableNotFound` -/
def termValue (powf : S → S → S) (σ : String → Option S) : S → List (String × S) → Except PErr S
  | acc, [] => .ok acc
  | acc, (v, p) :: vs =>
    match σ v with
    | some x => termValue powf σ (acc * powf x p) vs
    | none => .error (.variableNotFound v)

/-- `eval_intermediate_polynomial`: `result += term_value` from 0, terms in order -/
def evalTermsFrom (powf : S → S → S) (σ : String → Option S) : S → List (Term S) → Except PErr S
  | acc, [] => .ok acc
  | acc, t :: ts =>
    match termValue powf σ t.coef t.vars with
    | .ok tv => evalTermsFrom powf σ (acc + tv) ts
    | .error e => .error e

def evalTerms (powf : S → S → S) (terms : List (Term S)) (σ : List (String × S)) : Except PErr S :=
  evalTermsFrom powf (lookup σ) 0 terms

/-- `IntermediatePolynomial::eval_univariate`: more than one variable is an error, a constant
polynomial needs no binding -/
def evalUni (powf : S → S → S) (p : IPoly S) (x : S) : Except PErr S :=
  if p.variables.length > 1 then .error .tooManyVariables
  else match p.variables with
    | v :: _ => evalTerms powf p.terms [(v, x)]
    | [] => evalTerms powf p.terms []

end inter

/-- stable sort of a term's variables by name (`sort_by(|a,b| a.0.cmp(&b.0))`) -/
def sortVars (vs : List (String × S)) : List (String × S) :=
  vs.mergeSort (fun a b => a.1 ≤ b.1)

/-- `HashSet` of the names used, collected and sorted -/
def variablesOf (terms : List (Term S)) : List String :=
  ((terms.flatMap fun t => t.vars.map (·.1)).eraseDups).mergeSort (fun a b => a ≤ b)

section calculus
variable [Add S] [Sub S] [Mul S] [Div S] [OfNat S 0] [OfNat S 1] [LT S]
  [DecidableRel (α := S) (· < ·)]

/-- `x == 0.0` on non-NaN values -/
def isZero (x : S) : Bool := !(decide (x < 0)) && !(decide (0 < x))

/-- power rule on the first occurrence of `var` in a term's variable list:
`(multiplier, new variable list)`, `none` if the term does not contain `var` -/
def derivVars (var : String) : List (String × S) → Option (S × List (String × S))
  | [] => none
  | (v, p) :: vs =>
    if v = var then
      let np := p - 1
      some (p, if isZero np then vs else (v, np) :: vs)
    else
      match derivVars var vs with
      | some (m, vs') => some (m, (v, p) :: vs')
      | none => none

/-- terms of `partial_derivative` before `sort_poly` -/
def derivTerms (var : String) : List (Term S) → List (Term S)
  | [] => []
  | t :: ts =>
    match derivVars var t.vars with
    | some (m, vs') => ⟨t.coef * m, vs'⟩ :: derivTerms var ts
    | none => derivTerms var ts

/-- `partial_derivative` -/
def partialDeriv (terms : List (Term S)) (var : String) : IPoly S :=
  let d := derivTerms var terms
  ⟨d.map fun t => ⟨t.coef, sortVars t.vars⟩, variablesOf d⟩

/-- `(divisor, new variable list)` for the first occurrence of `var`; `none` if absent -/
def integVars (var : String) : List (String × S) → Option (S × List (String × S))
  | [] => none
  | (v, p) :: vs =>
    if v = var then some (p + 1, (v, p + 1) :: vs)
    else
      match integVars var vs with
      | some (d, vs') => some (d, (v, p) :: vs')
      | none => none

def integTerm (var : String) (t : Term S) : Term S :=
  match integVars var t.vars with
  | some (d, vs') => ⟨t.coef / d, vs'⟩
  | none => ⟨t.coef, t.vars ++ [(var, 1)]⟩

/-- `indefinite_integral_intermediate` -/
def integInter (terms : List (Term S)) (var : String) : IPoly S :=
  let d := terms.map (integTerm var)
  ⟨d.map fun t => ⟨t.coef, sortVars t.vars⟩, variablesOf d⟩

/-- `IntermediatePolynomial::derivate_univariate` (keeps the source's variable list) -/
def derivUni (p : IPoly S) : Except PErr (IPoly S) :=
  if p.variables.length > 1 then .error .tooManyVariables
  else
    let var := match p.variables with | v :: _ => v | [] => "x"
    .ok ⟨(partialDeriv p.terms var).terms, p.variables⟩

/-- `IntermediatePolynomial::indefinite_integral_univariate` -/
def integUni (p : IPoly S) : Except PErr (IPoly S) :=
  if p.variables.length > 1 then .error .tooManyVariables
  else
    let var := match p.variables with | v :: _ => v | [] => "x"
    .ok (integInter p.terms var)

end calculus

/-! ### the common `PolynomialTraits` view used by the integrators and root finders -/

/-- a polynomial of either kind -/
inductive AnyPoly (S : Type) where
  | simple (p : SPoly S)
  | inter (p : IPoly S)

section anypoly
variable [Add S] [Sub S] [Mul S] [Div S] [OfNat S 0] [OfNat S 1] [NatCast S] [LT S]
  [DecidableRel (α := S) (· < ·)]

/-- `PolynomialTraits::eval_univariate` -/
def AnyPoly.evalUni (powf : S → S → S) : AnyPoly S → S → Except PErr S
  | .simple p, x => .ok (evalSimple p.coeffs x)
  | .inter p, x => Poly.evalUni powf p x

/-- `PolynomialTraits::derivate_univariate` -/
def AnyPoly.derivUni : AnyPoly S → Except PErr (AnyPoly S)
  | .simple p => .ok (.simple ⟨simpleDeriv p.coeffs, p.var⟩)
  | .inter p => (Poly.derivUni p).map .inter

/-- `PolynomialTraits::indefinite_integral_univariate` -/
def AnyPoly.integUni : AnyPoly S → Except PErr (AnyPoly S)
  | .simple p => .ok (.simple ⟨simpleInteg p.coeffs, p.var⟩)
  | .inter p => (Poly.integUni p).map .inter

end anypoly

end SV.Poly
