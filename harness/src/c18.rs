//! C18 — descriptive statistics: `arith_mean`, `geom_mean`, `std_dev` (utils/variation.rs).
//!
//! Requests (floats as decimal u64 bit patterns, vectors as `n x0 … x_{n-1}`):
//!   mean <xs>                 -> f<mean>
//!   geom <xs>                 -> f<geom>
//!   std <p|s> <xs>            -> f<std>
//!   translate <p|s> <c> <xs>  -> f<std xs> f<std (xs+c)> f<mean xs> f<mean (xs+c)>
//!   scale <p|s> <k> <xs>      -> f<std xs> f<std (k*xs)> f<mean xs> f<mean (k*xs)>
//!   samplepop <xs>            -> f<std sample> f<std population>
//! A panic of the implementation is the observation `panic` (and an oracle failure: the property
//! demands NaN, not a panic).  The numeric oracle (defining formulas in exact rationals) is the
//! Python plug-in tools/props/c18.py.
use crate::util::*;
use spindalis::utils::{StdDevType, arith_mean, geom_mean, std_dev};

fn kind(t: &str) -> StdDevType {
    match t {
        "p" => StdDevType::Poulation,
        "s" => StdDevType::Sample,
        _ => panic!("kind"),
    }
}

fn guarded(f: impl FnOnce() -> String) -> Obs {
    match catch(f) {
        Some(s) => Obs::plain(s),
        None => Obs::with("panic".into(), Err("the implementation panicked (the property demands NaN in undefined cases)".into())),
    }
}

pub fn run(line: &str) -> Obs {
    let mut t = Toks::new(line);
    let cmd = t.tok();
    match cmd {
        "mean" => {
            let xs = t.vec_f64();
            guarded(|| fbits(arith_mean(&xs)))
        }
        "geom" => {
            let xs = t.vec_f64();
            guarded(|| fbits(geom_mean(&xs)))
        }
        "std" => {
            let k = kind(t.tok());
            let xs = t.vec_f64();
            guarded(|| fbits(std_dev(&xs, k)))
        }
        "translate" | "scale" => {
            let k = kind(t.tok());
            let c = t.f64();
            let xs = t.vec_f64();
            let ys: Vec<f64> = if cmd == "translate" { xs.iter().map(|x| x + c).collect() } else { xs.iter().map(|x| c * x).collect() };
            guarded(|| {
                format!(
                    "{} {} {} {}",
                    fbits(std_dev(&xs, k)),
                    fbits(std_dev(&ys, k)),
                    fbits(arith_mean(&xs)),
                    fbits(arith_mean(&ys))
                )
            })
        }
        "samplepop" => {
            let xs = t.vec_f64();
            guarded(|| format!("{} {}", fbits(std_dev(&xs, StdDevType::Sample)), fbits(std_dev(&xs, StdDevType::Poulation))))
        }
        _ => panic!("unknown C18 request {cmd}"),
    }
}

/// sample lengths: all of 0..=8 often, otherwise anything up to 200
fn length(rng: &mut Rng) -> usize {
    match rng.below(10) {
        0..=3 => rng.below(9) as usize,
        4..=6 => rng.range(9, 40) as usize,
        7..=8 => rng.range(41, 200) as usize,
        _ => *rng.pick(&[0usize, 1, 2, 3, 199, 200]),
    }
}

/// one sample in the property's range (|x| <= 1e6); `style` selects the shape of the data
fn sample(rng: &mut Rng, n: usize, style: u64, positive: bool) -> Vec<f64> {
    let mut v: Vec<f64> = match style {
        // uniform over the whole range
        0 => (0..n).map(|_| rng.uniform(-1e6, 1e6)).collect(),
        // small integers (ties, exact arithmetic)
        1 => (0..n).map(|_| rng.range(-100, 100) as f64).collect(),
        // dyadic rationals: translations by dyadic constants stay exact
        2 => (0..n).map(|_| rng.dyadic(1 << 20, 10)).collect(),
        // constant sample
        3 => {
            let c = match rng.below(6) {
                0 => 0.1,
                1 => 1e6,
                2 => -1e6,
                3 => 0.0,
                4 => rng.uniform(-1e6, 1e6),
                _ => 1.0 / 3.0,
            };
            vec![c; n]
        }
        // a tight cluster far from the origin (cancellation in x - mean)
        4 => {
            let base = *rng.pick(&[1e6, -1e6, 999_999.5, 12345.678, 1.0]);
            let w = *rng.pick(&[1e-6, 1e-3, 1.0, 1e-9]);
            (0..n).map(|_| (base + rng.uniform(-w, w)).clamp(-1e6, 1e6)).collect()
        }
        // huge and small magnitudes mixed: 10^e, e in -12..6 (and a few 1e-300)
        5 => (0..n)
            .map(|_| {
                let e = rng.range(-12, 6) as i32;
                let m = rng.uniform(1.0, 10.0) * 10f64.powi(e);
                let m = if rng.chance(1, 40) { 1e-300 } else { m.min(1e6) };
                if rng.chance(1, 2) { -m } else { m }
            })
            .collect(),
        // log-uniform positive
        6 => (0..n).map(|_| 10f64.powf(rng.uniform(-6.0, 6.0)).min(1e6)).collect(),
        // one outlier among equal values
        _ => {
            let mut v = vec![rng.range(-5, 5) as f64; n];
            if n > 0 {
                let k = rng.below(n as u64) as usize;
                v[k] = rng.uniform(-1e6, 1e6);
            }
            v
        }
    };
    if positive {
        for x in v.iter_mut() {
            *x = x.abs();
            if *x == 0.0 {
                *x = *rng.pick(&[1.0, 1e-6, 1e6, 0.5]);
            }
        }
    }
    v
}

pub fn generate(seed: u64, thorough: bool, emit: &mut dyn FnMut(String)) {
    let mut rng = Rng::new(seed ^ 0xC18);
    // the undefined cases and the smallest defined ones, every request kind
    for n in 0..=3usize {
        for style in [1u64, 0, 3] {
            let xs = sample(&mut rng, n, style, false);
            emit(format!("mean {}", req_vec_f(&xs)));
            emit(format!("std p {}", req_vec_f(&xs)));
            emit(format!("std s {}", req_vec_f(&xs)));
            emit(format!("samplepop {}", req_vec_f(&xs)));
            emit(format!("translate s {} {}", rbits(3.0), req_vec_f(&xs)));
            emit(format!("scale p {} {}", rbits(-2.0), req_vec_f(&xs)));
            let ps = sample(&mut rng, n, style, true);
            emit(format!("geom {}", req_vec_f(&ps)));
        }
    }
    // the repaired overflow and its neighbours
    for n in [1usize, 2, 50, 199, 200] {
        emit(format!("geom {}", req_vec_f(&vec![1e6; n])));
        emit(format!("geom {}", req_vec_f(&vec![1e-6; n])));
        emit(format!("mean {}", req_vec_f(&vec![1e6; n])));
        emit(format!("std s {}", req_vec_f(&vec![1e6; n])));
        emit(format!("std p {}", req_vec_f(&vec![-1e6; n])));
    }
    // data outside the geometric mean's domain: correspondence only (NaN / 0 as IEEE gives them)
    for _ in 0..20 {
        let n = rng.range(1, 6) as usize;
        let mut xs = sample(&mut rng, n, 1, false);
        if rng.chance(1, 2) {
            xs[0] = 0.0;
        }
        emit(format!("geom {}", req_vec_f(&xs)));
    }
    let rounds = if thorough { 30000 } else { 600 };
    for _ in 0..rounds {
        let n = length(&mut rng);
        let style = rng.below(8);
        let xs = sample(&mut rng, n, style, false);
        let k = if rng.chance(1, 2) { "p" } else { "s" };
        emit(format!("mean {}", req_vec_f(&xs)));
        emit(format!("std {k} {}", req_vec_f(&xs)));
        emit(format!("samplepop {}", req_vec_f(&xs)));
        // geometric mean: positive data
        let gs = if rng.chance(1, 2) { 6 } else { style };
        let ps = sample(&mut rng, n, gs, true);
        emit(format!("geom {}", req_vec_f(&ps)));
        // translation: dyadic data and a dyadic shift (exact), or any data and any shift
        if rng.chance(2, 3) {
            let dstyle = if rng.chance(1, 2) { 2 } else { 1 };
            let ds = sample(&mut rng, n, dstyle, false);
            let c = if rng.chance(1, 2) { rng.dyadic(1 << 19, 8) } else { rng.range(-1000, 1000) as f64 };
            emit(format!("translate {k} {} {}", rbits(c), req_vec_f(&ds)));
        } else {
            let c = rng.uniform(-1e3, 1e3);
            emit(format!("translate {k} {} {}", rbits(c), req_vec_f(&xs)));
        }
        // scaling: a signed power of two (exact) most of the time
        let c = if rng.chance(3, 4) {
            let p = 2f64.powi(rng.range(-8, 8) as i32);
            if rng.chance(1, 2) { -p } else { p }
        } else if rng.chance(1, 8) {
            0.0
        } else {
            rng.uniform(-3.0, 3.0)
        };
        // keep the scaled sample inside the range of the property
        let ss: Vec<f64> = xs.iter().map(|x| x / 256.0).collect();
        emit(format!("scale {k} {} {}", rbits(c), req_vec_f(&ss)));
    }
}
