import SV.Model.C01
import SV.Lemmas.Text
import Mathlib.Algebra.BigOperators.Intervals
/-!
Grammar of the documented univariate language and the lemmas that tie it to the model
`SV.C01.parse` of `parse_simple_polynomial`.

Abstract syntax: a polynomial text is a list of terms `TermSyn = (neg, coef?, body)`; `render`
writes it without white space.  `TermSyn.renderPart` is the piece of the normalised text
(`-` → `+-`, split at `+`) that belongs to one term: the sign stays attached only if it is `-`.

Main lemmas
* `normalize_render`   `dashToPlusDash (render …)` is the parts joined by `+`
* `parts_render`       `parts (dashToPlusDash (render v lead ts)) = ts.map (renderPart v)`
* `parseTerm_render`   the part of a well-formed term parses to its coefficient and power
* `parseTerm_inv`      conversely a part that parses is the part of a well-formed term
* `find_render`        the first alphabetic character of the normalised text is the variable (if written)
* `dense_length`, `dense_val`   the dense accumulation (`dense_spec`)
* `parse_render_eq`    the model on a rendering, as an equation
* `parse_ok_inv`       the model accepts only renderings
-/
namespace SV.C01
open SV SV.Text SV.Poly

/-! ### abstract syntax -/

/-- what follows the coefficient: nothing, the variable, or the variable with `^digits` -/
inductive Body where
  | const
  | var
  | varPow (digits : List Char)

/-- one signed term `[coefficient][variable][^digits]` -/
structure TermSyn where
  neg : Bool
  coef : Option UDec
  body : Body

def Body.pow : Body → Nat
  | .const => 0
  | .var => 1
  | .varPow ds => digitsVal ds

def Body.writesVar : Body → Bool
  | .const => false
  | _ => true

/-- the power of the variable the term denotes -/
def TermSyn.pow (t : TermSyn) : Nat := t.body.pow

def coefValue : Option UDec → ℚ
  | none => 1
  | some u => u.value

/-- the signed coefficient the term denotes (an omitted coefficient is 1) -/
def TermSyn.value (t : TermSyn) : ℚ := (if t.neg then -1 else 1) * coefValue t.coef

/-- the grammar's side conditions: the spelling is a plain decimal, a constant term has a
coefficient, the exponent is a non-empty ASCII-digit text of value at most `cap` (MAX_POWER) -/
structure TermSyn.WF (cap : Nat) (t : TermSyn) : Prop where
  coef_wf : ∀ u, t.coef = some u → u.WF
  const_coef : t.body = .const → t.coef ≠ none
  exp_wf : ∀ ds, t.body = .varPow ds →
    ds ≠ [] ∧ (∀ c ∈ ds, isAsciiDigit c = true) ∧ digitsVal ds ≤ cap

def WellFormed (cap : Nat) (ts : List TermSyn) : Prop := ∀ t ∈ ts, t.WF cap

def Body.render (v : Char) : Body → List Char
  | .const => []
  | .var => [v]
  | .varPow ds => v :: '^' :: ds

def renderCoef : Option UDec → List Char
  | none => []
  | some u => u.render

/-- the term without its sign -/
def TermSyn.renderAbs (v : Char) (t : TermSyn) : List Char := renderCoef t.coef ++ t.body.render v

/-- the text of the polynomial without white space: the first term carries `-` if negative, `+` if
`leadPlus`, nothing otherwise; every later term carries `+` or `-` -/
def render (v : Char) (leadPlus : Bool) : List TermSyn → List Char
  | [] => []
  | t :: ts =>
    (if t.neg then ['-'] else if leadPlus then ['+'] else []) ++ t.renderAbs v ++
      ts.flatMap fun t => (if t.neg then '-' else '+') :: t.renderAbs v

/-- does some term write the variable -/
def writesVar (ts : List TermSyn) : Bool := ts.any fun t => t.body.writesVar

/-- the largest power (0 for the empty list) -/
def maxPow (ts : List TermSyn) : Nat := ts.foldl (fun m t => max m t.pow) 0

/-- the piece of the normalised text that belongs to the term -/
def TermSyn.renderPart (v : Char) (t : TermSyn) : List Char :=
  (if t.neg then ['-'] else []) ++ t.renderAbs v

/-- the coefficient expression the model computes for the term -/
def TermSyn.num (t : TermSyn) : Num :=
  match t.coef with
  | none => if t.neg then Num.negOne else Num.one
  | some u => .dec ⟨t.neg, u.mant, u.fp.length⟩

theorem TermSyn.num_val (t : TermSyn) : t.num.val = t.value := by
  unfold TermSyn.num TermSyn.value coefValue
  rcases t with ⟨neg, _ | u, body⟩
  · cases neg <;> simp
  · simp only [Num.val_dec, Dec.val_mk]

/-- what the proofs need of the variable letter: it is none of the characters of numbers, signs and
`^`.  Every alphabetic character of a sane class qualifies. -/
def VarOK (v : Char) : Prop :=
  isAsciiDigit v = false ∧ v ≠ '.' ∧ v ≠ '+' ∧ v ≠ '-' ∧ v ≠ '^'

theorem VarOK.of_alpha {cc : CharClass} (hcc : cc.Sane) {v : Char} (hv : cc.isAlpha v = true) :
    VarOK v :=
  ⟨hcc.alpha_not_digit v hv, hcc.alpha_not_sym v hv⟩

theorem varOK_x : VarOK 'x' := by unfold VarOK; decide

/-! ### the characters of a rendering -/

/-- a character of a term without sign: digit, `.`, `^` or the variable -/
def Plain (v c : Char) : Prop := isAsciiDigit c = true ∨ c = '.' ∨ c = '^' ∨ c = v

theorem Plain.ne_plus {v c : Char} (hv : VarOK v) (h : Plain v c) : c ≠ '+' := by
  rcases h with h | rfl | rfl | rfl
  · exact digit_ne_plus h
  · decide
  · decide
  · exact hv.2.2.1

theorem Plain.ne_dash {v c : Char} (hv : VarOK v) (h : Plain v c) : c ≠ '-' := by
  rcases h with h | rfl | rfl | rfl
  · exact digit_ne_dash h
  · decide
  · decide
  · exact hv.2.2.2.1

theorem Plain.alpha {cc : CharClass} (hcc : cc.Sane) {v c : Char} (h : Plain v c)
    (hc : cc.isAlpha c = true) : c = v := by
  rcases h with h | rfl | rfl | rfl
  · rw [hcc.alpha_not_digit c hc] at h; exact absurd h (by simp)
  · exact absurd rfl (hcc.alpha_not_sym _ hc).1
  · exact absurd rfl (hcc.alpha_not_sym _ hc).2.2.2
  · rfl

theorem mem_renderCoef {o : Option UDec} (h : ∀ u, o = some u → u.WF) {c : Char}
    (hc : c ∈ renderCoef o) : isAsciiDigit c = true ∨ c = '.' := by
  cases o with
  | none => simp [renderCoef] at hc
  | some u => exact UDec.mem_render (h u rfl) hc

theorem mem_renderAbs {cap : Nat} {t : TermSyn} (ht : t.WF cap) {v c : Char}
    (hc : c ∈ t.renderAbs v) : Plain v c := by
  unfold TermSyn.renderAbs at hc
  rcases List.mem_append.1 hc with h | h
  · rcases mem_renderCoef ht.coef_wf h with h | h
    · exact Or.inl h
    · exact Or.inr (Or.inl h)
  · rcases hb : t.body with _ | _ | ds
    · rw [hb] at h; simp [Body.render] at h
    · rw [hb] at h
      simp only [Body.render, List.mem_cons, List.not_mem_nil, or_false] at h
      exact Or.inr (Or.inr (Or.inr h))
    · rw [hb] at h
      simp only [Body.render, List.mem_cons] at h
      rcases h with h | h | h
      · exact Or.inr (Or.inr (Or.inr h))
      · exact Or.inr (Or.inr (Or.inl h))
      · exact Or.inl ((ht.exp_wf ds hb).2.1 c h)

theorem renderAbs_ne_nil {cap : Nat} {t : TermSyn} (ht : t.WF cap) (v : Char) :
    t.renderAbs v ≠ [] := by
  unfold TermSyn.renderAbs
  rcases hc : t.coef with _ | u
  · rcases hb : t.body with _ | _ | ds
    · exact absurd hc (ht.const_coef hb)
    · simp [Body.render]
    · simp [Body.render]
  · have := UDec.render_ne_nil (ht.coef_wf u hc)
    simp [renderCoef, this]

theorem plus_not_mem_renderAbs {cap : Nat} {t : TermSyn} (ht : t.WF cap) {v : Char} (hv : VarOK v) :
    '+' ∉ t.renderAbs v := fun h => (mem_renderAbs ht h).ne_plus hv rfl

theorem dash_not_mem_renderAbs {cap : Nat} {t : TermSyn} (ht : t.WF cap) {v : Char} (hv : VarOK v) :
    '-' ∉ t.renderAbs v := fun h => (mem_renderAbs ht h).ne_dash hv rfl

theorem plus_not_mem_renderPart {cap : Nat} {t : TermSyn} (ht : t.WF cap) {v : Char} (hv : VarOK v) :
    '+' ∉ t.renderPart v := by
  unfold TermSyn.renderPart
  intro h
  rcases List.mem_append.1 h with h | h
  · cases t.neg <;> simp at h
  · exact plus_not_mem_renderAbs ht hv h

theorem renderPart_ne_nil {cap : Nat} {t : TermSyn} (ht : t.WF cap) (v : Char) :
    t.renderPart v ≠ [] := by
  unfold TermSyn.renderPart
  simp [renderAbs_ne_nil ht v]

theorem renderPart_ne_dash {cap : Nat} {t : TermSyn} (ht : t.WF cap) {v : Char} (hv : VarOK v) :
    t.renderPart v ≠ ['-'] := by
  unfold TermSyn.renderPart
  have hne := renderAbs_ne_nil ht v
  have hd := dash_not_mem_renderAbs ht hv
  cases t.neg with
  | true =>
    simp only [if_true, List.cons_append, List.nil_append, ne_eq, List.cons.injEq, true_and]
    exact hne
  | false =>
    simp only [Bool.false_eq_true, if_false, List.nil_append]
    intro h
    rw [h] at hd
    simp at hd

/-! ### normalisation and splitting of a rendering -/

theorem dash_tail {cap : Nat} {v : Char} (hv : VarOK v) (ts : List TermSyn) (hts : WellFormed cap ts) :
    dashToPlusDash (ts.flatMap fun t => (if t.neg then '-' else '+') :: t.renderAbs v) =
      ts.flatMap fun t => '+' :: t.renderPart v := by
  induction ts with
  | nil => rfl
  | cons t ts ih =>
    have ht : t.WF cap := hts t (by simp)
    have hts' : WellFormed cap ts := fun t' h' => hts t' (by simp [h'])
    rw [List.flatMap_cons, List.flatMap_cons, dashToPlusDash_append, ih hts']
    congr 1
    unfold TermSyn.renderPart
    cases t.neg with
    | true =>
      simp only [if_true]
      rw [dashToPlusDash_cons_dash, dashToPlusDash_of_not_mem (dash_not_mem_renderAbs ht hv)]
      rfl
    | false =>
      simp only [Bool.false_eq_true, if_false]
      rw [dashToPlusDash_cons_of_ne (by decide),
        dashToPlusDash_of_not_mem (dash_not_mem_renderAbs ht hv)]
      rfl

/-- the normalised text of a rendering: the parts, each preceded by `+` (the first one only if the
text starts with a sign) -/
theorem normalize_render {cap : Nat} {v : Char} (hv : VarOK v) (lead : Bool) (t : TermSyn)
    (ts : List TermSyn) (hts : WellFormed cap (t :: ts)) :
    dashToPlusDash (render v lead (t :: ts)) =
      (if t.neg || lead then ['+'] else []) ++ t.renderPart v ++
        ts.flatMap fun t => '+' :: t.renderPart v := by
  have ht : t.WF cap := hts t (by simp)
  have hts' : WellFormed cap ts := fun t' h' => hts t' (by simp [h'])
  unfold render
  rw [dashToPlusDash_append, dash_tail hv ts hts', dashToPlusDash_append,
    dashToPlusDash_of_not_mem (dash_not_mem_renderAbs ht hv)]
  congr 1
  unfold TermSyn.renderPart
  cases t.neg with
  | true => simp [dashToPlusDash]
  | false => cases lead <;> simp [dashToPlusDash]

theorem parts_render {cap : Nat} {v : Char} (hv : VarOK v) (lead : Bool) (ts : List TermSyn)
    (hts : WellFormed cap ts) :
    parts (dashToPlusDash (render v lead ts)) = ts.map (TermSyn.renderPart v) := by
  cases ts with
  | nil => rfl
  | cons t ts =>
    have ht : t.WF cap := hts t (by simp)
    have hts' : WellFormed cap ts := fun t' h' => hts t' (by simp [h'])
    have hq : '+' ∉ t.renderPart v := plus_not_mem_renderPart ht hv
    have hqs : ∀ r ∈ ts.map (TermSyn.renderPart v), '+' ∉ r := by
      intro r hr
      obtain ⟨t', ht', rfl⟩ := List.mem_map.1 hr
      exact plus_not_mem_renderPart (hts' t' ht') hv
    have hsplit := splitOn_join (sep := '+') (t.renderPart v) (ts.map (TermSyn.renderPart v)) hq hqs
    rw [List.flatMap_map] at hsplit
    rw [normalize_render hv lead t ts hts]
    unfold parts
    by_cases hp : (t.neg || lead) = true
    · rw [if_pos hp, List.append_assoc, List.singleton_append, splitOn, if_pos rfl, hsplit]
      rfl
    · rw [if_neg hp, List.nil_append, hsplit]
      have hne := renderPart_ne_nil ht v
      rcases hrp : t.renderPart v with _ | ⟨c, r⟩
      · exact absurd hrp hne
      · rw [List.map_cons, hrp]

theorem parts_render_ok {cap : Nat} {v : Char} (hv : VarOK v) (ts : List TermSyn)
    (hts : WellFormed cap ts) :
    (ts.map (TermSyn.renderPart v)).any (fun p => decide (p = [] ∨ p = ['-'])) = false := by
  rw [List.any_eq_false]
  intro p hp
  obtain ⟨t, ht, rfl⟩ := List.mem_map.1 hp
  simp [renderPart_ne_nil (hts t ht) v, renderPart_ne_dash (hts t ht) hv]

/-! ### the variable is the first alphabetic character -/

theorem mem_dashToPlusDash {c : Char} {w : List Char} (h : c ∈ dashToPlusDash w) : c ∈ w ∨ c = '+' := by
  simp only [dashToPlusDash, List.mem_flatMap] at h
  obtain ⟨d, hd, hc⟩ := h
  by_cases hdd : d = '-'
  · rw [if_pos hdd] at hc
    simp only [List.mem_cons, List.not_mem_nil, or_false] at hc
    rcases hc with rfl | rfl
    · exact Or.inr rfl
    · exact Or.inl (hdd ▸ hd)
  · rw [if_neg hdd] at hc
    simp only [List.mem_cons, List.not_mem_nil, or_false] at hc
    exact Or.inl (hc ▸ hd)

theorem mem_dashToPlusDash_of_mem {c : Char} {w : List Char} (h : c ∈ w) : c ∈ dashToPlusDash w := by
  simp only [dashToPlusDash, List.mem_flatMap]
  refine ⟨c, h, ?_⟩
  by_cases hc : c = '-'
  · simp [hc]
  · simp [hc]

theorem mem_render {cap : Nat} {v : Char} {lead : Bool} {ts : List TermSyn} (hts : WellFormed cap ts)
    {c : Char} (h : c ∈ render v lead ts) : c = '+' ∨ c = '-' ∨ Plain v c := by
  cases ts with
  | nil => simp [render] at h
  | cons t ts =>
    unfold render at h
    rcases List.mem_append.1 h with h | h
    · rcases List.mem_append.1 h with h | h
      · cases hn : t.neg with
        | true =>
          simp only [hn, if_true, List.mem_cons, List.not_mem_nil, or_false] at h
          exact Or.inr (Or.inl h)
        | false =>
          cases lead with
          | true =>
            simp only [hn, Bool.false_eq_true, if_false, if_true, List.mem_cons, List.not_mem_nil,
              or_false] at h
            exact Or.inl h
          | false => simp [hn] at h
      · exact Or.inr (Or.inr (mem_renderAbs (hts t (by simp)) h))
    · obtain ⟨t', ht', hc⟩ := List.mem_flatMap.1 h
      rcases List.mem_cons.1 hc with hc | hc
      · cases hn : t'.neg with
        | true => rw [hn, if_pos rfl] at hc; exact Or.inr (Or.inl hc)
        | false => rw [hn, if_neg (by simp)] at hc; exact Or.inl hc
      · exact Or.inr (Or.inr (mem_renderAbs (hts t' (by simp [ht'])) hc))

theorem var_mem_render {v : Char} {lead : Bool} {ts : List TermSyn} (h : writesVar ts = true) :
    v ∈ render v lead ts := by
  unfold writesVar at h
  obtain ⟨t, ht, hb⟩ := List.any_eq_true.1 h
  have hv : v ∈ t.renderAbs v := by
    unfold TermSyn.renderAbs
    apply List.mem_append_right
    rcases hbody : t.body with _ | _ | ds
    · rw [hbody] at hb; simp [Body.writesVar] at hb
    · simp [Body.render]
    · simp [Body.render]
  cases ts with
  | nil => simp at ht
  | cons t0 ts =>
    unfold render
    rcases List.mem_cons.1 ht with rfl | ht
    · exact List.mem_append_left _ (List.mem_append_right _ hv)
    · apply List.mem_append_right
      exact List.mem_flatMap.2 ⟨t, ht, List.mem_cons_of_mem _ hv⟩

theorem find?_unique {p : Char → Bool} {v : Char} {l : List Char} (hmem : v ∈ l) (hp : p v = true)
    (huniq : ∀ c ∈ l, p c = true → c = v) : l.find? p = some v := by
  induction l with
  | nil => simp at hmem
  | cons c cs ih =>
    by_cases hc : p c = true
    · rw [List.find?_cons, hc, huniq c (by simp) hc]
    · rw [List.find?_cons]
      simp only [hc]
      apply ih
      · rcases List.mem_cons.1 hmem with rfl | h
        · exact absurd hp hc
        · exact h
      · intro d hd; exact huniq d (by simp [hd])

theorem not_writesVar {ts : List TermSyn} (h : writesVar ts = false) : ∀ t ∈ ts, t.body = .const := by
  intro t ht
  unfold writesVar at h
  have := List.any_eq_false.1 h t ht
  rcases hb : t.body with _ | _ | ds
  · rfl
  · rw [hb] at this; simp [Body.writesVar] at this
  · rw [hb] at this; simp [Body.writesVar] at this

theorem mem_renderAbs_const {cap : Nat} {t : TermSyn} (ht : t.WF cap) (hb : t.body = .const) {v c : Char}
    (hc : c ∈ t.renderAbs v) : isAsciiDigit c = true ∨ c = '.' := by
  unfold TermSyn.renderAbs at hc
  rw [hb] at hc
  simp only [Body.render, List.append_nil] at hc
  exact mem_renderCoef ht.coef_wf hc


/-- the first alphabetic character of the normalised text of a rendering is the variable, if some
term writes it; there is none otherwise -/
theorem find_render {cc : CharClass} (hcc : cc.Sane) {cap : Nat} {v : Char}
    {lead : Bool} {ts : List TermSyn} (hts : WellFormed cap ts)
    (hva : writesVar ts = true → cc.isAlpha v = true) :
    (dashToPlusDash (render v lead ts)).find? cc.isAlpha = if writesVar ts then some v else none := by
  have hplus : cc.isAlpha '+' = false := by
    cases h : cc.isAlpha '+' with
    | false => rfl
    | true => exact absurd rfl (hcc.alpha_not_sym _ h).2.1
  have hdash : cc.isAlpha '-' = false := by
    cases h : cc.isAlpha '-' with
    | false => rfl
    | true => exact absurd rfl (hcc.alpha_not_sym _ h).2.2.1
  cases hw : writesVar ts with
  | true =>
    rw [if_pos rfl]
    apply find?_unique (mem_dashToPlusDash_of_mem (var_mem_render hw)) (hva hw)
    intro c hc hca
    rcases mem_dashToPlusDash hc with hc | rfl
    · rcases mem_render hts hc with rfl | rfl | hp
      · rw [hplus] at hca; exact absurd hca (by simp)
      · rw [hdash] at hca; exact absurd hca (by simp)
      · exact hp.alpha hcc hca
    · rw [hplus] at hca; exact absurd hca (by simp)
  | false =>
    rw [if_neg (by simp)]
    rw [List.find?_eq_none]
    intro c hc hca
    have hconst := not_writesVar hw
    have hcr : c ∈ render v lead ts → False := by
      intro hc
      cases ts with
      | nil => simp [render] at hc
      | cons t ts =>
        have key : ∀ t' ∈ t :: ts, c ∈ t'.renderAbs v → False := by
          intro t' ht' hc'
          rcases mem_renderAbs_const (hts t' ht') (hconst t' ht') hc' with h | rfl
          · rw [hcc.alpha_not_digit c hca] at h; exact absurd h (by simp)
          · exact absurd rfl (hcc.alpha_not_sym _ hca).1
        rcases mem_render hts hc with rfl | rfl | _
        · rw [hplus] at hca; exact absurd hca (by simp)
        · rw [hdash] at hca; exact absurd hca (by simp)
        · unfold render at hc
          rcases List.mem_append.1 hc with hc | hc
          · rcases List.mem_append.1 hc with hc | hc
            · have : c = '-' ∨ c = '+' := by
                cases hn : t.neg <;> cases lead <;> simp [hn] at hc <;> simp [hc]
              rcases this with rfl | rfl
              · rw [hdash] at hca; exact absurd hca (by simp)
              · rw [hplus] at hca; exact absurd hca (by simp)
            · exact key t (by simp) hc
          · obtain ⟨t', ht', hc'⟩ := List.mem_flatMap.1 hc
            rcases List.mem_cons.1 hc' with hc' | hc'
            · have : c = '-' ∨ c = '+' := by
                cases hn : t'.neg <;> simp [hn] at hc' <;> simp [hc']
              rcases this with rfl | rfl
              · rw [hdash] at hca; exact absurd hca (by simp)
              · rw [hplus] at hca; exact absurd hca (by simp)
            · exact key t' (by simp [ht']) hc'
    rcases mem_dashToPlusDash hc with hc | rfl
    · exact hcr hc
    · rw [hplus] at hca; exact absurd hca (by simp)


/-! ### one part -/

/-- sign and coefficient text of a term (what stands before the variable) -/
def TermSyn.coefText (t : TermSyn) : List Char := (if t.neg then ['-'] else []) ++ renderCoef t.coef

theorem renderPart_eq (v : Char) (t : TermSyn) : t.renderPart v = t.coefText ++ t.body.render v := by
  simp [TermSyn.renderPart, TermSyn.renderAbs, TermSyn.coefText]

theorem not_mem_coefText {cap : Nat} {t : TermSyn} (ht : t.WF cap) {c : Char}
    (h1 : isAsciiDigit c = false) (h2 : c ≠ '.') (h3 : c ≠ '-') : c ∉ t.coefText := by
  unfold TermSyn.coefText
  intro h
  rcases List.mem_append.1 h with h | h
  · cases hn : t.neg <;> simp [hn] at h
    exact h3 h
  · rcases mem_renderCoef ht.coef_wf h with h | h
    · rw [h1] at h; exact absurd h (by simp)
    · exact h2 h

/-- the three forms of the text before the variable and the coefficient the model computes from it -/
theorem coefText_cases {cap : Nat} {t : TermSyn} (ht : t.WF cap) :
    (t.coefText = [] ∧ t.num = Num.one) ∨ (t.coefText = ['-'] ∧ t.num = Num.negOne) ∨
      (t.coefText ≠ [] ∧ t.coefText ≠ ['+'] ∧ t.coefText ≠ ['-'] ∧
        ∃ d, parseDec t.coefText = some d ∧ t.num = .dec d) := by
  rcases t with ⟨neg, _ | u, body⟩
  · cases neg
    · exact Or.inl ⟨rfl, rfl⟩
    · exact Or.inr (Or.inl ⟨rfl, rfl⟩)
  · have hu : u.WF := ht.coef_wf u rfl
    have hne := UDec.render_ne_nil hu
    have h1 : TermSyn.coefText ⟨neg, some u, body⟩ ≠ [] := by
      simp [TermSyn.coefText, renderCoef, hne]
    have h2 : TermSyn.coefText ⟨neg, some u, body⟩ ≠ ['+'] := by
      intro h
      have : '+' ∈ TermSyn.coefText ⟨neg, some u, body⟩ := by rw [h]; simp
      exact not_mem_coefText ht (by decide) (by decide) (by decide) this
    have h3 : TermSyn.coefText ⟨neg, some u, body⟩ ≠ ['-'] := by
      simp only [TermSyn.coefText, renderCoef]
      cases neg with
      | true => simpa using hne
      | false =>
        simp only [Bool.false_eq_true, if_false, List.nil_append]
        intro h
        have : '-' ∈ u.render := by rw [h]; simp
        rcases UDec.mem_render hu this with h | h
        · exact digit_ne_dash h rfl
        · revert h; decide
    exact Or.inr (Or.inr ⟨h1, h2, h3, _, parseDec_render hu neg, rfl⟩)

theorem parseDec_const {cap : Nat} {t : TermSyn} (ht : t.WF cap) (hb : t.body = .const) (v : Char) :
    ∃ d, parseDec (t.renderPart v) = some d ∧ t.num = .dec d ∧ t.pow = 0 := by
  rcases t with ⟨neg, _ | u, body⟩
  · exact absurd rfl (ht.const_coef hb)
  · simp only at hb
    subst hb
    refine ⟨⟨neg, u.mant, u.fp.length⟩, ?_, rfl, rfl⟩
    have := parseDec_render (ht.coef_wf u rfl) neg
    simpa [TermSyn.renderPart, TermSyn.renderAbs, renderCoef, Body.render] using this

/-- the part of a well-formed term parses to the term's coefficient and power -/
theorem parseTerm_render {cap : Nat} {v : Char} (hv : VarOK v) {t : TermSyn} (ht : t.WF cap)
    (varc : Option Char) (hvarc : varc = some v ∨ (varc = none ∧ t.body = .const)) :
    parseTerm cap varc (t.renderPart v) = .ok (t.num, t.pow) := by
  have hnm : v ∉ t.coefText := not_mem_coefText ht hv.1 hv.2.1 hv.2.2.2.1
  rcases hvarc with rfl | ⟨rfl, hb⟩
  · rcases hb : t.body with _ | _ | ds
    · obtain ⟨d, hd, hnum, hpow⟩ := parseDec_const ht hb v
      have hsp : splitAtChar v (t.renderPart v) = none := by
        apply splitAtChar_of_not_mem
        rw [renderPart_eq, hb]
        simpa [Body.render] using hnm
      simp only [parseTerm, hsp, hd, hnum, hpow]
    · have hsp : splitAtChar v (t.renderPart v) = some (t.coefText, []) := by
        rw [renderPart_eq, hb]
        exact splitAtChar_append [] hnm
      have hpow : t.pow = 1 := by simp [TermSyn.pow, hb, Body.pow]
      rcases coefText_cases ht with ⟨h1, hn⟩ | ⟨h1, hn⟩ | ⟨h1, h2, h3, d, hd, hn⟩
      · simp [parseTerm, hsp, h1, hn, hpow]
      · simp [parseTerm, hsp, h1, hn, hpow]
      · simp [parseTerm, hsp, h1, h2, h3, hd, hn, hpow]
    · have hsp : splitAtChar v (t.renderPart v) = some (t.coefText, '^' :: ds) := by
        rw [renderPart_eq, hb]
        exact splitAtChar_append _ hnm
      have hpow : t.pow = digitsVal ds := by simp [TermSyn.pow, hb, Body.pow]
      obtain ⟨h1, h2, h3⟩ := ht.exp_wf ds hb
      have hexp : parseUsizeCapped cap ds = some (digitsVal ds) :=
        parseUsizeCapped_eq_some.2 ⟨h1, h2, h3, rfl⟩
      rcases coefText_cases ht with ⟨h1, hn⟩ | ⟨h1, hn⟩ | ⟨h1, h2, h3, d, hd, hn⟩
      · simp [parseTerm, hsp, h1, hn, hpow, hexp]
      · simp [parseTerm, hsp, h1, hn, hpow, hexp]
      · simp [parseTerm, hsp, h1, h2, h3, hd, hn, hpow, hexp]
  · obtain ⟨d, hd, hnum, hpow⟩ := parseDec_const ht hb v
    simp only [parseTerm, hd, hnum, hpow]

theorem parseTerms_render {cap : Nat} {v : Char} (hv : VarOK v) (varc : Option Char)
    (ts : List TermSyn) (hts : WellFormed cap ts)
    (hvarc : varc = some v ∨ (varc = none ∧ ∀ t ∈ ts, t.body = .const)) :
    parseTerms cap varc (ts.map (TermSyn.renderPart v)) = .ok (ts.map fun t => (t.num, t.pow)) := by
  induction ts with
  | nil => rfl
  | cons t ts ih =>
    have ht : t.WF cap := hts t (by simp)
    have hts' : WellFormed cap ts := fun t' h' => hts t' (by simp [h'])
    have h1 : varc = some v ∨ (varc = none ∧ t.body = .const) := by
      rcases hvarc with h | ⟨h, h'⟩
      · exact Or.inl h
      · exact Or.inr ⟨h, h' t (by simp)⟩
    have h2 : varc = some v ∨ (varc = none ∧ ∀ t ∈ ts, t.body = .const) := by
      rcases hvarc with h | ⟨h, h'⟩
      · exact Or.inl h
      · exact Or.inr ⟨h, fun t' ht' => h' t' (by simp [ht'])⟩
    simp only [List.map_cons, parseTerms, parseTerm_render hv ht varc h1, ih hts' h2]


/-! ### dense accumulation (`dense_spec`) -/

theorem foldl_max_ge (terms : List (Num × Nat)) (m : Nat) :
    m ≤ terms.foldl (fun m t => max m t.2) m ∧
      ∀ t ∈ terms, t.2 ≤ terms.foldl (fun m t => max m t.2) m := by
  induction terms generalizing m with
  | nil => simp
  | cons t ts ih =>
    obtain ⟨h1, h2⟩ := ih (max m t.2)
    rw [List.foldl_cons]
    refine ⟨le_trans (le_max_left _ _) h1, ?_⟩
    intro t' ht'
    rcases List.mem_cons.1 ht' with rfl | ht'
    · exact le_trans (le_max_right _ _) h1
    · exact h2 t' ht'

/-- the maximum is attained (non-empty list) or is the start value -/
theorem foldl_max_attained (terms : List (Num × Nat)) (m : Nat) :
    terms.foldl (fun m t => max m t.2) m = m ∨
      ∃ t ∈ terms, t.2 = terms.foldl (fun m t => max m t.2) m := by
  induction terms generalizing m with
  | nil => left; rfl
  | cons t ts ih =>
    rw [List.foldl_cons]
    rcases ih (max m t.2) with h | ⟨t', ht', h⟩
    · rw [h]
      rcases le_total m t.2 with hle | hle
      · right; exact ⟨t, by simp, by rw [max_eq_right hle]⟩
      · left; rw [max_eq_left hle]
    · right; exact ⟨t', by simp [ht'], h⟩

/-- the vector has length `max power + 1` -/
theorem dense_length (terms : List (Num × Nat)) :
    (dense terms).length = terms.foldl (fun m t => max m t.2) 0 + 1 := by
  simp [dense]

theorem foldl_add_val (terms : List (Num × Nat)) (k : Nat) (a : Num) :
    (terms.foldl (fun acc t => if t.2 = k then Num.add acc t.1 else acc) a).val =
      a.val + ((terms.filter fun t => decide (t.2 = k)).map fun t => t.1.val).sum := by
  induction terms generalizing a with
  | nil => simp
  | cons t ts ih =>
    rw [List.foldl_cons, ih]
    by_cases h : t.2 = k
    · rw [if_pos h, List.filter_cons_of_pos (by simpa using h), List.map_cons, List.sum_cons,
        Num.val_add, add_assoc]
    · rw [if_neg h, List.filter_cons_of_neg (by simpa using h)]

/-- position `k` holds the sum of the coefficients of the terms of power `k` (0 if there is none,
also beyond the end) -/
theorem dense_val (terms : List (Num × Nat)) (k : Nat) :
    ((dense terms).getD k Num.zero).val =
      ((terms.filter fun t => decide (t.2 = k)).map fun t => t.1.val).sum := by
  by_cases hk : k < terms.foldl (fun m t => max m t.2) 0 + 1
  · have : (dense terms).getD k Num.zero =
        terms.foldl (fun acc t => if t.2 = k then Num.add acc t.1 else acc) Num.zero := by
      simp [dense, List.getD_eq_getElem?_getD, List.getElem?_map, List.getElem?_range hk]
    rw [this, foldl_add_val, Num.val_zero, zero_add]
  · have hlen : (dense terms).length ≤ k := by rw [dense_length]; omega
    rw [List.getD_eq_getElem?_getD, List.getElem?_eq_none hlen, Option.getD_none, Num.val_zero]
    have : (terms.filter fun t => decide (t.2 = k)) = [] := by
      rw [List.filter_eq_nil_iff]
      intro t ht
      have := (foldl_max_ge terms 0).2 t ht
      simp only [decide_eq_true_eq]
      omega
    rw [this]; rfl

/-! ### the model on a rendering -/

theorem maxPow_eq (ts : List TermSyn) :
    (ts.map fun t => (t.num, t.pow)).foldl (fun m t => max m t.2) 0 = maxPow ts := by
  rw [List.foldl_map]; rfl

/-- the model on (any spacing of) a rendering, as an equation -/
theorem parse_render_eq {cc : CharClass} (hcc : cc.Sane) {cap : Nat} {v : Char} (hv : VarOK v)
    {lead : Bool} {ts : List TermSyn} (hts : WellFormed cap ts)
    (hva : writesVar ts = true → cc.isAlpha v = true) {s : List Char}
    (hs : stripWs cc s = render v lead ts) :
    parse cc cap s =
      .ok ⟨dense (ts.map fun t => (t.num, t.pow)), if writesVar ts then some v else none⟩ := by
  have hvarc : (if writesVar ts = true then some v else none) = some v ∨
      ((if writesVar ts = true then some v else none) = none ∧ ∀ t ∈ ts, t.body = .const) := by
    cases hw : writesVar ts with
    | true => left; rfl
    | false => right; exact ⟨by simp, not_writesVar hw⟩
  simp only [parse, normalize, hs, parts_render hv lead ts hts, parts_render_ok hv ts hts,
    find_render hcc hts hva, parseTerms_render hv _ ts hts hvarc]
  rfl


/-! ### converse: what the model accepts is a rendering -/

theorem const_inv {cap : Nat} {q : List Char} {d : Dec} (h : parseDec q = some d) (v : Char) :
    ∃ t : TermSyn, t.WF cap ∧ q = t.renderPart v ∧ t.body = .const := by
  obtain ⟨u, hu, hq, _, _⟩ := parseDec_some h
  refine ⟨⟨d.neg, some u, .const⟩, ⟨?_, ?_, ?_⟩, ?_, rfl⟩
  · intro u' hu'; simp only [Option.some.injEq] at hu'; exact hu' ▸ hu
  · intro _; simp
  · intro ds hds; simp at hds
  · simp [TermSyn.renderPart, TermSyn.renderAbs, renderCoef, Body.render, hq]

/-- the text before the variable, if accepted, is the sign and coefficient of a term -/
theorem coef_inv {pre : List Char} {c : Num} (hplus : '+' ∉ pre)
    (h : (if pre = [] ∨ pre = ['+'] then (Except.ok Num.one : Except PErr Num)
      else if pre = ['-'] then .ok Num.negOne
      else match parseDec pre with
        | some d => .ok (.dec d)
        | none => .error .invalidCoefficient) = .ok c) :
    ∃ (neg : Bool) (coef : Option UDec), (∀ u, coef = some u → u.WF) ∧
      pre = (if neg then ['-'] else []) ++ renderCoef coef := by
  split at h
  · rename_i h1
    rcases h1 with h1 | h1
    · exact ⟨false, none, by simp, by simp [h1, renderCoef]⟩
    · rw [h1] at hplus; simp at hplus
  · split at h
    · rename_i h2
      exact ⟨true, none, by simp, by simp [h2, renderCoef]⟩
    · split at h
      · rename_i d hd
        obtain ⟨u, hu, hq, _, _⟩ := parseDec_some hd
        refine ⟨d.neg, some u, ?_, by simp [renderCoef, hq]⟩
        intro u' hu'; simp only [Option.some.injEq] at hu'; exact hu' ▸ hu
      · simp at h

theorem parseTerm_inv {cap : Nat} {varc : Option Char} {q : List Char} {r : Num × Nat}
    (h : parseTerm cap varc q = .ok r) (hplus : '+' ∉ q) (v : Char)
    (hvc : ∀ v', varc = some v' → v' = v) :
    ∃ t : TermSyn, t.WF cap ∧ q = t.renderPart v ∧ (varc = none → t.body = .const) := by
  unfold parseTerm at h
  split at h
  · rename_i v' 
    have := hvc v' rfl
    subst this
    split at h
    · rename_i pre post hsp
      obtain ⟨hq, hnm⟩ := splitAtChar_some hsp
      simp only at h
      have hplus' : '+' ∉ pre := fun hm => hplus (by rw [hq]; exact List.mem_append_left _ hm)
      split at h
      · simp at h
      · rename_i c hcoef
        obtain ⟨neg, coef, hcw, hpre⟩ := coef_inv hplus' hcoef
        split at h
        · refine ⟨⟨neg, coef, .var⟩, ⟨hcw, by simp, by simp⟩, ?_, by simp⟩
          simp [TermSyn.renderPart, TermSyn.renderAbs, Body.render, hq, hpre]
        · rename_i ds
          split at h
          · rename_i p hp
            obtain ⟨h1, h2, h3, _⟩ := parseUsizeCapped_eq_some.1 hp
            refine ⟨⟨neg, coef, .varPow ds⟩, ⟨hcw, by simp, ?_⟩, ?_, by simp⟩
            · intro ds' hds'
              simp only [Body.varPow.injEq] at hds'
              subst hds'
              exact ⟨h1, h2, h3⟩
            · simp [TermSyn.renderPart, TermSyn.renderAbs, Body.render, hq, hpre]
          · simp at h
        · simp at h
    · split at h
      · rename_i d hd
        obtain ⟨t, ht, hq, hb⟩ := const_inv (cap := cap) hd v'
        exact ⟨t, ht, hq, fun _ => hb⟩
      · simp at h
  · split at h
    · rename_i d hd
      obtain ⟨t, ht, hq, hb⟩ := const_inv (cap := cap) hd v
      exact ⟨t, ht, hq, fun _ => hb⟩
    · simp at h


theorem parseTerms_inv {cap : Nat} {varc : Option Char} {ps : List (List Char)}
    {terms : List (Num × Nat)} (h : parseTerms cap varc ps = .ok terms)
    (hplus : ∀ q ∈ ps, '+' ∉ q) (v : Char) (hvc : ∀ v', varc = some v' → v' = v) :
    ∃ ts : List TermSyn, WellFormed cap ts ∧ ps = ts.map (TermSyn.renderPart v) ∧
      (varc = none → ∀ t ∈ ts, t.body = .const) := by
  induction ps generalizing terms with
  | nil => exact ⟨[], by simp [WellFormed], rfl, by simp⟩
  | cons q qs ih =>
    unfold parseTerms at h
    split at h
    · simp at h
    · rename_i r hr
      split at h
      · simp at h
      · rename_i rs hrs
        obtain ⟨t, ht, hq, hb⟩ := parseTerm_inv hr (hplus q (by simp)) v hvc
        obtain ⟨ts, hts, hqs, hbs⟩ := ih hrs (fun q' hq' => hplus q' (by simp [hq']))
        refine ⟨t :: ts, ?_, by rw [List.map_cons, ← hq, ← hqs], ?_⟩
        · intro t' ht'
          rcases List.mem_cons.1 ht' with rfl | ht'
          · exact ht
          · exact hts t' ht'
        · intro hn t' ht'
          rcases List.mem_cons.1 ht' with rfl | ht'
          · exact hb hn
          · exact hbs hn t' ht'

theorem writesVar_false_of_const {ts : List TermSyn} (h : ∀ t ∈ ts, t.body = .const) :
    writesVar ts = false := by
  unfold writesVar
  rw [List.any_eq_false]
  intro t ht
  rw [h t ht]
  simp [Body.writesVar]

/-- the model accepts only (spacings of) renderings of well-formed term lists: the normalised text
is reproduced character for character -/
theorem parse_ok_inv {cc : CharClass} (hcc : cc.Sane) {cap : Nat} {s : List Char} {p : SParsed}
    (h : parse cc cap s = .ok p) :
    ∃ (v : Char) (lead : Bool) (ts : List TermSyn), VarOK v ∧
      (writesVar ts = true → cc.isAlpha v = true) ∧ WellFormed cap ts ∧
      stripWs cc s = render v lead ts := by
  unfold parse normalize at h
  simp only at h
  generalize stripWs cc s = w at h ⊢
  split at h
  · simp at h
  · split at h
    · simp at h
    · rename_i terms hterms
      clear h
      -- the variable
      obtain ⟨v, hvok, hvc, hva⟩ : ∃ v, VarOK v ∧
          (∀ v', (dashToPlusDash w).find? cc.isAlpha = some v' → v' = v) ∧
          ((dashToPlusDash w).find? cc.isAlpha ≠ none → cc.isAlpha v = true) := by
        rcases hf : (dashToPlusDash w).find? cc.isAlpha with _ | v'
        · exact ⟨'x', varOK_x, by simp, by simp⟩
        · have ha : cc.isAlpha v' = true := List.find?_some hf
          exact ⟨v', VarOK.of_alpha hcc ha, by simp, fun _ => ha⟩
      have hj := joinSep_splitOn '+' (dashToPlusDash w)
      have hnp : ∀ q ∈ splitOn '+' (dashToPlusDash w), '+' ∉ q := fun q hq => not_mem_of_mem_splitOn hq
      have hsub : ∀ q ∈ parts (dashToPlusDash w), q ∈ splitOn '+' (dashToPlusDash w) := by
        intro q hq
        unfold parts at hq
        split at hq
        · rename_i rest heq; rw [heq]; exact List.mem_cons_of_mem _ hq
        · exact hq
      obtain ⟨ts, hts, hps, hconst⟩ :=
        parseTerms_inv hterms (fun q hq => hnp q (hsub q hq)) v hvc
      have hva' : writesVar ts = true → cc.isAlpha v = true := by
        intro hw
        apply hva
        intro hnone
        rw [writesVar_false_of_const (hconst hnone)] at hw
        exact absurd hw (by simp)
      refine ⟨v, ?_⟩
      rcases hsp : splitOn '+' (dashToPlusDash w) with _ | ⟨q0, rest⟩
      · exact absurd hsp (splitOn_ne_nil _ _)
      · rw [hsp] at hj
        cases q0 with
        | nil =>
          have hparts : parts (dashToPlusDash w) = rest := by unfold parts; rw [hsp]
          rw [hparts] at hps
          subst hps
          simp only [joinSep, List.nil_append, List.flatMap_map] at hj
          cases ts with
          | nil =>
            refine ⟨false, [], hvok, hva', hts, ?_⟩
            apply dashToPlusDash_injective
            rw [← hj]; rfl
          | cons t ts =>
            refine ⟨true, t :: ts, hvok, hva', hts, ?_⟩
            apply dashToPlusDash_injective
            rw [normalize_render hvok true t ts hts, ← hj]
            simp
        | cons c q0 =>
          have hparts : parts (dashToPlusDash w) = (c :: q0) :: rest := by unfold parts; rw [hsp]
          rw [hparts] at hps
          cases ts with
          | nil => simp at hps
          | cons t ts =>
            simp only [List.map_cons, List.cons.injEq] at hps
            obtain ⟨hq0, hrest⟩ := hps
            subst hrest
            simp only [joinSep, List.flatMap_map] at hj
            rw [hq0] at hj
            have hneg : t.neg = false := by
              cases hn : t.neg with
              | false => rfl
              | true =>
                exfalso
                apply dashToPlusDash_head? w
                rw [← hj]
                simp [TermSyn.renderPart, hn]
            refine ⟨false, t :: ts, hvok, hva', hts, ?_⟩
            apply dashToPlusDash_injective
            rw [normalize_render hvok false t ts hts, ← hj, hneg]
            simp


/-! ### from positions to terms -/

theorem getD_map_val (l : List Num) (k : Nat) : (l.map Num.val).getD k 0 = (l.getD k Num.zero).val := by
  rw [List.getD_eq_getElem?_getD, List.getD_eq_getElem?_getD, List.getElem?_map]
  cases l[k]? with
  | none => simp
  | some a => rfl

/-- `Σ_k (Σ_{t of power k} value t)·x^k = Σ_t value t · x^(pow t)` when every power is below `n` -/
theorem sum_by_power (ts : List TermSyn) (n : Nat) (hn : ∀ t ∈ ts, t.pow < n) (x : ℚ) :
    (∑ k ∈ Finset.range n,
        ((ts.filter fun t => decide (t.pow = k)).map TermSyn.value).sum * x ^ k) =
      (ts.map fun t => t.value * x ^ t.pow).sum := by
  induction ts with
  | nil => simp
  | cons t ts ih =>
    have hstep : ∀ k, (((t :: ts).filter fun t => decide (t.pow = k)).map TermSyn.value).sum =
        (if t.pow = k then t.value else 0) +
          ((ts.filter fun t => decide (t.pow = k)).map TermSyn.value).sum := by
      intro k
      by_cases h : t.pow = k
      · rw [List.filter_cons_of_pos (by simpa using h), List.map_cons, List.sum_cons, if_pos h]
      · rw [List.filter_cons_of_neg (by simpa using h), if_neg h, zero_add]
    have ht : t.pow ∈ Finset.range n := Finset.mem_range.2 (hn t (by simp))
    simp only [hstep, add_mul, Finset.sum_add_distrib, ite_mul, zero_mul, Finset.sum_ite_eq, ht,
      if_true, List.map_cons, List.sum_cons]
    rw [ih (fun t' ht' => hn t' (by simp [ht']))]

theorem pow_le_maxPow {ts : List TermSyn} {t : TermSyn} (ht : t ∈ ts) : t.pow ≤ maxPow ts := by
  rw [← maxPow_eq]
  exact (foldl_max_ge _ 0).2 (t.num, t.pow) (List.mem_map.2 ⟨t, ht, rfl⟩)

theorem maxPow_attained {ts : List TermSyn} (hne : ts ≠ []) : ∃ t ∈ ts, t.pow = maxPow ts := by
  rcases foldl_max_attained (ts.map fun t => (t.num, t.pow)) 0 with h | ⟨r, hr, h⟩
  · rw [maxPow_eq] at h
    cases ts with
    | nil => exact absurd rfl hne
    | cons t ts =>
      refine ⟨t, by simp, ?_⟩
      have := pow_le_maxPow (ts := t :: ts) (t := t) (by simp)
      omega
  · rw [maxPow_eq] at h
    obtain ⟨t, ht, rfl⟩ := List.mem_map.1 hr
    exact ⟨t, ht, h⟩

/-! ### allocation bound -/

theorem parseTerm_pow_le {cap : Nat} {varc : Option Char} {q : List Char} {r : Num × Nat}
    (h : parseTerm cap varc q = .ok r) : r.2 ≤ max cap 1 := by
  unfold parseTerm at h
  split at h
  · split at h
    · simp only at h
      split at h
      · simp at h
      · split at h
        · simp only [Except.ok.injEq] at h; subst h; simp
        · split at h
          · rename_i p hp
            simp only [Except.ok.injEq] at h; subst h
            have := (parseUsizeCapped_eq_some.1 hp).2.2
            simp only
            omega
          · simp at h
        · simp at h
    · split at h
      · simp only [Except.ok.injEq] at h; subst h; simp
      · simp at h
  · split at h
    · simp only [Except.ok.injEq] at h; subst h; simp
    · simp at h

theorem parseTerms_pow_le {cap : Nat} {varc : Option Char} {ps : List (List Char)}
    {terms : List (Num × Nat)} (h : parseTerms cap varc ps = .ok terms) :
    ∀ r ∈ terms, r.2 ≤ max cap 1 := by
  induction ps generalizing terms with
  | nil => simp only [parseTerms, Except.ok.injEq] at h; subst h; simp
  | cons q qs ih =>
    unfold parseTerms at h
    split at h
    · simp at h
    · rename_i r hr
      split at h
      · simp at h
      · rename_i rs hrs
        simp only [Except.ok.injEq] at h; subst h
        intro r' hr'
        rcases List.mem_cons.1 hr' with rfl | hr'
        · exact parseTerm_pow_le hr
        · exact ih hrs r' hr'

/-- the vector the parser allocates never exceeds `max cap 1 + 1` entries -/
theorem parse_length_le {cc : CharClass} {cap : Nat} {s : List Char} {p : SParsed}
    (h : parse cc cap s = .ok p) : p.coeffs.length ≤ max cap 1 + 1 := by
  unfold parse at h
  simp only at h
  split at h
  · simp at h
  · split at h
    · simp at h
    · rename_i terms hterms
      simp only [Except.ok.injEq] at h; subst h
      rw [dense_length]
      rcases foldl_max_attained terms 0 with h0 | ⟨r, hr, h1⟩
      · rw [h0]; omega
      · rw [← h1]
        have := parseTerms_pow_le hterms r hr
        omega

/-! ### a rendering is its own normal form; the characters of an accepted text -/

theorem Plain.not_ws {cc : CharClass} (hcc : cc.Sane) {v c : Char} (hv : cc.isAlpha v = true)
    (h : Plain v c) : cc.isWs c = false := by
  rcases h with h | rfl | rfl | rfl
  · exact hcc.digit_not_ws c h
  · exact hcc.sym_not_ws.1
  · exact hcc.sym_not_ws.2.2.2
  · exact hcc.alpha_not_ws _ hv

/-- a rendering contains no white space, so it is one of the texts `s` with `stripWs cc s = render …` -/
theorem stripWs_render {cc : CharClass} (hcc : cc.Sane) {cap : Nat} {v : Char}
    (hv : cc.isAlpha v = true) (lead : Bool) {ts : List TermSyn} (hts : WellFormed cap ts) :
    stripWs cc (render v lead ts) = render v lead ts := by
  apply stripWs_eq_self
  intro c hc
  rcases mem_render hts hc with rfl | rfl | h
  · exact hcc.sym_not_ws.2.1
  · exact hcc.sym_not_ws.2.2.1
  · exact h.not_ws hcc hv

/-- if the variable letter occurs in a rendering then some term writes it -/
theorem writesVar_of_mem {cap : Nat} {v : Char} (hv : VarOK v) {lead : Bool} {ts : List TermSyn}
    (hts : WellFormed cap ts) (h : v ∈ render v lead ts) : writesVar ts = true := by
  cases hw : writesVar ts with
  | true => rfl
  | false =>
    exfalso
    have hconst := not_writesVar hw
    have key : ∀ t ∈ ts, v ∈ t.renderAbs v → False := by
      intro t ht hm
      rcases mem_renderAbs_const (hts t ht) (hconst t ht) hm with h | h
      · rw [hv.1] at h; exact absurd h (by simp)
      · exact hv.2.1 h
    cases ts with
    | nil => simp [render] at h
    | cons t ts =>
      unfold render at h
      rcases List.mem_append.1 h with h | h
      · rcases List.mem_append.1 h with h | h
        · have : v = '-' ∨ v = '+' := by
            cases hn : t.neg <;> cases lead <;> simp [hn] at h <;> simp [h]
          rcases this with h | h
          · exact hv.2.2.2.1 h
          · exact hv.2.2.1 h
        · exact key t (by simp) h
      · obtain ⟨t', ht', hc'⟩ := List.mem_flatMap.1 h
        rcases List.mem_cons.1 hc' with hc' | hc'
        · have : v = '-' ∨ v = '+' := by
            cases hn : t'.neg <;> simp [hn] at hc' <;> simp [hc']
          rcases this with h | h
          · exact hv.2.2.2.1 h
          · exact hv.2.2.1 h
        · exact key t' (by simp [ht']) hc'


/-! ### the specification form of `parse_render_eq` -/

/-- the model on (any spacing of) a rendering: accepted; variable, length and every position of the
coefficient vector as the grammar says -/
theorem parse_render_spec {cc : CharClass} (hcc : cc.Sane) {cap : Nat} {v : Char} (hv : VarOK v)
    {lead : Bool} {ts : List TermSyn} (hts : WellFormed cap ts)
    (hva : writesVar ts = true → cc.isAlpha v = true) {s : List Char}
    (hs : stripWs cc s = render v lead ts) :
    ∃ p, parse cc cap s = .ok p ∧
      p.var = (if writesVar ts then some v else none) ∧
      p.coeffs.length = maxPow ts + 1 ∧
      ∀ k, (p.coeffs.getD k Num.zero).val =
        ((ts.filter fun t => decide (t.pow = k)).map TermSyn.value).sum := by
  refine ⟨_, parse_render_eq hcc hv hts hva hs, rfl, ?_, ?_⟩
  · simp only [dense_length, maxPow_eq]
  · intro k
    simp only [dense_val, List.filter_map, List.map_map]
    congr 1
    apply List.map_congr_left
    intro t _
    exact t.num_val

/-- a coefficient vector with the entries `parse_render_spec` describes sums to the value of the terms -/
theorem coeffs_sum {ts : List TermSyn} {cs : List Num} (hlen : cs.length = maxPow ts + 1)
    (hval : ∀ k, (cs.getD k Num.zero).val =
      ((ts.filter fun t => decide (t.pow = k)).map TermSyn.value).sum) (x : ℚ) :
    (∑ k ∈ Finset.range (cs.map Num.val).length, (cs.map Num.val).getD k 0 * x ^ k) =
      (ts.map fun t => t.value * x ^ t.pow).sum := by
  rw [List.length_map, hlen]
  simp only [getD_map_val, hval]
  exact sum_by_power ts (maxPow ts + 1) (fun t ht => Nat.lt_succ_of_le (pow_le_maxPow ht)) x

/-! ### decidable well-formedness (for examples) -/

def UDec.wfb (u : UDec) : Bool :=
  u.ip.all isAsciiDigit && u.fp.all isAsciiDigit && (!u.ip.isEmpty || !u.fp.isEmpty) &&
    (u.dot || u.fp.isEmpty)

theorem UDec.wf_of_wfb {u : UDec} (h : UDec.wfb u = true) : u.WF := by
  simp only [UDec.wfb, Bool.and_eq_true, Bool.or_eq_true, Bool.not_eq_true', List.all_eq_true,
    List.isEmpty_eq_false_iff, List.isEmpty_iff] at h
  obtain ⟨⟨⟨h1, h2⟩, h3⟩, h4⟩ := h
  refine ⟨h1, h2, h3, ?_⟩
  intro hd
  rcases h4 with h4 | h4
  · rw [hd] at h4; exact absurd h4 (by simp)
  · exact h4

def TermSyn.wfb (cap : Nat) (t : TermSyn) : Bool :=
  (match t.coef with
    | none => true
    | some u => UDec.wfb u) &&
  (match t.body with
    | .const => t.coef.isSome
    | .var => true
    | .varPow ds => !ds.isEmpty && ds.all isAsciiDigit && decide (digitsVal ds ≤ cap))

theorem TermSyn.wf_of_wfb {cap : Nat} {t : TermSyn} (h : t.wfb cap = true) : t.WF cap := by
  rcases t with ⟨neg, coef, body⟩
  simp only [TermSyn.wfb, Bool.and_eq_true] at h
  obtain ⟨h1, h2⟩ := h
  refine ⟨?_, ?_, ?_⟩
  · intro u hu
    simp only at hu
    subst hu
    exact UDec.wf_of_wfb h1
  · intro hb
    simp only at hb
    subst hb
    simp only at h2
    intro hc
    simp only at hc
    subst hc
    simp at h2
  · intro ds hb
    simp only at hb
    subst hb
    simp only [Bool.and_eq_true, Bool.not_eq_true', List.isEmpty_eq_false_iff, List.all_eq_true,
      decide_eq_true_eq] at h2
    exact ⟨h2.1.1, h2.1.2, h2.2⟩

theorem wellFormed_of_all {cap : Nat} {ts : List TermSyn} (h : ts.all (TermSyn.wfb cap) = true) :
    WellFormed cap ts := fun t ht => TermSyn.wf_of_wfb (List.all_eq_true.1 h t ht)


/-! ### a rendering never ends in an operator -/

theorem digits_snoc {ds : List Char} (hne : ds ≠ []) (hd : ∀ c ∈ ds, isAsciiDigit c = true) :
    ∃ init c, ds = init ++ [c] ∧ isAsciiDigit c = true :=
  ⟨ds.dropLast, ds.getLast hne, (List.dropLast_append_getLast hne).symm,
    hd _ (List.getLast_mem hne)⟩

theorem UDec.render_snoc {u : UDec} (hu : u.WF) :
    ∃ init c, u.render = init ++ [c] ∧ (isAsciiDigit c = true ∨ c = '.') := by
  unfold UDec.render
  cases hd : u.dot with
  | false =>
    have hfp := hu.no_dot hd
    have hne : u.ip ≠ [] := by
      rcases hu.some_digit with h | h
      · exact h
      · exact absurd hfp h
    obtain ⟨init, c, h1, h2⟩ := digits_snoc hne hu.ip_digits
    exact ⟨init, c, by simp [h1], Or.inl h2⟩
  | true =>
    by_cases hfp : u.fp = []
    · exact ⟨u.ip, '.', by simp [hfp], Or.inr rfl⟩
    · obtain ⟨init, c, h1, h2⟩ := digits_snoc hfp hu.fp_digits
      exact ⟨u.ip ++ '.' :: init, c, by simp [h1], Or.inl h2⟩

theorem renderAbs_snoc {cap : Nat} {t : TermSyn} (ht : t.WF cap) (v : Char) :
    ∃ init c, t.renderAbs v = init ++ [c] ∧ (isAsciiDigit c = true ∨ c = '.' ∨ c = v) := by
  unfold TermSyn.renderAbs
  rcases hb : t.body with _ | _ | ds
  · rcases hc : t.coef with _ | u
    · exact absurd hc (ht.const_coef hb)
    · obtain ⟨init, c, h1, h2⟩ := UDec.render_snoc (ht.coef_wf u hc)
      refine ⟨init, c, by simp [renderCoef, Body.render, h1], ?_⟩
      rcases h2 with h2 | h2
      · exact Or.inl h2
      · exact Or.inr (Or.inl h2)
  · exact ⟨renderCoef t.coef, v, rfl, Or.inr (Or.inr rfl)⟩
  · obtain ⟨h1, h2, _⟩ := ht.exp_wf ds hb
    obtain ⟨init, c, h3, h4⟩ := digits_snoc h1 h2
    exact ⟨renderCoef t.coef ++ v :: '^' :: init, c, by simp [Body.render, h3], Or.inl h4⟩

/-- the last character of a non-empty rendering is a digit, `.` or the variable — never `+ - ^` -/
theorem render_snoc {cap : Nat} {v : Char} (lead : Bool) {ts : List TermSyn} (hts : WellFormed cap ts)
    (hne : ts ≠ []) :
    ∃ init c, render v lead ts = init ++ [c] ∧ (isAsciiDigit c = true ∨ c = '.' ∨ c = v) := by
  cases ts with
  | nil => exact absurd rfl hne
  | cons t ts =>
    simp only [render]
    by_cases hts' : ts = []
    · subst hts'
      obtain ⟨init, c, h1, h2⟩ := renderAbs_snoc (hts t (by simp)) v
      exact ⟨(if t.neg then ['-'] else if lead then ['+'] else []) ++ init, c, by simp [h1], h2⟩
    · have hlast := List.dropLast_append_getLast hts'
      obtain ⟨init, c, h1, h2⟩ := renderAbs_snoc (hts (ts.getLast hts') (by simp [List.getLast_mem])) v
      refine ⟨(if t.neg then ['-'] else if lead then ['+'] else []) ++ t.renderAbs v ++
        (ts.dropLast.flatMap fun t => (if t.neg then '-' else '+') :: t.renderAbs v) ++
        (if (ts.getLast hts').neg then '-' else '+') :: init, c, ?_, h2⟩
      have hfm : (ts.flatMap fun t => (if t.neg then '-' else '+') :: t.renderAbs v) =
          (ts.dropLast.flatMap fun t => (if t.neg then '-' else '+') :: t.renderAbs v) ++
            (if (ts.getLast hts').neg then '-' else '+') :: (ts.getLast hts').renderAbs v := by
        conv_lhs => rw [← hlast]
        rw [List.flatMap_append]
        simp
      rw [hfm, h1]
      simp


end SV.C01
