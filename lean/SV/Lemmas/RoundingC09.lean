import SV.Model.C09
import SV.Lemmas.Mat
import SV.Lemmas.LU
import SV.Lemmas.Rounding
/-!
Helper lemmas for the rounding analysis of the Doolittle factorisation `SV.C09.lu`
(`lu_decomposition`) at the rounding scalar `Fl M`.

The analysis is split in two:

* **bookkeeping, for every scalar type** (`LuEnt`, `lu_ok_ent`): whenever `lu` returns `(L, U)`, every
  entry of the factors is *literally* the expression the code evaluated for it, in terms of the
  **final** factors —
  `U r c = A r c − sumFrom 0 0 r (L r j * U j c)` (`r ≤ c`),
  `L r c = (A r c − sumFrom 0 0 c (L r j * U j c)) / U c c` (`c < r`),
  `L r r = 1`, zeros elsewhere — and every guard `|U c c| < eps` (`c + 1 < n`) was false.  (One pass
  of the outer loop only reads entries written by earlier passes, and never writes them again.)
* **rounding, at `Fl M`** (`luU_weights`, `luL_weights`): each of these expressions, read in the
  standard model, is an *exact* identity `A r c = Σ_j L r j · U j c · t j` with accumulated rounding
  factors `t j` (Higham, *Accuracy and Stability*, (9.4)–(9.5) for the operation order of this code).

Counting what pass `i` does for one entry: `total = 0.0; total += lower[..][j]*upper[j][..]`
(`j = 0 … i−1`) — the term `j` takes one multiplication and the `i − j` additions from its own on
(the model charges `0.0 + …` one rounding too): `i − j + 1` roundings; then one subtraction from
`A r c` (a `U` entry: 1 rounding, carried by the diagonal term `L r r · U r c`, `L r r = 1`), and for
an `L` entry one division more (2 roundings, carried by the term `L r c · U c c`).
-/
set_option linter.unusedSectionVars false

namespace SV.C09
open SV Finset

/-! ### bookkeeping, any scalar type -/

/-- the accumulation loop only looks at `f` on `[lo, hi)` -/
theorem sumFrom_congr' {S : Type} [Add S] (init : S) (lo hi : Nat) (f g : Nat → S)
    (h : ∀ j, lo ≤ j → j < hi → f j = g j) : sumFrom init lo hi f = sumFrom init lo hi g := by
  unfold sumFrom
  apply List.foldl_ext
  intro a j hj
  rw [List.mem_range'_1] at hj
  rw [h j hj.1 (by omega)]

section anyScalar
variable {S : Type} [Inhabited S] [Add S] [Sub S] [Mul S] [Div S] [Neg S] [OfNat S 0] [OfNat S 1]
  [LT S] [DecidableRel (α := S) (· < ·)]

theorem luUpper_get' (n : Nat) (A L U : Mat S) (i : Nat) {r c : Nat} (hr : r < n) (hc : c < n) :
    (luUpper n A L U i).get r c =
      if r = i ∧ i ≤ c then A.get i c - sumFrom 0 0 i (fun j => L.get i j * U.get j c)
      else U.get r c := by
  unfold luUpper
  rw [Mat.get_tab _ hr hc]

theorem luLower_get' (n : Nat) (A L U' : Mat S) (i : Nat) {r c : Nat} (hr : r < n) (hc : c < n) :
    (luLower n A L U' i).get r c =
      if c = i ∧ i ≤ r then
        (if r = i then 1
         else (A.get r i - sumFrom 0 0 i (fun j => L.get r j * U'.get j i)) / U'.get i i)
      else L.get r c := by
  unfold luLower
  rw [Mat.get_tab _ hr hc]

/-- State after `i` passes of `lu_decomposition`, for any scalar type: columns `< i` of `lower` and
rows `< i` of `upper` are final and **are the expressions the code evaluated**, written in terms of
the state itself; everything else is still zero; the guards of the passes `< i` were false. -/
structure LuEnt (n : Nat) (A : Mat S) (eps : S) (i : Nat) (st : Mat S × Mat S) : Prop where
  dims : (st.1.h = n ∧ st.1.w = n ∧ st.1.WF) ∧ (st.2.h = n ∧ st.2.w = n ∧ st.2.WF)
  Lz : ∀ r c, r < n → c < n → (i ≤ c ∨ r < c) → st.1.get r c = 0
  Ld : ∀ r, r < n → r < i → st.1.get r r = 1
  Uz : ∀ r c, r < n → c < n → (i ≤ r ∨ c < r) → st.2.get r c = 0
  Ueq : ∀ r c, r < i → r ≤ c → c < n →
    st.2.get r c = A.get r c - sumFrom 0 0 r (fun j => st.1.get r j * st.2.get j c)
  Leq : ∀ r c, c < i → c < r → r < n →
    st.1.get r c
      = (A.get r c - sumFrom 0 0 c (fun j => st.1.get r j * st.2.get j c)) / st.2.get c c
  guard : ∀ k, k < i → k + 1 < n → ¬ (sabs (st.2.get k k) < eps)

theorem luEnt_init (n : Nat) (A : Mat S) (eps : S) :
    LuEnt n A eps 0 (Mat.tab n n fun _ _ => (0:S), Mat.tab n n fun _ _ => (0:S)) where
  dims := ⟨⟨rfl, rfl, Mat.tab_WF _ _ _⟩, ⟨rfl, rfl, Mat.tab_WF _ _ _⟩⟩
  Lz := fun r c hr hc _ => Mat.get_tab _ hr hc
  Ld := fun r _ h => by omega
  Uz := fun r c hr hc _ => Mat.get_tab _ hr hc
  Ueq := fun r c h _ _ => by omega
  Leq := fun r c h _ _ => by omega
  guard := fun k h _ => by omega

theorem luStep_ent {n : Nat} {A : Mat S} {eps : S} {i : Nat}
    {st st' : Mat S × Mat S} (hi : i < n) (h : LuEnt n A eps i st)
    (hs : luStep eps n A st i = some st') : LuEnt n A eps (i+1) st' := by
  obtain ⟨L, U⟩ := st
  unfold luStep at hs
  dsimp only at hs
  split_ifs at hs with hg
  simp only [Option.some.injEq] at hs
  subst hs
  set U' := luUpper n A L U i with hU'
  have hL := h.Lz; have hLd := h.Ld; have hUz := h.Uz; have hUe := h.Ueq; have hLe := h.Leq
  have hgd := h.guard
  simp only at hL hLd hUz hUe hLe hgd
  have Uold : ∀ r c, r < n → c < n → r ≠ i → U'.get r c = U.get r c := by
    intro r c hr hc hne
    rw [hU', luUpper_get' n A L U i hr hc, if_neg (fun h => hne h.1)]
  have Urow : ∀ c, c < n → i ≤ c →
      U'.get i c = A.get i c - sumFrom 0 0 i (fun j => L.get i j * U.get j c) := by
    intro c hc hic
    rw [hU', luUpper_get' n A L U i hi hc, if_pos ⟨rfl, hic⟩]
  have Urow0 : ∀ c, c < n → c < i → U'.get i c = 0 := by
    intro c hc hci
    rw [hU', luUpper_get' n A L U i hi hc, if_neg (by omega)]
    exact hUz i c hi hc (Or.inl (le_refl i))
  set L' := luLower n A L U' i with hL'
  have Lold : ∀ r c, r < n → c < n → c ≠ i → L'.get r c = L.get r c := by
    intro r c hr hc hne
    rw [hL', luLower_get' n A L U' i hr hc, if_neg (fun h => hne h.1)]
  have Lcol0 : ∀ r, r < n → r < i → L'.get r i = 0 := by
    intro r hr hri
    rw [hL', luLower_get' n A L U' i hr hi, if_neg (by omega)]
    exact hL r i hr hi (Or.inl (le_refl i))
  have Ldiag : L'.get i i = 1 := by
    rw [hL', luLower_get' n A L U' i hi hi, if_pos ⟨rfl, le_refl i⟩, if_pos rfl]
  have Lcol : ∀ r, r < n → i < r →
      L'.get r i
        = (A.get r i - sumFrom 0 0 i (fun j => L.get r j * U'.get j i)) / U'.get i i := by
    intro r hr hir
    rw [hL', luLower_get' n A L U' i hr hi, if_pos ⟨rfl, le_of_lt hir⟩, if_neg (by omega)]
  -- a dot product over `j < m ≤ i` reads only old columns of `L` and old rows of `U`
  have hsum : ∀ r c m, r < n → c < n → m ≤ i →
      sumFrom 0 0 m (fun j => L'.get r j * U'.get j c)
        = sumFrom 0 0 m (fun j => L.get r j * U.get j c) := by
    intro r c m hr hc hm
    apply sumFrom_congr'
    intro j _ hj
    rw [Lold r j hr (by omega) (by omega), Uold j c (by omega) hc (by omega)]
  refine ⟨⟨⟨rfl, rfl, Mat.tab_WF _ _ _⟩, ⟨rfl, rfl, Mat.tab_WF _ _ _⟩⟩, ?_, ?_, ?_, ?_, ?_, ?_⟩
  · -- Lz
    intro r c hr hc hcond
    by_cases hci : c = i
    · subst hci
      rcases hcond with h1 | h1
      · omega
      · exact Lcol0 r hr h1
    · rw [Lold r c hr hc hci]
      apply hL r c hr hc
      rcases hcond with h1 | h1
      · left; omega
      · right; exact h1
  · -- Ld
    intro r hr hri
    by_cases hr' : r = i
    · subst hr'; exact Ldiag
    · rw [Lold r r hr hr hr']
      exact hLd r hr (by omega)
  · -- Uz
    intro r c hr hc hcond
    by_cases hri : r = i
    · subst hri
      rcases hcond with h1 | h1
      · omega
      · exact Urow0 c hc h1
    · rw [Uold r c hr hc hri]
      apply hUz r c hr hc
      rcases hcond with h1 | h1
      · left; omega
      · right; exact h1
  · -- Ueq
    intro r c hri hrc hc
    have hr : r < n := by omega
    rw [hsum r c r hr hc (by omega)]
    by_cases hre : r = i
    · subst hre
      exact Urow c hc hrc
    · rw [Uold r c hr hc hre]
      exact hUe r c (by omega) hrc hc
  · -- Leq
    intro r c hci hcr hr
    have hc : c < n := by omega
    rw [hsum r c c hr hc (by omega)]
    by_cases hce : c = i
    · subst hce
      rw [Lcol r hr hcr]
      congr 2
      apply sumFrom_congr'
      intro j _ hj
      rw [Uold j c (by omega) hc (by omega)]
    · rw [Lold r c hr hc hce, Uold c c hc hc hce]
      exact hLe r c (by omega) hcr hr
  · -- guard
    intro k hki hk
    by_cases hke : k = i
    · subst hke
      intro hlt
      exact hg ⟨hk, hlt⟩
    · rw [Uold k k (by omega) (by omega) hke]
      exact hgd k (by omega) hk

/-- **The factors are the expressions the code evaluated** (any scalar type): reading the invariant
off a successful run. -/
theorem lu_ok_ent {eps : S} {A L U : Mat S} (h : lu eps A = .ok (L, U)) :
    A.h = A.w ∧ LuEnt A.h A eps A.h (L, U) := by
  unfold lu at h
  split_ifs at h with hsq
  dsimp only at h
  cases hit : iter (luStep eps A.h A) A.h 0
      (Mat.tab A.h A.h fun _ _ => (0:S), Mat.tab A.h A.h fun _ _ => (0:S)) with
  | none => simp [hit] at h
  | some st =>
    simp only [hit, Outcome.ok.injEq] at h
    subst h
    refine ⟨not_not.mp hsq, ?_⟩
    have := iter_inv (luStep eps A.h A) (LuEnt A.h A eps) A.h
      (fun i s s' hi hI hs => luStep_ent hi hI hs) A.h 0 _ _ (by omega)
      (luEnt_init A.h A eps) hit
    simpa using this

end anyScalar

/-! ### rounding, at `Fl M` -/

section rounding
variable {M : FlModel}

/-- the accumulation `total = 0.0; total += f j * g j` (`j < i`) in floating point, weights form:
the term `j` carries `i − j + 1` roundings (its multiplication and the additions from its own on) -/
theorem dot_weights (i : ℕ) (f g : ℕ → Fl M) :
    ∃ t : ℕ → ℝ, (∀ j, j < i → M.Fac (i - j + 1) (t j)) ∧
      (sumFrom 0 0 i fun j => f j * g j).val = ∑ j ∈ range i, (f j).val * (g j).val * t j := by
  obtain ⟨s, hs, hval⟩ := sumFrom_rounding_weights i fun j => f j * g j
  choose d hd hmul using fun j => Fl.mul_fac (f j) (g j)
  refine ⟨fun j => d j * s j, fun j hj => ?_, ?_⟩
  · have := (hd j).mul (hs j hj)
    exact this.mono (by omega)
  · rw [hval]
    refine Finset.sum_congr rfl fun k _ => ?_
    rw [hmul]
    ring

/-- `x = a − Σ_{j<i} f j · g j` as computed: `a = Σ_{j<i} f j · g j · t j + x · t i` exactly, one
rounding on `x` -/
theorem sub_dot_weights (i : ℕ) (a x : Fl M) (f g : ℕ → Fl M)
    (hx : x = a - sumFrom 0 0 i fun j => f j * g j) :
    ∃ t : ℕ → ℝ, M.Fac 1 (t i) ∧ (∀ j, j < i → M.Fac (i - j + 1) (t j)) ∧
      a.val = ∑ j ∈ range i, (f j).val * (g j).val * t j + x.val * t i := by
  obtain ⟨t, ht, hsum⟩ := dot_weights i f g
  obtain ⟨d, hd, hsub⟩ := Fl.sub_fac a (sumFrom 0 0 i fun j => f j * g j)
  have hd0 : d ≠ 0 := hd.pos.ne'
  refine ⟨fun j => if j = i then d⁻¹ else t j, ?_, ?_, ?_⟩
  · simp only [if_true]
    exact hd.inv
  · intro j hj
    simp only [show j ≠ i by omega, if_false]
    exact ht j hj
  · have e : ∑ j ∈ range i, (f j).val * (g j).val * (if j = i then d⁻¹ else t j)
        = ∑ j ∈ range i, (f j).val * (g j).val * t j := by
      apply Finset.sum_congr rfl
      intro j hj
      rw [Finset.mem_range] at hj
      rw [if_neg (by omega)]
    rw [e, ← hsum, hx, hsub]
    simp only [if_true]
    field_simp
    ring

/-- `x = (a − Σ_{j<i} f j · g j) / p` as computed, `p ≠ 0`: `a = Σ_{j<i} f j · g j · t j + x · p · t i`
exactly, two roundings on `x · p` -/
theorem sub_dot_div_weights (i : ℕ) (a x p : Fl M) (f g : ℕ → Fl M) (hp : p.val ≠ 0)
    (hx : x = (a - sumFrom 0 0 i fun j => f j * g j) / p) :
    ∃ t : ℕ → ℝ, M.Fac 2 (t i) ∧ (∀ j, j < i → M.Fac (i - j + 1) (t j)) ∧
      a.val = ∑ j ∈ range i, (f j).val * (g j).val * t j + x.val * p.val * t i := by
  obtain ⟨t, ht, hsum⟩ := dot_weights i f g
  obtain ⟨d1, hd1, hsub⟩ := Fl.sub_fac a (sumFrom 0 0 i fun j => f j * g j)
  obtain ⟨d2, hd2, hdiv⟩ := Fl.div_fac (a - sumFrom 0 0 i fun j => f j * g j) p
  have h1 : d1 ≠ 0 := hd1.pos.ne'
  have h2 : d2 ≠ 0 := hd2.pos.ne'
  refine ⟨fun j => if j = i then (d1 * d2)⁻¹ else t j, ?_, ?_, ?_⟩
  · simp only [if_true]
    exact (hd1.mul hd2).inv
  · intro j hj
    simp only [show j ≠ i by omega, if_false]
    exact ht j hj
  · have e : ∑ j ∈ range i, (f j).val * (g j).val * (if j = i then (d1 * d2)⁻¹ else t j)
        = ∑ j ∈ range i, (f j).val * (g j).val * t j := by
      apply Finset.sum_congr rfl
      intro j hj
      rw [Finset.mem_range] at hj
      rw [if_neg (by omega)]
    rw [e, ← hsum, hx, hdiv, hsub]
    simp only [if_true]
    field_simp
    ring

/-- the guard `|x| < eps` at `Fl M` (`sabs` negates a negative value, which the model charges one
rounding): when it is false, `eps ≤ |x|·(1 + u)` -/
theorem le_of_not_sabs_lt {x eps : Fl M} (h : ¬ sabs x < eps) :
    eps.val ≤ |x.val| * (1 + M.u) := by
  unfold sabs at h
  have hu := M.hu.1
  by_cases hx : x < 0
  · rw [if_pos hx, Fl.lt_iff, not_lt, Fl.neg_val] at h
    rw [Fl.lt_iff, Fl.zero_val] at hx
    obtain ⟨δ, hδ, hr⟩ := M.hrnd (-x.val)
    rw [hr] at h
    have h1 := (abs_le.mp hδ).2
    rw [abs_of_neg hx]
    have : -x.val * (1 + δ) ≤ -x.val * (1 + M.u) :=
      mul_le_mul_of_nonneg_left (by linarith) (by linarith)
    linarith
  · rw [if_neg hx, Fl.lt_iff, not_lt] at h
    rw [Fl.lt_iff, Fl.zero_val, not_lt] at hx
    rw [abs_of_nonneg hx]
    nlinarith

/-- … in particular a value that passed the guard of a positive threshold is not zero -/
theorem ne_zero_of_not_sabs_lt {x eps : Fl M} (heps : 0 < eps.val) (h : ¬ sabs x < eps) :
    x.val ≠ 0 := by
  intro h0
  have := le_of_not_sabs_lt h
  rw [h0, abs_zero, zero_mul] at this
  linarith

variable {n : ℕ} {A : Mat (Fl M)} {eps : Fl M} {L U : Mat (Fl M)}

/-- an entry of the upper triangle (`r ≤ c`): `A r c = Σ_{j ≤ r} L r j · U j c · t j` exactly, with
one rounding on the diagonal term and `r − j + 1` on the term `j < r` -/
theorem luU_weights (h : LuEnt n A eps n (L, U)) {r c : ℕ} (hrc : r ≤ c) (hc : c < n) :
    ∃ t : ℕ → ℝ, M.Fac 1 (t r) ∧ (∀ j, j < r → M.Fac (r - j + 1) (t j)) ∧
      (A.get r c).val = ∑ j ∈ range (r + 1), (L.get r j).val * (U.get j c).val * t j := by
  have hU := h.Ueq r c (by omega) hrc hc
  have hd := h.Ld r (by omega) (by omega)
  simp only at hU hd
  obtain ⟨t, h1, h2, h3⟩ := sub_dot_weights r (A.get r c) (U.get r c)
    (fun j => L.get r j) (fun j => U.get j c) hU
  refine ⟨t, h1, h2, ?_⟩
  rw [Finset.sum_range_succ, hd, Fl.one_val, one_mul]
  exact h3

/-- an entry below the diagonal (`c < r`): `A r c = Σ_{j ≤ c} L r j · U j c · t j` exactly, with two
roundings on the term of the pivot and `c − j + 1` on the term `j < c` -/
theorem luL_weights (heps : 0 < eps.val) (h : LuEnt n A eps n (L, U)) {r c : ℕ} (hcr : c < r)
    (hr : r < n) :
    ∃ t : ℕ → ℝ, M.Fac 2 (t c) ∧ (∀ j, j < c → M.Fac (c - j + 1) (t j)) ∧
      (A.get r c).val = ∑ j ∈ range (c + 1), (L.get r j).val * (U.get j c).val * t j := by
  have hL := h.Leq r c (by omega) hcr hr
  have hg := h.guard c (by omega) (by omega)
  simp only at hL hg
  obtain ⟨t, h1, h2, h3⟩ := sub_dot_div_weights c (A.get r c) (L.get r c) (U.get c c)
    (fun j => L.get r j) (fun j => U.get j c) (ne_zero_of_not_sabs_lt heps hg) hL
  refine ⟨t, h1, h2, ?_⟩
  rw [Finset.sum_range_succ]
  exact h3

/-- extending a weighted sum from its first `m + 1` terms to all `n` when the other terms vanish;
their weights are set to 1 -/
theorem extend_weights (n m k : ℕ) (e t : ℕ → ℝ) (hmn : m < n)
    (hz : ∀ j, m < j → j < n → e j = 0) (ht : ∀ j, j ≤ m → M.Fac k (t j)) :
    ∃ t' : ℕ → ℝ, (∀ j, M.Fac k (t' j)) ∧
      ∑ j ∈ range (m + 1), e j * t j = ∑ j ∈ range n, e j * t' j := by
  refine ⟨fun j => if j ≤ m then t j else 1, fun j => ?_, ?_⟩
  · by_cases hj : j ≤ m
    · simp only [hj, if_true]; exact ht j hj
    · simp only [hj, if_false]; exact FlModel.fac_zero_one.mono (Nat.zero_le k)
  · rw [← Finset.sum_range_add_sum_Ico _ (by omega : m + 1 ≤ n)]
    have e0 : ∑ j ∈ Ico (m + 1) n, e j * (if j ≤ m then t j else 1) = 0 := by
      apply Finset.sum_eq_zero
      intro j hj
      rw [Finset.mem_Ico] at hj
      rw [hz j (by omega) hj.2, zero_mul]
    rw [e0, add_zero]
    apply Finset.sum_congr rfl
    intro j hj
    rw [Finset.mem_range] at hj
    show e j * t j = e j * (if j ≤ m then t j else 1)
    rw [if_pos (by omega)]

/-- **Every entry, uniformly.**  For all `r, c < n`: `A r c = Σ_{j<n} L r j · U j c · t j` exactly,
every weight an accumulated factor of at most `n` roundings. -/
theorem lu_entry_weights (heps : 0 < eps.val) (h : LuEnt n A eps n (L, U)) {r c : ℕ} (hr : r < n)
    (hc : c < n) :
    ∃ t : ℕ → ℝ, (∀ j, M.Fac n (t j)) ∧
      (A.get r c).val = ∑ j ∈ range n, (L.get r j).val * (U.get j c).val * t j := by
  have hLz := h.Lz; have hUz := h.Uz
  simp only at hLz hUz
  by_cases hrc : r ≤ c
  · obtain ⟨t, h1, h2, h3⟩ := luU_weights h hrc hc
    obtain ⟨t', ht', he⟩ := extend_weights (M := M) n r n
      (fun j => (L.get r j).val * (U.get j c).val) t hr
      (fun j hj hjn => by
        rw [hLz r j hr hjn (Or.inr hj), Fl.zero_val, zero_mul])
      (fun j hj => by
        by_cases hjr : j = r
        · rw [hjr]; exact h1.mono (by omega)
        · exact (h2 j (by omega)).mono (by omega))
    exact ⟨t', ht', by rw [h3]; exact he⟩
  · have hcr : c < r := by omega
    obtain ⟨t, h1, h2, h3⟩ := luL_weights heps h hcr hr
    obtain ⟨t', ht', he⟩ := extend_weights (M := M) n c n
      (fun j => (L.get r j).val * (U.get j c).val) t hc
      (fun j hj hjn => by
        rw [hUz j c hjn hc (Or.inr hj), Fl.zero_val, mul_zero])
      (fun j hj => by
        by_cases hjc : j = c
        · rw [hjc]; exact h1.mono (by omega)
        · exact (h2 j (by omega)).mono (by omega))
    exact ⟨t', ht', by rw [h3]; exact he⟩

/-- from an exact weighted identity `a = Σ_k l_ik·u_kj·t_k` to the componentwise bound
`|a − Σ_k l_ik·u_kj| ≤ γ_m·Σ_k |l_ik|·|u_kj|` -/
theorem bound_of_weights (n m : ℕ) (L U : Mat (Fl M)) (a : ℝ) (i j : ℕ) (t : ℕ → ℝ)
    (ht : ∀ k, M.Fac m (t k))
    (ha : a = ∑ k ∈ range n, (L.get i k).val * (U.get k j).val * t k) (hm : m * M.u < 1) :
    |a - ∑ k ∈ range n, (L.get i k).val * (U.get k j).val|
      ≤ M.gamma m * ∑ k ∈ range n, |(L.get i k).val| * |(U.get k j).val| := by
  have h := weighted_sum_bound (M := M) n m (fun k => (L.get i k).val * (U.get k j).val) t
    (fun k _ => ht k) hm
  rw [← ha] at h
  simpa only [abs_mul] using h

theorem gamma_ideal (n : ℕ) : FlModel.ideal.gamma n = 0 := by simp [FlModel.gamma, FlModel.ideal]

/-- `Σ_k a_k · (Σ_m b_km · c_m) = Σ_m (Σ_k a_k · b_km) · c_m` -/
theorem sum_mul_sum_assoc (n : ℕ) (a c : ℕ → ℝ) (b : ℕ → ℕ → ℝ) :
    ∑ k ∈ range n, a k * ∑ m ∈ range n, b k m * c m
      = ∑ m ∈ range n, (∑ k ∈ range n, a k * b k m) * c m := by
  simp only [Finset.mul_sum, Finset.sum_mul]
  rw [Finset.sum_comm]
  refine Finset.sum_congr rfl fun m _ => Finset.sum_congr rfl fun k _ => ?_
  ring

end rounding

end SV.C09
