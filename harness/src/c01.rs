//! C01 — univariate parser: every well-formed string means what it says; eval = Σ c_k x^k.
//!
//!   parse <entry> <text> | <intended>     entry 0 = parse_simple_polynomial, 1 = SimplePolynomial::parse
//!   eval  <entry> <spoly> <x>             entry 0 = eval_simple_polynomial, 1 = eval_univariate,
//!                                          2 = eval_multivariate with one binding
//!   pe    <text> <x> | <intended>         parse then evaluate (oracle only)
//!   class <code point>                    Rust's classification of one character
//!
//! `<intended>` = `n { neg mant scale pow }*`: the term list the text was rendered from (exact
//! decimals), used only by the Python oracle (tools/props/c01.py); the model ignores it.
use crate::polyio::*;
use crate::util::*;
use spindalis_core::polynomials::simple::{eval_simple_polynomial, parse_simple_polynomial};
use spindalis_core::polynomials::structs::{PolynomialTraits, SimplePolynomial};
use spindalis_core::polynomials::PolynomialError;

pub fn show_parsed(r: &Result<SimplePolynomial, PolynomialError>) -> String {
    match r {
        Ok(p) => {
            let mut s = String::from("ok ");
            match p.variable {
                Some(c) => s.push_str(&format!("{}", c as u32)),
                None => s.push('-'),
            }
            s.push_str(&format!(" {}", p.coefficients.len()));
            for c in &p.coefficients {
                s.push(' ');
                s.push_str(&fbits(*c));
            }
            s
        }
        Err(e) => format!("err {}", err_kind(e)),
    }
}

pub fn run(line: &str) -> Obs {
    let mut t = Toks::new(line);
    match t.tok() {
        "parse" => {
            let entry = t.usize();
            let text = t.string();
            let r = catch(|| match entry {
                0 => parse_simple_polynomial(&text),
                _ => SimplePolynomial::parse(&text),
            });
            match r {
                Some(r) => Obs::plain(show_parsed(&r)),
                None => Obs::with("panic".into(), Err("parser panicked".into())),
            }
        }
        "eval" => {
            let entry = t.usize();
            let _tag = t.tok();
            let p = read_simple(&mut t);
            let x = t.f64();
            let r = catch(|| match entry {
                0 => Ok(eval_simple_polynomial(x, &p)),
                1 => p.eval_univariate(x),
                _ => p.eval_multivariate(&vec![("x", x)]),
            });
            match r {
                Some(r) => Obs::plain(show_eval(&r)),
                None => Obs::with("panic".into(), Err("evaluation panicked".into())),
            }
        }
        "pe" => {
            let text = t.string();
            let x = t.f64();
            let r = catch(|| SimplePolynomial::parse(&text).and_then(|p| p.eval_univariate(x)));
            match r {
                Some(r) => Obs::plain(show_eval(&r)),
                None => Obs::with("panic".into(), Err("parse+eval panicked".into())),
            }
        }
        "class" => {
            let c = char::from_u32(t.tok().parse().unwrap()).unwrap();
            Obs::plain(format!(
                "{} {} {} {}",
                c.is_whitespace() as u8,
                c.is_alphabetic() as u8,
                c.is_numeric() as u8,
                c.is_ascii_digit() as u8
            ))
        }
        other => panic!("unknown C01 request {other}"),
    }
}

// ------------------------------------------------------------------------------------ generators

pub const VAR_LETTERS: &[char] = &['x', 'y', 'z', 't', 'a', 'e', 'X', 'Q', 'é', 'λ', 'я', 'ß', 'Ω'];
pub const SPACES: &[&str] = &[" ", " ", "  ", "\t", "\n", "\u{a0}", "\u{2003}", "\u{3000}", "\r\n"];
pub const TABLE_CHARS: &[char] = &[
    'é', 'λ', 'я', 'ß', 'Ω', '\u{a0}', '\u{2003}', '\u{3000}', '\u{2009}', '²', '½', '٣', '\u{85}',
];

/// an unsigned plain decimal spelling and its exact value mant / 10^scale
pub fn dec_spelling(rng: &mut Rng) -> (String, u64, u32) {
    match rng.below(8) {
        0 => {
            let n = rng.below(1000);
            (format!("{n}"), n, 0)
        }
        1 => {
            let n = rng.below(100);
            (format!("{n}."), n, 0)
        }
        2 => {
            let f = rng.below(1000);
            (format!(".{f:03}"), f, 3)
        }
        3 => {
            let n = rng.below(100);
            (format!("00{n}"), n, 0)
        }
        4 => {
            let i = rng.below(50);
            let f = rng.below(100);
            (format!("{i}.{f:02}0"), i * 1000 + f * 10, 3)
        }
        5 => {
            // long mantissa: needs 17 significant digits
            let i = rng.below(10);
            let f = rng.next() % 10_000_000_000_000_000;
            (format!("{i}.{f:016}"), i * 10_000_000_000_000_000 + f, 16)
        }
        6 => {
            if rng.chance(1, 2) {
                (String::from("0"), 0, 0)
            } else {
                // a very small but non-zero coefficient: 0.00…0d with up to 25 zeros
                let z = 10 + rng.below(16) as usize;
                let d = 1 + rng.below(9);
                (format!("0.{}{}", "0".repeat(z), d), d, z as u32 + 1)
            }
        }
        _ => {
            let i = rng.below(10);
            let f = rng.below(10);
            (format!("{i}.{f}"), i * 10 + f, 1)
        }
    }
}

pub struct GenTerm {
    pub neg: bool,
    pub mant: u64,
    pub scale: u32,
    pub pow: u32,
    pub text: Vec<String>, // tokens: [coef][var][^][exp]
}

pub fn gen_term(rng: &mut Rng, var: char, maxpow: u32) -> GenTerm {
    let pow = if rng.chance(1, 4) { 0 } else { rng.below(maxpow as u64 + 1) as u32 };
    let neg = rng.chance(2, 5);
    let explicit = pow == 0 || rng.chance(3, 4);
    let (sp, mant, scale) = if explicit { dec_spelling(rng) } else { (String::new(), 1, 0) };
    let mut text = Vec::new();
    if explicit {
        text.push(sp);
    }
    // power 0 is written as a bare constant (sometimes as v^0), power 1 as v or v^1 / v^01
    let write_var = pow > 0 || rng.chance(1, 6);
    if write_var {
        text.push(var.to_string());
        let write_exp = pow != 1 || rng.chance(1, 4);
        if write_exp {
            text.push("^".into());
            text.push(match rng.below(3) {
                0 => format!("{pow}"),
                1 => format!("0{pow}"),
                _ => format!("00{pow}"),
            });
        }
    } else if !explicit {
        // a bare constant needs its coefficient
        text.push("1".into());
    }
    GenTerm { neg, mant, scale, pow, text }
}

/// render a term list with random spacing between tokens
pub fn render(rng: &mut Rng, terms: &[GenTerm], spacing: u64) -> String {
    let mut s = String::new();
    let sp = |rng: &mut Rng, s: &mut String| {
        if rng.below(10) < spacing {
            s.push_str(*rng.pick(SPACES));
        }
    };
    sp(rng, &mut s);
    for (i, t) in terms.iter().enumerate() {
        if t.neg {
            s.push('-');
            sp(rng, &mut s);
        } else if i > 0 || rng.chance(1, 8) {
            s.push('+');
            sp(rng, &mut s);
        }
        for tk in &t.text {
            s.push_str(tk);
            sp(rng, &mut s);
        }
    }
    s
}

pub fn intended(terms: &[GenTerm]) -> String {
    let mut s = format!("{}", terms.len());
    for t in terms {
        s.push_str(&format!(" {} {} {} {}", t.neg as u8, t.mant, t.scale, t.pow));
    }
    s
}

pub fn gen_poly_text(rng: &mut Rng) -> (String, String) {
    let var = *rng.pick(VAR_LETTERS);
    let top = if rng.chance(1, 5) { 12 } else { 5 };
    let n = 1 + rng.below(top) as usize;
    let maxpow = if rng.chance(1, 10) { 40 } else { 12 };
    let terms: Vec<GenTerm> = (0..n).map(|_| gen_term(rng, var, maxpow)).collect();
    let spacing = *rng.pick(&[0u64, 2, 5, 9]);
    (render(rng, &terms, spacing), intended(&terms))
}

pub fn generate(seed: u64, thorough: bool, emit: &mut dyn FnMut(String)) {
    let mut rng = Rng::new(seed ^ 0xC01);
    for cp in 0u32..128 {
        emit(format!("class {cp}"));
    }
    for c in TABLE_CHARS {
        emit(format!("class {}", *c as u32));
    }
    // the largest exponents the parser accepts (its dense vector is capped at MAX_POWER = 65536) and their
    // neighbours: accepted ones carry their meaning, the others are compared with the model only
    for (text, want) in [
        ("x^65536", Some("1 0 1 0 65536")),
        ("2y ^ 065536 - y^65535 + 1", Some("3 0 2 0 65536 1 1 0 65535 0 1 0 0")),
        ("x^65535", Some("1 0 1 0 65535")),
        ("x^65537", None),
        ("x^65536 + x^65537", None),
        ("x^99999", None),
    ] {
        for entry in 0..2 {
            match want {
                Some(w) => emit(format!("parse {entry} {} | {w}", req_string(text))),
                None => emit(format!("parse {entry} {}", req_string(text))),
            }
        }
    }
    let n = if thorough { 100_000 } else { 3000 };
    for i in 0..n {
        let (text, want) = gen_poly_text(&mut rng);
        emit(format!("parse {} {} | {}", i % 2, req_string(&text), want));
        if i % 3 == 0 {
            let x = if rng.chance(1, 10) {
                0.0
            } else if rng.chance(1, 4) {
                // far from the origin: every term counts, however small its coefficient
                rng.uniform(1.0, 9.0) * 10f64.powi(rng.range(2, 9) as i32) * if rng.chance(1, 2) { -1.0 } else { 1.0 }
            } else {
                rng.dyadic(256, 6)
            };
            emit(format!("pe {} {} | {}", req_string(&text), rbits(x), want));
        }
    }
    let m = if thorough { 40_000 } else { 2000 };
    for i in 0..m {
        let mut cs = crate::polyops::rand_coeffs(&mut rng, 12);
        // every magnitude counts: coefficients far below and far above 1 (no coefficient may be dropped or
        // clamped by an absolute threshold), evaluated where their term matters
        let wide = i % 4 == 3;
        if wide {
            for c in cs.iter_mut() {
                if rng.chance(1, 2) {
                    let e = rng.range(-60, 60) as i32;
                    *c = rng.uniform(1.0, 9.0) * 10f64.powi(e) * if rng.chance(1, 2) { -1.0 } else { 1.0 };
                }
            }
        }
        let p = SimplePolynomial { coefficients: cs, variable: Some('x') };
        let x = match rng.below(6) {
            0 => 0.0,
            1 => -rng.uniform(0.0, 4.0),
            2 => rng.dyadic(64, 4),
            3 if wide => rng.uniform(1.0, 9.0) * 10f64.powi(rng.range(-8, 8) as i32),
            _ => rng.uniform(-4.0, 4.0),
        };
        emit(format!("eval {} {} {}", i % 3, req_simple(&p), rbits(x)));
    }
}

/// the common univariate sub-language of both parsers: ASCII variable letter only
pub fn gen_poly_text_ascii(rng: &mut Rng) -> (String, String) {
    let var = *rng.pick(&['x', 'y', 't', 'e', 'Q']);
    let n = 1 + rng.below(6) as usize;
    let terms: Vec<GenTerm> = (0..n).map(|_| gen_term(rng, var, 9)).collect();
    let spacing = *rng.pick(&[0u64, 3, 7]);
    (render(rng, &terms, spacing), intended(&terms))
}
