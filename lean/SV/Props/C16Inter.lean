import SV.Props.C02
import SV.Lemmas.C16InterSem
import SV.Lemmas.C16InterAccept
/-!
# C16 (multivariate parser) — total, and acceptance implies fidelity

Property theorems about the model `SV.C02.parse` of `parse_intermediate_polynomial`
(spindalis_core/src/polynomials/intermediate.rs) on **arbitrary** text — the converse of
`SV.Props.C02.parse_render_inter`:

* `inter_accepts_only_grammar`   whatever is accepted is, after removal of white space, *exactly* the
                                 rendering of a list of well-formed terms of the documented grammar in
                                 which a letter may be written more than once per term (`TermSyn.WF'`):
                                 no character is dropped, nothing outside that language is accepted.
                                 No assumption on the Unicode classes is needed in this direction.
* `inter_accepts_iff_grammar`    for `Sane` classes the accepted language *is* that language
* `inter_accepts_means`          … and the returned polynomial is the meaning of that reading: one term
                                 per written term; coefficient `± value` (`±1` if absent); variables =
                                 the letters written, sorted, each once, each with the **sum** of the
                                 exponents of its occurrences; `variables` = the sorted set of letters
* `inter_means_every_reading`    … whichever reading of the text is taken (`Sane` classes)
* `inter_accepts_evaluates`      … so evaluation gives `Σ_t coef_t · Π_occurrences value^exponent` for
                                 every power function additive in the exponent on the exponents used
                                 (`inter_accepts_evaluates_int`: integer exponents over ℚ, non-zero
                                 values, `powf x a = x ^ a.num`); for terms without a repeated letter no
                                 hypothesis on the power function is needed (`SV.Props.C02`)
* `inter_accepted_chars`, `inter_no_dangling_operator`   every character of an accepted text (white
                                 space aside) is an ASCII digit, an ASCII letter or one of `. / ^ + -`;
                                 the last one is a digit, `.` or a letter — never `+ - ^ /`
* `inter_total`                  the parser answers `error` or `ok p`; `p` has at most one term per
                                 `+`-separated part of the normalised text (≤ 2·length + 1) and every
                                 term at most as many variables as the text has characters

Vocabulary: `TermSyn`, `Coef`, `Expo`, `Factor`, `render`, `sgn` in `SV.Lemmas.C02Grammar`;
`TermSyn.WF'` (= `TermSyn.WF` minus distinctness) in `SV.Lemmas.C16Inter`; `TermMeans`, `expoSum`,
`factorsProd`, `Additive`, `toTerm` in `SV.Lemmas.C16InterSem`.
-/
namespace SV.Props.C16Inter
open SV SV.Poly SV.Text SV.C02 SV.C16Inter

/-- **Nothing outside the grammar is accepted and no character is dropped.**  If the parser accepts
`s`, the white-space-free text is character for character the rendering of a list of well-formed
terms (sign, optional decimal or fractional coefficient, ASCII letters each with an optional decimal
or fractional, optionally negative exponent; a letter may repeat), the empty list only for the empty
text.  `*`, parentheses, `#`, `@`, a second sign, a dangling operator, a digit after a variable, a
non-ASCII letter or digit: none of them occurs in a rendering, so all are rejected.  Holds for every
classification `cc` of the Unicode predicates. -/
theorem inter_accepts_only_grammar {cc : CharClass} {s : List Char} {p : IParsed}
    (h : C02.parse cc s = .ok p) :
    ∃ (lead : Bool) (ts : List TermSyn), (∀ t ∈ ts, t.WF') ∧ stripWs cc s = render lead ts ∧
      (ts = [] ↔ stripWs cc s = []) := by
  obtain ⟨lead, ts, hwf, hs, _⟩ := parse_inv h
  refine ⟨lead, ts, hwf, hs, ?_⟩
  rw [hs]
  exact (render_eq_nil_iff hwf).symm

/-- **The accepted language, exactly** (for classes satisfying `Sane`, e.g. the driver's
`stdClass`): a text is accepted iff its white-space-free form is a rendering of well-formed terms in
which letters may repeat. -/
theorem inter_accepts_iff_grammar {cc : CharClass} (hcc : Sane cc) (s : List Char) :
    (∃ p, C02.parse cc s = .ok p) ↔
      ∃ (lead : Bool) (ts : List TermSyn), (∀ t ∈ ts, t.WF') ∧ stripWs cc s = render lead ts := by
  constructor
  · rintro ⟨p, h⟩
    obtain ⟨lead, ts, hwf, hs, _⟩ := parse_inv h
    exact ⟨lead, ts, hwf, hs⟩
  · rintro ⟨lead, ts, hwf, hs⟩
    by_cases hne : ts = []
    · subst hne
      exact ⟨_, SV.Props.C02.parse_empty cc s hs⟩
    · exact ⟨_, parse_render' hcc lead ts hne hwf s hs⟩

/-- **Acceptance implies fidelity.**  If the parser accepts `s` and returns `p`, there is a reading of
the text in the grammar (`stripWs cc s = render lead ts`, `ts` well-formed, letters may repeat) and `p`
is the meaning of that reading: the terms of `p` correspond one to one, in order, to the written terms,
each with the written signed coefficient value and with the written letters as variables — sorted, each
once, carrying the sum of the exponents of its occurrences (`TermMeans`); `p.variables` is the sorted,
duplicate-free list of all letters written. -/
theorem inter_accepts_means {cc : CharClass} {s : List Char} {p : IParsed}
    (h : C02.parse cc s = .ok p) :
    ∃ (lead : Bool) (ts : List TermSyn), (∀ t ∈ ts, t.WF') ∧ stripWs cc s = render lead ts ∧
      List.Forall₂ TermMeans p.terms ts ∧
      p.variables.Pairwise (· ≤ ·) ∧ p.variables.Nodup ∧
      ∀ n, n ∈ p.variables ↔ ∃ t ∈ ts, ∃ f ∈ t.factors, n = String.singleton f.letter := by
  obtain ⟨lead, ts, hwf, hs, hterms⟩ := parse_inv h
  obtain ⟨_, h2, h3, h4⟩ := SV.Props.C02.parse_canonical cc s p h
  refine ⟨lead, ts, hwf, hs, ?_, h2, h3, fun n => ?_⟩
  · rw [hterms]
    exact forall₂_read ts (fun t ht => termMeans_read (hwf t ht))
  · rw [h4 n, hterms]
    constructor
    · rintro ⟨it, hit, v, hv, rfl⟩
      obtain ⟨t, ht, rfl⟩ := List.mem_map.1 hit
      obtain ⟨f, hf, hn⟩ := (mem_read_names t v.1).1 (List.mem_map.2 ⟨v, hv, rfl⟩)
      exact ⟨t, ht, f, hf, hn⟩
    · rintro ⟨t, ht, f, hf, rfl⟩
      obtain ⟨v, hv, hn⟩ := List.mem_map.1 ((mem_read_names t _).2 ⟨f, hf, rfl⟩)
      exact ⟨t.read, List.mem_map.2 ⟨t, ht, rfl⟩, v, hv, hn⟩

/-- **The meaning does not depend on the reading chosen**: for `Sane` classes, if `s` is accepted then
for *every* reading of the text in the grammar (letters may repeat) the returned terms are the
meanings of the written terms — so the existential of `inter_accepts_means` hides no ambiguity. -/
theorem inter_means_every_reading {cc : CharClass} (hcc : Sane cc) {s : List Char} {p : IParsed}
    (h : C02.parse cc s = .ok p) (lead : Bool) (ts : List TermSyn) (hwf : ∀ t ∈ ts, t.WF')
    (hs : stripWs cc s = render lead ts) : List.Forall₂ TermMeans p.terms ts := by
  by_cases hne : ts = []
  · subst hne
    rw [SV.Props.C02.parse_empty cc s hs] at h
    cases h
    exact List.Forall₂.nil
  · rw [parse_render' hcc lead ts hne hwf s hs] at h
    cases h
    exact forall₂_read ts (fun t ht => termMeans_read (hwf t ht))

/-- value of one returned term = written coefficient value times the product over the written
occurrences -/
private theorem termVal_read {powf : ℚ → ℚ → ℚ} {g : String → ℚ} {E : ℚ → Prop}
    (hE : ∀ a b, E a → E b → E (a + b)) (hadd : Additive powf g E) (t : TermSyn)
    (hfs : ∀ f ∈ t.factors, E f.expValue) :
    SV.Props.C02.termVal powf g (toTerm t.read) =
      sgn t.neg * t.coef.value * factorsProd powf g t.factors := by
  have h := read_prod hE hadd t hfs
  unfold varsProd at h
  simp only [SV.Props.C02.termVal, toTerm, List.map_map]
  rw [read_coef]
  congr 1

/-- **The returned polynomial takes exactly the values of the conventional reading.**  With the reading
`ts` of the accepted text: for every power function `powf` that is additive in the exponent
(`powf x (a+b) = powf x a · powf x b` at the assigned values) on a set `E` of exponents closed under
`+` and containing the written ones, and every assignment `σ` binding the written letters, evaluating
the returned terms gives `Σ_t ± value(coef_t) · Π_{occurrences of letters in t} powf (value letter)
exponent` — a repeated letter multiplies.  (Additivity is what makes `x·x` equal `x²`; it holds for
`f64::powf` on positive values up to rounding, for integer exponents at non-zero values, for
non-negative integer exponents everywhere.  For terms without a repeated letter it is not used.) -/
theorem inter_accepts_evaluates {cc : CharClass} {s : List Char} {p : IParsed}
    (h : C02.parse cc s = .ok p) :
    ∃ (lead : Bool) (ts : List TermSyn), (∀ t ∈ ts, t.WF') ∧ stripWs cc s = render lead ts ∧
      ∀ (powf : ℚ → ℚ → ℚ) (E : ℚ → Prop) (σ : List (String × ℚ)) (g : String → ℚ),
        (∀ a b, E a → E b → E (a + b)) → Additive powf g E →
        (∀ t ∈ ts, ∀ f ∈ t.factors, E f.expValue) →
        (∀ t ∈ ts, ∀ f ∈ t.factors,
          lookup σ (String.singleton f.letter) = some (g (String.singleton f.letter))) →
        evalTerms powf (p.terms.map toTerm) σ =
          .ok ((ts.map fun t => sgn t.neg * t.coef.value * factorsProd powf g t.factors).sum) := by
  obtain ⟨lead, ts, hwf, hs, hterms⟩ := parse_inv h
  refine ⟨lead, ts, hwf, hs, fun powf E σ g hE hadd hexp hbound => ?_⟩
  rw [SV.Props.C02.eval_eq_sum_prod powf _ σ g]
  · rw [hterms, List.map_map, List.map_map]
    congr 2
    apply List.map_congr_left
    intro t ht
    exact termVal_read hE hadd t (hexp t ht)
  · intro tm htm q hq
    obtain ⟨it, hit, rfl⟩ := List.mem_map.1 htm
    rw [hterms] at hit
    obtain ⟨t, ht, rfl⟩ := List.mem_map.1 hit
    obtain ⟨v, hv, rfl⟩ := List.mem_map.1 hq
    obtain ⟨f, hf, hn⟩ := (mem_read_names t v.1).1 (List.mem_map.2 ⟨v, hv, rfl⟩)
    simp only [hn]
    exact hbound t ht f hf

/-- the power function for integer exponents over ℚ -/
def zpowf (x a : ℚ) : ℚ := x ^ a.num

/-- **Integer exponents over ℚ**: if every written exponent is an integer and every assigned value is
non-zero, the returned polynomial evaluates (with `powf x a = x ^ a.num`, the integer power) to
`Σ_t ± value(coef_t) · Π_occurrences value(letter) ^ exponent`. -/
theorem inter_accepts_evaluates_int {cc : CharClass} {s : List Char} {p : IParsed}
    (h : C02.parse cc s = .ok p) :
    ∃ (lead : Bool) (ts : List TermSyn), (∀ t ∈ ts, t.WF') ∧ stripWs cc s = render lead ts ∧
      ∀ (σ : List (String × ℚ)) (g : String → ℚ), (∀ n, g n ≠ 0) →
        (∀ t ∈ ts, ∀ f ∈ t.factors, ∃ k : ℤ, f.expValue = (k : ℚ)) →
        (∀ t ∈ ts, ∀ f ∈ t.factors,
          lookup σ (String.singleton f.letter) = some (g (String.singleton f.letter))) →
        evalTerms zpowf (p.terms.map toTerm) σ =
          .ok ((ts.map fun t => sgn t.neg * t.coef.value *
            (t.factors.map fun f => g (String.singleton f.letter) ^ f.expValue.num).prod).sum) := by
  obtain ⟨lead, ts, hwf, hs, heval⟩ := inter_accepts_evaluates h
  refine ⟨lead, ts, hwf, hs, fun σ g hg hint hbound => ?_⟩
  refine heval zpowf (fun a => ∃ k : ℤ, a = (k : ℚ)) σ g ?_ ?_ hint hbound
  · rintro a b ⟨k, rfl⟩ ⟨l, rfl⟩
    exact ⟨k + l, by push_cast; rfl⟩
  · rintro n a b ⟨k, rfl⟩ ⟨l, rfl⟩
    unfold zpowf
    rw [← Int.cast_add, Rat.num_intCast, Rat.num_intCast, Rat.num_intCast, zpow_add₀ (hg n)]

/-- Every character of an accepted text (white space aside) is an ASCII digit, an ASCII letter or one
of `. / ^ + -`: `*`, parentheses, `#`, `@`, `=`, non-ASCII letters and digits … make the parser answer
an error instead of being skipped. -/
theorem inter_accepted_chars {cc : CharClass} {s : List Char} {p : IParsed}
    (h : C02.parse cc s = .ok p) :
    ∀ c ∈ stripWs cc s, isAsciiDigit c = true ∨ isAsciiLetter c = true ∨ c = '.' ∨ c = '/' ∨
      c = '^' ∨ c = '+' ∨ c = '-' := by
  obtain ⟨lead, ts, hwf, hs, _⟩ := parse_inv h
  intro c hc
  rw [hs] at hc
  rcases mem_render' hwf hc with h1 | h1 | h1 | h1 | h1 | h1 | h1
  · exact Or.inr (Or.inr (Or.inr (Or.inr (Or.inr (Or.inl h1)))))
  · exact Or.inl h1
  · exact Or.inr (Or.inl h1)
  · exact Or.inr (Or.inr (Or.inl h1))
  · exact Or.inr (Or.inr (Or.inr (Or.inl h1)))
  · exact Or.inr (Or.inr (Or.inr (Or.inr (Or.inr (Or.inr h1)))))
  · exact Or.inr (Or.inr (Or.inr (Or.inr (Or.inl h1))))

/-- Every letter of an accepted text is kept as a variable of the result. -/
theorem inter_letters_kept {cc : CharClass} {s : List Char} {p : IParsed}
    (h : C02.parse cc s = .ok p) :
    ∀ c ∈ stripWs cc s, isAsciiLetter c = true → String.singleton c ∈ p.variables := by
  obtain ⟨lead, ts, hwf, hs, _, _, _, hvars⟩ := inter_accepts_means h
  intro c hc hl
  rw [hvars]
  rw [hs] at hc
  -- a letter of a rendering is the letter of one of its factors
  have key : ∀ t ∈ ts, t.WF' → c ∈ t.body → ∃ f ∈ t.factors, c = f.letter := by
    intro t _ ht hcb
    unfold TermSyn.body renderFactors at hcb
    rcases List.mem_append.1 hcb with h1 | h1
    · exfalso
      rcases coefChars ht.coef_wf c h1 with h2 | h2 | h2
      · rw [letter_not_digit hl] at h2; cases h2
      · exact letter_ne_dot hl h2
      · exact letter_ne_slash hl h2
    · obtain ⟨f, hf, hcf⟩ := List.mem_flatMap.1 h1
      refine ⟨f, hf, ?_⟩
      unfold Factor.render at hcf
      rcases List.mem_cons.1 hcf with h2 | h2
      · exact h2
      · exfalso
        cases hx : f.exp with
        | none => rw [hx] at h2; simp at h2
        | some e =>
          rw [hx] at h2
          rcases List.mem_cons.1 h2 with h3 | h3
          · exact letter_ne_caret hl h3
          · rcases expoChars (ht.exps_wf f hf e hx) c h3 with h4 | h4 | h4 | h4
            · rw [letter_not_digit hl] at h4; cases h4
            · exact letter_ne_dot hl h4
            · exact letter_ne_slash hl h4
            · exact letter_ne_dash hl h4
  cases ts with
  | nil => simp [render] at hc
  | cons t ts =>
    simp only [render, List.mem_append, List.mem_flatMap, List.mem_cons] at hc
    rcases hc with (h1 | h1) | ⟨u, hu, h1 | h1⟩
    · exfalso
      split at h1
      · have : c = '-' := by simpa using h1
        exact letter_ne_dash hl this
      · split at h1
        · have : c = '+' := by simpa using h1
          exact letter_ne_plus hl this
        · simp at h1
    · obtain ⟨f, hf, hcf⟩ := key t (by simp) (hwf t (by simp)) h1
      exact ⟨t, by simp, f, hf, by rw [hcf]⟩
    · exfalso
      split at h1
      · exact letter_ne_dash hl h1
      · exact letter_ne_plus hl h1
    · obtain ⟨f, hf, hcf⟩ := key u (by simp [hu]) (hwf u (by simp [hu])) h1
      exact ⟨u, by simp [hu], f, hf, by rw [hcf]⟩

/-- A text that ends (white space aside) in an operator is never accepted: the last character of an
accepted non-empty text is an ASCII digit, `.` or an ASCII letter — not `+`, `-`, `^` or `/`. -/
theorem inter_no_dangling_operator {cc : CharClass} {s : List Char} {p : IParsed}
    (h : C02.parse cc s = .ok p) (c : Char) (hc : (stripWs cc s).getLast? = some c) :
    (isAsciiDigit c = true ∨ c = '.' ∨ isAsciiLetter c = true) ∧
      c ≠ '+' ∧ c ≠ '-' ∧ c ≠ '^' ∧ c ≠ '/' := by
  obtain ⟨lead, ts, hwf, hs, _⟩ := parse_inv h
  rw [hs] at hc
  have hne : ts ≠ [] := by
    rintro rfl
    simp [render] at hc
  have hend := (endsOK_render lead hwf hne).2 c hc
  exact ⟨hend, hend.not_op⟩

/-- **Totality with the allocation bounds.**  On every character list the parser answers `error` or
`ok p` (the model has no other outcome: every slice index of the Rust code comes from a scan of the
same text), and in the second case `p` has at most one term per `+`-separated part of the normalised
text — at most `2·length + 1` — and every term has at most as many variables as the text has
characters. -/
theorem inter_total (cc : CharClass) (s : List Char) :
    (∃ e, C02.parse cc s = .error e) ∨
      (∃ p, C02.parse cc s = .ok p ∧
        p.terms.length ≤ (splitOn '+' (C02.normalize cc s)).length ∧
        (splitOn '+' (C02.normalize cc s)).length ≤ 2 * s.length + 1 ∧
        ∀ t ∈ p.terms, t.vars.length ≤ s.length) := by
  rcases h : C02.parse cc s with e | p
  · exact Or.inl ⟨e, rfl⟩
  · refine Or.inr ⟨p, rfl, ?_, ?_, ?_⟩
    · obtain ⟨hparts, _⟩ := parse_ok_iff cc s p h
      rw [parseParts_length _ _ hparts]
      exact length_parts_le _
    · rw [length_splitOn]
      have h1 : (C02.normalize cc s).count '+' ≤ (C02.normalize cc s).length := List.count_le_length
      have h2 := length_protectDash_le (stripWs cc s) none
      have h3 : (stripWs cc s).length ≤ s.length := List.length_filter_le _ _
      unfold C02.normalize at h1 ⊢
      omega
    · obtain ⟨lead, ts, hwf, hs, hterms⟩ := parse_inv h
      intro it hit
      rw [hterms] at hit
      obtain ⟨t, ht, rfl⟩ := List.mem_map.1 hit
      have h1 := length_read_vars_le t
      have h2 := length_factors_le t.factors
      have h3 : (renderFactors t.factors).length ≤ t.body.length := by
        simp [TermSyn.body]
      have h4 := length_body_le (lead := lead) ht
      have h5 : (stripWs cc s).length ≤ s.length := List.length_filter_le _ _
      rw [← hs] at h4
      omega

/-- The one accepted text without any term: nothing but white space, read as the polynomial without
terms and without variables. -/
theorem inter_accepts_empty (cc : CharClass) {s : List Char} (hs : stripWs cc s = []) :
    C02.parse cc s = .ok ⟨[], []⟩ :=
  SV.Props.C02.parse_empty cc s hs

/-! ### non-vacuity: near-miss texts are rejected by the model, texts with repeated letters accepted -/

example : C02.parse stdClass "2x*3".toList = .error .unexpectedChar := rfl
example : C02.parse stdClass "2(x+1)".toList = .error .unexpectedChar := rfl
example : C02.parse stdClass "x#".toList = .error .unexpectedChar := rfl
example : C02.parse stdClass "x^@2".toList = .error .invalidExponent := rfl
example : C02.parse stdClass "x - -4".toList = .error .syntaxError := rfl
example : C02.parse stdClass "x^2 +".toList = .error .syntaxError := rfl
example : C02.parse stdClass "x^2 + + 1".toList = .error .syntaxError := rfl
example : C02.parse stdClass "x3^2".toList = .error .unexpectedChar := rfl
example : C02.parse stdClass "λ".toList = .error .unexpectedChar := rfl
example : C02.parse stdClass "1e5x".toList = .error .unexpectedChar := rfl
example : C02.parse stdClass "x^2/".toList = .error .invalidFractionalExponent := rfl
example : C02.parse stdClass "x^".toList = .error .invalidExponent := rfl
example : C02.parse stdClass "x^-".toList = .error .invalidExponent := rfl
example : C02.parse stdClass "x^1/-2".toList = .error .invalidFractionalExponent := rfl
example : C02.parse stdClass "3/-4x".toList = .error .invalidFraction := rfl
example : C02.parse stdClass "x^2^3".toList = .error .unexpectedChar := rfl
example : C02.parse stdClass "٣x".toList = .error .invalidCoefficient := rfl
example : C02.parse stdClass "x.5".toList = .error .unexpectedChar := rfl
example : ∃ p, C02.parse stdClass "xyx^2".toList = .ok p ∧ p.terms.length = 1 := ⟨_, rfl, rfl⟩
example : ∃ p, C02.parse stdClass "xx".toList = .ok p ∧ p.terms.length = 1 := ⟨_, rfl, rfl⟩
example : ∃ p, C02.parse stdClass "+ 3. - 1/2x^-1/2 y".toList = .ok p ∧ p.terms.length = 2 :=
  ⟨_, rfl, rfl⟩

/-- `xyx^2`: a well-formed term with a repeated letter -/
private def u2 : UDec := ⟨['2'], [], false⟩
private def txyx : TermSyn :=
  ⟨false, .none, [⟨'x', none⟩, ⟨'y', none⟩, ⟨'x', some (.dec false u2)⟩]⟩

private theorem txyx_wf : txyx.WF' := by
  refine ⟨trivial, by decide, ?_, Or.inr (by simp [txyx])⟩
  intro f hf e he
  simp only [txyx, List.mem_cons, List.not_mem_nil, or_false] at hf
  rcases hf with rfl | rfl | rfl
  · cases he
  · cases he
  · cases he
    exact ⟨by decide, by decide, by decide, by decide⟩

/-- the reading of `"xyx^2"` and its meaning: `x` carries `1 + 2 = 3`, `y` carries `1` -/
example : txyx.WF' ∧ render false [txyx] = "xyx^2".toList ∧
    expoSum txyx.factors "x" = 3 ∧ expoSum txyx.factors "y" = 1 := by
  refine ⟨txyx_wf, by decide, ?_, ?_⟩ <;>
  · have h1 : String.singleton 'x' = "x" := rfl
    have h2 : String.singleton 'y' = "y" := rfl
    have h3 : ("y" : String) ≠ "x" := by decide
    have h4 : ("x" : String) ≠ "y" := by decide
    simp [expoSum, txyx, h1, h2, h3, h4, Factor.expValue, Expo.value, sgn, UDec.value, UDec.mant,
      u2, digitsVal, digitVal]
    try norm_num

end SV.Props.C16Inter
