import SV.Lemmas.C19Eval
/-!
# C19 — constant folding never changes a finite value

`eval S e : Option K` (`SV.Lemmas.C19Eval`) evaluates a tree over an ordered field `K`; `none` means
"not finite" (division by zero, a power / function / `!` / `%` outside its domain).  Variables, named
constants, the functions, `!`, `%` and the power are parameters of `S : Sem K`; the only facts assumed are
`S.PowLaws`: `pow x 0 = 1` for every `x` and `pow 0 y = 0` for `0 < y` (true of `f64::powf`).

* `fold_sound`: `eval S e = some v → eval S (fold (fieldTests K) e) = some v`, for every tree.
* `fold_sound_dec`: the same for the instance the driver runs and the correspondence check compares with
  the Rust code, `fold decTests` on exact decimal literals read in `ℚ` by `Dec.val`.
* `fold_zero_pow_unrestricted_unsound`: with the rule `0^e ⇒ 0` for an arbitrary `e` (the code before the
  repair of D28) the statement is false: `0^(1-1)` has the value 1 and folds to 0.
* `fold_needs_finite`: the hypothesis "the unfolded value is finite" cannot be dropped:
  `0 * (1/0)` is not finite and folds to 0.
* `powLaws_satisfiable`: a concrete partial power on `ℚ` satisfies the hypothesis.
-/
namespace SV.Props.C19Fold
open SV SV.Text SV.C19

section
variable {K : Type} [Field K] [LinearOrder K]

/-- one fold step on operands that have the values `a`, `b`: if the node has the value `v`, so has
the folded node -/
theorem foldStep_sound (S : Sem K) (hS : S.PowLaws) {o : Op} {l r : Expr K} {p : Bool} {a b v : K}
    (hl : eval S l = some a) (hr : eval S r = some b) (hv : binop S o a b = some v) :
    eval S (foldStep (fieldTests K) o l r p) = some v := by
  unfold foldStep
  split_ifs with h1 h2 h3 h4 h5 h6 h7 h8 h9
  · -- 0 * r
    obtain ⟨rfl, hz⟩ := h1
    rw [isNumZero_field hz] at hl
    simp only [eval, Option.some.injEq] at hl; subst hl
    simp only [binop, zero_mul] at hv
    simpa [eval, fieldTests] using hv
  · -- l * 0
    obtain ⟨rfl, hz⟩ := h2
    rw [isNumZero_field hz] at hr
    simp only [eval, Option.some.injEq] at hr; subst hr
    simp only [binop, mul_zero] at hv
    simpa [eval, fieldTests] using hv
  · -- l ^ 0
    obtain ⟨rfl, hz⟩ := h3
    rw [isNumZero_field hz] at hr
    simp only [eval, Option.some.injEq] at hr; subst hr
    simp only [binop, hS.pow_zero] at hv
    simpa [eval, fieldTests] using hv
  · -- 0 ^ n, n a positive literal
    obtain ⟨rfl, hz, hp⟩ := h4
    rw [isNumZero_field hz] at hl
    obtain ⟨x, rfl, hx⟩ := isNumPos_field hp
    simp only [eval, Option.some.injEq] at hl hr; subst hl; subst hr
    simp only [binop, hS.zero_pow _ hx] at hv
    simpa [eval, fieldTests] using hv
  · -- 0 + r
    obtain ⟨rfl, hz⟩ := h5
    rw [isNumZero_field hz] at hl
    simp only [eval, Option.some.injEq] at hl; subst hl
    simp only [binop, zero_add] at hv
    rw [hr, hv]
  · -- l + 0
    obtain ⟨rfl, hz⟩ := h6
    rw [isNumZero_field hz] at hr
    simp only [eval, Option.some.injEq] at hr; subst hr
    simp only [binop, add_zero] at hv
    rw [hl, hv]
  · -- l - 0
    obtain ⟨rfl, hz⟩ := h7
    rw [isNumZero_field hz] at hr
    simp only [eval, Option.some.injEq] at hr; subst hr
    simp only [binop, sub_zero] at hv
    rw [hl, hv]
  · -- 0 - r
    obtain ⟨rfl, hz⟩ := h8
    rw [isNumZero_field hz] at hl
    simp only [eval, Option.some.injEq] at hl; subst hl
    simp only [binop, zero_sub] at hv
    simp only [eval, ↓reduceIte, hr, Option.map_some]
    exact hv
  · -- l / 1
    obtain ⟨rfl, ho⟩ := h9
    rw [isNumOne_field ho] at hr
    simp only [eval, Option.some.injEq] at hr; subst hr
    simp only [binop, one_ne_zero, ↓reduceIte, div_one] at hv
    rw [hl, hv]
  · rw [eval_bin_of hl hr]; exact hv

/-- **Constant folding never changes the value of an expression whose unfolded value is finite.**
For every tree `e` (not only those the parser returns): if `e` evaluates to `v` — so every subterm is
defined — then the folded tree evaluates to `v` as well. -/
theorem fold_sound (S : Sem K) (hS : S.PowLaws) (e : Expr K) (v : K) (h : eval S e = some v) :
    eval S (fold (fieldTests K) e) = some v := by
  induction e generalizing v with
  | num | var | const | func | pre | post =>
    simpa only [fold_num, fold_var, fold_const, fold_func, fold_pre, fold_post] using h
  | bin o l r p ihl ihr =>
    obtain ⟨a, b, hl, hr, hv⟩ := eval_bin_some h
    rw [fold_bin]
    exact foldStep_sound S hS (ihl a hl) (ihr b hr) hv

end

/-- The same for the driver's instance: literals are exact decimals, the tests `== 0`, `== 1`, `> 0` are
decided on the decimal, the values are read in `ℚ`. -/
theorem fold_sound_dec (S : Sem ℚ) (hS : S.PowLaws) (e : Expr Dec) (v : ℚ)
    (h : eval S (e.map Dec.val) = some v) : eval S ((fold decTests e).map Dec.val) = some v := by
  rw [fold_map decTests_agree]
  exact fold_sound S hS _ v h

/-! ### the hypotheses are needed and can be met -/

/-- a partial power on `ℚ`: integer exponents (negative ones for a non-zero base), and `0^y` for every
rational `y ≥ 0` -/
def powQ (x y : ℚ) : Option ℚ :=
  if x = 0 then (if 0 < y then some 0 else if y = 0 then some 1 else none)
  else if y.den = 1 then some (x ^ y.num) else none

/-- a semantics over `ℚ` with that power, no function, `!` on nothing, `%` on nothing -/
def semQ (ρ : String → ℚ) : Sem ℚ where
  var := ρ
  const _ := 3
  fn _ _ := none
  fac _ := none
  rem _ _ := none
  pow := powQ

theorem powLaws_satisfiable (ρ : String → ℚ) : (semQ ρ).PowLaws where
  pow_zero x := by
    by_cases hx : x = 0 <;> simp [semQ, powQ, hx]
  zero_pow y hy := by simp [semQ, powQ, hy]

/-- `fold_operations` with the rule `0^e ⇒ 0` applied to every `e` (the code before D28 was repaired) -/
def foldUnrestricted {N : Type} (nt : NumTests N) : Expr N → Expr N
  | .bin o l r p =>
    let l := foldUnrestricted nt l
    let r := foldUnrestricted nt r
    if o = .mul ∧ isNumZero nt l then .num nt.zero
    else if o = .mul ∧ isNumZero nt r then .num nt.zero
    else if o = .caret ∧ isNumZero nt r then .num nt.one
    else if o = .caret ∧ isNumZero nt l then .num nt.zero
    else if o = .add ∧ isNumZero nt l then r
    else if o = .add ∧ isNumZero nt r then l
    else if o = .sub ∧ isNumZero nt r then l
    else if o = .sub ∧ isNumZero nt l then .pre .sub r
    else if o = .div ∧ isNumOne nt r then l
    else .bin o l r p
  | e => e

/-- `0^(1-1)`: finite value 1, folded by the unrestricted rule to 0 -/
def zeroPowOneMinusOne : Expr ℚ := .bin .caret (.num 0) (.bin .sub (.num 1) (.num 1) true) false

/-- Negative result behind the repair: with the unrestricted rule folding is unsound — the tree
`0^(1-1)` evaluates to 1 and its fold to 0; the repaired `fold` leaves the tree alone. -/
theorem fold_zero_pow_unrestricted_unsound (ρ : String → ℚ) :
    eval (semQ ρ) zeroPowOneMinusOne = some 1 ∧
    eval (semQ ρ) (foldUnrestricted (fieldTests ℚ) zeroPowOneMinusOne) = some 0 ∧
    fold (fieldTests ℚ) zeroPowOneMinusOne = zeroPowOneMinusOne := by
  refine ⟨?_, ?_, ?_⟩
  · simp [zeroPowOneMinusOne, eval, binop, semQ, powQ]
  · simp [zeroPowOneMinusOne, foldUnrestricted, isNumZero, isNumOne, fieldTests, eval]
  · simp [zeroPowOneMinusOne, fold, isNumZero, isNumOne, isNumPos, fieldTests]

/-- `0 * (1/0)` -/
def zeroTimesInfinity : Expr ℚ := .bin .mul (.num 0) (.bin .div (.num 1) (.num 0) true) false

/-- The finiteness hypothesis of `fold_sound` is needed: `0 * (1/0)` has no finite value and folds to 0. -/
theorem fold_needs_finite (ρ : String → ℚ) :
    eval (semQ ρ) zeroTimesInfinity = none ∧
    eval (semQ ρ) (fold (fieldTests ℚ) zeroTimesInfinity) = some 0 := by
  constructor
  · simp [zeroTimesInfinity, eval, binop]
  · simp [zeroTimesInfinity, fold, isNumZero, fieldTests, eval]

/-! non-vacuity: a tree on which several rules fire, with its value kept -/

example (ρ : String → ℚ) :
    let e : Expr ℚ := .bin .add (.bin .mul (.num 0) (.var "x") false)
      (.bin .div (.bin .caret (.var "y") (.num 0) false) (.num 1) false) false
    eval (semQ ρ) e = some 1 ∧ fold (fieldTests ℚ) e = .num 1 := by
  constructor
  · by_cases h : ρ "y" = 0 <;> simp [eval, binop, semQ, powQ, h]
  · simp [fold, isNumZero, isNumOne, isNumPos, fieldTests]

example : fold decTests (.bin .sub (.num ⟨false, 0, 0⟩) (.var "x") false) = .pre .sub (.var "x") := by
  rfl

end SV.Props.C19Fold
