import SV.Lemmas.C19
/-!
Lemmas for C19, display part (token level).

* `Wf`        the shape of the trees the parser returns (and folding keeps)
* `canon`, `norm`   canonical decimal of a literal; a tree with its `paren` flags cleared and its literals
              canonical — what "the same expression" means for `display_reparse`
* `ri`        `Display for Expr` on tokens instead of text: the same recursion as `render`, producing the
              tokens of the printed text, each with a flag "implied multiplication follows"
* `Reads`     "these tokens are read back by `parse_expr` as this tree" in continuation form, and
              `reads_ri`: the tokens of the display of a well-formed tree are read back as a tree with the
              same `norm`
-/
namespace SV.C19
open SV SV.Text

theorem bp_vals : bp .add = 1 ∧ bp .sub = 1 ∧ bp .mul = 2 ∧ bp .div = 2 ∧ bp .rem = 3 ∧ bp .cdot = 4 ∧
    bp .caret = 5 ∧ bp .fac = 0 ∧ SV.Gen.unaryMinPow = 3 := by decide

theorem bp_le (o : Op) : bp o ≤ 5 := by cases o <;> decide

/-! ### well-formed trees -/

/-- a variable name the lexer can produce: one ASCII letter other than `e`/`E` (Euler's constant) -/
def VarName (s : String) : Prop := ∃ c : Char, s = String.singleton c ∧ isAsciiLetter c = true ∧ c ≠ 'e' ∧ c ≠ 'E'

/-- shape of parser results: literals are unsigned, variables single letters, prefix nodes are unary
minus, postfix nodes `!`, binary nodes never carry the temporary `·` nor `!` -/
inductive Wf : Expr Dec → Prop where
  | num {d : Dec} : d.neg = false → Wf (.num d)
  | var {s : String} : VarName s → Wf (.var s)
  | const (c : Const) : Wf (.const c)
  | func (f : Func) {i : Expr Dec} : Wf i → Wf (.func f i)
  | pre {v : Expr Dec} : Wf v → Wf (.pre .sub v)
  | post {v : Expr Dec} : Wf v → Wf (.post .fac v)
  | bin {o : Op} {l r : Expr Dec} (p : Bool) : o ≠ .cdot → o ≠ .fac → Wf l → Wf r → Wf (.bin o l r p)

/-! ### canonical literals, comparison up to flags -/

/-- strip trailing fractional zeros: `1.50 ↦ 1.5`, `2.0 ↦ 2` (same value, the spelling `{}` prints) -/
def canonGo : Nat → Nat → Nat × Nat
  | m, 0 => (m, 0)
  | m, s + 1 => if m % 10 = 0 then canonGo (m / 10) s else (m, s + 1)

def canon (d : Dec) : Dec := ⟨d.neg, (canonGo d.mant d.scale).1, (canonGo d.mant d.scale).2⟩

/-- the tree without its `paren` flags and with canonical literals -/
def norm : Expr Dec → Expr Dec
  | .num x => .num (canon x)
  | .var s => .var s
  | .const c => .const c
  | .func f i => .func f (norm i)
  | .pre o v => .pre o (norm v)
  | .post o v => .post o (norm v)
  | .bin o l r _ => .bin o (norm l) (norm r) false

theorem norm_setParen (e : Expr Dec) : norm (setParen e) = norm e := by cases e <;> rfl

theorem canonGo_idem (m s : Nat) : canonGo (canonGo m s).1 (canonGo m s).2 = canonGo m s := by
  induction s generalizing m with
  | zero => simp [canonGo]
  | succ n ih =>
    by_cases h : m % 10 = 0
    · simp only [canonGo, h, ↓reduceIte]; exact ih _
    · simp only [canonGo, h, ↓reduceIte]

theorem canon_idem (d : Dec) : canon (canon d) = canon d := by
  simp only [canon, canonGo_idem]

/-! ### the display on tokens -/

/-- a printed token and whether the implied-multiplication pass will insert `·` after it -/
abbrev Item := Tok Dec × Bool

/-- the token stream after the implied-multiplication pass -/
def dot (is : List Item) : List (Tok Dec) := is.flatMap fun i => if i.2 then [i.1, .op .cdot] else [i.1]
/-- the token stream the lexer produces -/
def undot (is : List Item) : List (Tok Dec) := is.map (·.1)

def par (t : List Item) : List Item := (.lp, false) :: t ++ [(.rp, false)]

/-- `fmt_operand` -/
def wrapI (t : List Item) (power needed : Nat) (strict : Bool) : List Item :=
  if power < needed ∨ (strict ∧ power = needed) then par t else t

def startsNumI : List Item → Bool
  | (.num _, _) :: _ => true
  | _ => false

/-- `implied_form` -/
def impliedI (o : Op) (l r : Expr Dec) (tr : List Item) : Option (List Item) :=
  match o, l, r with
  | .mul, .num n, .var v => some [(.num (canon n), true), (.var v, false)]
  | .mul, .num n, .const c => some [(.num (canon n), true), (.const c, false)]
  | .mul, .num n, .bin .caret _ _ _ => if startsNumI tr then none else some ((.num (canon n), true) :: tr)
  | .mul, .var v, .num n => some [(.var v, true), (.num (canon n), false)]
  | .mul, .const c, .num n => some [(.const c, true), (.num (canon n), false)]
  | .caret, .var v, .num n => some [(.var v, false), (.op .caret, false), (.num (canon n), false)]
  | .caret, .const c, .num n => some [(.const c, false), (.op .caret, false), (.num (canon n), false)]
  | _, _, _ => none

def isBin : Expr Dec → Bool
  | .bin _ _ _ _ => true
  | _ => false

/-- `Display for Expr` + `display_power` on tokens (same recursion as `render`) -/
def ri : Expr Dec → List Item × Nat
  | .num x => ([(.num (canon x), false)], inf)
  | .var s => ([(.var s, false)], inf)
  | .const c => ([(.const c, false)], inf)
  | .func f inner => ((.func f, false) :: (.lp, false) :: (ri inner).1 ++ [(.rp, false)], inf)
  | .pre o v =>
    ((.op o, false) ::
      (if isBin v then wrapI (ri v).1 (ri v).2 (2 * SV.Gen.unaryMinPow) false else (ri v).1), 5)
  | .post o v => (wrapI (ri v).1 (ri v).2 inf false ++ [(.op o, false)], inf)
  | .bin o l r p =>
    let imp := impliedI o l r (ri r).1
    let body := match imp with
      | some s => s
      | none => wrapI (ri l).1 (ri l).2 (2 * bp o) false ++ [(.op o, false)] ++ wrapI (ri r).1 (ri r).2 (2 * bp o) true
    (if p then par body else body,
     if p then inf else if imp.isSome ∧ o = .mul then 8 else 2 * bp o)

@[simp] theorem dot_nil : dot [] = [] := rfl
@[simp] theorem dot_append (a b : List Item) : dot (a ++ b) = dot a ++ dot b := by simp [dot]
@[simp] theorem dot_cons_false (t : Tok Dec) (a : List Item) : dot ((t, false) :: a) = t :: dot a := by
  simp [dot]
@[simp] theorem dot_cons_true (t : Tok Dec) (a : List Item) : dot ((t, true) :: a) = t :: .op .cdot :: dot a := by
  simp [dot]
@[simp] theorem dot_par (t : List Item) : dot (par t) = .lp :: dot t ++ [.rp] := by simp [par]

/-! ### reading tokens back -/

def headFac : List (Tok Dec) → Prop
  | .op .fac :: _ => True
  | _ => False

theorem postfixLoop_of_not_headFac (e : Expr Dec) {ts : List (Tok Dec)} (h : ¬ headFac ts) :
    postfixLoop e ts = (e, ts) :=
  postfixLoop_not_fac e ts (by rintro r rfl; exact h trivial)

/-- the tokens are a primary expression: read as `e'` by the prefix part of `parse_expr`, whatever follows -/
def ReadsPrim (toks : List (Tok Dec)) (e' : Expr Dec) : Prop :=
  ∀ m rest ef rf, R (.loop (postfixLoop e' rest).1) (postfixLoop e' rest).2 m ef rf →
    R .full (toks ++ rest) m ef rf

/-- the tokens are read as `e'` by `parse_expr` at every minimum power `m` with `2m ≤ pwr + 1`, provided the
next token is not `!` nor an operator binding tighter than `pwr / 2`; the parser then goes on with the
operator loop on what follows -/
def ReadsAt (toks : List (Tok Dec)) (e' : Expr Dec) (pwr : Nat) : Prop :=
  ∀ m rest ef rf, 2 * m ≤ pwr + 1 → ¬ headFac rest → (∀ o tl, rest = .op o :: tl → 2 * bp o ≤ pwr) →
    R (.loop e') rest m ef rf → R .full (toks ++ rest) m ef rf

def Reads (toks : List (Tok Dec)) (e' : Expr Dec) (pwr : Nat) : Prop :=
  if pwr = inf then ReadsPrim toks e' else ReadsAt toks e' pwr

theorem ReadsPrim.readsAt {toks : List (Tok Dec)} {e' : Expr Dec} (h : ReadsPrim toks e') (pwr : Nat) :
    ReadsAt toks e' pwr := by
  intro m rest ef rf _ hfac _ hc
  apply h
  rw [postfixLoop_of_not_headFac _ hfac]; exact hc

theorem Reads.readsAt {toks : List (Tok Dec)} {e' : Expr Dec} {pwr : Nat} (h : Reads toks e' pwr) :
    ReadsAt toks e' pwr := by
  unfold Reads at h
  split at h
  · exact h.readsAt _
  · exact h

theorem ReadsPrim.reads {toks : List (Tok Dec)} {e' : Expr Dec} (h : ReadsPrim toks e') (pwr : Nat) :
    Reads toks e' pwr := by
  unfold Reads; split
  · exact h
  · exact h.readsAt _

/-- the loop stops on a continuation whose first operator binds too loosely -/
theorem loop_stops (e : Expr Dec) (rest : List (Tok Dec)) (k : Nat)
    (h : ∀ o tl, rest = .op o :: tl → bp o < k) : R (.loop e) rest k e rest := by
  by_cases hop : ∃ o tl, rest = .op o :: tl
  · obtain ⟨o, tl, rfl⟩ := hop
    exact .low _ _ _ (h o tl rfl)
  · exact .stop _ _ _ fun o tl he => hop ⟨o, tl, he⟩

theorem readsPrim_par {toks : List (Tok Dec)} {e' : Expr Dec} {pwr : Nat} (h : ReadsAt toks e' pwr) :
    ReadsPrim (.lp :: toks ++ [.rp]) (setParen e') := by
  intro m rest ef rf hc
  have h0 : R .full (toks ++ .rp :: rest) 0 e' (.rp :: rest) :=
    h 0 (.rp :: rest) e' (.rp :: rest) (by omega) (fun hf => hf) (fun o tl he => by cases he)
      (.stop _ _ _ (fun o tl he => by cases he))
  have := R.full (R.paren m h0) hc
  simpa using this

theorem readsPrim_func (f : Func) {toks : List (Tok Dec)} {e' : Expr Dec} {pwr : Nat}
    (h : ReadsAt toks e' pwr) : ReadsPrim (.func f :: .lp :: toks ++ [.rp]) (.func f (setParen e')) := by
  intro m rest ef rf hc
  have h0 : R .full (toks ++ .rp :: rest) 0 e' (.rp :: rest) :=
    h 0 (.rp :: rest) e' (.rp :: rest) (by omega) (fun hf => hf) (fun o tl he => by cases he)
      (.stop _ _ _ (fun o tl he => by cases he))
  have := R.full (R.func f m h0) hc
  simpa using this

theorem readsPrim_post {toks : List (Tok Dec)} {e' : Expr Dec} (h : ReadsPrim toks e') :
    ReadsPrim (toks ++ [.op .fac]) (.post .fac e') := by
  intro m rest ef rf hc
  have := h m (.op .fac :: rest) ef rf (by rw [postfixLoop_fac]; exact hc)
  simpa using this

/-- a binary node: left operand at least as tight as the operator, right operand strictly tighter -/
theorem readsAt_binop {o : Op} (ho1 : o ≠ .cdot) (ho2 : o ≠ .fac)
    {tl tr : List (Tok Dec)} {el er : Expr Dec} {pl pr : Nat}
    (hl : ReadsAt tl el pl) (hpl : 2 * bp o ≤ pl) (hr : ReadsAt tr er pr) (hpr : 2 * bp o + 1 ≤ pr) :
    ReadsAt (tl ++ .op o :: tr) (.bin o el er false) (2 * bp o) := by
  intro m rest ef rf hm hfac hop hc
  have hrhs : R .full (tr ++ rest) (bp o + 1) er rest :=
    hr (bp o + 1) rest er rest (by omega) hfac (fun o' tl' he => by have := hop o' tl' he; omega)
      (loop_stops _ _ _ fun o' tl' he => by have := hop o' tl' he; omega)
  have hstep : R (.loop el) (.op o :: (tr ++ rest)) m ef rf := by
    refine R.step (by omega) hrhs ?_
    rw [if_neg ho1]; exact hc
  have := hl m (.op o :: (tr ++ rest)) ef rf (by omega)
    (by intro hf; cases o <;> first | exact hf | exact ho2 rfl)
    (fun o' tl' he => by cases he; exact hpl) hstep
  simpa using this

/-- a juxtaposition `a·tr` of an atom with an operand at least as tight as `^` -/
theorem readsAt_juxt {a : Tok Dec} {ea : Expr Dec} (ha : ∀ rest m, R .pre (a :: rest) m ea rest)
    {tr : List (Tok Dec)} {er : Expr Dec} {pr : Nat} (hr : ReadsAt tr er pr) (hpr : 10 ≤ pr) :
    ReadsAt (a :: .op .cdot :: tr) (.bin .mul ea er false) 8 := by
  obtain ⟨-, -, -, -, -, hcdot, -, -, -⟩ := bp_vals
  intro m rest ef rf hm hfac hop hc
  have hrhs : R .full (tr ++ rest) (bp .cdot + 1) er rest :=
    hr (bp .cdot + 1) rest er rest (by omega) hfac (fun o' tl' he => by have := hop o' tl' he; omega)
      (loop_stops _ _ _ fun o' tl' he => by have := hop o' tl' he; omega)
  have hstep : R (.loop ea) (.op .cdot :: (tr ++ rest)) m ef rf := by
    refine R.step (by omega) hrhs ?_
    rw [if_pos rfl]; exact hc
  have hpf : postfixLoop ea (.op .cdot :: (tr ++ rest)) = (ea, .op .cdot :: (tr ++ rest)) :=
    postfixLoop_of_not_headFac _ (fun hf => hf)
  have := R.full (ha (.op .cdot :: (tr ++ rest)) m) (by rw [hpf]; exact hstep)
  simpa using this

/-- unary minus: the operand is read at minimum power `max 3 m` -/
theorem readsAt_neg {tv : List (Tok Dec)} {ev : Expr Dec} {pv : Nat} (hv : ReadsAt tv ev pv) (hpv : 5 ≤ pv) :
    ReadsAt (.op .sub :: tv) (.pre .sub ev) 5 := by
  obtain ⟨-, -, -, -, -, -, -, -, hun⟩ := bp_vals
  intro m rest ef rf hm hfac hop hc
  have hmax : max SV.Gen.unaryMinPow m = 3 := by omega
  have hoper : R .full (tv ++ rest) (max SV.Gen.unaryMinPow m) ev rest := by
    rw [hmax]
    exact hv 3 rest ev rest (by omega) hfac (fun o' tl' he => by have := hop o' tl' he; omega)
      (loop_stops _ _ _ fun o' tl' he => by have := hop o' tl' he; omega)
  have := R.full (R.neg hoper) (by rw [postfixLoop_of_not_headFac _ hfac]; exact hc)
  simpa using this


theorem readsPrim_atom {a : Tok Dec} {ea : Expr Dec} (ha : ∀ rest m, R .pre (a :: rest) m ea rest) :
    ReadsPrim [a] ea := fun m rest _ _ hc => R.full (ha rest m) hc

theorem inf_eq : inf = 1000 := rfl

theorem reads_wrapI {t : List Item} {e' : Expr Dec} {pw needed : Nat} (strict : Bool)
    (h : Reads (dot t) e' pw) (hn : needed < inf) :
    ∃ e'' P, norm e'' = norm e' ∧ ReadsAt (dot (wrapI t pw needed strict)) e'' P ∧ needed ≤ P ∧
      (strict = true → needed < P) := by
  unfold wrapI
  split
  · refine ⟨setParen e', inf, norm_setParen e', ?_, Nat.le_of_lt hn, fun _ => hn⟩
    rw [dot_par]
    exact (readsPrim_par h.readsAt).readsAt _
  · rename_i hw
    refine ⟨e', pw, rfl, h.readsAt, by omega, ?_⟩
    intro hs
    have : ¬ (pw = needed) := fun he => hw (Or.inr ⟨hs, he⟩)
    omega

theorem reads_wrapI_inf {t : List Item} {e' : Expr Dec} {pw : Nat} (h : Reads (dot t) e' pw) (hpw : pw ≤ inf) :
    ∃ e'', norm e'' = norm e' ∧ ReadsPrim (dot (wrapI t pw inf false)) e'' := by
  unfold wrapI
  split
  · refine ⟨setParen e', norm_setParen e', ?_⟩
    rw [dot_par]
    exact readsPrim_par h.readsAt
  · rename_i hw
    have : pw = inf := by omega
    refine ⟨e', rfl, ?_⟩
    unfold Reads at h
    rwa [if_pos this] at h

theorem reads_flag {body : List Item} {eb : Expr Dec} {P : Nat} (p : Bool) (h : ReadsAt (dot body) eb P)
    (hP : P ≠ inf) :
    ∃ e', norm e' = norm eb ∧ Reads (dot (if p then par body else body)) e' (if p then inf else P) := by
  cases p with
  | true =>
    refine ⟨setParen eb, norm_setParen eb, ?_⟩
    simp only [↓reduceIte, dot_par]
    exact (readsPrim_par h).reads _
  | false =>
    refine ⟨eb, rfl, ?_⟩
    simp only [Bool.false_eq_true, ↓reduceIte]
    unfold Reads
    rwa [if_neg hP]

theorem impliedI_cases (o : Op) (l r : Expr Dec) (tr : List Item) :
    impliedI o l r tr = none ∨
    (∃ n v, o = .mul ∧ l = .num n ∧ r = .var v) ∨
    (∃ n c, o = .mul ∧ l = .num n ∧ r = .const c) ∨
    (∃ n a b q, o = .mul ∧ l = .num n ∧ r = .bin .caret a b q ∧ startsNumI tr = false) ∨
    (∃ v n, o = .mul ∧ l = .var v ∧ r = .num n) ∨
    (∃ c n, o = .mul ∧ l = .const c ∧ r = .num n) ∨
    (∃ v n, o = .caret ∧ l = .var v ∧ r = .num n) ∨
    (∃ c n, o = .caret ∧ l = .const c ∧ r = .num n) := by
  unfold impliedI
  split
  · right; left; exact ⟨_, _, rfl, rfl, rfl⟩
  · right; right; left; exact ⟨_, _, rfl, rfl, rfl⟩
  · split
    · left; rfl
    · rename_i hs
      right; right; right; left; exact ⟨_, _, _, _, rfl, rfl, rfl, by simpa using hs⟩
  · right; right; right; right; left; exact ⟨_, _, rfl, rfl, rfl⟩
  · right; right; right; right; right; left; exact ⟨_, _, rfl, rfl, rfl⟩
  · right; right; right; right; right; right; left; exact ⟨_, _, rfl, rfl, rfl⟩
  · right; right; right; right; right; right; right; exact ⟨_, _, rfl, rfl, rfl⟩
  · left; rfl

theorem ri_pow_le (e : Expr Dec) : (ri e).2 ≤ inf := by
  cases e with
  | num | var | const | func | post => simp [ri]
  | pre => simp [ri, inf_eq]
  | bin o l r p =>
    have := bp_le o
    simp only [ri, inf_eq]
    split
    · omega
    · split <;> omega

theorem ri_pow_caret (a b : Expr Dec) (q : Bool) : 10 ≤ (ri (.bin .caret a b q)).2 := by
  obtain ⟨-, -, -, -, -, -, hcaret, -, -⟩ := bp_vals
  simp only [ri, inf_eq]
  split
  · omega
  · split
    · rename_i h; exact absurd h.2 (by decide)
    · omega

theorem ri_pow_not_bin {e : Expr Dec} (h : isBin e = false) : 5 ≤ (ri e).2 := by
  cases e with
  | num | var | const | func | post => simp [ri, inf_eq]
  | pre => simp [ri]
  | bin o l r p => simp [isBin] at h

/-- **The Pratt parser reads the displayed tokens of a well-formed tree back as the same tree** (up to
`paren` flags and the spelling of literals), in the continuation form `Reads`. -/
theorem reads_ri {e : Expr Dec} (h : Wf e) : ∃ e', norm e' = norm e ∧ Reads (dot (ri e).1) e' (ri e).2 := by
  obtain ⟨hadd, hsub, hmul, hdiv, hrem, hcdot, hcaret, hfac, hun⟩ := bp_vals
  induction h with
  | @num d hd =>
    refine ⟨.num (canon d), by simp [norm, canon_idem], ?_⟩
    simp only [ri, dot_cons_false, dot_nil]
    exact (readsPrim_atom fun rest m => R.num _ rest m).reads _
  | @var s hs =>
    refine ⟨.var s, rfl, ?_⟩
    simp only [ri, dot_cons_false, dot_nil]
    exact (readsPrim_atom fun rest m => R.var _ rest m).reads _
  | const c =>
    refine ⟨.const c, rfl, ?_⟩
    simp only [ri, dot_cons_false, dot_nil]
    exact (readsPrim_atom fun rest m => R.const _ rest m).reads _
  | @func f i hi ih =>
    obtain ⟨i', hn, hr⟩ := ih
    refine ⟨.func f (setParen i'), by simp [norm, norm_setParen, hn], ?_⟩
    simp only [ri, dot_cons_false, dot_append, dot_nil]
    exact (readsPrim_func f hr.readsAt).reads _
  | @pre v hv ih =>
    obtain ⟨v', hn, hr⟩ := ih
    have key : ∃ v'' P, norm v'' = norm v' ∧ 5 ≤ P ∧
        ReadsAt (dot (if isBin v then wrapI (ri v).1 (ri v).2 (2 * SV.Gen.unaryMinPow) false
          else (ri v).1)) v'' P := by
      cases hb : isBin v with
      | true =>
        obtain ⟨v'', P, h1, h2, h3, -⟩ := reads_wrapI false hr (needed := 2 * SV.Gen.unaryMinPow)
          (by rw [hun, inf_eq]; omega)
        exact ⟨v'', P, h1, by omega, by simpa using h2⟩
      | false =>
        exact ⟨v', (ri v).2, rfl, ri_pow_not_bin hb, by simpa using hr.readsAt⟩
    obtain ⟨v'', P, h1, h2, h3⟩ := key
    refine ⟨.pre .sub v'', by simp [norm, h1, hn], ?_⟩
    simp only [ri, dot_cons_false]
    unfold Reads
    rw [if_neg (by rw [inf_eq]; omega)]
    exact readsAt_neg h3 h2
  | @post v hv ih =>
    obtain ⟨v', hn, hr⟩ := ih
    obtain ⟨v'', h1, h2⟩ := reads_wrapI_inf hr (ri_pow_le v)
    refine ⟨.post .fac v'', by simp [norm, h1, hn], ?_⟩
    simp only [ri, dot_append, dot_cons_false, dot_nil]
    exact (readsPrim_post h2).reads _
  | @bin o l r p ho1 ho2 hl hr ihl ihr =>
    obtain ⟨l', hnl, hrl⟩ := ihl
    obtain ⟨r', hnr, hrr⟩ := ihr
    have hbp := bp_le o
    rcases impliedI_cases o l r (ri r).1 with hnone | ⟨n, v, rfl, rfl, rfl⟩ | ⟨n, c, rfl, rfl, rfl⟩ |
        ⟨n, a, b, q, rfl, rfl, rfl, hs⟩ | ⟨v, n, rfl, rfl, rfl⟩ | ⟨c, n, rfl, rfl, rfl⟩ |
        ⟨v, n, rfl, rfl, rfl⟩ | ⟨c, n, rfl, rfl, rfl⟩
    · -- the general form `l op r`
      obtain ⟨l'', Pl, h1l, h2l, h3l, -⟩ := reads_wrapI false hrl (needed := 2 * bp o) (by rw [inf_eq]; omega)
      obtain ⟨r'', Pr, h1r, h2r, h3r, h4r⟩ := reads_wrapI true hrr (needed := 2 * bp o) (by rw [inf_eq]; omega)
      have hb := readsAt_binop ho1 ho2 h2l h3l h2r (by have := h4r rfl; omega)
      obtain ⟨e', he1, he2⟩ := reads_flag p (body := wrapI (ri l).1 (ri l).2 (2 * bp o) false ++ [(.op o, false)] ++
        wrapI (ri r).1 (ri r).2 (2 * bp o) true) (by simpa using hb) (by rw [inf_eq]; omega)
      refine ⟨e', by simp [he1, norm, h1l, h1r, hnl, hnr], ?_⟩
      simpa only [ri, hnone, Option.isSome_none, Bool.false_eq_true, false_and, ↓reduceIte] using he2
    · -- `n v`
      have hb := readsAt_juxt (a := .num (canon n)) (fun rest m => R.num _ rest m)
        ((readsPrim_atom (a := .var v) fun rest m => R.var _ rest m).readsAt inf) (by rw [inf_eq]; omega)
      obtain ⟨e', he1, he2⟩ := reads_flag p (body := [(.num (canon n), true), (.var v, false)])
        (by simpa using hb) (by rw [inf_eq]; omega)
      refine ⟨e', by simp [he1, norm, canon_idem], ?_⟩
      simpa [ri, impliedI] using he2
    · -- `n c`
      have hb := readsAt_juxt (a := .num (canon n)) (fun rest m => R.num _ rest m)
        ((readsPrim_atom (a := .const c) fun rest m => R.const _ rest m).readsAt inf) (by rw [inf_eq]; omega)
      obtain ⟨e', he1, he2⟩ := reads_flag p (body := [(.num (canon n), true), (.const c, false)])
        (by simpa using hb) (by rw [inf_eq]; omega)
      refine ⟨e', by simp [he1, norm, canon_idem], ?_⟩
      simpa [ri, impliedI] using he2
    · -- `n` next to a power
      have hb := readsAt_juxt (a := .num (canon n)) (fun rest m => R.num _ rest m) hrr.readsAt
        (ri_pow_caret a b q)
      obtain ⟨e', he1, he2⟩ := reads_flag p (body := (.num (canon n), true) :: (ri (.bin .caret a b q)).1)
        (by simpa using hb) (by rw [inf_eq]; omega)
      refine ⟨e', by simp [he1, norm, canon_idem, hnr], ?_⟩
      have himp : impliedI .mul (.num n) (.bin .caret a b q) (ri (.bin .caret a b q)).1 =
          some ((.num (canon n), true) :: (ri (.bin .caret a b q)).1) := by
        simp only [impliedI, hs, Bool.false_eq_true, ↓reduceIte]
      rw [ri]
      simp only [himp, Option.isSome_some, and_self, ↓reduceIte]
      exact he2
    · -- `v n`
      have hb := readsAt_juxt (a := .var v) (fun rest m => R.var _ rest m)
        ((readsPrim_atom (a := .num (canon n)) fun rest m => R.num _ rest m).readsAt inf) (by rw [inf_eq]; omega)
      obtain ⟨e', he1, he2⟩ := reads_flag p (body := [(.var v, true), (.num (canon n), false)])
        (by simpa using hb) (by rw [inf_eq]; omega)
      refine ⟨e', by simp [he1, norm, canon_idem], ?_⟩
      simpa [ri, impliedI] using he2
    · -- `c n`
      have hb := readsAt_juxt (a := .const c) (fun rest m => R.const _ rest m)
        ((readsPrim_atom (a := .num (canon n)) fun rest m => R.num _ rest m).readsAt inf) (by rw [inf_eq]; omega)
      obtain ⟨e', he1, he2⟩ := reads_flag p (body := [(.const c, true), (.num (canon n), false)])
        (by simpa using hb) (by rw [inf_eq]; omega)
      refine ⟨e', by simp [he1, norm, canon_idem], ?_⟩
      simpa [ri, impliedI] using he2
    · -- `v^n`
      have hb := readsAt_binop (o := .caret) (by decide) (by decide)
        ((readsPrim_atom (a := .var v) fun rest m => R.var _ rest m).readsAt inf) (by rw [inf_eq]; omega)
        ((readsPrim_atom (a := .num (canon n)) fun rest m => R.num _ rest m).readsAt inf) (by rw [inf_eq]; omega)
      obtain ⟨e', he1, he2⟩ := reads_flag p
        (body := [(.var v, false), (.op .caret, false), (.num (canon n), false)])
        (by simpa using hb) (by rw [inf_eq]; omega)
      refine ⟨e', by simp [he1, norm, canon_idem], ?_⟩
      simpa [ri, impliedI] using he2
    · -- `c^n`
      have hb := readsAt_binop (o := .caret) (by decide) (by decide)
        ((readsPrim_atom (a := .const c) fun rest m => R.const _ rest m).readsAt inf) (by rw [inf_eq]; omega)
        ((readsPrim_atom (a := .num (canon n)) fun rest m => R.num _ rest m).readsAt inf) (by rw [inf_eq]; omega)
      obtain ⟨e', he1, he2⟩ := reads_flag p
        (body := [(.const c, false), (.op .caret, false), (.num (canon n), false)])
        (by simpa using hb) (by rw [inf_eq]; omega)
      refine ⟨e', by simp [he1, norm, canon_idem], ?_⟩
      simpa [ri, impliedI] using he2

end SV.C19
