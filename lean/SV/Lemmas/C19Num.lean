import SV.Lemmas.Text
import SV.Lemmas.C19Print
/-!
Lemmas for C19: the lexer reads the printed form `fmtDec d` of an unsigned literal back as the
canonical decimal `canon d`.
-/
namespace SV.C19
open SV SV.Text

theorem digitVal_lt {c : Char} (h : isAsciiDigit c = true) : digitVal c < 10 := by
  have := (isAsciiDigit_iff c).mp h
  unfold digitVal
  have : '0'.toNat = 48 := rfl
  omega

theorem digitVal_eq_zero {c : Char} (h : isAsciiDigit c = true) : digitVal c = 0 ↔ c = '0' := by
  have := (isAsciiDigit_iff c).mp h
  have h0 : '0'.toNat = 48 := rfl
  constructor
  · intro hz
    apply Char.toNat_inj.mp
    unfold digitVal at hz
    omega
  · rintro rfl; rfl

theorem digitsVal_snoc (l : List Char) (c : Char) : digitsVal (l ++ [c]) = digitsVal l * 10 + digitVal c := by
  rw [digitsVal_append]
  simp [digitsVal]

theorem canonGo_digits_rev (ip r : List Char) (hr : ∀ c ∈ r, isAsciiDigit c = true) :
    canonGo (digitsVal (ip ++ r.reverse)) r.length =
      (digitsVal (ip ++ (r.dropWhile (· = '0')).reverse), (r.dropWhile (· = '0')).length) := by
  induction r with
  | nil => simp [canonGo]
  | cons c r ih =>
    have hc := hr c (by simp)
    have hlt := digitVal_lt hc
    have hM : digitsVal (ip ++ (c :: r).reverse) = digitsVal (ip ++ r.reverse) * 10 + digitVal c := by
      rw [List.reverse_cons, ← List.append_assoc, digitsVal_snoc]
    rw [List.length_cons, canonGo, hM]
    by_cases h0 : c = '0'
    · subst h0
      have : (digitsVal (ip ++ r.reverse) * 10 + digitVal '0') % 10 = 0 := by
        have : digitVal '0' = 0 := rfl
        omega
      rw [if_pos this]
      have hdiv : (digitsVal (ip ++ r.reverse) * 10 + digitVal '0') / 10 = digitsVal (ip ++ r.reverse) := by
        have : digitVal '0' = 0 := rfl
        omega
      rw [hdiv, ih fun c hc => hr c (List.mem_cons_of_mem _ hc)]
      simp
    · have hnz : digitVal c ≠ 0 := fun h => h0 ((digitVal_eq_zero hc).mp h)
      have : ¬ (digitsVal (ip ++ r.reverse) * 10 + digitVal c) % 10 = 0 := by omega
      rw [if_neg this]
      have hdw : (c :: r).dropWhile (· = '0') = c :: r := by
        rw [List.dropWhile_cons_of_neg (by simpa using h0)]
      rw [hdw, hM]
      simp

/-- drop the trailing `'0'`s -/
def stripZ (l : List Char) : List Char := (l.reverse.dropWhile (· = '0')).reverse

theorem canonGo_digits (ip fp : List Char) (hfp : ∀ c ∈ fp, isAsciiDigit c = true) :
    canonGo (digitsVal (ip ++ fp)) fp.length = (digitsVal (ip ++ stripZ fp), (stripZ fp).length) := by
  have := canonGo_digits_rev ip fp.reverse (fun c hc => hfp c (List.mem_reverse.mp hc))
  simpa [stripZ] using this

theorem stripZ_digits {fp : List Char} (hfp : ∀ c ∈ fp, isAsciiDigit c = true) :
    ∀ c ∈ stripZ fp, isAsciiDigit c = true := by
  intro c hc
  unfold stripZ at hc
  rw [List.mem_reverse] at hc
  exact hfp c (List.mem_reverse.mp ((List.dropWhile_sublist _).subset hc))

theorem digitsVal_replicate_zero (k : Nat) (ds : List Char) :
    digitsVal (List.replicate k '0' ++ ds) = digitsVal ds := by
  induction k with
  | zero => simp
  | succ n ih =>
    rw [List.replicate_succ, List.cons_append]
    unfold digitsVal at ih ⊢
    rw [List.foldl_cons]
    have : 0 * 10 + digitVal '0' = 0 := rfl
    rw [this]; exact ih

theorem digitsVal_toDigits (m : Nat) : digitsVal (Nat.toDigits 10 m) = m := by
  have h := Nat.ofDigitChars_ten_toDigits (n := m)
  rw [Nat.ofDigitChars_eq_foldl] at h
  unfold digitsVal
  have : (fun acc c => acc * 10 + digitVal c) = fun sofar (c : Char) => 10 * sofar + (c.toNat - '0'.toNat) := by
    funext a c; unfold digitVal; rw [Nat.mul_comm]
  rw [this]; exact h

theorem toDigits_digits (m : Nat) : ∀ c ∈ Nat.toDigits 10 m, isAsciiDigit c = true := by
  intro c hc
  have := Nat.isDigit_of_mem_toDigits (by decide) (by decide) hc
  rw [isAsciiDigit_iff]
  simp only [Char.isDigit, ge_iff_le, Bool.and_eq_true, decide_eq_true_eq] at this
  have h0 : ('0' : Char).val = 48 := rfl
  have h9 : ('9' : Char).val = 57 := rfl
  rw [h0, h9] at this
  have h1 : (48 : UInt32) ≤ c.val := this.1
  have h2 : c.val ≤ (57 : UInt32) := this.2
  rw [UInt32.le_iff_toNat_le] at h1 h2
  exact ⟨h1, h2⟩

/-- The printed form of an unsigned literal is a plain decimal whose `parseUDec` value is the canonical
decimal. -/
theorem fmtDec_spec (d : Dec) (hd : d.neg = false) :
    ∃ u : UDec, u.WF ∧ u.ip ≠ [] ∧ (fmtDec d).toList = u.render ∧
      (u.mant, u.fp.length) = canonGo d.mant d.scale := by
  have hnum : ((toString d.mant).toList) = Nat.toDigits 10 d.mant := by
    simp
  set digits := Nat.toDigits 10 d.mant with hdigits
  set padded := List.replicate (d.scale + 1 - digits.length) '0' ++ digits with hpadded
  have hpl : d.scale + 1 ≤ padded.length := by
    rw [hpadded, List.length_append, List.length_replicate]; omega
  have hpd : ∀ c ∈ padded, isAsciiDigit c = true := by
    intro c hc
    rcases List.mem_append.mp hc with h | h
    · rw [List.mem_replicate] at h; rw [h.2]; rfl
    · exact toDigits_digits _ c h
  set ip := padded.take (padded.length - d.scale) with hip
  set fpr := padded.drop (padded.length - d.scale) with hfpr
  have hsplit : ip ++ fpr = padded := List.take_append_drop _ _
  have hipd : ∀ c ∈ ip, isAsciiDigit c = true := fun c hc => hpd c (List.mem_of_mem_take hc)
  have hfpd : ∀ c ∈ fpr, isAsciiDigit c = true := fun c hc => hpd c (List.mem_of_mem_drop hc)
  have hipne : ip ≠ [] := by
    intro h
    have : ip.length = padded.length - d.scale := by rw [hip, List.length_take]; omega
    rw [h] at this; simp at this; omega
  have hfplen : fpr.length = d.scale := by rw [hfpr, List.length_drop]; omega
  have hval : digitsVal (ip ++ fpr) = d.mant := by
    rw [hsplit, hpadded, digitsVal_replicate_zero, digitsVal_toDigits]
  refine ⟨⟨ip, stripZ fpr, !(stripZ fpr).isEmpty⟩, ⟨hipd, stripZ_digits hfpd, Or.inl hipne, ?_⟩, hipne, ?_, ?_⟩
  · intro h; simpa using h
  · unfold fmtDec
    simp only [hd, Bool.false_eq_true, false_and, ↓reduceIte, String.toList_append, String.toList_ofList]
    rw [hnum]
    show ([] : List Char) ++ (if stripZ fpr = [] then ip else ip ++ ['.'] ++ stripZ fpr) = _
    unfold UDec.render
    by_cases hs : stripZ fpr = []
    · simp [hs]
    · simp [hs]
  · show (digitsVal (ip ++ stripZ fpr), (stripZ fpr).length) = _
    rw [← hval, ← hfplen, canonGo_digits ip fpr hfpd]

end SV.C19
