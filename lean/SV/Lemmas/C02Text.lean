import SV.Model.C02
import Mathlib.Data.Rat.Defs
import Mathlib.Algebra.Order.Field.Rat
import Mathlib.Tactic.Ring
/-!
Text-level lemmas used by the grammar half of C02 (`parse_render_inter`).  Everything lives in the
namespace `SV.C02` so that it cannot clash with `SV.Lemmas.Text` (which belongs to C01):

* ASCII character facts (`isAsciiDigit_iff`, `isAsciiLetter_iff`, a letter is not a digit nor one of `. / - + ^`)
* `Sane cc`            the facts about the Unicode classes the multivariate proofs use; `stdClass_sane`
* `splitOn`            `splitOn_of_not_mem`, `splitOn_append`, `splitOn_join`
* `decVal`, `numVal`   exact rational value of a decimal spelling / of a `Num` expression
* `UDec`               unsigned plain decimal spelling `digits`, `digits.`, `.digits`, `digits.digits`;
                       `parseUDec_render`, `parseSignedDec_render`, `parseFraction_render`
-/
namespace SV.C02
open SV SV.Text

/-! ### ASCII characters -/

theorem isAsciiDigit_iff (c : Char) : isAsciiDigit c = true ↔ 48 ≤ c.toNat ∧ c.toNat ≤ 57 := by
  simp only [isAsciiDigit, Bool.and_eq_true, decide_eq_true_eq, Char.le_def]
  rfl

theorem isAsciiLetter_iff (c : Char) :
    isAsciiLetter c = true ↔ (97 ≤ c.toNat ∧ c.toNat ≤ 122) ∨ (65 ≤ c.toNat ∧ c.toNat ≤ 90) := by
  simp only [isAsciiLetter, Bool.or_eq_true, Bool.and_eq_true, decide_eq_true_eq, Char.le_def]
  rfl

theorem letter_not_digit {c : Char} (h : isAsciiLetter c = true) : isAsciiDigit c = false := by
  cases hd : isAsciiDigit c with
  | false => rfl
  | true =>
    have h1 := (isAsciiLetter_iff c).1 h
    have h2 := (isAsciiDigit_iff c).1 hd
    omega

theorem letter_ne_dot {c : Char} (h : isAsciiLetter c = true) : c ≠ '.' := by
  rintro rfl; revert h; decide
theorem letter_ne_slash {c : Char} (h : isAsciiLetter c = true) : c ≠ '/' := by
  rintro rfl; revert h; decide
theorem letter_ne_dash {c : Char} (h : isAsciiLetter c = true) : c ≠ '-' := by
  rintro rfl; revert h; decide
theorem letter_ne_plus {c : Char} (h : isAsciiLetter c = true) : c ≠ '+' := by
  rintro rfl; revert h; decide
theorem letter_ne_caret {c : Char} (h : isAsciiLetter c = true) : c ≠ '^' := by
  rintro rfl; revert h; decide

theorem digit_ne_dot {c : Char} (h : isAsciiDigit c = true) : c ≠ '.' := by
  rintro rfl; revert h; decide
theorem digit_ne_slash {c : Char} (h : isAsciiDigit c = true) : c ≠ '/' := by
  rintro rfl; revert h; decide
theorem digit_ne_dash {c : Char} (h : isAsciiDigit c = true) : c ≠ '-' := by
  rintro rfl; revert h; decide
theorem digit_ne_plus {c : Char} (h : isAsciiDigit c = true) : c ≠ '+' := by
  rintro rfl; revert h; decide
theorem digit_ne_caret {c : Char} (h : isAsciiDigit c = true) : c ≠ '^' := by
  rintro rfl; revert h; decide

/-! ### character classes -/

/-- The facts about the Unicode predicates (`char::is_numeric`, `char::is_whitespace`) that the
multivariate parser proofs rely on.  The first two are what acceptance needs (the coefficient scan
takes ASCII digits and stops at a letter); the last three say that no character of a rendering is
white space, so that `stripWs` leaves a rendering alone. -/
structure Sane (cc : CharClass) : Prop where
  digit_numeric : ∀ c, isAsciiDigit c = true → cc.isNumeric c = true
  letter_not_numeric : ∀ c, isAsciiLetter c = true → cc.isNumeric c = false
  digit_not_ws : ∀ c, isAsciiDigit c = true → cc.isWs c = false
  letter_not_ws : ∀ c, isAsciiLetter c = true → cc.isWs c = false
  sym_not_ws : cc.isWs '.' = false ∧ cc.isWs '/' = false ∧ cc.isWs '-' = false ∧
    cc.isWs '+' = false ∧ cc.isWs '^' = false

theorem stdClass_isWs (c : Char) (h : stdClass.isWs c = true) : c.toNat ≤ 32 ∨ c.toNat > 127 := by
  simp only [stdClass, asciiWs, tableWs, Bool.or_eq_true, decide_eq_true_eq, List.contains_eq_mem,
    List.mem_cons, List.not_mem_nil, or_false] at h
  rcases h with ((((((rfl | rfl) | rfl) | rfl) | rfl) | rfl) | rfl) | rfl | rfl | rfl | rfl <;> decide

theorem mem_tableNumeric (c : Char) (h : tableNumeric.contains c = true) : c.toNat > 127 := by
  simp only [tableNumeric, List.contains_eq_mem, List.mem_cons, List.not_mem_nil, or_false,
    decide_eq_true_eq] at h
  rcases h with rfl | rfl | rfl <;> decide

/-- the driver's character classes satisfy `Sane` -/
theorem stdClass_sane : Sane stdClass where
  digit_numeric c h := by simp [stdClass, h]
  letter_not_numeric c h := by
    cases hn : stdClass.isNumeric c with
    | false => rfl
    | true =>
      simp only [stdClass, Bool.or_eq_true] at hn
      have h1 := (isAsciiLetter_iff c).1 h
      rcases hn with hn | hn
      · rw [letter_not_digit h] at hn; cases hn
      · have := mem_tableNumeric c hn; omega
  digit_not_ws c h := by
    have h1 := (isAsciiDigit_iff c).1 h
    cases hd : stdClass.isWs c with
    | false => rfl
    | true => have := stdClass_isWs c hd; omega
  letter_not_ws c h := by
    have h1 := (isAsciiLetter_iff c).1 h
    cases hd : stdClass.isWs c with
    | false => rfl
    | true => have := stdClass_isWs c hd; omega
  sym_not_ws := by decide

theorem stripWs_eq_self {cc : CharClass} {s : List Char} (h : ∀ c ∈ s, cc.isWs c = false) :
    stripWs cc s = s := by
  unfold stripWs
  apply List.filter_eq_self.2
  intro c hc
  simp [h c hc]

/-! ### `splitOn` -/

theorem splitOn_ne_nil (sep : Char) (s : List Char) : splitOn sep s ≠ [] := by
  induction s with
  | nil => simp [splitOn]
  | cons c cs ih =>
    unfold splitOn
    split
    · simp
    · split <;> simp

theorem splitOn_of_not_mem {sep : Char} {q : List Char} (h : sep ∉ q) : splitOn sep q = [q] := by
  induction q with
  | nil => rfl
  | cons c cs ih =>
    have hc : c ≠ sep := by intro e; apply h; simp [e]
    have hcs : sep ∉ cs := by intro e; apply h; simp [e]
    simp [splitOn, hc, ih hcs]

theorem splitOn_append {sep : Char} {q : List Char} (r : List Char) (h : sep ∉ q) :
    splitOn sep (q ++ sep :: r) = q :: splitOn sep r := by
  induction q with
  | nil => simp [splitOn]
  | cons c cs ih =>
    have hc : c ≠ sep := by intro e; apply h; simp [e]
    have hcs : sep ∉ cs := by intro e; apply h; simp [e]
    simp [splitOn, hc, ih hcs]

/-- pieces free of the separator, joined by it, split back into exactly those pieces -/
theorem splitOn_join {sep : Char} (q : List Char) (qs : List (List Char)) (hq : sep ∉ q)
    (h : ∀ r ∈ qs, sep ∉ r) :
    splitOn sep (q ++ qs.flatMap fun r => sep :: r) = q :: qs := by
  induction qs generalizing q with
  | nil => simpa using splitOn_of_not_mem hq
  | cons r rs ih =>
    have hr : sep ∉ r := h r (by simp)
    have hrs : ∀ r' ∈ rs, sep ∉ r' := fun r' hr' => h r' (by simp [hr'])
    simp only [List.flatMap_cons, List.cons_append]
    rw [splitOn_append _ hq, ih r hr hrs]

/-! ### values -/

/-- exact value `(-1)^neg · mant / 10^scale` of a decimal spelling -/
def decVal (d : Dec) : ℚ := (if d.neg then -1 else 1) * (d.mant : ℚ) / (10 : ℚ) ^ d.scale

/-- exact value of a `Num` expression (the `f64` operations read as exact operations; `/` is the
division of ℚ, the parser only forms `a / b` with `b ≠ 0`) -/
def numVal : Num → ℚ
  | .dec d => decVal d
  | .div a b => numVal a / numVal b
  | .add a b => numVal a + numVal b

@[simp] theorem numVal_one : numVal Num.one = 1 := by simp [Num.one, numVal, decVal]
@[simp] theorem numVal_negOne : numVal Num.negOne = -1 := by simp [Num.negOne, numVal, decVal]

/-! ### plain decimal spellings -/

/-- unsigned plain decimal spelling: integer digits, optionally a `.` and fraction digits -/
structure UDec where
  ip : List Char
  fp : List Char
  dot : Bool

/-- the spelling is `digits`, `digits.`, `.digits` or `digits.digits` with at least one digit -/
structure UDec.WF (u : UDec) : Prop where
  ip_digits : ∀ c ∈ u.ip, isAsciiDigit c = true
  fp_digits : ∀ c ∈ u.fp, isAsciiDigit c = true
  some_digit : u.ip ≠ [] ∨ u.fp ≠ []
  no_dot : u.dot = false → u.fp = []

def UDec.render (u : UDec) : List Char := u.ip ++ (if u.dot then '.' :: u.fp else [])

/-- all digits read as one integer -/
def UDec.mant (u : UDec) : Nat := digitsVal (u.ip ++ u.fp)

/-- the number the spelling denotes: all digits read as one integer, over `10^(number of fraction digits)` -/
def UDec.value (u : UDec) : ℚ := (u.mant : ℚ) / (10 : ℚ) ^ u.fp.length

theorem digitsVal_foldl (x : Nat) (b : List Char) :
    List.foldl (fun acc c => acc * 10 + digitVal c) x b = x * 10 ^ b.length + digitsVal b := by
  unfold digitsVal
  induction b generalizing x with
  | nil => simp
  | cons c cs ih =>
    rw [List.foldl_cons, ih, List.foldl_cons, ih (0 * 10 + digitVal c), List.length_cons]
    ring

theorem digitsVal_append (a b : List Char) :
    digitsVal (a ++ b) = digitsVal a * 10 ^ b.length + digitsVal b := by
  rw [digitsVal, List.foldl_append, digitsVal_foldl]
  rfl

/-- … which is integer part + fraction part / 10^(number of fraction digits) -/
theorem UDec.value_eq (u : UDec) :
    u.value = (digitsVal u.ip : ℚ) + (digitsVal u.fp : ℚ) / (10 : ℚ) ^ u.fp.length := by
  unfold UDec.value UDec.mant
  rw [digitsVal_append]
  have : ((10 : ℚ) ^ u.fp.length) ≠ 0 := pow_ne_zero _ (by norm_num)
  push_cast
  rw [add_div, mul_div_assoc, div_self this, mul_one]

theorem UDec.render_ne_nil {u : UDec} (hu : u.WF) : u.render ≠ [] := by
  unfold UDec.render
  rcases hu.some_digit with h | h
  · simp [h]
  · have : u.dot = true := by
      cases hd : u.dot with
      | true => rfl
      | false => exact absurd (hu.no_dot hd) h
    simp [this]

/-- every character of the spelling is an ASCII digit or `.` -/
theorem UDec.mem_render {u : UDec} (hu : u.WF) {c : Char} (hc : c ∈ u.render) :
    isAsciiDigit c = true ∨ c = '.' := by
  unfold UDec.render at hc
  rcases List.mem_append.1 hc with h | h
  · exact Or.inl (hu.ip_digits c h)
  · cases hd : u.dot with
    | false => rw [hd] at h; simp at h
    | true =>
      rw [hd] at h
      simp only [if_true, List.mem_cons] at h
      rcases h with h | h
      · exact Or.inr h
      · exact Or.inl (hu.fp_digits c h)

theorem UDec.slash_not_mem {u : UDec} (hu : u.WF) : '/' ∉ u.render := by
  intro h
  rcases UDec.mem_render hu h with h | h
  · exact digit_ne_slash h rfl
  · exact absurd h (by decide)

theorem UDec.dash_not_mem {u : UDec} (hu : u.WF) : '-' ∉ u.render := by
  intro h
  rcases UDec.mem_render hu h with h | h
  · exact digit_ne_dash h rfl
  · exact absurd h (by decide)

theorem UDec.plus_not_mem {u : UDec} (hu : u.WF) : '+' ∉ u.render := by
  intro h
  rcases UDec.mem_render hu h with h | h
  · exact digit_ne_plus h rfl
  · exact absurd h (by decide)

theorem UDec.caret_not_mem {u : UDec} (hu : u.WF) : '^' ∉ u.render := by
  intro h
  rcases UDec.mem_render hu h with h | h
  · exact digit_ne_caret h rfl
  · exact absurd h (by decide)

theorem all_digits {s : List Char} (h : ∀ c ∈ s, isAsciiDigit c = true) : s.all isAsciiDigit = true :=
  List.all_eq_true.2 h

/-- the spelling reads back to its value -/
theorem parseUDec_render {u : UDec} (hu : u.WF) : parseUDec u.render = some (u.mant, u.fp.length) := by
  have hip : '.' ∉ u.ip := fun h => digit_ne_dot (hu.ip_digits _ h) rfl
  have hfp : '.' ∉ u.fp := fun h => digit_ne_dot (hu.fp_digits _ h) rfl
  unfold parseUDec UDec.render UDec.mant
  cases hd : u.dot with
  | false =>
    have hfp0 := hu.no_dot hd
    have hne : u.ip ≠ [] := by
      rcases hu.some_digit with h | h
      · exact h
      · exact absurd hfp0 h
    simp only [Bool.false_eq_true, if_false, List.append_nil, splitOn_of_not_mem hip, hfp0]
    rw [if_pos ⟨hne, all_digits hu.ip_digits⟩]
    rfl
  | true =>
    simp only [if_true, splitOn_append _ hip, splitOn_of_not_mem hfp]
    rw [if_pos ⟨hu.some_digit, all_digits hu.ip_digits, all_digits hu.fp_digits⟩]

/-- the optional sign of a signed spelling -/
def signChars (neg : Bool) : List Char := if neg then ['-'] else []

theorem UDec.head_ne_dash {u : UDec} (hu : u.WF) : ∀ rest, u.render ≠ '-' :: rest := by
  intro rest e
  have : '-' ∈ u.render := by rw [e]; simp
  exact UDec.dash_not_mem hu this

/-- an optionally signed spelling reads back to sign and value -/
theorem parseSignedDec_render {u : UDec} (hu : u.WF) (neg : Bool) :
    parseSignedDec (signChars neg ++ u.render) = some ⟨neg, u.mant, u.fp.length⟩ := by
  cases neg with
  | true =>
    simp only [signChars, if_true, List.cons_append, List.nil_append, parseSignedDec,
      parseUDec_render hu]
  | false =>
    simp only [signChars, Bool.false_eq_true, if_false, List.nil_append]
    unfold parseSignedDec
    split
    rename_i neg' body heq
    split at heq
    · rename_i rest' heq2
      exact absurd heq2 (UDec.head_ne_dash hu rest')
    · cases heq
      simp only [parseUDec_render hu]

/-- `a/b` with an optionally signed numerator and a non-zero denominator reads back to the quotient -/
theorem parseFraction_render {a b : UDec} (ha : a.WF) (hb : b.WF) (hb0 : b.mant ≠ 0) (neg : Bool) :
    parseFraction (signChars neg ++ a.render ++ '/' :: b.render) =
      some (.div (.dec ⟨neg, a.mant, a.fp.length⟩) (.dec ⟨false, b.mant, b.fp.length⟩)) := by
  have h1 : '/' ∉ signChars neg ++ a.render := by
    intro h
    rcases List.mem_append.1 h with h | h
    · cases neg <;> simp [signChars] at h
    · exact UDec.slash_not_mem ha h
  have hb' : parseSignedDec b.render = some ⟨false, b.mant, b.fp.length⟩ := by
    simpa [signChars] using parseSignedDec_render hb false
  unfold parseFraction
  rw [splitOn_append _ h1, splitOn_of_not_mem (UDec.slash_not_mem hb)]
  simp only [parseSignedDec_render ha neg, hb']
  simp [Dec.isZero, hb0]

/-- value of a signed decimal as the parser builds it -/
theorem decVal_mk (neg : Bool) (u : UDec) :
    decVal ⟨neg, u.mant, u.fp.length⟩ = (if neg then -1 else 1) * u.value := by
  unfold decVal UDec.value
  simp only
  rw [mul_div_assoc]

end SV.C02
