import SV.Model.Poly
import SV.Lemmas.Rounding
import SV.Lemmas.RoundingPoly
import SV.Lemmas.RoundingNearest
import SV.Props.C01
/-!
# C01, rounding half — "`eval` equals `Σ c_k x^k` up to floating-point rounding", as a theorem

`SV.Props.C01.eval_eq_sum` proves `evalSimple cs x = Σ_k c_k x^k` over every field (rounding error
0).  Here **the same definition** `SV.Poly.evalSimple` (the model of `eval_simple_polynomial`:
`coeffs.iter().enumerate().map(|(i,c)| c * x.powi(i)).sum()`) is run at the rounding scalar `Fl M`
of `SV.Lemmas.Rounding`, where every `+`, `×` is the exact real operation followed by a rounding
with relative error `≤ u`.

What the model does, counted (`n = cs.len() = degree + 1`): term `k` is `c_k * x.powi(k)`;
`powi` is compiler-rt's square-and-multiply loop (`powiLoop`), whose result carries **exactly `k`**
rounding factors (`SV.Poly.powiLoop_fac`: fewer multiplications than repeated multiplication —
at most `2·⌊log₂ k⌋ + 2` — but the rounding of a squaring is squared again later; the count comes
out at `k`, not `2·k`); then one multiplication by `c_k` and the `n − k` additions of the
left-to-right sum from `0`.  Every term therefore carries `k + 1 + (n − k) = n + 1` rounding
factors, and the constant is `γ_m` with

    m = n + 1 = degree + 2.

For binary64 `u = 2⁻⁵³`, so `γ_m ≈ (degree + 2)·1.1·10⁻¹⁶`.  The bound is relative to
`Σ |c_k|·|x|^k`, not to `|p(x)|`: near a root the *relative* error of `p(x)` is unbounded, as it
must be.  NOT covered: overflow (`x^k` beyond `1.8·10³⁰⁸`), underflow (a term or a power in the
subnormal range loses relative accuracy — for `|x| < 1` and large `k` this does happen), NaN/∞, and
the decimal→binary conversion of the coefficients by the parser (one more relative error `≤ u` per
coefficient, see `SV.Props.C01.parse_means` for what the coefficients are).
-/
namespace SV.Props.C01Rounding
open SV SV.Poly Finset

variable {M : FlModel}

/-- the model elaborates at the rounding scalar with no change -/
noncomputable example (cs : List (Fl M)) (x : Fl M) : Fl M := evalSimple cs x

/-- `x.powi(k)`, `k ≥ 0`, in floating point: `x^k·(1 + θ)`, `|θ| ≤ γ_k`. -/
theorem powi_rounding (x : Fl M) (k : ℕ) (hu : (k : ℝ) * M.u < 1) :
    |(powi x (k : Int)).val - x.val ^ k| ≤ M.gamma k * |x.val| ^ k := by
  obtain ⟨t, ht, hv⟩ := powi_nat_fac x k
  rw [hv, show x.val ^ k * t - x.val ^ k = (t - 1) * x.val ^ k by ring, abs_mul, abs_pow]
  exact mul_le_mul_of_nonneg_right (ht.abs_sub_one_le hu) (by positivity)

/-- **Componentwise weights.**  The computed value is `Σ_k c_k·x^k·t_k`, every `t_k` a product of
at most `n + 1` rounding factors (`n = cs.length`). -/
theorem eval_weights (cs : List (Fl M)) (x : Fl M) :
    ∃ t : ℕ → ℝ, (∀ k, k < cs.length → M.Fac (cs.length + 1) (t k)) ∧
      (evalSimple cs x).val = ∑ k ∈ range cs.length, (cs.getD k 0).val * x.val ^ k * t k := by
  obtain ⟨t0, t, _, ht, hval⟩ := evalSimpleFrom_weights x cs 0 (0 : Fl M)
  refine ⟨t, fun k hk => by simpa using ht k hk, ?_⟩
  unfold evalSimple
  rw [hval]
  simp

/-- **(D), backward form.**  If `(n+1)·u < 1`, the computed value is the *exact* value at `x` of a
polynomial whose coefficients are relative perturbations `c_k·(1 + θ_k)`, `|θ_k| ≤ γ_{n+1}`, of the
given ones. -/
theorem eval_backward (cs : List (Fl M)) (x : Fl M) (hu : ((cs.length + 1 : ℕ) : ℝ) * M.u < 1) :
    ∃ θ : ℕ → ℝ, (∀ k, |θ k| ≤ M.gamma (cs.length + 1)) ∧
      (evalSimple cs x).val
        = ∑ k ∈ range cs.length, ((cs.getD k 0).val * (1 + θ k)) * x.val ^ k := by
  obtain ⟨t, ht, hval⟩ := eval_weights cs x
  obtain ⟨θ, hθ, hte⟩ := weights_to_theta cs.length (cs.length + 1) t ht hu
  refine ⟨θ, hθ, ?_⟩
  rw [hval]
  exact Finset.sum_congr rfl fun k hk => by rw [hte k (by simpa using hk)]; ring

/-- **(D), forward form — the rounding clause of property C01.**  If `(n+1)·u < 1`
(`n = cs.length = degree + 1`),
`|eval(cs, x) − Σ_k c_k x^k| ≤ γ_{n+1} · Σ_k |c_k|·|x|^k`. -/
theorem eval_rounding (cs : List (Fl M)) (x : Fl M) (hu : ((cs.length + 1 : ℕ) : ℝ) * M.u < 1) :
    |(evalSimple cs x).val - ∑ k ∈ range cs.length, (cs.getD k 0).val * x.val ^ k|
      ≤ M.gamma (cs.length + 1) * ∑ k ∈ range cs.length, |(cs.getD k 0).val| * |x.val| ^ k := by
  obtain ⟨t, ht, hval⟩ := eval_weights cs x
  rw [hval]
  have := weighted_sum_bound cs.length (cs.length + 1)
    (fun k => (cs.getD k 0).val * x.val ^ k) t ht hu
  simpa only [abs_mul, abs_pow] using this

/-- The same bound between two instances of the one model: `evalSimple` run at `Fl M` against
`evalSimple` run at `ℝ` on the same data, the bound being `evalSimple` at `ℝ` on the absolute
values. -/
theorem eval_rounding_model (cs : List (Fl M)) (x : Fl M)
    (hu : ((cs.length + 1 : ℕ) : ℝ) * M.u < 1) :
    |(evalSimple cs x).val - evalSimple (cs.map Fl.val) x.val|
      ≤ M.gamma (cs.length + 1) * evalSimple (cs.map fun c => |c.val|) |x.val| := by
  have h := eval_rounding cs x hu
  rw [SV.Props.C01.eval_eq_sum, SV.Props.C01.eval_eq_sum, List.length_map, List.length_map]
  have e1 : ∑ k ∈ range cs.length, (cs.map Fl.val).getD k 0 * x.val ^ k
      = ∑ k ∈ range cs.length, (cs.getD k 0).val * x.val ^ k :=
    Finset.sum_congr rfl fun k hk => by
      rw [getD_map_of_lt cs Fl.val 0 0 (by simpa using hk)]
  have e2 : ∑ k ∈ range cs.length, (cs.map fun c => |c.val|).getD k 0 * |x.val| ^ k
      = ∑ k ∈ range cs.length, |(cs.getD k 0).val| * |x.val| ^ k :=
    Finset.sum_congr rfl fun k hk => by
      rw [getD_map_of_lt cs (fun c => |c.val|) 0 0 (by simpa using hk)]
  rw [e1, e2]
  exact h

/-- With exact arithmetic (`u = 0`) the bound collapses to the identity of
`SV.Props.C01.eval_eq_sum`. -/
theorem eval_rounding_ideal (cs : List (Fl FlModel.ideal)) (x : Fl FlModel.ideal) :
    (evalSimple cs x).val = ∑ k ∈ range cs.length, (cs.getD k 0).val * x.val ^ k := by
  have h := eval_rounding cs x (by simp [FlModel.ideal])
  have hg : FlModel.ideal.gamma (cs.length + 1) = 0 := by simp [FlModel.gamma, FlModel.ideal]
  rw [hg, zero_mul] at h
  exact sub_eq_zero.mp (abs_nonpos_iff.mp h)

/-- **binary64, numerically.**  For round-to-nearest with a 53-bit significand
(`FlModel.binary64`, no exponent limits) and fewer than `2⁵²` coefficients:
`|eval(cs, x) − Σ_k c_k x^k| ≤ (n+1)·2⁻⁵² · Σ_k |c_k|·|x|^k`, `n = cs.length`. -/
theorem eval_rounding_binary64 (cs : List (Fl FlModel.binary64)) (x : Fl FlModel.binary64)
    (hn : cs.length + 1 ≤ 2 ^ 52) :
    |(evalSimple cs x).val - ∑ k ∈ range cs.length, (cs.getD k 0).val * x.val ^ k|
      ≤ ((cs.length + 1 : ℕ) : ℝ) * (2⁻¹ : ℝ) ^ 52
        * ∑ k ∈ range cs.length, |(cs.getD k 0).val| * |x.val| ^ k := by
  obtain ⟨hu, hg⟩ := FlModel.binary64_gamma_le hn
  refine (eval_rounding cs x hu).trans
    (mul_le_mul_of_nonneg_right hg (Finset.sum_nonneg fun k _ => ?_))
  positivity

/-! ### non-vacuity -/

/-- in a model with `u > 0` whose rounding is not the identity the hypothesis is satisfiable and the
computed value really differs from the exact one: `p = 1 + x` at `x = 1` with
`rnd t = t·(1 + 1/16)` (`u = 1/8`, `n = 2`, `3·u < 1`). -/
example : ∃ (M : FlModel) (cs : List (Fl M)) (x : Fl M), 0 < M.u ∧
    ((cs.length + 1 : ℕ) : ℝ) * M.u < 1 ∧
    (evalSimple cs x).val ≠ ∑ k ∈ range cs.length, (cs.getD k 0).val * x.val ^ k := by
  have h8 : (0 : ℝ) ≤ 1 / 8 ∧ (1 / 8 : ℝ) < 1 := by norm_num
  refine ⟨FlModel.skew (1 / 8) h8, [1, 1], 1, by norm_num [FlModel.skew],
    by norm_num [FlModel.skew], ?_⟩
  norm_num [evalSimple, evalSimpleFrom, powi, powiLoop, FlModel.skew, Finset.sum_range_succ]

end SV.Props.C01Rounding
