//! C15 — regressors: `LeastSquaresRegression`, `PolynomialRegression`, `GradientDescentRegression`
//! (`LinearRegressor::fit`) and `LinearModel::{predict, intercept, slope, slopes, r2, std_err}`.
//!
//! Requests (floats as decimal u64 bit patterns, vectors as `n v0 … v_{n-1}`):
//!   fit_ls <x> <y> <q>                  fit_poly <order> <x> <y> <q>      fit_gd <steps> <alpha> <x> <y> <q>
//!        -> `coef <c> se <v> r2 <v> int <v> slope <v|none> slopes <list|none> pred <predictions at q>`
//!           | `undef` (a coefficient is NaN/±inf) | `panic`
//!   nest <top> <x> <y>   -> the coefficient lists of the polynomial fits of order 0..top
//!   line <x> <y>         -> coefficients of the line fit and of the order-1 polynomial fit
//! Every value is printed `f<bits>`, or `undef` when it is NaN/±inf (divisions by zero are not
//! guarded in the code; the model returns "undefined" exactly there).
//! The numeric oracle (exact rationals) is the Python plug-in tools/props/c15.py.
//!
//! Generators: the families of the quantifier (`generate`), and the hardening families `scale_families` (tiny / huge
//! spreads and scales of the abscissae around 0, 1, -1, 1000, 1e-3; responses at 2^+-200 or with large offsets),
//! `size_sweep` (every length 3..70, block-size neighbours up to 1025) and `exact_cases` (exact lines, zero slope,
//! zero responses, signed zeros, 0..3 gradient steps).
use crate::util::*;
use spindalis::regressors::{
    GradientDescentRegression, LeastSquaresRegression, LinearModel, LinearRegressor, PolynomialRegression,
};

fn fu(v: f64) -> String {
    if v.is_finite() { fbits(v) } else { "undef".into() }
}
fn fmt_list(xs: &[f64]) -> String {
    let mut s = format!("{}", xs.len());
    for x in xs {
        s.push(' ');
        s.push_str(&fu(*x));
    }
    s
}
fn coefs_only(m: &LinearModel) -> String {
    if m.coefficients.iter().any(|c| !c.is_finite()) {
        "undef".into()
    } else {
        format!("coef {}", fmt_list(&m.coefficients))
    }
}
fn show(m: &LinearModel, qs: &[f64]) -> String {
    if m.coefficients.iter().any(|c| !c.is_finite()) {
        return "undef".into();
    }
    let sl = match m.slope() {
        Some(b) => fu(b),
        None => "none".into(),
    };
    let sls = match m.slopes() {
        Some(l) => fmt_list(l),
        None => "none".into(),
    };
    let ic = match catch(|| m.intercept()) {
        Some(a) => fu(a),
        None => "panic".into(),
    };
    let preds: Vec<f64> = qs.iter().map(|q| m.predict(*q)).collect();
    format!(
        "coef {} se {} r2 {} int {} slope {} slopes {} pred {}",
        fmt_list(&m.coefficients),
        fu(m.std_err),
        fu(m.r2),
        ic,
        sl,
        sls,
        fmt_list(&preds)
    )
}

pub fn run(line: &str) -> Obs {
    let mut t = Toks::new(line);
    let cmd = t.tok();
    match cmd {
        "fit_ls" => {
            let (x, y, q) = (t.vec_f64(), t.vec_f64(), t.vec_f64());
            match catch(|| LeastSquaresRegression.fit(&x, &y)) {
                Some(m) => Obs::plain(show(&m, &q)),
                None => Obs::plain("panic".into()),
            }
        }
        "fit_poly" => {
            let order = t.usize();
            let (x, y, q) = (t.vec_f64(), t.vec_f64(), t.vec_f64());
            match catch(|| PolynomialRegression { order }.fit(&x, &y)) {
                Some(m) => Obs::plain(show(&m, &q)),
                None => Obs::plain("panic".into()),
            }
        }
        "fit_gd" => {
            let steps = t.usize();
            let step_size = t.f64();
            let (x, y, q) = (t.vec_f64(), t.vec_f64(), t.vec_f64());
            match catch(|| GradientDescentRegression { steps, step_size }.fit(&x, &y)) {
                Some(m) => Obs::plain(show(&m, &q)),
                None => Obs::plain("panic".into()),
            }
        }
        "nest" => {
            let top = t.usize();
            let (x, y) = (t.vec_f64(), t.vec_f64());
            let parts: Vec<String> = (0..=top)
                .map(|order| match catch(|| PolynomialRegression { order }.fit(&x, &y)) {
                    Some(m) => coefs_only(&m),
                    None => "panic".into(),
                })
                .collect();
            Obs::plain(parts.join(" "))
        }
        "line" => {
            let (x, y) = (t.vec_f64(), t.vec_f64());
            let l = match catch(|| LeastSquaresRegression.fit(&x, &y)) {
                Some(m) => coefs_only(&m),
                None => "panic".into(),
            };
            let p = match catch(|| PolynomialRegression { order: 1 }.fit(&x, &y)) {
                Some(m) => coefs_only(&m),
                None => "panic".into(),
            };
            Obs::plain(format!("{l} {p}"))
        }
        _ => panic!("unknown C15 request {cmd}"),
    }
}

// ------------------------------------------------------------------------------------ generators

/// abscissae; `style` selects the shape named in the property's quantifier
fn abscissae(rng: &mut Rng, n: usize, style: u64) -> Vec<f64> {
    match style {
        // integer grid centred on 0 (the shape the test-suite uses)
        0 => {
            let lo = -((n / 2) as i64);
            (0..n).map(|i| (lo + i as i64) as f64).collect()
        }
        // uniform in a benign interval
        1 => {
            let w = *rng.pick(&[1.0, 3.0, 0.5]);
            (0..n).map(|_| rng.uniform(-w, w)).collect()
        }
        // clustered away from 0: x in [5,6] (D24)
        2 => (0..n).map(|_| rng.uniform(5.0, 6.0)).collect(),
        // shifted: x in 1000..1002 (D24)
        3 => {
            if rng.chance(1, 3) {
                (0..n).map(|i| 1000.0 + (i % 3) as f64 + if i >= 3 { rng.uniform(0.0, 0.5) } else { 0.0 }).collect()
            } else {
                (0..n).map(|_| rng.uniform(1000.0, 1002.0)).collect()
            }
        }
        // negative
        4 => (0..n).map(|_| rng.uniform(-10.0, -1.0)).collect(),
        // repeated abscissae: few distinct values, each several times
        5 => {
            let d = rng.range(2, 9).min(n as i64).max(1) as usize;
            let vals: Vec<f64> = (0..d).map(|k| k as f64 * 0.75 - 2.0 + rng.uniform(0.0, 0.25)).collect();
            (0..n).map(|i| if i < d { vals[i] } else { *rng.pick(&vals) }).collect()
        }
        // 0, 1, 2, ... (one-sided grid)
        6 => (0..n).map(|i| i as f64 * *rng.pick(&[1.0, 0.5, 0.25])).collect(),
        // dyadic in [-2,2]: sums of low powers are exact
        _ => (0..n).map(|_| rng.dyadic(64, 5)).collect(),
    }
}

/// responses = polynomial of degree 0..3 + noise of the chosen level
fn responses(rng: &mut Rng, x: &[f64], noise: f64) -> Vec<f64> {
    let deg = rng.below(4) as usize;
    let c: Vec<f64> = (0..=deg).map(|_| if rng.chance(1, 2) { rng.range(-5, 5) as f64 } else { rng.uniform(-5.0, 5.0) }).collect();
    let centre = x.iter().sum::<f64>() / x.len().max(1) as f64;
    let centred = rng.chance(1, 2);
    x.iter()
        .map(|&xi| {
            let t = if centred { xi - centre } else { xi };
            let mut v = 0.0;
            for k in (0..=deg).rev() {
                v = v * t + c[k];
            }
            v + if noise > 0.0 { rng.uniform(-noise, noise) } else { 0.0 }
        })
        .collect()
}

fn distinct(x: &[f64]) -> usize {
    let mut v: Vec<u64> = x.iter().map(|a| (a + 0.0).to_bits()).collect();
    v.sort_unstable();
    v.dedup();
    v.len()
}

/// float estimate of the infinity-norm condition number of the (order+1)-moment matrix
/// (Gauss-Jordan inverse with partial pivoting; good to about cond*1e-16, enough for a filter at 1e10)
fn moment_cond(x: &[f64], order: usize) -> f64 {
    let p = order + 1;
    let mom: Vec<f64> = (0..2 * p - 1).map(|k| x.iter().map(|v| v.powi(k as i32)).sum::<f64>()).collect();
    let mut a = vec![vec![0.0f64; 2 * p]; p];
    for i in 0..p {
        for j in 0..p {
            a[i][j] = mom[i + j];
        }
        a[i][p + i] = 1.0;
    }
    let norm_m = (0..p).map(|i| (0..p).map(|j| a[i][j].abs()).sum::<f64>()).fold(0.0, f64::max);
    for k in 0..p {
        let mut piv = k;
        for i in k + 1..p {
            if a[i][k].abs() > a[piv][k].abs() {
                piv = i;
            }
        }
        a.swap(piv, k);
        let d = a[k][k];
        if d == 0.0 || !d.is_finite() {
            return f64::INFINITY;
        }
        for j in 0..2 * p {
            a[k][j] /= d;
        }
        for i in 0..p {
            if i != k {
                let f = a[i][k];
                if f != 0.0 {
                    for j in 0..2 * p {
                        a[i][j] -= f * a[k][j];
                    }
                }
            }
        }
    }
    let norm_inv = (0..p).map(|i| (0..p).map(|j| a[i][p + j].abs()).sum::<f64>()).fold(0.0, f64::max);
    let c = norm_m * norm_inv;
    if c.is_finite() { c } else { f64::INFINITY }
}

/// highest order (<= 6) whose moment matrix has estimated condition <= 1e10 and fewer coefficients
/// than distinct abscissae; `None` when not even order 0 qualifies
fn max_order(x: &[f64]) -> Option<usize> {
    let d = distinct(x);
    let mut best = None;
    for m in 0..=6usize {
        // more distinct abscissae than coefficients
        if d <= m + 1 {
            break;
        }
        if moment_cond(x, m) > 1e10 {
            break;
        }
        best = Some(m);
    }
    best
}

fn queries(rng: &mut Rng, x: &[f64]) -> Vec<f64> {
    let lo = x.iter().cloned().fold(f64::INFINITY, f64::min);
    let hi = x.iter().cloned().fold(f64::NEG_INFINITY, f64::max);
    if x.is_empty() {
        return vec![0.0, 1.5];
    }
    vec![rng.uniform(lo, hi), hi + 1.0, 0.0]
}

/// largest eigenvalue of H = [[1, mean x],[mean x, mean x^2]]
fn lambda_max(x: &[f64]) -> f64 {
    let n = x.len() as f64;
    let m = x.iter().sum::<f64>() / n;
    let q = x.iter().map(|v| v * v).sum::<f64>() / n;
    let t = 1.0 + q;
    let det = (q - m * m).max(0.0);
    (t + (t * t - 4.0 * det).max(0.0).sqrt()) / 2.0
}

fn data(rng: &mut Rng, n: usize, style: u64) -> (Vec<f64>, Vec<f64>) {
    let x = abscissae(rng, n, style);
    let noise = *rng.pick(&[0.0, 0.0, 1e-6, 1e-2, 1.0, 10.0]);
    let y = if rng.chance(1, 25) { vec![*rng.pick(&[4.0, 0.1, -2.5]); n] } else { responses(rng, &x, noise) };
    (x, y)
}

fn emit_fits(rng: &mut Rng, x: &[f64], y: &[f64], emit: &mut dyn FnMut(String), gd_budget: &mut i64, big_steps: bool) {
    let q = queries(rng, x);
    let (rx, ry, rq) = (req_vec_f(x), req_vec_f(y), req_vec_f(&q));
    emit(format!("fit_ls {rx} {ry} {rq}"));
    emit(format!("line {rx} {ry}"));
    if let Some(top) = max_order(x) {
        // every admissible order from time to time, otherwise two of them
        let orders: Vec<usize> = if rng.chance(1, 4) { (0..=top).collect() } else { vec![rng.below(top as u64 + 1) as usize, top] };
        for m in orders {
            emit(format!("fit_poly {m} {rx} {ry} {rq}"));
        }
        emit(format!("nest {top} {rx} {ry}"));
    }
    // gradient descent: step below 2/lambda_max
    if !x.is_empty() && *gd_budget > 0 {
        let lmax = lambda_max(x);
        if lmax.is_finite() && lmax > 0.0 {
            let theta = *rng.pick(&[0.05, 0.25, 0.5, 0.5, 0.75, 0.9, 0.95]);
            let alpha = theta * 2.0 / lmax;
            let steps: u64 = if big_steps && rng.chance(1, 40) {
                100_000
            } else {
                *rng.pick(&[10u64, 10, 37, 100, 100, 500, 1000, 1000, 5000, 10_000])
            };
            *gd_budget -= (steps as i64) * (x.len() as i64);
            emit(format!("fit_gd {steps} {} {rx} {ry} {rq}", rbits(alpha)));
        }
    }
}

// ------------------------------------------------------------------ hardening families (scale, size, ties)

/// abscissae `c + w*t_i`, t in [-1,1]: an even grid (`grid`) or uniform random; `n >= 2`
fn spread(rng: &mut Rng, n: usize, c: f64, w: f64, grid: bool) -> Vec<f64> {
    (0..n)
        .map(|i| {
            let t = if grid { -1.0 + 2.0 * i as f64 / (n.max(2) - 1) as f64 } else { rng.uniform(-1.0, 1.0) };
            c + w * t
        })
        .collect()
}

/// responses = (a + b t + d t^2 + noise) * ys with t = (x - c)/w: a slope of order ys/w in x, whatever the scale of x
fn scaled_responses(rng: &mut Rng, x: &[f64], c: f64, w: f64, ys: f64) -> Vec<f64> {
    let a = if rng.chance(1, 3) { 0.0 } else { rng.range(-5, 5) as f64 };
    let b = match rng.below(4) {
        0 => rng.range(1, 5) as f64,
        1 => -(rng.range(1, 5) as f64),
        _ => rng.uniform(-5.0, 5.0),
    };
    let d = if rng.chance(1, 3) { rng.uniform(-2.0, 2.0) } else { 0.0 };
    let noise = *rng.pick(&[0.0, 1e-6, 1e-2, 1.0]);
    x.iter()
        .map(|&xi| {
            let t = (xi - c) / w;
            (a + b * t + d * t * t + if noise > 0.0 { rng.uniform(-noise, noise) } else { 0.0 }) * ys
        })
        .collect()
}

/// the requests of one data set of the hardening families: line fit, line-vs-order-1 comparison, the polynomial fits
/// of order 0..=top_poly whatever the conditioning (outside the quantifier the oracle abstains from the refusal clause
/// and the correspondence still compares), nestedness, and a short gradient descent
fn emit_all(rng: &mut Rng, x: &[f64], y: &[f64], q: &[f64], top_poly: usize, gd_steps: &[u64], emit: &mut dyn FnMut(String)) {
    let (rx, ry, rq) = (req_vec_f(x), req_vec_f(y), req_vec_f(q));
    emit(format!("fit_ls {rx} {ry} {rq}"));
    emit(format!("line {rx} {ry}"));
    for m in 0..=top_poly {
        emit(format!("fit_poly {m} {rx} {ry} {rq}"));
    }
    if top_poly >= 1 {
        emit(format!("nest {top_poly} {rx} {ry}"));
    }
    let lmax = lambda_max(x);
    if lmax.is_finite() && lmax > 0.0 {
        for &steps in gd_steps {
            let theta = *rng.pick(&[0.25, 0.5, 0.9]);
            emit(format!("fit_gd {steps} {} {rx} {ry} {rq}", rbits(theta * 2.0 / lmax)));
        }
    }
}

/// lesson 1 (SCALE): abscissae whose spread, scale or distance from a centre is far from 1 -- a guard or shortcut in
/// absolute units (`|n Sxx - Sx^2| < 1e-8`, `sq_total < 1e-12`, "skip tiny terms") only shows there.  Centre 0 makes
/// the half-width the scale of the whole data set (10^-140 .. 10^140); centres 1, -1, 1000, 1e-3 and a few widths
/// next to the origin give "values next to c at every distance".  Responses at scale 1 and at 2^+-k.
fn scale_families(rng: &mut Rng, thorough: bool, emit: &mut dyn FnMut(String)) {
    let reps = if thorough { 8 } else { 1 };
    // (centre, decimal exponents of the half-width)
    let origin: Vec<i32> = (-17..=-1)
        .chain([-140, -100, -60, -30, -22, -20, 0, 3, 6, 9, 12, 15, 18, 30, 60, 100, 140])
        .collect();
    let near: Vec<i32> = (-9..=-1).collect();
    let centres: [(f64, &Vec<i32>); 6] =
        [(0.0, &origin), (1.0, &near), (-1.0, &near), (1000.0, &near), (1e-3, &near), (f64::NAN, &near)];
    for (c0, exps) in centres {
        for &e in exps.iter() {
            for rep in 0..reps {
                let w = if rep % 2 == 1 { 2f64.powi((e as f64 * 3.3219).round() as i32) } else { 10f64.powi(e) };
                // NaN stands for "a centre a few half-widths from the origin" (one-sided data next to 0)
                let c = if c0.is_nan() { w * *rng.pick(&[1.0, 1.5, 3.0, -2.0]) } else { c0 };
                for n in [3usize, 4, 7, 20] {
                    let grid = rng.chance(1, 2);
                    let x = spread(rng, n, c, w, grid || n == 3 && rep == 0);
                    if distinct(&x) < 3 {
                        continue;
                    }
                    let ys = if rng.chance(1, 4) { 2f64.powi(*rng.pick(&[-200, -70, -40, -20, 20, 40, 60, 200])) } else { 1.0 };
                    let y = if e.abs() <= 9 && ys == 1.0 && rng.chance(1, 2) {
                        let noise = *rng.pick(&[0.0, 1e-6, 1e-2, 1.0]);
                        responses(rng, &x, noise)
                    } else {
                        scaled_responses(rng, &x, c, w, ys)
                    };
                    let q = vec![c + w * rng.uniform(-1.0, 1.0), c + 2.0 * w, 0.0, -c];
                    let top = if n == 3 { 1 } else { 2 };
                    emit_all(rng, &x, &y, &q, top, if n == 7 { &[10, 100] } else { &[37] }, emit);
                }
            }
        }
    }
    // ordinary abscissae, responses with a large constant offset and a small variation, or at extreme scales:
    // SST and SSE are differences of large numbers / far from 1
    for _ in 0..(if thorough { 400 } else { 40 }) {
        let n = rng.range(3, 30) as usize;
        let style = rng.below(8);
        let x = abscissae(rng, n, style);
        if distinct(&x) < 3 {
            continue;
        }
        let noise = *rng.pick(&[0.0, 1e-6, 1e-2, 1.0]);
        let mut y = responses(rng, &x, noise);
        match rng.below(3) {
            0 => {
                let off = *rng.pick(&[1e3, 1e6, 1e9, -1e6, 1e12]);
                let sc = *rng.pick(&[1.0, 1e-3, 1e-6]);
                for v in y.iter_mut() {
                    *v = off + sc * *v;
                }
            }
            1 => {
                let s = 2f64.powi(*rng.pick(&[-200, -100, -70, -40, -20, -10]));
                for v in y.iter_mut() {
                    *v *= s;
                }
            }
            _ => {
                let s = 2f64.powi(*rng.pick(&[200, 100, 60, 40, 20, 10]));
                for v in y.iter_mut() {
                    *v *= s;
                }
            }
        }
        let q = queries(rng, &x);
        let top = max_order(&x).unwrap_or(0).min(3);
        emit_all(rng, &x, &y, &q, top, &[100], emit);
    }
}

/// lesson 2 (SIZE): every length 3..=70 once, and lengths around the usual block sizes up to 1025 -- unrolled or
/// chunked sums only differ from the plain loop beyond their block length
fn size_sweep(rng: &mut Rng, thorough: bool, emit: &mut dyn FnMut(String)) {
    let mut ns: Vec<usize> = (3..=70).collect();
    ns.extend([95, 96, 97, 127, 128, 129, 255, 256, 257]);
    if thorough {
        ns.extend([511, 512, 513, 1000, 1023, 1024, 1025]);
        ns.extend(71..=94);
    }
    for n in ns {
        let style = *rng.pick(&[0u64, 1, 1, 2, 4, 6, 7]);
        let x: Vec<f64> = if style == 0 || style == 6 {
            // keep the grids inside a bounded range whatever the length
            (0..n).map(|i| (i as f64 - (n / 2) as f64) * 8.0 / n as f64).collect()
        } else {
            abscissae(rng, n, style)
        };
        let noise = *rng.pick(&[0.0, 1e-2, 1.0]);
        let y = responses(rng, &x, noise);
        let q = queries(rng, &x);
        let top = if n <= 129 { max_order(&x).unwrap_or(0).min(3) } else { 1 };
        emit_all(rng, &x, &y, &q, top, if n <= 129 { &[50] } else { &[5] }, emit);
    }
}

/// lessons 3 and 5 (TIES / ZEROS / SIGNS, first pass vs later passes): exact lines (SSE = 0), slope exactly 0,
/// all-zero responses, signed zeros among abscissae and responses, negative slopes, 0..3 gradient steps
fn exact_cases(rng: &mut Rng, thorough: bool, emit: &mut dyn FnMut(String)) {
    for rep in 0..(if thorough { 40 } else { 6 }) {
        let n = rng.range(3, 12) as usize;
        let x: Vec<f64> = match rep % 3 {
            0 => (0..n).map(|i| i as f64 - 2.0).collect(),
            1 => (0..n).map(|_| rng.dyadic(32, 3)).collect(),
            _ => (0..n).map(|i| if i == 1 { -0.0 } else { (i as f64) * 0.5 - 1.0 }).collect(),
        };
        if distinct(&x) < 3 {
            continue;
        }
        let (a, b) = (rng.range(-4, 4) as f64, rng.range(-4, 4) as f64);
        let variants: Vec<Vec<f64>> = vec![
            x.iter().map(|v| a + b * v).collect(),                      // exact line
            x.iter().map(|v| a + 0.0 * v).collect(),                    // slope exactly 0
            vec![0.0; n],                                               // SST = 0 and SSE = 0
            (0..n).map(|i| if i % 2 == 0 { -0.0 } else { 0.0 }).collect(),
            x.iter().map(|v| -3.0 * v).collect(),                       // through the origin, negative slope
            x.iter().map(|v| a + b * v + 0.25 * v * v).collect(),       // exact parabola
        ];
        for y in variants {
            let q = vec![0.0, -0.0, 1.0, -1.0, rng.uniform(-3.0, 3.0)];
            emit_all(rng, &x, &y, &q, 2, &[0, 1, 2, 3], emit);
        }
    }
}

/// RESONANT gradient descent: small-integer data whose sums are exact in binary64, with a step that makes one factor of
/// the iteration exactly 0 or 1 - `alpha * mean(x^2) == 1` (the slope's partial gradient is exactly 0 on the second pass
/// while the intercept's is not), `alpha == 1/n`, `alpha * var(x) == 1`, round steps 1/2, 1/4, 1/8 - and data with exact
/// symmetries (even / odd responses on a symmetric grid: one partial gradient is exactly 0 on every pass).  A shortcut
/// that reads "this gradient component is 0" as "converged" only shows on such data.
fn resonant_gd(rng: &mut Rng, thorough: bool, emit: &mut dyn FnMut(String)) {
    let want = if thorough { 400 } else { 60 };
    let mut made = 0;
    let mut tries = 0;
    while made < want && tries < 200_000 {
        tries += 1;
        let n = *rng.pick(&[4usize, 8, 8, 16]);
        let x: Vec<f64> = (0..n).map(|_| rng.range(-4, 5) as f64).collect();
        let sx: f64 = x.iter().sum();
        let sxx: f64 = x.iter().map(|v| v * v).sum();
        let m2 = sxx / n as f64;
        let var = m2 - (sx / n as f64) * (sx / n as f64);
        if distinct(&x) < 3 || sx == 0.0 {
            continue;
        }
        let lmax = lambda_max(&x);
        if !(lmax.is_finite() && lmax > 0.0) {
            continue;
        }
        // candidate steps; keep the exactly representable ones whose product with the moment is exactly 1
        let mut alphas: Vec<f64> = Vec::new();
        for (mom, _name) in [(m2, "m2"), (var, "var"), (n as f64, "n"), (m2 + 1.0, "trace")] {
            if mom > 0.0 {
                let a = 1.0 / mom;
                if a * mom == 1.0 && (a * 1024.0).fract() == 0.0 {
                    alphas.push(a);
                }
            }
        }
        for a in [0.5, 0.25, 0.125] {
            alphas.push(a);
        }
        alphas.retain(|a| *a < 1.9 / lmax);
        if !alphas.iter().any(|a| a * m2 == 1.0) && made % 3 != 2 {
            continue;
        }
        let y: Vec<f64> = match rng.below(3) {
            0 => x.iter().map(|v| 2.0 * v + 1.0 + rng.range(-2, 3) as f64).collect(),
            1 => (0..n).map(|_| rng.range(-6, 7) as f64).collect(),
            _ => x.iter().map(|v| -3.0 * v + 4.0).collect(),
        };
        let q = vec![0.0, 1.0, -2.5];
        let (rx, ry, rq) = (req_vec_f(&x), req_vec_f(&y), req_vec_f(&q));
        for a in alphas {
            for steps in [1u64, 2, 3, 50, 4000] {
                emit(format!("fit_gd {steps} {} {rx} {ry} {rq}", rbits(a)));
            }
        }
        made += 1;
    }
    // exact symmetries: symmetric grid, even / odd / mixed responses
    for half in 1..=(if thorough { 8 } else { 4 }) {
        let x: Vec<f64> = (-(half as i64)..=half as i64).map(|v| v as f64).collect();
        let lmax = lambda_max(&x);
        for kind in 0..4 {
            let y: Vec<f64> = x
                .iter()
                .map(|v| match kind {
                    0 => v * v,
                    1 => v * v * v - v,
                    2 => v * v + 3.0 * v,
                    _ => v.abs() - 1.0,
                })
                .collect();
            let (rx, ry, rq) = (req_vec_f(&x), req_vec_f(&y), req_vec_f(&[0.5, -1.0]));
            for theta in [0.25, 0.9] {
                emit(format!("fit_gd 3000 {} {rx} {ry} {rq}", rbits(theta * 2.0 / lmax)));
            }
            // the same data shifted off the symmetric position (sum x != 0)
            let xs: Vec<f64> = x.iter().map(|v| v + 1.0).collect();
            let l2 = lambda_max(&xs);
            emit(format!("fit_gd 3000 {} {} {ry} {rq}", rbits(0.5 * 2.0 / l2), req_vec_f(&xs)));
        }
    }
}

pub fn generate(seed: u64, thorough: bool, emit: &mut dyn FnMut(String)) {
    let mut rng = Rng::new(seed ^ 0xC15);
    {
        let mut r2 = Rng::new(seed ^ 0xC15_0001);
        scale_families(&mut r2, thorough, emit);
        size_sweep(&mut r2, thorough, emit);
        exact_cases(&mut r2, thorough, emit);
        resonant_gd(&mut r2, thorough, emit);
    }
    // work budget for gradient descent in (steps x points)
    let mut gd_budget: i64 = if thorough { 3_000_000_000 } else { 60_000_000 };
    // outside the quantifier (0..2 points, mismatched lengths): correspondence only
    for n in 0..=2usize {
        for style in [0u64, 1] {
            let (x, y) = data(&mut rng, n, style);
            let q = queries(&mut rng, &x);
            let (rx, ry, rq) = (req_vec_f(&x), req_vec_f(&y), req_vec_f(&q));
            emit(format!("fit_ls {rx} {ry} {rq}"));
            emit(format!("fit_poly 0 {rx} {ry} {rq}"));
            emit(format!("fit_poly 1 {rx} {ry} {rq}"));
            emit(format!("fit_gd 20 {} {rx} {ry} {rq}", rbits(0.1)));
        }
    }
    for _ in 0..6 {
        let (x, y) = data(&mut rng, 6, 1);
        let q = queries(&mut rng, &x);
        let k = rng.range(3, 5) as usize;
        let (xs, ys) = if rng.chance(1, 2) { (x[..k].to_vec(), y.clone()) } else { (x.clone(), y[..k].to_vec()) };
        let (rx, ry, rq) = (req_vec_f(&xs), req_vec_f(&ys), req_vec_f(&q));
        emit(format!("fit_ls {rx} {ry} {rq}"));
        emit(format!("fit_poly 1 {rx} {ry} {rq}"));
        emit(format!("fit_gd 15 {} {rx} {ry} {rq}", rbits(0.05)));
    }
    // repeated abscissae with as many distinct values as coefficients or fewer: singular systems
    for d in 1..=3usize {
        let x: Vec<f64> = (0..8).map(|i| (i % d) as f64 + 1.0).collect();
        let y: Vec<f64> = (0..8).map(|i| i as f64 * 0.5).collect();
        let (rx, ry, rq) = (req_vec_f(&x), req_vec_f(&y), req_vec_f(&[1.0]));
        for m in 0..=3usize {
            emit(format!("fit_poly {m} {rx} {ry} {rq}"));
        }
        emit(format!("fit_ls {rx} {ry} {rq}"));
    }
    let rounds = if thorough { 14000 } else { 640 };
    for r in 0..rounds {
        let n = match rng.below(8) {
            0 => rng.range(3, 5) as usize,
            1..=4 => rng.range(6, 25) as usize,
            _ => rng.range(26, 60) as usize,
        };
        let style = rng.below(8);
        let (x, y) = data(&mut rng, n, style);
        emit_fits(&mut rng, &x, &y, emit, &mut gd_budget, thorough || r % 100 == 7);
    }
}
