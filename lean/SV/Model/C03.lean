import SV.Model.PolyOps
/-!
C03 — symbolic derivatives.  The operations themselves are the shared model `SV.Model.Poly`
(`simpleDeriv`, `partialDeriv`, `derivUni`, …); this file adds

* the well-formedness predicates of `IntermediatePolynomial` values (decidable, no subtypes):
  `TermsWF`, `Usable` (what the univariate entry points need) and `WF` (what the parser and the
  by-name entry points produce),
* the request handler of the driver: the shared commands of `SV.PolyOps` plus `chainm`
  (a chain of operations ended by `eval_multivariate`) and an ignored `txt <text>` prefix that
  carries the source text the harness parsed (documentation of the replay only).
-/
namespace SV.C03
open SV SV.Poly

variable {S : Type}

/-- strictly increasing list of names (sorted, no repetition) -/
def strictSorted : List String → Bool
  | a :: b :: r => decide (a < b) && strictSorted (b :: r)
  | _ => true

/-- the names occurring in a term, in order -/
def names (vs : List (String × S)) : List String := vs.map (·.1)

/-- all names occurring in the terms (with repetitions) -/
def termNames (terms : List (Term S)) : List String := terms.flatMap fun t => names t.vars

/-- every term lists its variables sorted by name, no variable twice (`NodupVars`) -/
def TermsWF (terms : List (Term S)) : Prop := ∀ t ∈ terms, strictSorted (names t.vars) = true

/-- What the univariate entry points need: well-formed terms, a sorted duplicate-free variable list
that *covers* the names used by the terms.  (`derivate_univariate` keeps the source's variable
list, so after `x ↦ 1` the list may name a variable no term uses any more.) -/
def Usable (p : IPoly S) : Prop :=
  TermsWF p.terms ∧ strictSorted p.variables = true ∧ ∀ v ∈ termNames p.terms, v ∈ p.variables

/-- Well-formed `IntermediatePolynomial`: `Usable`, and the variable list has *exactly* the names
used by the terms.  This is what `parse`, `derivate_multivariate` and both integrals return. -/
def WF (p : IPoly S) : Prop := Usable p ∧ ∀ v ∈ p.variables, v ∈ termNames p.terms

instance (terms : List (Term S)) : Decidable (TermsWF terms) := by unfold TermsWF; infer_instance
instance (p : IPoly S) : Decidable (Usable p) := by unfold Usable; infer_instance
instance (p : IPoly S) : Decidable (WF p) := by unfold WF; infer_instance

end SV.C03

/-! ### driver -/
namespace SV.C03.Driver
open SV SV.Wire SV.Poly SV.PolyWire SV.PolyOps

/-- `chainm <poly> <k> steps… <n> { <name> <value> }*`: like `chain`, ended by `eval_multivariate` -/
def runChainM (p : AnyPoly Float) (steps : List Step) (σ : List (String × Float)) : String :=
  let rec go (p : AnyPoly Float) (steps : List Step) (acc : List String) : String :=
    match steps with
    | [] => " | ".intercalate (acc.reverse ++ [fmtExceptF (evalMulti p σ)])
    | s :: rest =>
      match applyStep p s with
      | .ok q => go q rest (("ok " ++ fmtAny fmtF q) :: acc)
      | .error e => " | ".intercalate (acc.reverse ++ [fmtErr e])
  go p steps []

def handleCmd (cmd : String) : P String :=
  match cmd with
  | "chainm" => do
    let p ← anypoly float
    let k ← nat
    let steps ← many k step
    let n ← nat
    let σ ← many n (do let v ← name; let x ← float; return (v, x))
    return runChainM p steps σ
  | _ => PolyOps.handleCmd cmd

def handle (line : String) : String :=
  let p : P String := do
    let cmd ← tok
    if cmd = "txt" then
      let _ ← chars
      let cmd ← tok
      handleCmd cmd
    else handleCmd cmd
  match run p line with
  | some s => s
  | none => "bad-request"

end SV.C03.Driver
