import SV.Lemmas.C16Inter
/-!
Converse of the grammar half of C02, part 2: **the whole text**.

* `protectDash_inj`        the sign-protection rewrite is injective: the normalised text determines the
                           text (no two texts are confused by the rewrite, no character is lost)
* `dashOK_protectDash`, `dashOK_splitOn`   in the normalised text, hence in every part, a `-` stands
                           only at the start of a part or directly after `^`
* `protectDash_render'`    `C02Render.protectDash_render` for terms whose letters may repeat
* `parse_inv`              acceptance ⇒ the white-space-free text is `render lead ts` for well-formed
                           (repetition-tolerant) terms `ts`, and the returned terms are `ts.map read`
-/
namespace SV.C16Inter
open SV SV.Text SV.C02

/-! ### `protectDash` is injective -/

theorem protectDash_eq_nil {p : Option Char} {w : List Char} (h : protectDash p w = []) : w = [] := by
  cases w with
  | nil => rfl
  | cons c cs =>
    unfold protectDash at h
    split at h <;> cases h

theorem protectDash_plus_head (l r : List Char) : protectDash (some '+') l ≠ '-' :: r := by
  cases l with
  | nil => simp [protectDash]
  | cons e es =>
    by_cases he : e = '-'
    · subst he
      rw [protectDash_dash (by simp)]
      intro h
      exact absurd (List.cons.inj h).1 (by decide)
    · rw [protectDash_ne he]
      intro h
      exact he (List.cons.inj h).1

/-- **The normalised text determines the text.** -/
theorem protectDash_inj : ∀ (a b : List Char) (p : Option Char),
    protectDash p a = protectDash p b → a = b := by
  intro a
  induction a with
  | nil =>
    intro b p h
    exact (protectDash_eq_nil (p := p) (by rw [← h]; rfl)).symm
  | cons c cs ih =>
    intro b p h
    cases b with
    | nil => exact protectDash_eq_nil (p := p) (by rw [h]; rfl)
    | cons d ds =>
      by_cases hc : c = '-' ∧ p ≠ some '^'
      · obtain ⟨rfl, hp⟩ := hc
        rw [protectDash_dash hp] at h
        by_cases hd : d = '-' ∧ p ≠ some '^'
        · obtain ⟨rfl, _⟩ := hd
          rw [protectDash_dash hp] at h
          have h2 := (List.cons.inj (List.cons.inj h).2).2
          rw [ih ds _ h2]
        · exfalso
          rw [protectDash, if_neg hd] at h
          obtain ⟨h1, h2⟩ := List.cons.inj h
          subst h1
          exact protectDash_plus_head ds _ h2.symm
      · rw [protectDash, if_neg hc] at h
        by_cases hd : d = '-' ∧ p ≠ some '^'
        · exfalso
          obtain ⟨rfl, hp⟩ := hd
          rw [protectDash_dash hp] at h
          obtain ⟨h1, h2⟩ := List.cons.inj h
          subst h1
          exact protectDash_plus_head cs _ h2
        · rw [protectDash, if_neg hd] at h
          obtain ⟨h1, h2⟩ := List.cons.inj h
          subst h1
          rw [ih ds _ h2]

/-! ### where a `-` stands after normalisation -/

theorem dashOK_protectDash : ∀ (w : List Char) (p : Option Char), DashOK p (protectDash p w) := by
  intro w
  induction w with
  | nil => intro p; trivial
  | cons c cs ih =>
    intro p
    unfold protectDash
    split
    · rename_i hc
      obtain ⟨rfl, _⟩ := hc
      exact ⟨fun h => absurd h (by decide), fun _ => Or.inl rfl, ih _⟩
    · rename_i hc
      refine ⟨fun h => ?_, ih _⟩
      by_cases hp : p = some '^'
      · exact Or.inr hp
      · exact absurd ⟨h, hp⟩ hc

theorem dashOK_splitOn : ∀ (n : List Char) (p : Option Char) (q : List Char) (qs : List (List Char)),
    DashOK p n → splitOn '+' n = q :: qs → DashOK p q ∧ ∀ r ∈ qs, DashOK (some '+') r := by
  intro n
  induction n with
  | nil =>
    intro p q qs _ h
    simp only [splitOn, List.cons.injEq] at h
    obtain ⟨rfl, rfl⟩ := h
    exact ⟨trivial, by simp⟩
  | cons c cs ih =>
    intro p q qs hd h
    unfold splitOn at h
    split at h
    · rename_i hc
      subst hc
      obtain ⟨hq, hqs⟩ := List.cons.inj h
      subst hq
      refine ⟨trivial, ?_⟩
      cases hs : splitOn '+' cs with
      | nil => exact absurd hs (splitOn_ne_nil _ cs)
      | cons q' qs' =>
        rw [hs] at hqs
        subst hqs
        obtain ⟨h1, h2⟩ := ih (some '+') q' qs' hd.2 hs
        intro r hr
        rcases List.mem_cons.1 hr with rfl | hr
        · exact h1
        · exact h2 r hr
    · split at h
      · rename_i p' ps hs
        obtain ⟨hq, hqs⟩ := List.cons.inj h
        subst hq hqs
        obtain ⟨h1, h2⟩ := ih (some c) p' ps hd.2 hs
        exact ⟨⟨hd.1, h1⟩, h2⟩
      · rename_i hs
        exact absurd hs (splitOn_ne_nil _ cs)

/-! ### normalisation of a rendering whose letters may repeat -/

theorem trans_body' {t : TermSyn} (ht : t.WF') : Trans t.body := by
  unfold TermSyn.body
  rcases ht.nonempty with h | h
  · exact (trans_coef ht.coef_wf h).append (trans0_factors ht.letters ht.exps_wf)
  · exact (trans0_coef ht.coef_wf).append_trans (trans_factors ht.letters ht.exps_wf h)

theorem protectDash_tail' (ts : List TermSyn) (hwf : ∀ t ∈ ts, t.WF') (p : Option Char)
    (hp : p ≠ some '^') :
    protectDash p (ts.flatMap fun u => (if u.neg then '-' else '+') :: u.body) =
      ts.flatMap fun u => '+' :: u.piece := by
  induction ts generalizing p with
  | nil => rfl
  | cons u us ih =>
    have hus : ∀ t ∈ us, t.WF' := fun t ht => hwf t (by simp [ht])
    simp only [List.flatMap_cons, List.cons_append]
    cases hn : u.neg with
    | true =>
      obtain ⟨p', h1, h2⟩ := trans_body' (hwf u (by simp)) (some '-')
      simp only [if_true]
      rw [protectDash_dash hp, h2, ih hus p' h1]
      simp [TermSyn.piece, signChars, hn]
    | false =>
      obtain ⟨p', h1, h2⟩ := trans_body' (hwf u (by simp)) (some '+')
      simp only [Bool.false_eq_true, if_false]
      rw [protectDash_ne (by decide), h2, ih hus p' h1]
      simp [TermSyn.piece, signChars, hn]

/-- `C02.protectDash_render` without the distinctness requirement -/
theorem protectDash_render' (lead : Bool) (t : TermSyn) (ts : List TermSyn)
    (hwf : ∀ u ∈ t :: ts, u.WF') :
    protectDash none (render lead (t :: ts)) =
      (if t.neg = true ∨ lead = true then ['+'] else []) ++ t.piece ++
        ts.flatMap fun u => '+' :: u.piece := by
  have hts : ∀ u ∈ ts, u.WF' := fun u hu => hwf u (by simp [hu])
  have ht := hwf t (by simp)
  unfold render
  by_cases hn : t.neg = true
  · obtain ⟨p', h1, h2⟩ := trans_body' ht (some '-')
    simp only [hn, if_true, true_or, List.cons_append, List.nil_append]
    rw [protectDash_dash (by simp), h2, protectDash_tail' ts hts p' h1]
    simp [TermSyn.piece, signChars, hn]
  · cases lead with
    | true =>
      obtain ⟨p', h1, h2⟩ := trans_body' ht (some '+')
      simp only [hn, Bool.false_eq_true, if_false, if_true, or_true, List.cons_append,
        List.nil_append]
      rw [protectDash_ne (by decide), h2, protectDash_tail' ts hts p' h1]
      simp [TermSyn.piece, signChars, hn]
    | false =>
      obtain ⟨p', h1, h2⟩ := trans_body' ht none
      simp only [hn, Bool.false_eq_true, if_false, or_self, List.nil_append]
      rw [h2, protectDash_tail' ts hts p' h1]
      simp [TermSyn.piece, signChars, hn]

theorem body_ne_nil' {t : TermSyn} (ht : t.WF') : t.body ≠ [] := by
  unfold TermSyn.body
  rcases ht.nonempty with h | h
  · intro e
    exact Coef.render_ne_nil ht.coef_wf h (List.append_eq_nil_iff.1 e).1
  · cases hf : t.factors with
    | nil => exact absurd hf h
    | cons f fs => simp [renderFactors, Factor.render]

/-- only the empty term list renders to the empty text -/
theorem render_eq_nil_iff {lead : Bool} {ts : List TermSyn} (hwf : ∀ t ∈ ts, t.WF') :
    render lead ts = [] ↔ ts = [] := by
  constructor
  · intro h
    cases ts with
    | nil => rfl
    | cons t ts =>
      exfalso
      unfold render at h
      have h1 := (List.append_eq_nil_iff.1 (List.append_eq_nil_iff.1 h).1).2
      exact body_ne_nil' (hwf t (by simp)) h1
  · rintro rfl; rfl

/-! ### all parts -/

theorem parseParts_inv {cc : CharClass} : ∀ (ps : List (List Char)) (its : List ITerm),
    parseParts cc ps = .ok its →
    (∀ part ∈ ps, DashOK (some '+') part ∧ part ≠ [] ∧ part ≠ ['-']) →
    ∃ ts : List TermSyn, (∀ t ∈ ts, t.WF') ∧ ps = ts.map TermSyn.piece ∧ its = ts.map TermSyn.read := by
  intro ps
  induction ps with
  | nil =>
    intro its h _
    unfold parseParts at h
    cases h
    exact ⟨[], by simp, rfl, rfl⟩
  | cons part ps ih =>
    intro its h hps
    unfold parseParts at h
    cases hp : parsePart cc part with
    | error e => rw [hp] at h; cases h
    | ok it =>
      rw [hp] at h
      simp only at h
      cases hr : parseParts cc ps with
      | error e => rw [hr] at h; cases h
      | ok its' =>
        rw [hr] at h
        simp only [Except.ok.injEq] at h
        obtain ⟨hd, hne, hnd⟩ := hps part (by simp)
        obtain ⟨t, ht, hpart, hit⟩ := parsePart_inv hp hd hne hnd
        obtain ⟨ts, hts, hps', hits⟩ := ih its' hr (fun q hq => hps q (by simp [hq]))
        refine ⟨t :: ts, ?_, by rw [hpart, hps']; rfl, by rw [← h, hit, hits]; rfl⟩
        intro u hu
        rcases List.mem_cons.1 hu with rfl | hu
        · exact ht
        · exact hts u hu

/-! ### the whole parser -/

theorem parse_ok_parts {cc : CharClass} {s : List Char} {p : IParsed} (h : parse cc s = .ok p) :
    ∀ part ∈ parts (normalize cc s), part ≠ [] ∧ part ≠ ['-'] := by
  unfold parse at h
  simp only at h
  split at h
  · cases h
  · rename_i hn
    intro part hpart
    constructor
    · intro e
      apply hn
      rw [List.any_eq_true]
      exact ⟨part, hpart, by simp [e]⟩
    · intro e
      apply hn
      rw [List.any_eq_true]
      exact ⟨part, hpart, by simp [e]⟩

/-- **Acceptance ⇒ the white-space-free text is a rendering** of well-formed terms (letters may
repeat), and the returned terms are the ones the parser builds for those written terms. -/
theorem parse_inv {cc : CharClass} {s : List Char} {p : IParsed} (h : parse cc s = .ok p) :
    ∃ (lead : Bool) (ts : List TermSyn), (∀ t ∈ ts, t.WF') ∧ stripWs cc s = render lead ts ∧
      p.terms = ts.map TermSyn.read := by
  obtain ⟨hparts, _⟩ := parse_ok_iff cc s p h
  have hany := parse_ok_parts h
  unfold normalize at hparts hany
  generalize stripWs cc s = w at hparts hany ⊢
  have hdn := dashOK_protectDash w none
  cases hq : splitOn '+' (protectDash none w) with
  | nil => exact absurd hq (splitOn_ne_nil _ _)
  | cons q qs =>
    have hn := splitOn_eq_cons hq
    obtain ⟨hdq, hdqs⟩ := dashOK_splitOn _ none q qs hdn hq
    cases q with
    | nil =>
      have hP : parts (protectDash none w) = qs := by
        unfold parts; rw [hq]
      rw [hP] at hparts hany
      obtain ⟨ts, hts, hqs, hterms⟩ := parseParts_inv qs p.terms hparts
        (fun r hr => ⟨hdqs r hr, hany r hr⟩)
      cases ts with
      | nil =>
        refine ⟨false, [], hts, ?_, hterms⟩
        subst hqs
        exact protectDash_eq_nil (p := none) (by rw [hn]; rfl)
      | cons t ts' =>
        refine ⟨true, t :: ts', hts, ?_, hterms⟩
        apply protectDash_inj _ _ none
        rw [protectDash_render' true t ts' hts, hn, hqs]
        simp [List.flatMap_map]
    | cons c q' =>
      have hP : parts (protectDash none w) = (c :: q') :: qs := by
        unfold parts; rw [hq]
      rw [hP] at hparts hany
      obtain ⟨ts, hts, hqs, hterms⟩ := parseParts_inv _ p.terms hparts
        (fun r hr => by
          rcases List.mem_cons.1 hr with rfl | hr'
          · exact ⟨hdq.weaken _, hany _ hr⟩
          · exact ⟨hdqs r hr', hany r hr⟩)
      cases ts with
      | nil => cases hqs
      | cons t ts' =>
        simp only [List.map_cons, List.cons.injEq] at hqs
        obtain ⟨hq1, hq2⟩ := hqs
        have hneg : t.neg = false := by
          cases hn' : t.neg with
          | false => rfl
          | true =>
            exfalso
            have : c = '-' := by
              have := hq1
              simp only [TermSyn.piece, signChars, hn', if_true, List.cons_append,
                List.nil_append, List.cons.injEq] at this
              exact this.1
            rcases hdq.1 this with h1 | h1 <;> cases h1
        refine ⟨false, t :: ts', hts, ?_, hterms⟩
        apply protectDash_inj _ _ none
        rw [protectDash_render' false t ts' hts, hn, hq1, hq2]
        simp [List.flatMap_map, hneg]

end SV.C16Inter
