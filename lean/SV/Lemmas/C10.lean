import SV.Model.C10
import SV.Lemmas.Mat
import SV.Lemmas.Subst
import SV.Lemmas.LU
import SV.Props.C08
import SV.Props.C09
/-!
Helper lemmas for C10 (`Arr2D::inverse`).

* any scalar type: the shapes `plu` returns, the column loop inside its preconditions never panics,
  what a successful run of `inverse` consists of (`inverse_ok`), the empty matrix;
* linearly ordered fields: every solved column `x_j` satisfies `L (U x_j) = P e_j`
  (`column_solves`, from `plu_correct` and the two substitution-soundness theorems of C08), hence
  `Σ_k A r k · B k j = δ_rj` (`inverse_entries`).
-/
set_option linter.unusedSectionVars false

namespace SV.C10
open SV SV.C09 SV.Subst Finset

section anyScalar
variable {S : Type} [Inhabited S] [Add S] [Sub S] [Mul S] [Div S] [Neg S] [OfNat S 0] [OfNat S 1]
  [LT S] [DecidableRel (α := S) (· < ·)]

/-- `plu` has no panicking branch -/
theorem plu_ne_panic (eps : S) (A : Mat S) : plu eps A ≠ .panic := by
  unfold plu
  split_ifs
  · simp
  · dsimp only
    cases iter (pluStep eps A.h) A.h 0 (A, Mat.ident A.h) <;> simp

theorem pluStep_pshape {eps : S} {n i : Nat} {st st' : Mat S × Mat S}
    (h : pluStep eps n st i = some st') (hp : st.2.h = n ∧ st.2.w = n) :
    st'.2.h = n ∧ st'.2.w = n := by
  unfold pluStep at h
  dsimp only at h
  split_ifs at h
  simp only [Option.some.injEq] at h
  subst h
  dsimp only
  unfold pluSwap
  dsimp only
  split_ifs
  · exact hp
  · exact hp

/-- the three arrays `plu` returns are `n × n` (no hypothesis on the threshold, any scalar) -/
theorem plu_shapes {eps : S} {A L U P : Mat S} (h : plu eps A = .ok (L, U, P)) :
    A.h = A.w ∧ L.h = A.h ∧ L.w = A.h ∧ U.h = A.h ∧ U.w = A.h ∧ P.h = A.h ∧ P.w = A.h := by
  unfold plu at h
  split_ifs at h with hsq
  dsimp only at h
  cases hit : iter (pluStep eps A.h) A.h 0 (A, Mat.ident A.h) with
  | none => simp [hit] at h
  | some st =>
    simp only [hit, Outcome.ok.injEq, Prod.mk.injEq] at h
    obtain ⟨h1, h2, h3⟩ := h
    have := iter_inv (pluStep eps A.h) (fun _ st => st.2.h = A.h ∧ st.2.w = A.h) A.h
      (fun i s s' _ hI hs => pluStep_pshape hs hI) A.h 0 _ _ (by omega) ⟨rfl, rfl⟩ hit
    subst h1 h2 h3
    exact ⟨not_not.mp hsq, rfl, rfl, rfl, rfl, this.1, this.2⟩

theorem fwdCore_size (L : Mat S) (n : Nat) (b sol : Array S) :
    (fwdCore L n b sol).size = sol.size := by
  unfold fwdCore
  generalize List.range n = l
  induction l generalizing sol with
  | nil => rfl
  | cons a l ih => rw [List.foldl_cons, ih]; simp [fwdStep]

/-- inside the loop (`j < n`, so `n ≥ 1`) and with `n × n` factors neither substitution panics: the
column is the backward sweep applied to the forward sweep -/
theorem column_eq_ok {L U P : Mat S} {n j : Nat}
    (hL : n ≤ L.h ∧ n ≤ L.w) (hU : n ≤ U.h ∧ n ≤ U.w) (hP : n ≤ P.h ∧ n ≤ P.w) (hj : j < n) :
    column L U P n j = .ok (backCore U n
      (fwdCore L n (vtab n fun i => P.get i j) (vtab n fun _ => 0)) (vtab n fun _ => 0)) := by
  unfold column
  rw [if_neg (by omega)]
  dsimp only
  rw [forwardSubst_eq_ok _ _ _ _ hL.1 hL.2 (by simp) (by simp)]
  dsimp only
  rw [backSubst_eq_ok _ _ _ _ (by omega) hU.1 hU.2 (by rw [fwdCore_size]; simp) (by simp)]

theorem colsFrom_ok_of (L U P : Mat S) (n : Nat) :
    ∀ k j0, (∀ j, j0 ≤ j → j < j0 + k → ∃ x, column L U P n j = .ok x) →
      ∃ xs, colsFrom L U P n k j0 = .ok xs := by
  intro k
  induction k with
  | zero => intro j0 _; exact ⟨[], rfl⟩
  | succ k ih =>
    intro j0 h
    obtain ⟨x, hx⟩ := h j0 (le_refl _) (by omega)
    obtain ⟨xs, hxs⟩ := ih (j0 + 1) (fun j h1 h2 => h j (by omega) (by omega))
    exact ⟨x :: xs, by simp only [colsFrom, hx, hxs]⟩

/-- a successful run of the column loop solved every column, in order -/
theorem colsFrom_spec (L U P : Mat S) (n : Nat) :
    ∀ k j0 xs, colsFrom L U P n k j0 = .ok xs →
      xs.length = k ∧ ∀ t, t < k → column L U P n (j0 + t) = .ok (xs.toArray.getD t #[]) := by
  intro k
  induction k with
  | zero =>
    intro j0 xs h
    simp only [colsFrom, Outcome.ok.injEq] at h
    subst h
    exact ⟨rfl, fun t ht => absurd ht (Nat.not_lt_zero _)⟩
  | succ k ih =>
    intro j0 xs h
    simp only [colsFrom] at h
    cases hc : column L U P n j0 with
    | ok x =>
      cases hr : colsFrom L U P n k (j0 + 1) with
      | ok ys =>
        simp only [hc, hr, Outcome.ok.injEq] at h
        subst h
        obtain ⟨h1, h2⟩ := ih (j0 + 1) ys hr
        refine ⟨by simp [h1], ?_⟩
        intro t ht
        cases t with
        | zero => simpa using hc
        | succ t =>
          have := h2 t (by omega)
          rw [show j0 + (t + 1) = j0 + 1 + t by omega, this]
          simp
      | err e => exact nomatch e
      | panic => simp [hc, hr] at h
    | err e => exact nomatch e
    | panic => simp [hc] at h

theorem assemble_get (n : Nat) (xs : List (Array S)) {i j : Nat} (hi : i < n) (hj : j < n) :
    (assemble n xs).get i j = vget (xs.toArray.getD j #[]) i := by
  unfold assemble
  exact Mat.get_tab _ hi hj

/-- what a successful call consists of -/
theorem inverse_ok {eps : S} {A B : Mat S} (h : inverse eps A = .ok B) :
    A.h = A.w ∧ ∃ L U P xs, plu eps A = .ok (L, U, P) ∧
      colsFrom L U P A.h A.h 0 = .ok xs ∧ B = assemble A.h xs := by
  unfold inverse at h
  split_ifs at h with hsq
  cases hp : plu eps A with
  | err e => simp [hp] at h
  | panic => simp [hp] at h
  | ok v =>
    obtain ⟨L, U, P⟩ := v
    simp only [hp] at h
    cases hc : colsFrom L U P A.h A.h 0 with
    | ok xs =>
      simp only [hc, Outcome.ok.injEq] at h
      exact ⟨not_not.mp hsq, L, U, P, xs, rfl, hc, h.symm⟩
    | err e => exact nomatch e
    | panic => simp [hc] at h

/-- success: the result is a well-formed `n × n` array whose column `j` is the solved column `j` -/
theorem inverse_ok_columns {eps : S} {A B : Mat S} (h : inverse eps A = .ok B) :
    A.h = A.w ∧ B.h = A.h ∧ B.w = A.h ∧ B.WF ∧ ∃ L U P, plu eps A = .ok (L, U, P) ∧
      ∀ j, j < A.h → ∃ x, column L U P A.h j = .ok x ∧ ∀ i, i < A.h → B.get i j = vget x i := by
  obtain ⟨hsq, L, U, P, xs, hp, hc, rfl⟩ := inverse_ok h
  refine ⟨hsq, rfl, rfl, Mat.tab_WF _ _ _, L, U, P, hp, ?_⟩
  intro j hj
  obtain ⟨_, hcols⟩ := colsFrom_spec L U P A.h A.h 0 xs hc
  refine ⟨xs.toArray.getD j #[], by simpa using hcols j hj, ?_⟩
  intro i hi
  exact assemble_get A.h xs hi hj

/-- whenever the factorisation succeeds, so does the inverse: the column loop cannot panic -/
theorem inverse_ok_of_plu {eps : S} {A L U P : Mat S} (hp : plu eps A = .ok (L, U, P)) :
    ∃ xs, colsFrom L U P A.h A.h 0 = .ok xs ∧ inverse eps A = .ok (assemble A.h xs) := by
  obtain ⟨hsq, h1, h2, h3, h4, h5, h6⟩ := plu_shapes hp
  obtain ⟨xs, hxs⟩ := colsFrom_ok_of L U P A.h A.h 0 (fun j _ hj =>
    ⟨_, column_eq_ok ⟨by omega, by omega⟩ ⟨by omega, by omega⟩ ⟨by omega, by omega⟩ (by omega)⟩)
  refine ⟨xs, hxs, ?_⟩
  unfold inverse
  rw [if_neg (not_not.mpr hsq)]
  simp only [hp, hxs]

/-- the outcome of `inverse` is decided by the shape test and by the factorisation alone -/
theorem inverse_outcome (eps : S) (A : Mat S) :
    (A.h ≠ A.w → inverse eps A = .err .nonSquare) ∧
    (A.h = A.w → ∀ e, plu eps A = .err e → inverse eps A = .err .singular) ∧
    (A.h = A.w → ∀ L U P, plu eps A = .ok (L, U, P) → ∃ B, inverse eps A = .ok B) := by
  refine ⟨?_, ?_, ?_⟩
  · intro h; unfold inverse; rw [if_pos h]
  · intro h e he
    unfold inverse
    rw [if_neg (not_not.mpr h)]
    simp only [he]
  · intro _ L U P hp
    obtain ⟨xs, _, h⟩ := inverse_ok_of_plu hp
    exact ⟨_, h⟩

theorem inverse_ne_panic (eps : S) (A : Mat S) : inverse eps A ≠ .panic := by
  by_cases hsq : A.h = A.w
  · cases hp : plu eps A with
    | ok v =>
      obtain ⟨L, U, P⟩ := v
      obtain ⟨B, hB⟩ := (inverse_outcome eps A).2.2 hsq L U P hp
      rw [hB]; simp
    | err e => rw [(inverse_outcome eps A).2.1 hsq e hp]; simp
    | panic => exact absurd hp (plu_ne_panic eps A)
  · rw [(inverse_outcome eps A).1 hsq]; simp

/-- the empty matrix: `Ok` of the empty matrix (the column loop does not run, so the `size - 1` of
`back_substitution` is never evaluated) -/
theorem inverse_empty (eps : S) (A : Mat S) (hh : A.h = 0) (hw : A.w = 0) :
    inverse eps A = .ok ⟨0, 0, #[]⟩ := by
  unfold inverse
  rw [if_neg (by omega)]
  unfold plu
  rw [if_neg (by omega)]
  simp only [hh, iter, colsFrom]
  rfl

end anyScalar

section field
variable {K : Type} [Field K] [LinearOrder K] [IsStrictOrderedRing K] [Inhabited K]
open SV.Props.C08 SV.Props.C09

/-- a solved column satisfies `L (U x) = P e_j`, row by row -/
theorem column_solves {eps : K} (heps : 0 < eps) {A L U P : Mat K}
    (hplu : plu eps A = .ok (L, U, P)) {j : Nat} {x : Array K}
    (hx : column L U P A.h j = .ok x) :
    ∀ i, i < A.h →
      ∑ m ∈ range A.h, L.get i m * ∑ k ∈ range A.h, U.get m k * vget x k = P.get i j := by
  obtain ⟨_, _, _, _, σ, _, hLow, hUp, _, _, hpiv⟩ := plu_correct heps hplu
  unfold column at hx
  split_ifs at hx with hbad
  dsimp only at hx
  cases hy : forwardSubst L A.h (vtab A.h fun i => P.get i j) (vtab A.h fun _ => 0) with
  | err e => exact nomatch e
  | panic => simp [hy] at hx
  | ok y =>
    simp only [hy] at hx
    have hfw := forwardSubst_sound L A.h _ _ y hy
      (fun i hi => by rw [hLow.1 i hi]; exact one_ne_zero)
      (fun i j hi hij hj => hLow.2 i j hi hj hij)
    have hbw := backSubst_sound U A.h y _ x hx
      (fun i hi h0 => by
        have := hpiv i hi
        rw [h0, abs_zero] at this
        exact absurd (lt_of_lt_of_le heps this) (lt_irrefl _))
      (fun i j hi hji => hUp i j hi (by omega) hji)
    intro i hi
    rw [← vget_vtab (fun i => P.get i j) hi, ← hfw i hi]
    apply Finset.sum_congr rfl
    intro m hm
    rw [hbw m (Finset.mem_range.1 hm)]

/-- **the product with the input is the identity**, entry by entry (rows of `A` times columns of
the result) -/
theorem inverse_entries {eps : K} (heps : 0 < eps) {A B : Mat K} (h : inverse eps A = .ok B) :
    A.h = A.w ∧ B.h = A.h ∧ B.w = A.h ∧ B.WF ∧
    ∀ r j : Fin A.h, ∑ k ∈ range A.h, A.get r k * B.get k j = if r = j then 1 else 0 := by
  obtain ⟨hsq, hBh, hBw, hBwf, L, U, P, hplu, hcols⟩ := inverse_ok_columns h
  refine ⟨hsq, hBh, hBw, hBwf, ?_⟩
  obtain ⟨_, _, _, _, σ, hP, _, _, hprod, _, _⟩ := plu_correct heps hplu
  intro r j
  obtain ⟨x, hx, hB⟩ := hcols j.val j.isLt
  have hsol := column_solves heps hplu hx (σ.symm r).val (σ.symm r).isLt
  have hPij : P.get (σ.symm r).val j.val = if r = j then 1 else 0 := by
    rw [hP (σ.symm r) j, Equiv.apply_symm_apply]
    by_cases hrj : r = j
    · rw [if_pos hrj, if_pos hrj.symm]
    · rw [if_neg hrj, if_neg (fun h' => hrj h'.symm)]
  rw [← hPij, ← hsol]
  have e1 : ∀ k ∈ range A.h, A.get r k * B.get k j
      = ∑ m ∈ range A.h, L.get (σ.symm r).val m * (U.get m k * vget x k) := by
    intro k hk
    have hk' := Finset.mem_range.1 hk
    have := hprod (σ.symm r) ⟨k, hk'⟩
    rw [Equiv.apply_symm_apply] at this
    simp only at this
    rw [← this, hB k hk', Finset.sum_mul]
    apply Finset.sum_congr rfl
    intro m _
    ring
  rw [Finset.sum_congr rfl e1, Finset.sum_comm]
  apply Finset.sum_congr rfl
  intro m _
  rw [Finset.mul_sum]

/-- the same through Mathlib's `Matrix`, at any name `n` of the size (so that it applies to the
result `B`, whose height is `A.h` only propositionally) -/
theorem inverse_toMatrix {eps : K} (heps : 0 < eps) {A B : Mat K} (h : inverse eps A = .ok B)
    {n : Nat} (hn : A.h = n) : A.toMatrix n n * B.toMatrix n n = 1 := by
  subst hn
  obtain ⟨_, _, _, _, hent⟩ := inverse_entries heps h
  funext r j
  simp only [Mat.toMatrix, Matrix.mul_apply, Matrix.one_apply]
  rw [← hent r j, Finset.sum_range]

/-- the solved columns do not depend on the threshold: one factorisation, one result -/
theorem inverse_of_plu_unique {eps eps' : K} {A L U P B : Mat K}
    (hp : plu eps A = .ok (L, U, P)) (hB : inverse eps A = .ok B)
    (hp' : plu eps' A = .ok (L, U, P)) : inverse eps' A = .ok B := by
  obtain ⟨xs, hxs, h1⟩ := inverse_ok_of_plu hp
  obtain ⟨xs', hxs', h2⟩ := inverse_ok_of_plu hp'
  rw [hxs] at hxs'
  injection hxs' with e
  subst e
  rw [h2, ← h1, hB]

end field
end SV.C10
