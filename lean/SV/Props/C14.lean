import SV.Model.C14
import SV.Lemmas.C14
import Mathlib.LinearAlgebra.Matrix.Trace
import Mathlib.Analysis.Real.Sqrt
/-!
# C14 — Hessenberg reduction is an orthogonal similarity to upper-Hessenberg form

Property theorems only (helper lemmas: `SV.Lemmas.C14`).  `K` is any linearly ordered field and
`sqrt : K → K` any function with `∀ x ≥ 0, sqrt x * sqrt x = x ∧ 0 ≤ sqrt x` (satisfiable: `Real.sqrt`,
see the `example` below).  The theorems are about `SV.C14.hessenberg`, `step`, `leftPhase`,
`rightPhase`, `reflOf`, `vvec` — the same generic definitions the driver runs at `Float` with
`Float.sqrt` and compares bit for bit with `hessenberg_reduction` on every run of the check.

"Each to within n·eps·‖A‖ rounding" is proved with rounding error 0 (exact arithmetic): the
algorithm is the right algorithm for every matrix of every size; the rounding envelope itself is
measured by the exact-rational oracle of the check, not proved.
-/
set_option linter.unusedSectionVars false

namespace SV.Props.C14
open SV SV.C14 Finset Matrix

variable {K : Type} [Field K] [LinearOrder K] [IsStrictOrderedRing K] [Inhabited K]

/-- the hypothesis on the `sqrt` parameter is satisfiable -/
example : ∀ x : ℝ, 0 ≤ x → Real.sqrt x * Real.sqrt x = x ∧ 0 ≤ Real.sqrt x :=
  fun x hx => ⟨Real.mul_self_sqrt hx, Real.sqrt_nonneg x⟩

/-- **Reflector coefficients.**  With the code's `sign`, `u1`, `v`, `tau` for column `k` of an
`n × n` matrix and `‖x‖ ≠ 0` (the branch that is not skipped): `tau·(vᵀv) = 2`, `u1 ≠ 0` (the
division `h[(k+1+i,k)] / u1` is safe) and `|u1| ≥ ‖x‖` (the sign choice avoids cancellation). -/
theorem reflector_tau (sqrt : K → K)
    (hs : ∀ x : K, 0 ≤ x → sqrt x * sqrt x = x ∧ 0 ≤ sqrt x)
    (n k : Nat) (hk : k + 1 < n) (H : Mat K) (hne : (reflOf sqrt n k H).norm ≠ 0) :
    (reflOf sqrt n k H).tau * (∑ t ∈ range (n - (k + 1)),
        vvec k H (reflOf sqrt n k H).u1 t * vvec k H (reflOf sqrt n k H).u1 t) = 2 ∧
    (reflOf sqrt n k H).u1 ≠ 0 ∧
    (reflOf sqrt n k H).norm ≤ |(reflOf sqrt n k H).u1| := by
  obtain ⟨h1, h2, h3, _⟩ := reflOf_facts sqrt hs n k hk H hne
  exact ⟨h3, h1, h2⟩

/-- non-vacuity of `hne`: the first column `(2, 3, 4)ᵀ` of a real 3 × 3 matrix has sub-column
`(3, 4)`, whose norm is not zero -/
example : (reflOf Real.sqrt 3 0 (Mat.tab 3 3 fun i _ => (i : ℝ) + 2)).norm ≠ 0 := by
  intro h0
  have hs : ∀ x : ℝ, 0 ≤ x → Real.sqrt x * Real.sqrt x = x ∧ 0 ≤ Real.sqrt x :=
    fun x hx => ⟨Real.mul_self_sqrt hx, Real.sqrt_nonneg x⟩
  have h := subcol_zero_of_norm_zero Real.sqrt hs 3 0 _ h0 1 (by norm_num) (by norm_num)
  rw [Mat.get_tab _ (by norm_num) (by norm_num)] at h
  norm_num at h

/-- `‖x‖` of the code really is the Euclidean norm of the sub-column: its square is `Σ x_t²` and
it is non-negative; it is zero only if the whole sub-column is zero (the skip test is exact). -/
theorem norm_spec (sqrt : K → K)
    (hs : ∀ x : K, 0 ≤ x → sqrt x * sqrt x = x ∧ 0 ≤ sqrt x) (n k : Nat) (H : Mat K) :
    (reflOf sqrt n k H).norm * (reflOf sqrt n k H).norm
        = ∑ t ∈ range (n - (k + 1)), H.get (k + 1 + t) k * H.get (k + 1 + t) k ∧
    0 ≤ (reflOf sqrt n k H).norm ∧
    ((reflOf sqrt n k H).norm = 0 → ∀ i, k + 1 ≤ i → i < n → H.get i k = 0) := by
  have h := hs _ (colNormSq_nonneg n k H)
  exact ⟨by rw [← colNormSq_eq]; exact h.1, h.2, subcol_zero_of_norm_zero sqrt hs n k H⟩

/-- **The reflector is a symmetric involution**, hence orthogonal: for any vector `w` and `tau`
with `tau·(wᵀw) = 2`, `P = 1 − tau·w wᵀ` satisfies `Pᵀ = P` and `P * P = 1`. -/
theorem reflector_orthogonal {m : Nat} (w : Fin m → K) (tau : K) (h : tau * (w ⬝ᵥ w) = 2) :
    (1 - tau • vecMulVec w w)ᵀ = 1 - tau • vecMulVec w w ∧
      (1 - tau • vecMulVec w w) * (1 - tau • vecMulVec w w) = 1 :=
  refl_orth w tau h

/-- `reflM n k tau v` is `diag(1_{k+1}, 1 − tau·v vᵀ)`, entry by entry. -/
theorem reflM_is_diag (n k : Nat) (tau : K) (v : Nat → K) (i j : Fin n) :
    reflM n k tau v i j =
      if i.val < k + 1 ∨ j.val < k + 1 then (if i = j then 1 else 0)
      else (if i = j then 1 else 0) - tau * (v (i.val - (k + 1)) * v (j.val - (k + 1))) := by
  unfold reflM
  simp only [Matrix.sub_apply, Matrix.one_apply, Matrix.smul_apply, vecMulVec_apply, wv, wvN,
    smul_eq_mul]
  by_cases hi : i.val < k + 1
  · simp [hi]
  · by_cases hj : j.val < k + 1
    · simp [hj]
    · simp [hi, hj]

/-- … and for the code's `tau`, `v` it is symmetric and its own inverse. -/
theorem code_reflector_orthogonal (sqrt : K → K)
    (hs : ∀ x : K, 0 ≤ x → sqrt x * sqrt x = x ∧ 0 ≤ sqrt x)
    (n k : Nat) (hk : k + 1 < n) (H : Mat K) (hne : (reflOf sqrt n k H).norm ≠ 0) :
    (reflM n k (reflOf sqrt n k H).tau (vvec k H (reflOf sqrt n k H).u1))ᵀ
        = reflM n k (reflOf sqrt n k H).tau (vvec k H (reflOf sqrt n k H).u1) ∧
    reflM n k (reflOf sqrt n k H).tau (vvec k H (reflOf sqrt n k H).u1)
        * reflM n k (reflOf sqrt n k H).tau (vvec k H (reflOf sqrt n k H).u1) = 1 := by
  obtain ⟨_, _, h3, _⟩ := reflOf_facts sqrt hs n k hk H hne
  exact refl_orth _ _ (by rw [wv_dot n k (by omega)]; exact h3)

/-- **The reflector zeroes the sub-column**: after the left phase, column `k` holds
`sign·‖x‖` (i.e. `∓‖x‖`) in row `k+1` and exactly `0` in the rows `k+2 ..`. -/
theorem reflector_zeroes (sqrt : K → K)
    (hs : ∀ x : K, 0 ≤ x → sqrt x * sqrt x = x ∧ 0 ≤ sqrt x)
    (n k : Nat) (hk : k + 1 < n) (H : Mat K) (hne : (reflOf sqrt n k H).norm ≠ 0) :
    (leftPhase n k (reflOf sqrt n k H).tau (vvec k H (reflOf sqrt n k H).u1) H).get (k + 1) k
        = (reflOf sqrt n k H).sign * (reflOf sqrt n k H).norm ∧
    ∀ i, k + 2 ≤ i → i < n →
      (leftPhase n k (reflOf sqrt n k H).tau (vvec k H (reflOf sqrt n k H).u1) H).get i k = 0 := by
  obtain ⟨hu1, _, _, hvtx⟩ := reflOf_facts sqrt hs n k hk H hne
  constructor
  · unfold leftPhase
    rw [Mat.get_tab _ hk (by omega), if_pos ⟨le_refl _, by omega⟩, sumFrom_zero, Nat.sub_self]
    have hv0 : vvec k H (reflOf sqrt n k H).u1 0 = 1 := by simp [vvec]
    rw [hv0, mul_one, hvtx]
    simp only [reflOf]
    ring
  · intro i hi hin
    unfold leftPhase
    rw [Mat.get_tab _ hin (by omega), if_pos ⟨by omega, le_refl _⟩, sumFrom_zero]
    have hv : vvec k H (reflOf sqrt n k H).u1 (i - (k + 1))
        = H.get i k / (reflOf sqrt n k H).u1 := by
      unfold vvec
      rw [if_neg (by omega), show k + 1 + (i - (k + 1)) = i by omega]
    rw [hv, mul_comm (reflOf sqrt n k H).tau, mul_assoc, hvtx, div_mul_cancel₀ _ hu1, sub_self]

/-- **Each tabulated phase is a matrix product with `diag(1, P)`** on the corresponding side.
The left phase skips the columns `< k` (the code's `for col in k..n`): that is the same product
because those columns are already zero below row `k` — the hypothesis `hz`, which is part of
the loop invariant.  The right phase (used for `h` and for `q`) needs no hypothesis. -/
theorem phase_is_matmul (n k : Nat) (hk : k + 1 ≤ n) (tau : K) (v : Nat → K) (H : Mat K) :
    ((∀ j, j < k → ∀ i, k + 1 ≤ i → i < n → H.get i j = 0) →
      (leftPhase n k tau v H).toMatrix n n = reflM n k tau v * H.toMatrix n n) ∧
    (rightPhase n k tau v H).toMatrix n n = H.toMatrix n n * reflM n k tau v :=
  ⟨leftPhase_toMatrix n k hk tau v H, rightPhase_toMatrix n k hk tau v H⟩

/-- **Skip branch**: when the sub-column norm is zero the pass changes nothing (and the column is
already reduced, `norm_spec`). -/
theorem step_skip (sqrt : K → K) (n k : Nat) (s : Mat K × Mat K)
    (h0 : (reflOf sqrt n k s.1).norm = 0) : step sqrt n k s = s := by
  unfold step
  simp [h0]

/-- the other branch, spelled out: left phase, right phase, accumulation into `q` -/
theorem step_reflect (sqrt : K → K) (n k : Nat) (s : Mat K × Mat K)
    (hne : (reflOf sqrt n k s.1).norm ≠ 0) :
    step sqrt n k s =
      (rightPhase n k (reflOf sqrt n k s.1).tau (vvec k s.1 (reflOf sqrt n k s.1).u1)
          (leftPhase n k (reflOf sqrt n k s.1).tau (vvec k s.1 (reflOf sqrt n k s.1).u1) s.1),
        rightPhase n k (reflOf sqrt n k s.1).tau (vvec k s.1 (reflOf sqrt n k s.1).u1) s.2) := by
  unfold step
  simp [hne]

/-- **Non-square input is rejected.** -/
theorem hessenberg_nonsquare (sqrt : K → K) (A : Mat K) (h : A.h ≠ A.w) :
    hessenberg sqrt A = .error .nonSquare := by
  unfold hessenberg
  rw [if_pos h]

/-- **Sizes ≤ 2 are returned unchanged with `Q = I`.** -/
theorem hessenberg_small (sqrt : K → K) (A : Mat K) (h : A.h = A.w) (h2 : A.h ≤ 2) :
    hessenberg sqrt A = .ok (A, Mat.ident A.h) := by
  unfold hessenberg
  rw [if_neg (not_not.mpr h), if_pos h2]

/-- **Main theorem, every size `n`.**  For every square `A` the reduction returns `(H, Q)`, both
`n × n`, with `QᵀQ = 1`, `Q H Qᵀ = A` and every entry of `H` below the first sub-diagonal equal
to zero.  (Induction over the passes with the invariant `SV.C14.Inv`; the skip branch is the
identity step.) -/
theorem hessenberg_correct (sqrt : K → K)
    (hs : ∀ x : K, 0 ≤ x → sqrt x * sqrt x = x ∧ 0 ≤ sqrt x) (A : Mat K) (hsq : A.h = A.w) :
    ∃ H Q, hessenberg sqrt A = .ok (H, Q) ∧
      (H.h = A.h ∧ H.w = A.h ∧ Q.h = A.h ∧ Q.w = A.h) ∧
      (Q.toMatrix A.h A.h)ᵀ * Q.toMatrix A.h A.h = 1 ∧
      Q.toMatrix A.h A.h * H.toMatrix A.h A.h * (Q.toMatrix A.h A.h)ᵀ = A.toMatrix A.h A.h ∧
      ∀ i j, j + 1 < i → i < A.h → H.get i j = 0 := by
  unfold hessenberg
  rw [if_neg (not_not.mpr hsq)]
  by_cases h2 : A.h ≤ 2
  · rw [if_pos h2]
    have inv := inv_init A.h A rfl hsq.symm
    exact ⟨_, _, rfl, inv.dims, inv.orth, inv.sim, fun i j hij hi => by omega⟩
  · rw [if_neg h2]
    have inv := fold_inv sqrt hs A.h A rfl hsq.symm (A.h - 2) (Or.inl (by omega))
    refine ⟨_, _, rfl, inv.dims, inv.orth, inv.sim, ?_⟩
    intro i j hij hi
    exact inv.zero j (by omega) i hij hi

/-- Consequence: the trace is preserved. -/
theorem hessenberg_trace (sqrt : K → K)
    (hs : ∀ x : K, 0 ≤ x → sqrt x * sqrt x = x ∧ 0 ≤ sqrt x) (A H Q : Mat K) (hsq : A.h = A.w)
    (hr : hessenberg sqrt A = .ok (H, Q)) :
    (H.toMatrix A.h A.h).trace = (A.toMatrix A.h A.h).trace := by
  obtain ⟨H', Q', hr', _, horth, hsim, _⟩ := hessenberg_correct sqrt hs A hsq
  rw [hr] at hr'
  cases hr'
  rw [← hsim, Matrix.trace_mul_comm, ← Matrix.mul_assoc, horth, Matrix.one_mul]

/-- Consequence: the Frobenius norm is preserved (`Σ H_ij² = Σ A_ij²`). -/
theorem hessenberg_frobenius (sqrt : K → K)
    (hs : ∀ x : K, 0 ≤ x → sqrt x * sqrt x = x ∧ 0 ≤ sqrt x) (A H Q : Mat K) (hsq : A.h = A.w)
    (hr : hessenberg sqrt A = .ok (H, Q)) :
    ∑ i ∈ range A.h, ∑ j ∈ range A.h, H.get i j * H.get i j
      = ∑ i ∈ range A.h, ∑ j ∈ range A.h, A.get i j * A.get i j := by
  obtain ⟨H', Q', hr', _, horth, hsim, _⟩ := hessenberg_correct sqrt hs A hsq
  rw [hr] at hr'
  cases hr'
  have fro : ∀ M : Mat K, ∑ i ∈ range A.h, ∑ j ∈ range A.h, M.get i j * M.get i j
      = ((M.toMatrix A.h A.h)ᵀ * M.toMatrix A.h A.h).trace := by
    intro M
    simp only [Matrix.trace, Matrix.diag, Matrix.mul_apply, Matrix.transpose_apply, Mat.toMatrix]
    rw [Finset.sum_comm, Finset.sum_range]
    apply Finset.sum_congr rfl
    intro j _
    rw [Finset.sum_range]
  rw [fro H, fro A, ← hsim]
  simp only [Matrix.transpose_mul, Matrix.transpose_transpose]
  -- trace (Q Hᵀ Qᵀ · Q H Qᵀ) = trace (Hᵀ H)
  have e : Q.toMatrix A.h A.h * ((H.toMatrix A.h A.h)ᵀ * (Q.toMatrix A.h A.h)ᵀ)
        * (Q.toMatrix A.h A.h * H.toMatrix A.h A.h * (Q.toMatrix A.h A.h)ᵀ)
      = Q.toMatrix A.h A.h * ((H.toMatrix A.h A.h)ᵀ * H.toMatrix A.h A.h)
        * (Q.toMatrix A.h A.h)ᵀ := by
    simp only [Matrix.mul_assoc]
    rw [← Matrix.mul_assoc (Q.toMatrix A.h A.h)ᵀ (Q.toMatrix A.h A.h), horth, Matrix.one_mul]
  rw [e]
  symm
  rw [Matrix.trace_mul_comm, ← Matrix.mul_assoc, horth, Matrix.one_mul]

end SV.Props.C14
