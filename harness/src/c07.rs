//! C07 — Newton–Raphson: `newton <poly> <x0> <tol> <itermax> <root|extrema>`
//!
//! Observation: `ok f<x> <passes> [~]` | `err <Kind> <passes> [~]` | `panic`; passes are counted from outside
//! through the evaluation-counting wrapper of c06.rs (two evaluations per pass: g and g'); the trailing `~` marks a
//! run one of whose stop tests was decided within rounding of its threshold (`marginal_stop`).
//! The property's oracle is tools/props/c07.py (exact rationals).
#![allow(dead_code)]
use crate::c06::{as_kind, as_kind_named, expand_roots, marginal_steps, pick_itermax, pick_tol, pow2, show_solver, small_root, solver_err_kind, times_quadratic, Counting};
use crate::polyio::*;
use crate::util::*;
use spindalis::solvers::{newton_raphson_method, SolveMode, SolverError};

fn same_result(a: &Result<f64, SolverError>, b: &Result<f64, SolverError>) -> bool {
    match (a, b) {
        (Ok(x), Ok(y)) => x.to_bits() == y.to_bits(),
        (Err(e), Err(f)) => solver_err_kind(e) == solver_err_kind(f),
        _ => false,
    }
}

fn answer(line: &str) -> String {
    let mut t = Toks::new(line);
    assert_eq!(t.tok(), "newton");
    let p = read_any(&mut t);
    let (x0, tol) = (t.f64(), t.f64());
    let itermax = t.usize();
    let mode_tok = t.tok();
    assert!(mode_tok == "root" || mode_tok == "extrema");
    let mk = || if mode_tok == "root" { SolveMode::Root } else { SolveMode::Extrema };
    let direct = with_poly!(&p, q => newton_raphson_method(q, x0, itermax, tol, mk()));
    let (counted, evals, points) = match p {
        AnyPoly::S(q) => {
            let c = Counting::new(q);
            let r = newton_raphson_method(&c, x0, itermax, tol, mk());
            (r, c.evals.get(), c.points.borrow().clone())
        }
        AnyPoly::I(q) => {
            let c = Counting::new(q);
            let r = newton_raphson_method(&c, x0, itermax, tol, mk());
            (r, c.evals.get(), c.points.borrow().clone())
        }
    };
    if !same_result(&direct, &counted) {
        return format!("wrapper-mismatch {} {}", show_solver(&direct), show_solver(&counted));
    }
    let mark = if marginal_stop(&points, &direct, tol) { " ~" } else { "" };
    format!("{} {}{}", show_solver(&direct), (evals + 1) / 2, mark)
}

/// Was some stop test of this run decided within rounding of its threshold?  (`c06::marginal_steps` has the rule and
/// its justification.)  The iterates are observed from outside: the points at which the solver evaluated the target
/// (consecutive distinct points are one Newton step) and the returned value.
fn marginal_stop(points: &[f64], result: &Result<f64, SolverError>, tol: f64) -> bool {
    let mut seq: Vec<f64> = points.to_vec();
    if let Ok(x) = result {
        seq.push(*x);
    }
    marginal_steps(&seq, tol)
}

/// `(|coefficient|, exponent)` of every term of a univariate polynomial (None: several variables / unbound variable)
fn abs_terms(p: &AnyPoly) -> Option<Vec<(f64, f64)>> {
    match p {
        AnyPoly::S(q) => Some(q.coefficients.iter().enumerate().map(|(k, c)| (c.abs(), k as f64)).collect()),
        AnyPoly::I(q) => {
            if q.variables.len() > 1 {
                return None;
            }
            let mut out = Vec::new();
            for t in &q.terms {
                let mut e = 0.0;
                for (name, pw) in &t.variables {
                    if Some(name) != q.variables.first() {
                        return None;
                    }
                    e += *pw;
                }
                out.push((t.coefficient.abs(), e));
            }
            Some(out)
        }
    }
}

/// `sum |c| sup{ |t|^e : a <= |t| <= b }` — an upper bound of |q| on a <= |t| <= b (0 <= a <= b)
fn sup_abs(terms: &[(f64, f64)], a: f64, b: f64) -> f64 {
    let mut s = 0.0;
    for (c, e) in terms {
        if *c == 0.0 {
            continue;
        }
        s += c * if *e >= 0.0 { b.powf(*e) } else { a.powf(*e) };
    }
    s
}

/// `step^2 * sum |c| sup{ |t|^e : a <= |t| <= b }`, the factor taken into every term (in the logarithm where a factor
/// alone leaves the range): a second derivative of 1e-465 (8 x^-3 at x = 1e155) times a squared step of 1e310 is an
/// ordinary number although neither factor is a double - the bound used to collapse to its rounding allowance there
/// and reported correct code (thorough tier, seeds 1 and 2: Newton on 4/x doubles x 514 times against a tolerance of 50 %)
fn sup_abs_times(terms: &[(f64, f64)], a: f64, b: f64, step: f64) -> f64 {
    // the factor is step^2
    if step == 0.0 {
        return 0.0;
    }
    let mut s = 0.0;
    for (c, e) in terms {
        if *c == 0.0 {
            continue;
        }
        let pt = if *e >= 0.0 { b } else { a };
        let plain = pt.powf(*e);
        let direct = c * plain * step * step;
        let safe = |v: f64| v.is_finite() && v.abs() >= f64::MIN_POSITIVE;
        s += if safe(plain) && safe(c * plain) && safe(c * plain * step) && (direct == 0.0 || safe(direct)) && safe(step * step) {
            direct
        } else if pt > 0.0 && pt.is_finite() && step.is_finite() {
            // exp(e ln t + 2 ln step) errs by about |e ln t| u <= 1e-13 relative; the bound carries a factor 1 + 1e-6
            c * (*e * pt.ln() + 2.0 * step.abs().ln()).exp()
        } else {
            direct
        };
    }
    s
}

/// Independent re-derivation, through the public API, of what the statement promises about a returned value:
/// `x` is finite, and the last step really was below the requested relative tolerance.  The harness takes one more
/// Newton step from the returned `x` (target and derivative evaluated by the library itself): with tau = tol/100 the
/// last step was shorter than tau|x|, so Taylor's theorem on the segment between the previous iterate and `x` gives
/// |g(x)| <= (M/2)(tau|x|)^2 + rounding with M >= max|g''| on |t - x| <= tau|x|, and therefore the next step
/// |g(x)/g'(x)| is at most that over |g'(x)|.  M is bounded term by term from the library's own second derivative;
/// the rounding slack is 1e-9 of the magnitudes of the terms of g and x g' (the code's own error is ~1e-15 of
/// them), so correct code cannot trip it.  The check abstains where g is not twice differentiable on that segment
/// (negative / fractional exponents with the segment reaching 0 or the negative axis).
fn step_verdict(line: &str, answer: &str) -> Option<Result<(), String>> {
    let mut a = answer.split_ascii_whitespace();
    if a.next() != Some("ok") {
        return None;
    }
    let x = f64::from_bits(a.next()?.strip_prefix('f')?.parse::<u64>().ok()?);
    if !x.is_finite() {
        return Some(Err(format!("returned value {x:?} is not finite")));
    }
    let mut t = Toks::new(line);
    t.tok();
    let p = read_any(&mut t);
    let (_x0, tol) = (t.f64(), t.f64());
    t.tok();
    let extrema = t.tok() == "extrema";
    if !(tol.is_finite() && tol > 0.0) {
        return Some(Ok(()));
    }
    let g = if extrema { crate::polyops::deriv_uni(&p).ok()? } else { p };
    let dg = crate::polyops::deriv_uni(&g).ok()?;
    let d2g = crate::polyops::deriv_uni(&dg).ok()?;
    let (tg, tdg, td2) = (abs_terms(&g)?, abs_terms(&dg)?, abs_terms(&d2g)?);
    // (terms with a zero coefficient count too: 0 * (-1)^1.5 is NaN)
    let all = || tg.iter().chain(tdg.iter()).chain(td2.iter());
    let fractional = all().any(|(_, e)| e.fract() != 0.0 || !e.is_finite());
    let negative = all().any(|(_, e)| *e < 0.0);
    let tau = tol / 100.0;
    let s = tau * x.abs();
    let (lo, hi) = ((x.abs() - s).max(0.0), x.abs() + s);
    if (fractional && !(x > 0.0 && x - s > 0.0)) || (negative && !(lo > 0.0)) {
        return Some(Ok(())); // g is not C^2 on the segment: the second-order bound does not apply
    }
    let gx = crate::polyops::eval_uni(&g, x).ok()?;
    let dgx = crate::polyops::eval_uni(&dg, x).ok()?;
    // (M/2) s^2 with the squared step taken into every term (see `sup_abs_times`)
    let half_m_s2 = 0.5 * sup_abs_times(&td2, lo, hi, s);
    // absolute floor of binary64 (as in the exact oracle): every power and product may be off by 2^-1074 in absolute
    // terms, and a quotient g/g' may underflow to 0 (a huge derivative next to a tiny residual)
    let floor = f64::from_bits(16) * (1.0 + tg.iter().map(|(c, _)| *c).sum::<f64>() + sup_abs(&tdg, lo, hi)) + 1e-290;
    // ... and the derivative itself is known only to 2^-1074 (times its coefficients) in absolute terms: over a step of
    // length s that is s * 2^-1074 * (terms + sum |c'|) of residual - nothing at ordinary x, but x^-2.5 at x = 1e129 is a
    // subnormal number and the step is 1e129 long (thorough tier, seed 2: Newton on 4.85 x^-1.5 multiplies x by 5/3 per pass)
    let floor = floor + s * f64::from_bits(16) * (tdg.len() as f64 + tdg.iter().map(|(c, _)| *c).sum::<f64>());
    let slack = 1e-9 * (sup_abs(&tg, lo, hi) + hi * sup_abs(&tdg, lo, hi)) + floor;
    let bound = half_m_s2 * (1.0 + 1e-6) + slack;
    if !bound.is_finite() || bound.is_nan() {
        return Some(Ok(()));
    }
    if gx.is_nan() {
        return Some(Err(format!("returned x = {x:?} although the target evaluates to NaN there")));
    }
    if gx.abs() > bound {
        let step = gx / dgx;
        return Some(Err(format!(
            "returned x = {x:?}: one more Newton step from it has length {:?} = {:?} of |x| (tolerance {tol:?} %); |g(x)| = {:?} exceeds (M/2)(tol% |x|)^2 + slack = {bound:?}, so the last step was not below the tolerance",
            step.abs(), (step / x).abs(), gx.abs()
        )));
    }
    Some(Ok(()))
}

pub fn run(line: &str) -> Obs {
    match catch(|| answer(line)) {
        Some(s) => {
            let verdict = catch(|| step_verdict(line, &s)).flatten();
            Obs { obs: s, oracle: verdict }
        }
        None => Obs::plain("panic".into()),
    }
}

fn mode_name(extrema: bool) -> &'static str {
    if extrema { "extrema" } else { "root" }
}

fn emit_req(emit: &mut dyn FnMut(String), p: &AnyPoly, x0: f64, tol: f64, itermax: usize, extrema: bool) {
    emit(format!("newton {} {} {} {} {}", req_any(p), rbits(x0), rbits(tol), itermax, mode_name(extrema)));
}

/// distinct roots with gaps of at least `gap`, sorted
fn separated_roots(rng: &mut Rng, n: usize, with_zero: bool, dyadic: bool) -> Vec<f64> {
    let mut roots: Vec<f64> = Vec::new();
    if with_zero {
        roots.push(0.0);
    }
    let mut guard = 0;
    while roots.len() < n && guard < 1000 {
        guard += 1;
        let r = if dyadic { rng.range(-24, 24) as f64 / 4.0 } else { (rng.uniform(-6.0, 6.0) * 1000.0).round() / 1000.0 };
        if roots.iter().all(|q| (q - r).abs() >= 0.5) {
            roots.push(r);
        }
    }
    roots.sort_by(|a, b| a.partial_cmp(b).unwrap());
    roots
}

pub fn generate(seed: u64, thorough: bool, emit: &mut dyn FnMut(String)) {
    let mut rng = Rng::new(seed ^ 0xC07);
    // iteration caps at the limits of usize ("iterate until converged") on inputs that converge in a few steps, for
    // both polynomial kinds and both modes
    {
        use spindalis_core::polynomials::structs::{IntermediatePolynomial, PolynomialTraits, SimplePolynomial};
        for cap in [usize::MAX, usize::MAX - 1, 1usize << 32, 1usize << 63, (1usize << 63) + 1] {
            for (text, x0) in [("x^2 - 4", 5.0), ("x^3 - 3x^2 + 2x", 4.0), ("2x - 3", -7.0), ("x^3 - x", 3.0)] {
                for simple in [true, false] {
                    let p = if simple { AnyPoly::S(SimplePolynomial::parse(text).unwrap()) } else { AnyPoly::I(IntermediatePolynomial::parse(text).unwrap()) };
                    for extrema in [false, true] {
                        // (the derivative of a linear polynomial is a constant: Newton on it never converges)
                        if extrema && text == "2x - 3" {
                            continue;
                        }
                        emit_req(emit, &p, x0, 1e-8, cap, extrema);
                    }
                }
            }
        }
    }
    let n = if thorough { 400000 } else { 12000 };
    for i in 0..n {
        let simple = rng.chance(1, 2);
        let extrema = rng.chance(1, 4);
        match i % 8 {
            // convergence half: real, separated roots (a root at 0 half of the time in sub-family 0),
            // start outside the root interval, ample budget
            0 | 1 | 2 => {
                let deg = rng.range(1, 6) as usize;
                let with_zero = i % 8 == 0 && rng.chance(1, 2);
                let dyadic = rng.chance(1, 2);
                let mut roots = separated_roots(&mut rng, deg, with_zero, dyadic);
                // put 0 at an extreme position sometimes: shift so that the extreme root is 0
                if with_zero && dyadic && rng.chance(1, 2) {
                    let shift = if rng.chance(1, 2) { roots[roots.len() - 1] } else { roots[0] };
                    for r in roots.iter_mut() {
                        *r -= shift;
                    }
                }
                // overall scale of the real line (exact power of two)
                let scale = 2f64.powi(*rng.pick(&[0, 0, 0, 1, -1, 3, -4, 10, -10, 20, -20]));
                for r in roots.iter_mut() {
                    *r *= scale;
                }
                let c = *rng.pick(&[1.0, -1.0, 2.0, -0.5, 3.0, 0.25]);
                let g = expand_roots(c, &roots);
                let cs = if extrema {
                    // an antiderivative: its derivative (as computed by the code) is g up to rounding
                    let mut p = vec![rng.range(-3, 3) as f64];
                    for (k, a) in g.iter().enumerate() {
                        p.push(*a / (k as f64 + 1.0));
                    }
                    p
                } else {
                    g
                };
                let (lo, hi) = (roots[0], roots[roots.len() - 1]);
                let span = (hi - lo).max(scale);
                let x0 = match rng.below(6) {
                    0 => hi + span * rng.uniform(0.01, 0.5),
                    1 => hi + span * rng.uniform(0.5, 20.0),
                    2 => lo - span * rng.uniform(0.01, 0.5),
                    3 => lo - span * rng.uniform(0.5, 20.0),
                    4 => hi + scale * rng.range(1, 9) as f64,
                    _ => lo - scale * rng.range(1, 9) as f64,
                };
                let tol = *rng.pick(&[1e-9, 1e-8, 1e-7, 1e-6, 1e-5, 1e-4, 1e-3, 0.01, 0.1, 1.0, 10.0]);
                let itermax = *rng.pick(&[2000usize, 3000, 5000]);
                let p = as_kind(&cs, simple, &mut rng);
                emit_req(emit, &p, x0, tol, itermax, extrema);
            }
            // soundness half: polynomials from roots of every kind, any start, any tolerance and cap
            3 | 4 | 5 => {
                let deg = rng.below(8) as usize;
                let mut roots = Vec::new();
                let mut left = deg;
                let mut quads = 0;
                while left > 0 {
                    if left >= 2 && rng.chance(1, 5) {
                        quads += 1;
                        left -= 2;
                    } else {
                        let r = small_root(&mut rng);
                        roots.push(r);
                        left -= 1;
                        if left > 0 && rng.chance(1, 7) {
                            roots.push(r);
                            left -= 1;
                        }
                    }
                }
                let c = match rng.below(4) {
                    0 => 1.0,
                    1 => -1.0,
                    2 => rng.dyadic(16, 3),
                    _ => (rng.uniform(-5.0, 5.0) * 100.0).round() / 100.0,
                };
                let mut g = expand_roots(c, &roots);
                for _ in 0..quads {
                    g = times_quadratic(&g, if rng.chance(1, 2) { rng.range(1, 4) as f64 } else { rng.uniform(0.1, 4.0) });
                }
                let x0 = match rng.below(8) {
                    0 => 0.0,
                    1 if !roots.is_empty() => *rng.pick(&roots),
                    2 => rng.range(-9, 9) as f64,
                    3 => rng.dyadic(64, 3),
                    4 => rng.uniform(-100.0, 100.0),
                    _ => rng.uniform(-10.0, 10.0),
                };
                let p = as_kind(&g, simple, &mut rng);
                emit_req(emit, &p, x0, pick_tol(&mut rng, true), pick_itermax(&mut rng), extrema);
            }
            // iterates that land exactly on 0, zero derivatives, cycles, constants (D14 and the NaN rule)
            6 => {
                let a = rng.range(1, 6) as f64 * if rng.chance(1, 2) { 1.0 } else { 0.5 };
                let (cs, x0): (Vec<f64>, f64) = match rng.below(8) {
                    0 => (vec![a * a, 0.0, 1.0], if rng.chance(1, 2) { a } else { -a }), // x^2 + a^2 from ±a: lands on 0
                    1 => (vec![2.0, -2.0, 0.0, 1.0], if rng.chance(1, 2) { 0.0 } else { 1.0 }), // 0 -> 1 -> 0 cycle
                    2 => (vec![-a * a, 0.0, 1.0], 0.0),                                      // start on a critical point
                    3 => (vec![rng.range(-3, 3) as f64], rng.range(-3, 3) as f64),              // constant
                    4 => (vec![0.0, rng.range(1, 5) as f64], rng.range(-4, 4) as f64),          // c·x: one step onto 0
                    5 => (vec![0.0, 0.0, 1.0], rng.range(-4, 4) as f64),                        // x^2: double root at 0
                    6 => (vec![0.0, -a, 0.0, 1.0], rng.uniform(-3.0, 3.0)),                     // x^3 - a x
                    _ => (vec![], rng.range(-2, 2) as f64),                                     // empty polynomial
                };
                let p = as_kind(&cs, simple, &mut rng);
                let tol = *rng.pick(&[1e-9, 1e-4, 1.0, 99.0, 100.0, 101.0, 150.0, 1000.0, 0.0, -1.0, f64::INFINITY]);
                let itermax = *rng.pick(&[0usize, 1, 2, 3, 10, 100, 2000]);
                emit_req(emit, &p, x0, tol, itermax, extrema);
            }
            // arbitrary polynomials of both kinds (several variables, negative / fractional exponents)
            _ => {
                let p = if simple {
                    simple_of(&crate::polyops::rand_coeffs(&mut rng, 7))
                } else {
                    let names: &[&str] = match rng.below(6) {
                        0 => &[],
                        1 => &["x", "y"],
                        _ => &["x"],
                    };
                    let mut q = crate::polyops::rand_inter(&mut rng, names, 5);
                    if rng.chance(1, 8) {
                        q.variables = vec!["t".to_string()];
                    }
                    AnyPoly::I(q)
                };
                let x0 = if rng.chance(1, 8) { 0.0 } else { rng.uniform(-6.0, 6.0) };
                let itermax = pick_itermax(&mut rng).min(if rng.chance(1, 2) { 300 } else { 5000 });
                emit_req(emit, &p, x0, pick_tol(&mut rng, true), itermax, extrema);
            }
        }
    }
    generate_hardening(seed, thorough, emit);
    generate_round3(seed, thorough, emit);
    generate_round6(seed, thorough, emit);
}

/// an antiderivative of g (the library's derivative of it is g up to rounding)
fn antiderivative(g: &[f64], c0: f64) -> Vec<f64> {
    let mut p = vec![c0];
    for (k, a) in g.iter().enumerate() {
        p.push(*a / (k as f64 + 1.0));
    }
    p
}

fn generate_hardening(seed: u64, thorough: bool, emit: &mut dyn FnMut(String)) {
    let mut rng = Rng::new(seed ^ 0xC07_5CA1E);
    // ---- (1) the whole real line rescaled: every decade 1e-20..1e20 and every binade 2^-70..2^60.  A step test in
    //      absolute units ("|dx| < EPSILON") stops after one step at the small scales (the residual is then far above
    //      the second-order bound) and never stops at the large ones (no value in the monotone case).
    let n = if thorough { 100_000 } else { 3000 };
    for i in 0..n {
        let simple = rng.chance(1, 2);
        let extrema = rng.chance(1, 5);
        let s = if i % 2 == 0 { 10f64.powi(((i / 2) % 41) as i32 - 20) } else { 2f64.powi(((i / 2) % 131) as i32 - 70) };
        let deg = rng.range(1, 6) as usize;
        let with_zero = rng.chance(1, 6);
        let mut ms = separated_roots(&mut rng, deg, with_zero, i % 2 == 1);
        if with_zero && i % 2 == 1 && rng.chance(1, 2) {
            let shift = if rng.chance(1, 2) { ms[ms.len() - 1] } else { ms[0] };
            for r in ms.iter_mut() {
                *r -= shift;
            }
        }
        let roots: Vec<f64> = ms.iter().map(|m| m * s).collect();
        // g(x) = amp * c0 * s * prod ((x - r_i) / s): coefficients amp * c0 * a_k * s^(1-k)
        let amp = match rng.below(6) {
            0 | 1 | 2 => 1.0,
            3 => 1.0 / s,
            4 => s,
            _ => 10f64.powi(rng.range(-6, 6) as i32),
        };
        let c0 = *rng.pick(&[1.0, -1.0, 2.0, -0.5, 3.0, 0.25]);
        let unit = expand_roots(1.0, &ms);
        let mut g: Vec<f64> = unit.iter().enumerate().map(|(k, a)| amp * c0 * a * s * s.powi(-(k as i32))).collect();
        if g.iter().any(|c| !c.is_finite()) {
            g = expand_roots(c0, &roots);
        }
        let cs = if extrema { antiderivative(&g, c0 * amp * s) } else { g };
        let (lo, hi) = (roots[0], roots[roots.len() - 1]);
        let span = (hi - lo).max(s);
        let x0 = match rng.below(10) {
            0 => hi + span * rng.uniform(0.01, 0.5),
            1 => hi + span * rng.uniform(0.5, 20.0),
            2 => lo - span * rng.uniform(0.01, 0.5),
            3 => lo - span * rng.uniform(0.5, 20.0),
            4 => hi + s * rng.range(1, 9) as f64,
            5 => lo - s * rng.range(1, 9) as f64,
            // anywhere (soundness half): between the roots, next to a root, on a root
            6 => lo + (hi - lo) * rng.unit(),
            7 => *rng.pick(&roots) * (1.0 + rng.uniform(-0.3, 0.3)) + s * rng.uniform(-0.2, 0.2),
            8 => *rng.pick(&roots),
            _ => s * rng.uniform(-8.0, 8.0),
        };
        let tol = if rng.chance(3, 4) { *rng.pick(&[1e-9, 1e-8, 1e-7, 1e-6, 1e-5, 1e-4, 1e-3, 0.01, 0.1, 1.0, 10.0]) } else { pick_tol(&mut rng, true) };
        let itermax = if rng.chance(4, 5) { *rng.pick(&[2000usize, 3000, 5000]) } else { pick_itermax(&mut rng) };
        let p = as_kind_named(&cs, simple, &mut rng);
        emit_req(emit, &p, x0, tol, itermax, extrema);
    }
    // ---- (2) ill-scaled polynomials: every root at its own scale 1e-20..1e20
    let n = if thorough { 30_000 } else { 1000 };
    for _ in 0..n {
        let simple = rng.chance(1, 2);
        let extrema = rng.chance(1, 6);
        let deg = rng.range(1, 5) as usize;
        let mut roots: Vec<f64> = Vec::new();
        for _ in 0..deg {
            let e = rng.range(-20, 20) as i32;
            roots.push(*rng.pick(&[1.0, -1.0, 2.5, -3.0, 7.0]) * 10f64.powi(e));
        }
        roots.sort_by(|a, b| a.partial_cmp(b).unwrap());
        roots.dedup();
        let g = expand_roots(*rng.pick(&[1.0, -1.0, 2.0, 0.5]), &roots);
        if g.iter().any(|c| !c.is_finite()) {
            continue;
        }
        let cs = if extrema { antiderivative(&g, rng.range(-3, 3) as f64) } else { g };
        let r = *rng.pick(&roots);
        let x0 = match rng.below(6) {
            0 => r * (1.0 + rng.uniform(0.01, 0.5)),
            1 => r * (1.0 - rng.uniform(0.01, 0.5)),
            2 => roots[roots.len() - 1] + roots[roots.len() - 1].abs() * rng.uniform(0.1, 30.0),
            3 => roots[0] - roots[0].abs() * rng.uniform(0.1, 30.0),
            4 => 0.0,
            _ => r * 10f64.powi(rng.range(-3, 3) as i32),
        };
        let p = as_kind_named(&cs, simple, &mut rng);
        let itermax = if rng.chance(2, 3) { *rng.pick(&[2000usize, 3000]) } else { pick_itermax(&mut rng) };
        emit_req(emit, &p, x0, pick_tol(&mut rng, true), itermax, extrema);
    }
    // ---- (3) degrees beyond 7 (8..24)
    let n = if thorough { 10_000 } else { 300 };
    for i in 0..n {
        let simple = rng.chance(1, 2);
        let extrema = rng.chance(1, 4);
        let deg = 8 + (i % 17) as usize;
        let halves: Vec<f64> = (0..deg).map(|_| rng.range(-4, 4) as f64 / 2.0).collect();
        let g = expand_roots(*rng.pick(&[1.0, -1.0, 0.5]), &halves);
        let x0 = match rng.below(4) {
            0 => rng.range(3, 9) as f64,
            1 => -(rng.range(3, 9) as f64),
            2 => *rng.pick(&halves) + rng.uniform(-0.2, 0.2),
            _ => rng.uniform(-4.0, 4.0),
        };
        let p = as_kind_named(&g, simple, &mut rng);
        emit_req(emit, &p, x0, pick_tol(&mut rng, true), *rng.pick(&[100usize, 2000, 3000]), extrema);
    }
    // ---- (4) signed zeros and exact ties at the start; caps next to the integer limits on quickly converging inputs
    {
        let polys: [&[f64]; 6] = [
            &[0.0, 1.0],            // x
            &[-0.0, 2.0],           // 2x - 0
            &[0.0, 0.0, 1.0],       // x^2
            &[0.0, -1.0, 0.0, 1.0], // x^3 - x
            &[-4.0, 0.0, 1.0],      // x^2 - 4: zero derivative at 0
            &[2.0, -2.0, 0.0, 1.0], // 0 -> 1 -> 0 cycle
        ];
        for cs in polys {
            for x0 in [0.0f64, -0.0, 1.0, -1.0, 2.0, -2.0, f64::from_bits(1), -f64::MIN_POSITIVE, 1e-300, -1e300] {
                for simple in [true, false] {
                    let p = if simple { simple_of(cs) } else { inter_of(cs, true) };
                    for extrema in [false, true] {
                        for (tol, cap) in [(1e-9, 3000usize), (50.0, 100), (150.0, 3), (0.0, 40)] {
                            emit_req(emit, &p, x0, tol, cap, extrema);
                        }
                    }
                }
            }
        }
        let caps: [usize; 10] = [
            u32::MAX as usize, (1usize << 32) + 1, (1usize << 32) - 2, 65535, 65536, 65537, (1usize << 31) + 3, i64::MAX as usize,
            (i64::MAX as usize) + 2, usize::MAX - 7,
        ];
        for cap in caps {
            for (cs, x0) in [(&[-4.0, 0.0, 1.0][..], 5.0), (&[0.0, 2.0, -3.0, 1.0][..], 4.0), (&[-3.0, 2.0][..], -7.0), (&[0.0, -1.0, 0.0, 1.0][..], 3.0)] {
                for simple in [true, false] {
                    let p = if simple { simple_of(cs) } else { inter_of(cs, false) };
                    for extrema in [false, true] {
                        if extrema && cs.len() == 2 {
                            continue;
                        }
                        emit_req(emit, &p, x0, 1e-8, cap, extrema);
                    }
                }
            }
        }
    }
}

// ---------------------------------------------------------------- round-3 families

/// `top x^n + b x - c` (optionally mirrored x -> -x) as a dense SimplePolynomial or a three-term IntermediatePolynomial
fn top_poly(n: usize, top: f64, quad: f64, b: f64, c: f64, mirror: bool, simple: bool, rng: &mut Rng) -> AnyPoly {
    use spindalis_core::polynomials::structs::{IntermediatePolynomial, SimplePolynomial};
    use spindalis_core::polynomials::Term;
    let sg = |k: usize| if mirror && k % 2 == 1 { -1.0 } else { 1.0 };
    if simple {
        let mut cs = vec![0.0; n + 1];
        cs[0] = -c;
        cs[1] = b * sg(1);
        if quad != 0.0 {
            cs[2] = quad;
        }
        cs[n] += top * sg(n);
        AnyPoly::S(SimplePolynomial { coefficients: cs, variable: *rng.pick(&[Some('x'), Some('y'), Some('λ'), None]) })
    } else {
        let name = *rng.pick(&["x", "x", "t", "λ", "変", "𝑥", "e"]);
        let mut terms = vec![
            Term { coefficient: top * sg(n), variables: vec![(name.to_string(), n as f64)] },
            Term { coefficient: b * sg(1), variables: vec![(name.to_string(), 1.0)] },
            Term { coefficient: -c, variables: vec![] },
        ];
        if quad != 0.0 {
            terms.insert(1, Term { coefficient: quad, variables: vec![(name.to_string(), 2.0)] });
        }
        if rng.chance(1, 3) {
            terms.reverse();
        }
        AnyPoly::I(IntermediatePolynomial { terms, variables: vec![name.to_string()] })
    }
}

fn generate_round3(seed: u64, thorough: bool, emit: &mut dyn FnMut(String)) {
    let mut rng = Rng::new(seed ^ 0xC07_0003_70B);
    // ---- (5) THE EDGE OF THE GRAMMAR: the largest exponent the parser admits, MAX_POWER = 65536 = 2^16 exactly (a u16
    //      conversion maps it to 0), its neighbours, the other integer widths (2^7, 2^8, 2^15: i8 / u8 / i16) and
    //      hand-built exponents beyond the limit.  Target  g(x) = a x^n + b x - c  with the root r chosen so that the top
    //      term is numerically alive in the slope:  rho = n a r^(n-1) / b  in 0.02..30 (|r| within ~1e-3 of 1 for
    //      n = 65536: further in the term has underflowed against the others, further out it overflows).  Both modes
    //      (extrema: p = a/n x^n + b/2 x^2 - c x has the degree at the limit), both polynomial types (the dense vector of
    //      n + 1 coefficients and the sparse term list), both signs of the root, starts on either side, tolerances
    //      1e-7..1e-2 %.  A power rule that loses or truncates the top exponent leaves a first-order iteration whose
    //      returned value violates the statement's second-order residual bound (tools/props/c07.py, interval arithmetic).
    //      Caps are small: a run that degenerates to NaN costs `cap` evaluations of 65537 terms.
    let mut tops: Vec<usize> = Vec::new();
    let reps = if thorough { 12 } else { 1 };
    for _ in 0..reps {
        tops.extend(std::iter::repeat(65536).take(36));
        tops.extend_from_slice(&[65535, 65535, 65535, 65537, 65537, 65537, 65534, 32767, 32769, 255, 257, 128, 128, 127, 129, 131072, 131072, 100000, 70000, 4096, 1000]);
        tops.extend(std::iter::repeat(32768).take(6));
        tops.extend(std::iter::repeat(256).take(6));
    }
    for (i, &top_exp) in tops.iter().enumerate() {
        let simple = i % 2 == 0;
        let extrema = i % 3 == 2;
        // the polynomial the caller passes has degree `top_exp`; the target's top exponent is one less in extrema mode
        let n = if extrema { top_exp - 1 } else { top_exp };
        let a = match rng.below(6) {
            0 | 1 => 1.0,
            2 => pow2(-16),
            3 => pow2(-(rng.range(1, 40) as i32)),
            4 => rng.range(2, 9) as f64,
            _ => rng.uniform(0.3, 3.0),
        };
        let b = *rng.pick(&[1.0, 1.0, 2.0, 0.5, 0.75, 3.0]);
        let rho = if rng.chance(7, 10) { 10f64.powf(rng.uniform(-1.7, 0.29)) } else { 10f64.powf(rng.uniform(0.3, 1.5)) };
        // r^(n-1) = rho b / (n a)
        let r = ((rho * b / (n as f64 * a)).ln() / (n as f64 - 1.0)).exp();
        if !(r.is_finite() && r > 0.0) || (n as f64) * r.ln() > 600.0 {
            continue;
        }
        let quad = if rng.chance(1, 5) { *rng.pick(&[0.25, -0.125, 0.5]) } else { 0.0 };
        let c = a * r.powf(n as f64) + quad * r * r + b * r;
        // the start: mostly to the right of the root (monotone convergence), sometimes a little to the left, on it, at 1
        let room = (2e-4f64).min(20.0 / n as f64 * 3.0).max(1e-6) * if n < 5000 { 50.0 } else { 1.0 };
        let x0 = match rng.below(8) {
            0 => r * (1.0 - room * rng.uniform(0.01, 0.2)),
            1 => r,
            2 if n as f64 * (1.0 - r).abs() < 30.0 => 1.0,
            _ => r * (1.0 + room * 10f64.powf(rng.uniform(-2.0, 0.0))),
        };
        let mirror = rng.chance(1, 4);
        let x0 = if mirror { -x0 } else { x0 };
        // the mirrored polynomial g(-x): coefficients of odd powers change sign; the quadratic and constant stay
        let tol = match rng.below(10) {
            0 => pick_tol(&mut rng, true),
            1 => 1e-2,
            2 => 1e-3,
            _ => *rng.pick(&[1e-7, 1e-6, 1e-6, 1e-5, 1e-4]),
        };
        let itermax = *rng.pick(&[60usize, 100, 150]);
        let p = if extrema {
            // p = a/top_exp x^top_exp + (quad/3 x^3) + b/2 x^2 - c x  (+ constant): the library's derivative is g up to rounding
            let lead = a / top_exp as f64;
            match top_poly(top_exp, lead, 0.0, 0.0, 0.0, false, simple, &mut rng) {
                AnyPoly::S(mut q) => {
                    let sg = |k: usize| if mirror && k % 2 == 0 { -1.0 } else { 1.0 };
                    // mirrored target g(-x) = d/dx [ -P(-x) ]
                    q.coefficients[top_exp] = lead * sg(top_exp);
                    q.coefficients[0] = rng.range(-3, 3) as f64;
                    q.coefficients[1] = -c;
                    q.coefficients[2] = b / 2.0 * sg(2);
                    q.coefficients[3] += quad / 3.0;
                    AnyPoly::S(q)
                }
                AnyPoly::I(mut q) => {
                    use spindalis_core::polynomials::Term;
                    let name = q.variables[0].clone();
                    let sg = |k: usize| if mirror && k % 2 == 0 { -1.0 } else { 1.0 };
                    q.terms = vec![
                        Term { coefficient: lead * sg(top_exp), variables: vec![(name.clone(), top_exp as f64)] },
                        Term { coefficient: b / 2.0 * sg(2), variables: vec![(name.clone(), 2.0)] },
                        Term { coefficient: -c, variables: vec![(name.clone(), 1.0)] },
                    ];
                    if quad != 0.0 {
                        q.terms.push(Term { coefficient: quad / 3.0, variables: vec![(name.clone(), 3.0)] });
                    }
                    AnyPoly::I(q)
                }
            }
        } else {
            top_poly(n, a, quad, b, c, mirror, simple, &mut rng)
        };
        emit_req(emit, &p, x0, tol, itermax, extrema);
    }

    // ---- (6) THE EDGE OF THE NUMBER RANGE.  (a) the whole polynomial scaled by 2^-1000..2^-1045 (coefficients and
    //      residuals subnormal, quotients g/g' ordinary; powers of two with dyadic roots keep every operation exact:
    //      `g * (1 / g')` overflows for a subnormal g' although g / g' is an ordinary number), (b) by 2^960..2^1005,
    //      (c) the real line rescaled by 2^+-(100..330) (x^3 within a few binades of the largest / smallest double).
    //      Every term, partial sum and quotient of the statement's own formula stays inside the range, so the monotone
    //      case must still return its root and the residual bound must hold (the oracle's absolute floor is 2^-1070).
    let n6 = if thorough { 16_000 } else { 640 };
    for i in 0..n6 {
        let simple = rng.chance(1, 2);
        let extrema = rng.chance(1, 6);
        let deg = 1 + rng.below(3) as usize;
        let dyadic = rng.chance(1, 2);
        let with_zero = rng.chance(1, 5);
        let ms = separated_roots(&mut rng, deg, with_zero, dyadic);
        let lead = if dyadic { *rng.pick(&[1.0, -1.0, 2.0, 0.5, 4.0]) } else { *rng.pick(&[1.0, -1.0, 3.0, 0.3, -0.7]) };
        let (g, scale): (Vec<f64>, f64) = match i % 4 {
            0 | 1 => {
                // (a) tiny amplitude
                let e = if i % 8 < 2 { rng.range(1040, 1060) as i32 } else { rng.range(1000, 1040) as i32 };
                let k = pow2(-e);
                (expand_roots(lead, &ms).iter().map(|c| c * k).collect(), 1.0)
            }
            2 => {
                // (b) huge amplitude
                let k = pow2(rng.range(960, 1005) as i32);
                (expand_roots(lead, &ms).iter().map(|c| c * k).collect(), 1.0)
            }
            _ => {
                // (c) the real line rescaled: roots m s, coefficients a_k s^(1-k)
                let e = rng.range(100, 330) as i32 * if rng.chance(1, 2) { 1 } else { -1 };
                let sc = pow2(e);
                let unit = expand_roots(lead, &ms);
                (unit.iter().enumerate().map(|(k, a)| a * pow2(e * (1 - k as i32))).collect(), sc)
            }
        };
        if g.iter().any(|c| !c.is_finite()) {
            continue;
        }
        let roots: Vec<f64> = ms.iter().map(|m| m * scale).collect();
        let (lo, hi) = (roots[0], roots[roots.len() - 1]);
        let span = (hi - lo).max(scale);
        let x0 = match rng.below(8) {
            0 => hi + span * rng.uniform(0.01, 0.5),
            1 => hi + span * rng.uniform(0.5, 3.0),
            2 => lo - span * rng.uniform(0.01, 0.5),
            3 => lo - span * rng.uniform(0.5, 3.0),
            4 => hi + scale * rng.range(1, 4) as f64,
            5 => lo - scale * rng.range(1, 4) as f64,
            6 => *rng.pick(&roots),
            _ => lo + (hi - lo) * rng.unit() + scale * 0.0625,
        };
        let cs = if extrema { antiderivative(&g, 0.0) } else { g };
        if cs.iter().any(|c| !c.is_finite()) {
            continue;
        }
        let tol = *rng.pick(&[1e-6, 1e-5, 1e-4, 1e-3, 0.01, 0.1, 1.0, 10.0]);
        let itermax = *rng.pick(&[2000usize, 3000]);
        let p = as_kind_named(&cs, simple, &mut rng);
        emit_req(emit, &p, x0, tol, itermax, extrema);
    }
}

// ---------------------------------------------------------------- round-6 families: block boundaries and exact relations

/// (x - r)(a_0 + ... + a_{m-1} x^{m-1}), r = +1 / -1, small positive integers a_k without a short period or a mirror
/// symmetry: integer coefficients of degree m, g(r) exactly 0 in any order of summation
fn boundary_poly6(m: usize, r: f64, salt: usize) -> Vec<f64> {
    let a: Vec<f64> = (0..m).map(|k| (1 + (k * k + 3 * k + salt) % 7) as f64).collect();
    let mut g = vec![0.0; m + 1];
    for (k, ak) in a.iter().enumerate() {
        g[k + 1] += ak;
        g[k] -= r * ak;
    }
    g
}

fn ulp_up(x: f64) -> f64 {
    f64::from_bits(x.to_bits() + 1)
}
fn ulp_down(x: f64) -> f64 {
    f64::from_bits(x.to_bits() - 1)
}

fn generate_round6(seed: u64, thorough: bool, emit: &mut dyn FnMut(String)) {
    let mut rng = Rng::new(seed ^ 0xC07_0006_B10C);
    let mut sizes: Vec<usize> = vec![];
    for b in [16usize, 32, 64, 128, 256] {
        sizes.extend([b - 1, b, b + 1, b + 2, 2 * b + 1]);
    }
    sizes.sort();
    sizes.dedup();
    // ---- (O1) THE DEGREE / NUMBER OF TERMS AT A BLOCK BOUNDARY (15..18, 31..34, 63..66, 127..130, 255..258, 513): root at
    //      +1 or -1, started within a few 1/n outside it (every power x^k stays within e^-2..e^3, so every coefficient is
    //      alive in value and slope), both modes, both polynomial types.  A chunk of coefficients lost, doubled or shifted
    //      in the evaluation or in the derivative turns the iteration first-order or moves its limit: the second-order
    //      residual bound of the statement fails on the returned value.
    for (i, &n) in sizes.iter().enumerate() {
        let reps = if thorough { 6 } else { 2 };
        for j in 0..reps {
            for extrema in [false, true] {
                let m = if extrema == (j % 2 == 0) { n - 1 } else { n };
                let r = if (i + j) % 2 == 0 { 1.0 } else { -1.0 };
                let mut g = boundary_poly6(m, r, i + j);
                // keep the values moderate: divide by a power of two of the size of the slope at the root
                let slope: f64 = g.iter().enumerate().map(|(k, c)| k as f64 * c.abs()).sum();
                let sc = pow2(-(slope.log2().floor() as i32));
                for c in g.iter_mut() {
                    *c *= sc;
                }
                let cs = if extrema { antiderivative(&g, (j as f64) - 2.0) } else { g };
                let simple = (i + j) % 2 == 0;
                let p = if simple { simple_of(&cs) } else { inter_of(&cs, false) };
                let nf = n as f64;
                let d = *rng.pick(&[0.5, 1.0, 2.0, 3.0]) / nf;
                let x0 = r + r * d; // outside the root of largest modulus on its own side
                for (tol, cap) in [(1e-7, 200usize), (1e-3, 60)] {
                    emit_req(emit, &p, x0, tol, cap, extrema);
                }
            }
        }
    }
    // ---- (O2 + P) THE NUMBER OF STEPS AT A BLOCK BOUNDARY AND A TOLERANCE EXACTLY EQUAL TO A COMPUTED STEP: Newton on x^2 - c
    //      from x0 = m 2^k halves x for about k steps and then converges quadratically; the run is replayed here (the
    //      arithmetic of a monic quadratic without linear term is the same in every evaluation order) and k is chosen so
    //      that the total number of steps is 15..18, 31..34, 63..66, 127..130.  The relative step e_j (in percent) of the
    //      last steps is requested as the tolerance: exactly e_j (strict test: one more step), one ulp above / below, 2^-40
    //      relative away; with a cap of exactly j - 1, j, j + 1, j + 2 steps and an ample one.  Both signs of the start.
    let wanted: Vec<usize> = sizes.iter().copied().filter(|&s| s <= 130).collect();
    for (ci, &c) in [4.0f64, 2.0, 9.0, 0.75].iter().enumerate() {
        let mut done: Vec<usize> = vec![];
        for k in 0..140i32 {
            let m = [1.0, 1.5, 1.25, 1.75][(k as usize + ci) % 4];
            let x0 = m * pow2(k);
            // replay
            let mut x = x0;
            let mut errs: Vec<f64> = vec![];
            for _ in 0..200 {
                let old = x;
                x = old - ((x * x - c) / (2.0 * x));
                let e = (((x - old).abs() / x) * 100.0).abs();
                errs.push(e);
                if e < 1e-9 {
                    break;
                }
            }
            let total = errs.len();
            if !wanted.contains(&total) || done.contains(&total) {
                continue;
            }
            done.push(total);
            let sign = if (k as usize + ci) % 3 == 0 { -1.0 } else { 1.0 };
            for j in [total - 1, total - 2, total - 3] {
                // (steps are counted from 1: e_j belongs to step j + 1)
                let e = errs[j];
                if !(e > 0.0) || !e.is_finite() {
                    continue;
                }
                let tols = [e, ulp_up(e), ulp_down(e), e * (1.0 + pow2(-40)), e * (1.0 - pow2(-40))];
                for (vi, tol) in tols.iter().enumerate() {
                    for cap in [j, j + 1, j + 2, j + 3, 1000] {
                        if !thorough && (vi + cap + ci) % 2 == 1 && cap != 1000 {
                            continue;
                        }
                        let extrema = (vi + cap) % 3 == 0;
                        let g = [-c, 0.0, 1.0];
                        let cs = if extrema { vec![1.0, -c, 0.0, 1.0 / 3.0] } else { g.to_vec() };
                        let p = if (vi + j) % 2 == 0 { simple_of(&cs) } else { inter_of(&cs, false) };
                        emit_req(emit, &p, sign * x0, *tol, cap, extrema);
                    }
                }
            }
        }
    }
    // ---- (P2) EXACT COINCIDENCES OF THE ITERATION: a start exactly on a root (the first step is exactly 0), exactly on a
    //      stationary point (slope exactly 0: no value may come back), a first step that lands exactly on the root or
    //      exactly on 0, a relative step of exactly 100 % at every pass (x^2: x halves for ever) against tolerances of
    //      exactly 100, its neighbours and 50 / 200
    let cases: [(&[f64], f64); 12] = [
        (&[-4.0, 0.0, 1.0], 2.0),          // on the root
        (&[-4.0, 0.0, 1.0], -2.0),
        (&[-4.0, 0.0, 1.0], 0.0),          // on the stationary point
        (&[0.0, -3.0, 0.0, 1.0], 1.0),     // x^3 - 3x: slope 0 at 1
        (&[0.0, -3.0, 0.0, 1.0], -1.0),
        (&[-6.0, 2.0], 7.0),               // linear: one step lands exactly on 3
        (&[0.0, 2.0], 7.0),                // linear through 0: lands exactly on 0
        (&[0.0, 0.0, 1.0], 1.0),           // x^2: relative step exactly 100 % for ever
        (&[0.0, 0.0, 1.0], -3.0),
        (&[0.0, 0.0, 0.0, 1.0], 8.0),      // x^3: relative step exactly 50 %
        (&[1.0, -2.0, 1.0], 3.0),          // (x-1)^2
        (&[-1.0, 0.0, 0.0, 0.0, 1.0], 1.0), // on the root of x^4 - 1
    ];
    let tols = [100.0, ulp_up(100.0), ulp_down(100.0), 50.0, ulp_up(50.0), ulp_down(50.0), 200.0, 1e-7, 0.0];
    for (cs, x0) in cases.iter() {
        for simple in [true, false] {
            for &tol in &tols {
                for cap in [1usize, 2, 16, 17, 64, 65, 1100] {
                    if !thorough && cap > 2 && cap < 1100 && tol != 100.0 {
                        continue;
                    }
                    let p = if simple { simple_of(cs) } else { inter_of(cs, false) };
                    emit_req(emit, &p, *x0, tol, cap, false);
                    let pc = antiderivative(cs, 1.0);
                    let q = if simple { simple_of(&pc) } else { inter_of(&pc, false) };
                    emit_req(emit, &q, *x0, tol, cap, true);
                }
            }
        }
    }
}
