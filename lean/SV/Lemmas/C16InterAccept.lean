import SV.Lemmas.C16InterChars
/-!
Converse of the grammar half of C02, part 5: the **forward** direction for terms whose letters may
repeat (`C02Render.parse_render` requires distinct letters), so that the accepted language can be
stated exactly: a text is accepted iff its white-space-free form is a rendering of `WF'` terms
(`SV.Props.C16Inter.inter_accepts_iff_grammar`).
-/
namespace SV.C16Inter
open SV SV.Text SV.C02

theorem bodyChar_piece' {t : TermSyn} (ht : t.WF') {c : Char} (hc : c ∈ t.piece) : BodyChar c := by
  unfold TermSyn.piece at hc
  rcases List.mem_append.1 hc with h | h
  · exact bodyChar_sign h
  · exact bodyChar_body' ht h

theorem plus_not_mem_piece' {t : TermSyn} (ht : t.WF') : '+' ∉ t.piece :=
  fun h => (bodyChar_piece' ht h).ne_plus rfl

theorem piece_ne_nil' {t : TermSyn} (ht : t.WF') : t.piece ≠ [] := by
  unfold TermSyn.piece
  intro e
  exact body_ne_nil' ht (List.append_eq_nil_iff.1 e).2

theorem piece_ne_dash' {t : TermSyn} (ht : t.WF') : t.piece ≠ ['-'] := by
  unfold TermSyn.piece
  have hb := body_ne_nil' ht
  cases hn : t.neg with
  | true =>
    simp only [signChars, if_true, List.cons_append, List.nil_append]
    intro e
    exact hb (List.cons.inj e).2
  | false =>
    simp only [signChars, Bool.false_eq_true, if_false, List.nil_append]
    intro e
    obtain ⟨p', _, h2⟩ := trans_body' ht none
    have h3 := h2 []
    rw [List.append_nil, e, protectDash_dash (by simp)] at h3
    simp at h3

/-- `C02.parts_render` without the distinctness requirement -/
theorem parts_render' (lead : Bool) (ts : List TermSyn) (hne : ts ≠ []) (hwf : ∀ u ∈ ts, u.WF') :
    parts (protectDash none (render lead ts)) = ts.map TermSyn.piece := by
  cases ts with
  | nil => exact absurd rfl hne
  | cons t ts =>
    rw [protectDash_render' lead t ts hwf]
    have hsep : ∀ r ∈ (ts.map TermSyn.piece), '+' ∉ r := by
      intro r hr
      obtain ⟨u, hu, rfl⟩ := List.mem_map.1 hr
      exact plus_not_mem_piece' (hwf u (by simp [hu]))
    have ht := hwf t (by simp)
    have hflat : (ts.flatMap fun u => '+' :: u.piece) =
        (ts.map TermSyn.piece).flatMap fun r => '+' :: r := by
      rw [List.flatMap_map]
    unfold parts
    by_cases hc : t.neg = true ∨ lead = true
    · rw [if_pos hc]
      have : ['+'] ++ t.piece ++ (ts.flatMap fun u => '+' :: u.piece) =
          [] ++ ((t :: ts).map TermSyn.piece).flatMap fun r => '+' :: r := by
        simp [List.flatMap_map]
      rw [this, splitOn_join [] _ (by simp) (by
        intro r hr
        rcases List.mem_cons.1 hr with rfl | hr
        · exact plus_not_mem_piece' ht
        · exact hsep r hr)]
    · rw [if_neg hc, List.nil_append, hflat, splitOn_join _ _ (plus_not_mem_piece' ht) hsep]
      split
      · rename_i rest heq
        exact absurd (List.cons.inj heq).1 (piece_ne_nil' ht)
      · rfl

/-- one piece parses to the term the parser builds for it (repeated letters merged) -/
theorem parsePart_render' {cc : CharClass} (hcc : Sane cc) {t : TermSyn} (ht : t.WF') :
    parsePart cc t.piece = .ok t.read := by
  have hhead := letterHead_factors ht.letters
  unfold parsePart TermSyn.piece TermSyn.body
  rw [← List.append_assoc, scanCoeff_signed hcc t.neg _ _ (coefChars ht.coef_wf) hhead]
  simp only [coeffValue_render ht.coef_wf t.neg]
  rw [scanVars_render t.factors ht.letters ht.exps_wf _ (Nat.le_succ _) []]
  rfl

theorem parseParts_render' {cc : CharClass} (hcc : Sane cc) (ts : List TermSyn)
    (hwf : ∀ t ∈ ts, t.WF') :
    parseParts cc (ts.map TermSyn.piece) = .ok (ts.map TermSyn.read) := by
  induction ts with
  | nil => rfl
  | cons t ts ih =>
    simp only [List.map_cons, parseParts, parsePart_render' hcc (hwf t (by simp)),
      ih (fun u hu => hwf u (by simp [hu]))]

/-- every text whose non-white-space characters are a rendering of well-formed terms — letters may
repeat — is accepted -/
theorem parse_render' {cc : CharClass} (hcc : Sane cc) (lead : Bool) (ts : List TermSyn)
    (hne : ts ≠ []) (hwf : ∀ t ∈ ts, t.WF') (s : List Char) (hs : stripWs cc s = render lead ts) :
    parse cc s = .ok ⟨ts.map TermSyn.read, variablesOf (ts.map TermSyn.read)⟩ := by
  unfold parse normalize
  rw [hs, parts_render' lead ts hne hwf]
  have hany : ((ts.map TermSyn.piece).any fun p => decide (p = [] ∨ p = ['-'])) = false := by
    rw [List.any_eq_false]
    intro p hp
    obtain ⟨t, ht, rfl⟩ := List.mem_map.1 hp
    have h1 := piece_ne_nil' (hwf t ht)
    have h2 := piece_ne_dash' (hwf t ht)
    simp [h1, h2]
  simp only [hany, Bool.false_eq_true, if_false, parseParts_render' hcc ts hwf]
  rfl

end SV.C16Inter
