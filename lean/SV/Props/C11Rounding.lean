import SV.Model.C11
import SV.Lemmas.Mat
import SV.Lemmas.Rounding
import SV.Lemmas.RoundingNearest
/-!
# C11, float half — rounding-error bound for `Arr2D::dot` ("float entries (rounding-bound oracle)")

`SV.Props.C11` proves that `SV.C11.dot` is the matrix product over every commutative semiring
(rounding error 0).  Here **the same definition** `SV.C11.dot` is run at the rounding scalar
`Fl M` of `SV.Lemmas.Rounding` (every `+`, `*` is the exact real operation followed by a rounding
with relative error `≤ u`), and the textbook bound for the inner product by recursive summation
(Higham, *Accuracy and Stability*, §3.1, (3.3)–(3.5)) is proved for every entry of the result, for
all shapes.

Counting what the model really does: the triple loop accumulates from `T::default() = 0`, so an
entry of an inner dimension `n = a.w` costs `n` multiplications and `n` additions (the first one,
`0 + a₀b₀`, is exact in IEEE but is charged one rounding by the model, which assumes nothing about
`rnd` except its relative accuracy).  Term `k` (0-based) goes through 1 multiplication and `n − k`
additions, hence carries `n + 1 − k ≤ n + 1` rounding factors: the constant is `γ_{n+1}`
(`γ_n` in Higham, who uses `0 + x = x`).  The 1×1 scalar shortcuts perform a single multiplication
per entry: one rounding, error `≤ u·|a·b|`.

For binary64 `u = 2⁻⁵³`; the hypothesis `(n+1)·u < 1` holds for every matrix that fits in memory.
NOT covered: overflow, underflow (a subnormal product loses relative accuracy), NaN/∞ entries, and
the conversion of decimal inputs to binary64 — see the header of `SV.Lemmas.Rounding`.
-/
namespace SV.Props.C11Rounding
open SV SV.C11 Finset

variable {M : FlModel}

/-- the model elaborates at the rounding scalar with no change -/
noncomputable example (a b : Mat (Fl M)) : Except DotErr (Mat (Fl M)) := dot a b

/-- **Componentwise weights.**  Conforming shapes: every entry of the computed product is
`Σ_k a_ik·b_kj·t_k`, where `t_k` is a product of at most `n + 1 − k` rounding factors
(`n = a.w`; including when a 1×1 operand makes the code take its scalar shortcut). -/
theorem dot_entry_weights (a b m : Mat (Fl M)) (hc : a.w = b.h) (hm : dot a b = .ok m) :
    ∀ i j, i < a.h → j < b.w → ∃ t : ℕ → ℝ, (∀ k, k < a.w → M.Fac (a.w + 1 - k) (t k)) ∧
      (m.get i j).val = ∑ k ∈ range a.w, (a.get i k).val * (b.get k j).val * t k := by
  intro i j hi hj
  unfold dot at hm
  by_cases ha : a.h = 1 ∧ a.w = 1
  · simp only [ha, and_self, if_true, Except.ok.injEq] at hm
    subst hm
    have hi0 : i = 0 := by omega
    subst hi0
    rw [Mat.get_tab _ (by omega) hj, ha.2]
    obtain ⟨d, hd, hmul⟩ := Fl.mul_fac (a.get 0 0) (b.get 0 j)
    refine ⟨fun _ => d, fun k _ => hd.mono (by omega), ?_⟩
    rw [hmul]; simp
  · by_cases hb : b.h = 1 ∧ b.w = 1
    · simp only [ha, if_false, hb, and_self, if_true, Except.ok.injEq] at hm
      subst hm
      have hj0 : j = 0 := by omega
      subst hj0
      rw [Mat.get_tab _ hi (by omega), hc, hb.1]
      obtain ⟨d, hd, hmul⟩ := Fl.mul_fac (b.get 0 0) (a.get i 0)
      refine ⟨fun _ => d, fun k _ => hd.mono (by omega), ?_⟩
      rw [hmul]; simp [mul_comm]
    · rw [if_neg ha, if_neg hb, if_neg (not_not.mpr hc)] at hm
      cases hm
      rw [Mat.get_tab _ hi hj]
      obtain ⟨s, hs, hval⟩ := sumFrom_rounding_weights a.w fun k => a.get i k * b.get k j
      choose d hd hmul using fun k => Fl.mul_fac (a.get i k) (b.get k j)
      refine ⟨fun k => d k * s k, fun k hk => ?_, ?_⟩
      · have := (hd k).mul (hs k hk)
        exact this.mono (by omega)
      · rw [hval]
        exact Finset.sum_congr rfl fun k _ => by rw [hmul k]; ring

/-- **(B), backward form.**  If `(n+1)·u < 1` (`n = a.w` the inner dimension), every entry of the
computed product is the exact inner product of relatively perturbed data:
`c_ij = Σ_k a_ik·b_kj·(1 + θ_k)`, `|θ_k| ≤ γ_{n+1}` (Higham (3.4)). -/
theorem dot_entry_backward (a b m : Mat (Fl M)) (hc : a.w = b.h) (hm : dot a b = .ok m)
    (hu : ((a.w + 1 : ℕ) : ℝ) * M.u < 1) :
    ∀ i j, i < a.h → j < b.w → ∃ θ : ℕ → ℝ, (∀ k, |θ k| ≤ M.gamma (a.w + 1)) ∧
      (m.get i j).val = ∑ k ∈ range a.w, (a.get i k).val * (b.get k j).val * (1 + θ k) := by
  intro i j hi hj
  obtain ⟨t, ht, hval⟩ := dot_entry_weights a b m hc hm i j hi hj
  obtain ⟨θ, hθ, hte⟩ :=
    weights_to_theta a.w (a.w + 1) t (fun k hk => (ht k hk).mono (Nat.sub_le _ _)) hu
  refine ⟨θ, hθ, ?_⟩
  rw [hval]
  exact Finset.sum_congr rfl fun k hk => by rw [hte k (by simpa using hk)]

/-- **(B), forward form — the float half of property C11.**  For conforming shapes and
`(n+1)·u < 1`, every entry `c_ij` of `dot a b` computed in floating-point arithmetic satisfies
`|c_ij − Σ_k a_ik·b_kj| ≤ γ_{n+1} · Σ_k |a_ik|·|b_kj|` (Higham (3.5)), whatever branch the code
takes (triple loop or 1×1 shortcut). -/
theorem dot_entry_rounding (a b m : Mat (Fl M)) (hc : a.w = b.h) (hm : dot a b = .ok m)
    (hu : ((a.w + 1 : ℕ) : ℝ) * M.u < 1) :
    ∀ i j, i < a.h → j < b.w →
      |(m.get i j).val - ∑ k ∈ range a.w, (a.get i k).val * (b.get k j).val|
        ≤ M.gamma (a.w + 1) * ∑ k ∈ range a.w, |(a.get i k).val| * |(b.get k j).val| := by
  intro i j hi hj
  obtain ⟨t, ht, hval⟩ := dot_entry_weights a b m hc hm i j hi hj
  rw [hval]
  have := weighted_sum_bound a.w (a.w + 1) (fun k => (a.get i k).val * (b.get k j).val) t
    (fun k hk => (ht k hk).mono (Nat.sub_le _ _)) hu
  simpa only [abs_mul] using this

/-- A 1×1 left operand (conforming or not) scales the right one with a single rounding per entry:
relative error `≤ u`, no hypothesis on `u`. -/
theorem dot_scalar_left_rounding (a b m : Mat (Fl M)) (ha : a.h = 1 ∧ a.w = 1)
    (hm : dot a b = .ok m) :
    m.h = b.h ∧ m.w = b.w ∧ ∀ i j, i < b.h → j < b.w →
      |(m.get i j).val - (a.get 0 0).val * (b.get i j).val|
        ≤ M.u * |(a.get 0 0).val * (b.get i j).val| := by
  unfold dot at hm
  simp only [ha, and_self, if_true, Except.ok.injEq] at hm
  subst hm
  refine ⟨rfl, rfl, fun i j hi hj => ?_⟩
  rw [Mat.get_tab _ hi hj]
  exact M.abs_rnd_sub_le _

/-- A 1×1 right operand (left one not 1×1) likewise: one rounding per entry. -/
theorem dot_scalar_right_rounding (a b m : Mat (Fl M)) (ha : ¬(a.h = 1 ∧ a.w = 1))
    (hb : b.h = 1 ∧ b.w = 1) (hm : dot a b = .ok m) :
    m.h = a.h ∧ m.w = a.w ∧ ∀ i j, i < a.h → j < a.w →
      |(m.get i j).val - (a.get i j).val * (b.get 0 0).val|
        ≤ M.u * |(a.get i j).val * (b.get 0 0).val| := by
  unfold dot at hm
  simp only [ha, if_false, hb, and_self, if_true, Except.ok.injEq] at hm
  subst hm
  refine ⟨rfl, rfl, fun i j hi hj => ?_⟩
  rw [Mat.get_tab _ hi hj, mul_comm (a.get i j).val]
  exact M.abs_rnd_sub_le _

/-- With exact arithmetic (`u = 0`) the bound collapses to the algebraic identity of
`SV.Props.C11.dot_entry`: the rounding theorem is a genuine extension of the field theorem. -/
theorem dot_entry_rounding_ideal (a b m : Mat (Fl FlModel.ideal)) (hc : a.w = b.h)
    (hm : dot a b = .ok m) :
    ∀ i j, i < a.h → j < b.w →
      (m.get i j).val = ∑ k ∈ range a.w, (a.get i k).val * (b.get k j).val := by
  intro i j hi hj
  have h := dot_entry_rounding a b m hc hm (by simp [FlModel.ideal]) i j hi hj
  have hg : FlModel.ideal.gamma (a.w + 1) = 0 := by simp [FlModel.gamma, FlModel.ideal]
  rw [hg, zero_mul] at h
  exact sub_eq_zero.mp (abs_nonpos_iff.mp h)

/-- **binary64, numerically.**  For round-to-nearest with a 53-bit significand
(`FlModel.binary64`, no exponent limits) and inner dimension `n < 2⁵²` the hypothesis on `u` is
automatic and `|c_ij − Σ_k a_ik·b_kj| ≤ (n+1)·2⁻⁵² · Σ_k |a_ik|·|b_kj|`. -/
theorem dot_entry_rounding_binary64 (a b m : Mat (Fl FlModel.binary64)) (hc : a.w = b.h)
    (hm : dot a b = .ok m) (hn : a.w + 1 ≤ 2 ^ 52) :
    ∀ i j, i < a.h → j < b.w →
      |(m.get i j).val - ∑ k ∈ range a.w, (a.get i k).val * (b.get k j).val|
        ≤ ((a.w + 1 : ℕ) : ℝ) * (2⁻¹ : ℝ) ^ 52
          * ∑ k ∈ range a.w, |(a.get i k).val| * |(b.get k j).val| := by
  intro i j hi hj
  obtain ⟨hu, hg⟩ := FlModel.binary64_gamma_le hn
  refine (dot_entry_rounding a b m hc hm hu i j hi hj).trans
    (mul_le_mul_of_nonneg_right hg (Finset.sum_nonneg fun k _ => ?_))
  positivity

/-! ### non-vacuity -/

/-- the hypotheses are satisfiable in a model with `u > 0` whose rounding is not the identity, and
there the computed entry really differs from the exact one (so the bound is not `0 ≤ 0`):
`[1 1]·[1 1]ᵀ` with `rnd x = x·(1 + 1/16)` (`u = 1/8`) gives `((0+1)·r + 1·r)·r ≠ 2`. -/
example : ∃ (M : FlModel) (a b m : Mat (Fl M)), 0 < M.u ∧ a.w = b.h ∧ dot a b = .ok m ∧
    ((a.w + 1 : ℕ) : ℝ) * M.u < 1 ∧
    (m.get 0 0).val ≠ ∑ k ∈ range a.w, (a.get 0 k).val * (b.get k 0).val := by
  have h8 : (0 : ℝ) ≤ 1 / 8 ∧ (1 / 8 : ℝ) < 1 := by norm_num
  refine ⟨FlModel.skew (1 / 8) h8, ⟨1, 2, #[1, 1]⟩, ⟨2, 1, #[1, 1]⟩,
    Mat.tab 1 1 fun i j => sumFrom 0 0 2 fun k =>
      (⟨1, 2, #[1, 1]⟩ : Mat (Fl _)).get i k * (⟨2, 1, #[1, 1]⟩ : Mat (Fl _)).get k j,
    by norm_num [FlModel.skew], rfl, ?_, by norm_num [FlModel.skew], ?_⟩
  · simp [dot]
  · rw [Mat.get_tab _ (by omega) (by omega)]
    norm_num [sumFrom, List.range', Mat.get, FlModel.skew, Finset.sum_range_succ]

end SV.Props.C11Rounding
