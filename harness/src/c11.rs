//! C11 — products: `Arr2D::dot`, the four `*` forms, scalar `*` and `/`, transpose laws.
use crate::util::*;
use spindalis::utils::{Arr2D, Arr2DError};

pub trait Elem:
    Copy
    + Default
    + PartialEq
    + std::fmt::Debug
    + std::ops::AddAssign
    + std::ops::Mul<Output = Self>
    + std::ops::Div<Output = Self>
{
    fn read(t: &mut Toks) -> Self;
    fn show(self) -> String;
    /// equal as values of the element type (floats: NaN = NaN, -0 = +0)
    fn same(self, other: Self) -> bool {
        self == other
    }
    /// the same value bit for bit (floats: sign of zero, NaN payload)
    fn ident(self, other: Self) -> bool {
        self == other
    }
    const IS_INT: bool;
    /// float element types: the value as f64 (exact) - `None` for the integer types
    fn as_float(self) -> Option<f64> {
        None
    }
    /// float element types: 2 * unit roundoff (2^-52 for f64, 2^-23 for f32) and the smallest positive value
    const EPS: f64 = 0.0;
    const TINY: f64 = 0.0;
    fn one() -> Self;
    /// `Arr2D::identity` where the element type has `From<i32>`
    fn real_ident(_n: usize) -> Option<Arr2D<Self>> {
        None
    }
}
impl Elem for i64 {
    fn read(t: &mut Toks) -> Self {
        t.i64()
    }
    fn show(self) -> String {
        format!("{self}")
    }
    const IS_INT: bool = true;
    fn one() -> Self {
        1
    }
    fn real_ident(n: usize) -> Option<Arr2D<Self>> {
        Some(Arr2D::identity(n))
    }
}
impl Elem for f64 {
    fn read(t: &mut Toks) -> Self {
        t.f64()
    }
    fn show(self) -> String {
        fbits(self)
    }
    fn same(self, other: Self) -> bool {
        self == other || (self.is_nan() && other.is_nan())
    }
    fn ident(self, other: Self) -> bool {
        self.to_bits() == other.to_bits()
    }
    const IS_INT: bool = false;
    fn as_float(self) -> Option<f64> {
        Some(self)
    }
    const EPS: f64 = 2.220446049250313e-16; // 2^-52
    const TINY: f64 = 5e-324;
    fn one() -> Self {
        1.0
    }
    fn real_ident(n: usize) -> Option<Arr2D<Self>> {
        Some(Arr2D::identity(n))
    }
}
// further element types (rare instances of the same generic code): requests carry values that are exact in the
// narrow type, so the model answers them with its integer / binary64 instance
impl Elem for i32 {
    fn read(t: &mut Toks) -> Self {
        i32::try_from(t.i64()).expect("i32 request value")
    }
    fn show(self) -> String {
        format!("{self}")
    }
    const IS_INT: bool = true;
    fn one() -> Self {
        1
    }
    fn real_ident(n: usize) -> Option<Arr2D<Self>> {
        Some(Arr2D::identity(n))
    }
}
impl Elem for u8 {
    fn read(t: &mut Toks) -> Self {
        u8::try_from(t.i64()).expect("u8 request value")
    }
    fn show(self) -> String {
        format!("{self}")
    }
    const IS_INT: bool = true;
    fn one() -> Self {
        1
    }
}
impl Elem for f32 {
    fn read(t: &mut Toks) -> Self {
        let x = t.f64();
        let y = x as f32;
        assert!(y as f64 == x || x.is_nan(), "f32 request value is not exact");
        y
    }
    fn show(self) -> String {
        fbits(self as f64)
    }
    fn same(self, other: Self) -> bool {
        self == other || (self.is_nan() && other.is_nan())
    }
    fn ident(self, other: Self) -> bool {
        self.to_bits() == other.to_bits()
    }
    const IS_INT: bool = false;
    fn as_float(self) -> Option<f64> {
        Some(self as f64)
    }
    const EPS: f64 = 1.1920928955078125e-7; // 2^-23
    const TINY: f64 = 1.401298464324817e-45; // 2^-149
    fn one() -> Self {
        1.0
    }
}

/// plain grid used by the oracle (independent of Arr2D)
#[derive(Clone, Debug)]
pub struct Grid<T> {
    pub h: usize,
    pub w: usize,
    pub v: Vec<T>,
}
impl<T: Elem> PartialEq for Grid<T> {
    fn eq(&self, o: &Self) -> bool {
        self.h == o.h && self.w == o.w && self.v.len() == o.v.len() && self.v.iter().zip(&o.v).all(|(a, b)| a.same(*b))
    }
}
impl<T: Elem> Grid<T> {
    fn at(&self, i: usize, j: usize) -> T {
        self.v[i * self.w + j]
    }
    fn read(t: &mut Toks) -> Self {
        let h = t.usize();
        let w = t.usize();
        let v = (0..h * w).map(|_| T::read(t)).collect();
        Grid { h, w, v }
    }
    pub fn to_arr(&self) -> Arr2D<T> {
        let mut a = Arr2D::full(T::default(), self.h, self.w);
        for i in 0..self.h {
            for j in 0..self.w {
                a[(i, j)] = self.at(i, j);
            }
        }
        a
    }
    pub fn of_arr(a: &Arr2D<T>) -> Self {
        let (h, w) = (a.height, a.width);
        let mut v = Vec::with_capacity(h * w);
        for i in 0..h {
            for j in 0..w {
                v.push(a[(i, j)]);
            }
        }
        Grid { h, w, v }
    }
    fn show(&self) -> String {
        let mut s = format!("{} {}", self.h, self.w);
        for x in &self.v {
            s.push(' ');
            s.push_str(&x.show());
        }
        s
    }
    fn scaled(&self, s: T) -> Self {
        Grid { h: self.h, w: self.w, v: self.v.iter().map(|x| s * *x).collect() }
    }
    fn product(&self, rhs: &Self) -> Self {
        let mut v = Vec::new();
        for i in 0..self.h {
            for j in 0..rhs.w {
                let mut s = T::default();
                for k in 0..self.w {
                    s += self.at(i, k) * rhs.at(k, j);
                }
                v.push(s);
            }
        }
        Grid { h: self.h, w: rhs.w, v }
    }
    /// `got` is the product self . rhs (conforming shapes): exactly for the integer types; for the float types
    /// ("float entries: rounding-bound oracle") every entry within the bound that ANY order of summation of the k
    /// rounded products satisfies, |fl - exact| <= (k+1) * 2u * sum_k |a_ik| |b_kj| (SV.Props.C11Rounding.
    /// dot_entry_rounding_binary64) - `got` and the sequential sum computed here both obey it, so they differ by
    /// at most twice the bound.  Exactly representable sums (the dyadic fillings) still have to come out exact
    /// up to that bound; a dropped / doubled / misplaced term is far outside it.
    fn is_product(&self, rhs: &Self, got: &Self) -> bool {
        let want = self.product(rhs);
        if *got == want {
            return true;
        }
        if T::IS_INT || got.h != want.h || got.w != want.w || got.v.len() != want.v.len() {
            return false;
        }
        let k = self.w;
        for i in 0..want.h {
            for j in 0..want.w {
                let (g, w) = (got.at(i, j), want.at(i, j));
                if g.same(w) {
                    continue;
                }
                let (Some(gf), Some(wf)) = (g.as_float(), w.as_float()) else { return false };
                let mut scale = 0.0f64;
                for l in 0..k {
                    scale += (self.at(i, l).as_float().unwrap() * rhs.at(l, j).as_float().unwrap()).abs();
                }
                if !scale.is_finite() {
                    continue; // overflow / NaN entries: the rounding bound says nothing
                }
                let tol = 2.0 * ((k + 1) as f64) * T::EPS * scale * 1.001 + 2.0 * ((k + 1) as f64) * T::TINY;
                if !((gf - wf).abs() <= tol) {
                    return false;
                }
            }
        }
        true
    }
    fn transposed(&self) -> Self {
        let mut v = Vec::new();
        for j in 0..self.w {
            for i in 0..self.h {
                v.push(self.at(i, j));
            }
        }
        Grid { h: self.w, w: self.h, v }
    }
}


// ------------------------------------------------------------------------------------------ object histories
//
// Nothing in the statement depends on HOW an operand came to be: "the multiplication operator agrees with the
// checked product on every operand-ownership combination" speaks about values.  An implementation, however, sees
// more than the values - the capacity of the hidden buffer (spare after the padding path of `from_flat`, possibly
// after `clone_from` into a larger object), whether an operand is consumed (owned forms may reuse its buffer) -
// so every product / scalar request is repeated, oracle-only, on operands built through EVERY constructor and
// conversion of the public API, and the ORIGINAL objects (never clones of them, a clone sheds the history) are moved
// into / borrowed by all four operator forms.  Every result must be the one the plainly built operands give.

#[derive(Clone, Copy, Debug, PartialEq)]
enum Hist {
    /// `Arr2D::full` + writes through the tuple index (how the printed observation is made)
    Full,
    /// `from_flat` with exactly h*w items
    Flat,
    /// `from_flat` with the first `given` items only (padding path: spare capacity), the rest written through the row index
    Padded(usize),
    /// `from_flat` with the shortest prefix whose padding value (the last item) reproduces the tail: no writes at all
    PaddedTail,
    /// `TryFrom<Vec<Vec<T>>>` (also the only way to an h x 0 array besides `full`)
    Nested,
    /// `TryFrom<&Vec<Vec<T>>>`
    NestedRef,
    /// `From<&[[T; N]; M]>` (shapes up to 5 x 5, also 0 x N)
    Literal,
    /// `map` of an index array
    Map,
    /// copying transpose of the transposed contents (0 x N from N empty rows)
    Transposed,
    /// padded 1 x (h*w) row, then `reshape(h)`: the padded buffer under another shape
    PaddedReshaped(usize),
    /// padded, then two row swaps and every row rewritten through `rows_mut` (the padded buffer after in-place work)
    PaddedSwapped(usize),
    /// `clone()` of a padded array
    CloneOfPadded,
    /// `clone_from` into an existing LARGER array
    CloneFromBig,
    /// `clone_from` into an existing larger array that itself came from the padding path
    CloneFromPaddedBig,
    /// `TryFrom<&Arr2D<T>>`
    ConvRef,
    /// the result object of a product (identity . a)
    ProductResult,
    /// the result object of a scalar multiplication (a * 1)
    ScalarResult,
    /// `full(default)` then every row written through `rows_mut`
    RowsMut,
}

fn from_array_lit<T: Elem, const M: usize, const N: usize>(g: &Grid<T>) -> Arr2D<T> {
    let mut a = [[T::default(); N]; M];
    for r in 0..M {
        for c in 0..N {
            a[r][c] = g.at(r, c);
        }
    }
    Arr2D::from(&a)
}
macro_rules! lit_cols {
    ($t:ty, $m:literal, $g:expr) => {
        match $g.w {
            0 => from_array_lit::<$t, $m, 0>($g),
            1 => from_array_lit::<$t, $m, 1>($g),
            2 => from_array_lit::<$t, $m, 2>($g),
            3 => from_array_lit::<$t, $m, 3>($g),
            4 => from_array_lit::<$t, $m, 4>($g),
            _ => from_array_lit::<$t, $m, 5>($g),
        }
    };
}

impl<T: Elem> Grid<T> {
    fn rows(&self) -> Vec<Vec<T>> {
        (0..self.h).map(|i| self.v[i * self.w..(i + 1) * self.w].to_vec()).collect()
    }
    /// bit-for-bit the same contents (floats: the sign of zero and NaN-ness too)
    fn identical(&self, o: &Self) -> bool {
        self.h == o.h && self.w == o.w && self.v.len() == o.v.len() && self.v.iter().zip(&o.v).all(|(a, b)| a.ident(*b))
    }
    fn padded(&self, given: usize, h: usize, w: usize) -> Option<Arr2D<T>> {
        let n = self.v.len();
        if n == 0 || given >= n || h * w != n {
            return None;
        }
        let mut a = Arr2D::from_flat(&self.v[..given], T::default(), h, w).ok()?;
        for idx in given..n {
            a[idx / w][idx % w] = self.v[idx];
        }
        Some(a)
    }
    /// the contents of `self` as an object with the given history; `None`: that route cannot produce this shape /
    /// these values (or does not reproduce them bit for bit - construction itself is the business of C12)
    fn build(&self, kind: Hist) -> Option<Arr2D<T>> {
        let built = self.build_raw(kind)?;
        if built.shape() == (self.h, self.w) && built.size() == self.h * self.w && Grid::of_arr(&built).identical(self) { Some(built) } else { None }
    }
    fn build_raw(&self, kind: Hist) -> Option<Arr2D<T>> {
        let (h, w, n) = (self.h, self.w, self.h * self.w);
        catch(|| -> Option<Arr2D<T>> {
            match kind {
                Hist::Full => Some(self.to_arr()),
                Hist::Flat => {
                    if n == 0 {
                        return None;
                    }
                    Arr2D::from_flat(self.v.clone(), T::default(), h, w).ok()
                }
                Hist::Padded(given) => self.padded(given, h, w),
                Hist::PaddedTail => {
                    if n == 0 {
                        return None;
                    }
                    let last = self.v[n - 1];
                    let given = (0..n).rev().find(|i| !self.v[*i].ident(last)).map(|i| i + 1).unwrap_or(0);
                    Arr2D::from_flat(&self.v[..given], last, h, w).ok()
                }
                Hist::Nested => {
                    if h == 0 && w > 0 {
                        return None;
                    }
                    Arr2D::try_from(self.rows()).ok()
                }
                Hist::NestedRef => {
                    if h == 0 && w > 0 {
                        return None;
                    }
                    Arr2D::<T>::try_from(&self.rows()).ok()
                }
                Hist::Literal => {
                    if h > 5 || w > 5 {
                        return None;
                    }
                    Some(match h {
                        0 => lit_cols!(T, 0, self),
                        1 => lit_cols!(T, 1, self),
                        2 => lit_cols!(T, 2, self),
                        3 => lit_cols!(T, 3, self),
                        4 => lit_cols!(T, 4, self),
                        _ => lit_cols!(T, 5, self),
                    })
                }
                Hist::Map => {
                    let mut idx = Arr2D::full(0usize, h, w);
                    for i in 0..h {
                        for j in 0..w {
                            idx[(i, j)] = i * w + j;
                        }
                    }
                    Some(idx.map(|k| self.v[*k]))
                }
                Hist::Transposed => {
                    let t = self.transposed();
                    // a w x 0 array (w rows without items) comes from the nested constructor, its transpose is 0 x w
                    let ta = if t.w == 0 && t.h > 0 { Arr2D::try_from(t.rows()).ok()? } else { t.to_arr() };
                    Some(ta.transpose())
                }
                Hist::PaddedReshaped(given) => {
                    let mut a = self.padded(given, 1, n)?;
                    a.reshape(h).ok()?;
                    Some(a)
                }
                Hist::PaddedSwapped(given) => {
                    let mut a = self.padded(given, h, w)?;
                    if h >= 2 {
                        a.swap_rows(0, h - 1);
                        a.swap_rows(h - 1, 0);
                    }
                    for (i, row) in a.rows_mut().enumerate() {
                        row.copy_from_slice(&self.v[i * w..(i + 1) * w]);
                    }
                    Some(a)
                }
                Hist::CloneOfPadded => Some(self.padded(n.checked_sub(1)?, h, w)?.clone()),
                Hist::CloneFromBig => {
                    let mut d = Arr2D::full(T::one(), h + 2, w + 3);
                    d.clone_from(&self.to_arr());
                    Some(d)
                }
                Hist::CloneFromPaddedBig => {
                    let big = (h + 1) * (w + 2);
                    let mut d = Arr2D::from_flat(vec![T::one(); big / 2 + 1], T::default(), h + 1, w + 2).ok()?;
                    d.clone_from(&self.to_arr());
                    Some(d)
                }
                Hist::ConvRef => Arr2D::<T>::try_from(&self.to_arr()).ok(),
                Hist::ProductResult => ident::<T>(h).dot(&self.to_arr()).ok(),
                Hist::ScalarResult => Some(&self.to_arr() * T::one()),
                Hist::RowsMut => {
                    let mut a = Arr2D::full(T::default(), h, w);
                    for (i, row) in a.rows_mut().enumerate() {
                        row.copy_from_slice(&self.v[i * w..(i + 1) * w]);
                    }
                    Some(a)
                }
            }
        })?
    }
    /// the histories tried for this shape: all of them for the operand that an owned form may consume (`wide`), the
    /// ones that differ in capacity / container for the other operand
    fn plans(&self, wide: bool, cheap: bool) -> Vec<Hist> {
        let n = self.h * self.w;
        if cheap {
            // large operands: the routes that differ in capacity only
            let mut p = if wide { vec![Hist::Full, Hist::Flat, Hist::PaddedTail, Hist::Nested, Hist::CloneFromBig] } else { vec![Hist::Full] };
            for g in [n / 2, n / 2 + 1, n.saturating_sub(1)] {
                if g < n && (wide || g + 1 == n) && !p.contains(&Hist::Padded(g)) {
                    p.push(Hist::Padded(g));
                }
            }
            return p;
        }
        if !wide {
            let mut p = vec![Hist::Full, Hist::PaddedTail, Hist::Nested, Hist::CloneFromBig];
            for g in [n / 2 + 1, n.saturating_sub(1)] {
                if g < n && !p.contains(&Hist::Padded(g)) {
                    p.push(Hist::Padded(g));
                }
            }
            return p;
        }
        let mut p = vec![
            Hist::Full, Hist::Flat, Hist::PaddedTail, Hist::Nested, Hist::NestedRef, Hist::Literal, Hist::Map, Hist::Transposed,
            Hist::CloneOfPadded, Hist::CloneFromBig, Hist::CloneFromPaddedBig, Hist::ConvRef, Hist::ProductResult, Hist::ScalarResult,
            Hist::RowsMut,
        ];
        // every amount of padding (the capacity after the padding path depends on how many items were given)
        let givens: Vec<usize> = if n <= 16 {
            (0..n).collect()
        } else {
            let mut g = vec![0, 1, n / 4, n / 2 - 1, n / 2, n / 2 + 1, n / 2 + 2, 3 * n / 4, n - 2, n - 1];
            g.dedup();
            g
        };
        for g in givens {
            p.push(Hist::Padded(g));
        }
        for g in [n / 2 + 1, n.saturating_sub(1)] {
            if g < n {
                p.push(Hist::PaddedReshaped(g));
                p.push(Hist::PaddedSwapped(g));
            }
        }
        p
    }
}

const FORMS: [&str; 4] = ["oo", "or", "ro", "rr"];
fn form_text(f: &str) -> &'static str {
    match f {
        "oo" => "a * b",
        "or" => "a * &b",
        "ro" => "&a * b",
        _ => "&a * &b",
    }
}

/// all four operator forms and the checked product on the ORIGINAL objects of every history pair: the result must
/// be `plain` (what the operands built by full() + writes gave; for conforming float operands any value inside the
/// rounding bound of the statement)
fn history_sweep<T: Elem>(a: &Grid<T>, b: &Grid<T>, plain_op: Option<&Grid<T>>, plain_dot: &str) -> Result<(), String> {
    let conforming = a.w == b.h;
    let acceptable = |got: &Grid<T>, plain: &Grid<T>| *got == *plain || (conforming && !T::IS_INT && a.is_product(b, got));
    let cheap = a.h * a.w * b.w.max(1) > 1500 || b.h * b.w > 400;
    let pbs: Vec<Hist> = b.plans(false, cheap).into_iter().filter(|p| b.build(*p).is_some()).collect();
    for pa in a.plans(true, cheap) {
        if a.build(pa).is_none() {
            continue;
        }
        for &pb in &pbs {
            if pa == Hist::Full && pb == Hist::Full {
                continue; // the printed observation
            }
            let fresh = || (a.build_raw(pa).unwrap(), b.build_raw(pb).unwrap());
            let how = || format!("the left operand built by {pa:?} and the right one by {pb:?} (the original objects, not clones of them)");
            // checked product
            let (x, y) = fresh();
            match catch(|| x.dot(&y)) {
                None => return Err(format!("the checked product panics with {}", how())),
                Some(r) => {
                    let s = show_dot(&r);
                    let ok = s == plain_dot
                        || match (&r, plain_op) {
                            (Ok(m), Some(p)) if plain_dot.starts_with("ok") => acceptable(&Grid::of_arr(m), p),
                            _ => s.starts_with("err dotshape") && plain_dot.starts_with("err dotshape"),
                        };
                    if !ok {
                        return Err(format!("the checked product depends on the history of its operands: {s} with {}, but {plain_dot} for the same values built by full() + writes", how()));
                    }
                    if x.shape() != (a.h, a.w) || !Grid::of_arr(&x).identical(a) || !Grid::of_arr(&y).identical(b) {
                        return Err(format!("the checked product changed an operand ({})", how()));
                    }
                }
            }
            let Some(plain) = plain_op else { continue };
            for form in FORMS {
                let (x, y) = fresh();
                let r = catch(move || match form {
                    "oo" => x * y,
                    "or" => x * &y,
                    "ro" => &x * y,
                    _ => &x * &y,
                });
                match r {
                    None => return Err(format!("`{}` panics with {}", form_text(form), how())),
                    Some(m) => {
                        let g = Grid::of_arr(&m);
                        if acceptable(&g, plain) && m.size() != g.h * g.w {
                            return Err(format!("`{}` with {} returns a {}x{} array whose size() is {}", form_text(form), how(), g.h, g.w, m.size()));
                        }
                        if !acceptable(&g, plain) {
                            return Err(format!(
                                "`{}` depends on the history of its operands: {} with {}, but {} for the same values built by full() + writes",
                                form_text(form), g.show(), how(), plain.show()
                            ));
                        }
                    }
                }
            }
        }
    }
    // the same OBJECT on both sides (equal values are not the same thing as one object)
    if a.identical(b) {
        let x = a.to_arr();
        let r = catch(|| (x.dot(&x), &x * &x));
        match r {
            None => return Err("a.dot(&a) / &a * &a panics".into()),
            Some((d, m)) => {
                let s = show_dot(&d);
                let same_dot = s == plain_dot || matches!((&d, plain_op), (Ok(m), Some(p)) if plain_dot.starts_with("ok") && acceptable(&Grid::of_arr(m), p));
                if !same_dot {
                    return Err(format!("a.dot(&a) (one object on both sides) gives {s}, two equal objects give {plain_dot}"));
                }
                if let Some(p) = plain_op {
                    if !acceptable(&Grid::of_arr(&m), p) {
                        return Err(format!("&a * &a (one object on both sides) gives {}, two equal objects give {}", Grid::of_arr(&m).show(), p.show()));
                    }
                }
            }
        }
    }
    Ok(())
}

/// the operator results of the plainly built operands, one per form (they must agree before the sweep makes sense)
fn plain_forms<T: Elem>(a: &Grid<T>, b: &Grid<T>) -> Result<Grid<T>, String> {
    let mut first: Option<Grid<T>> = None;
    for form in FORMS {
        let (x, y) = (a.to_arr(), b.to_arr());
        let r = catch(move || match form {
            "oo" => x * y,
            "or" => x * &y,
            "ro" => &x * y,
            _ => &x * &y,
        });
        let Some(m) = r else { return Err(format!("`{}` panics", form_text(form))) };
        let g = Grid::of_arr(&m);
        match &first {
            None => first = Some(g),
            Some(f) if *f == g || (a.w == b.h && !T::IS_INT && a.is_product(b, &g) && a.is_product(b, f)) => {}
            Some(f) => return Err(format!("the operator forms disagree: `a * b` gives {} but `{}` gives {}", f.show(), form_text(form), g.show())),
        }
    }
    Ok(first.unwrap())
}

fn show_dot<T: Elem>(r: &Result<Arr2D<T>, Arr2DError>) -> String {
    match r {
        Ok(m) => format!("ok {}", Grid::of_arr(m).show()),
        Err(Arr2DError::InvalidDotShape { lhs, rhs }) => format!("err dotshape {lhs} {rhs}"),
        Err(e) => format!("err other {e:?}"),
    }
}

/// the statement's table for the checked product
fn dot_oracle<T: Elem>(a: &Grid<T>, b: &Grid<T>, r: &Result<Arr2D<T>, Arr2DError>) -> Result<(), String> {
    let got = r.as_ref().ok().map(Grid::of_arr);
    let conforming = a.w == b.h;
    if conforming {
        let want = a.product(b);
        return match got {
            Some(g) if a.is_product(b, &g) => Ok(()),
            Some(g) => Err(format!("conforming product wrong: got {} want {}", g.show(), want.show())),
            None => Err("conforming shapes rejected".into()),
        };
    }
    if a.h == 1 && a.w == 1 {
        let want = b.scaled(a.v[0]);
        return match got {
            Some(g) if g == want => Ok(()),
            Some(g) => Err(format!("1x1 left operand must scale the right one: got {} want {}", g.show(), want.show())),
            None => Err("non-conforming 1x1 left operand rejected".into()),
        };
    }
    if b.h == 1 && b.w == 1 {
        let want = a.scaled(b.v[0]);
        return match got {
            None => Ok(()),
            Some(g) if g == want => Ok(()),
            Some(g) => Err(format!("1x1 right operand: got {} want {} or an error", g.show(), want.show())),
        };
    }
    match r {
        Err(Arr2DError::InvalidDotShape { .. }) => Ok(()),
        Err(e) => Err(format!("wrong error kind {e:?}")),
        Ok(_) => Err(format!("non-conforming shapes {}x{} . {}x{} accepted", a.h, a.w, b.h, b.w)),
    }
}

fn run_ty<T: Elem>(cmd: &str, t: &mut Toks) -> Obs {
    match cmd {
        "dot" => {
            let a = Grid::<T>::read(t);
            let b = Grid::<T>::read(t);
            let (aa, bb) = (a.to_arr(), b.to_arr());
            match catch(|| aa.dot(&bb)) {
                None => Obs::with("panic".into(), Err("checked product panicked".into())),
                Some(r) => {
                    let verdict = dot_oracle(&a, &b, &r).and_then(|_| {
                        // oracle only: the operator forms on the same operands, then operands of every history
                        let p = plain_forms(&a, &b)?;
                        match &r {
                            Ok(c) if Grid::of_arr(c) == p || (a.w == b.h && !T::IS_INT && a.is_product(&b, &p)) => {}
                            Ok(c) => return Err(format!("operator gives {} but the checked product {}", p.show(), Grid::of_arr(c).show())),
                            Err(_) if p.h * p.w == 0 && p.v.is_empty() => {}
                            Err(_) => return Err(format!("the checked product is refused but the operator returns a {}x{} matrix", p.h, p.w)),
                        }
                        history_sweep(&a, &b, Some(&p), &show_dot(&r))
                    });
                    Obs::with(show_dot(&r), verdict)
                }
            }
        }
        "mul" => {
            let form = t.tok();
            let a = Grid::<T>::read(t);
            let b = Grid::<T>::read(t);
            let (aa, bb) = (a.to_arr(), b.to_arr());
            let checked = catch(|| aa.dot(&bb));
            let (a2, b2) = (aa.clone(), bb.clone());
            let r = catch(move || match form {
                "rr" => &a2 * &b2,
                "oo" => a2 * b2,
                "or" => a2 * &b2,
                "ro" => &a2 * b2,
                _ => panic!("form"),
            });
            match r {
                None => Obs::with("panic".into(), Err("operator panicked".into())),
                Some(m) => {
                    let g = Grid::of_arr(&m);
                    let verdict = match &checked {
                        None => Err("checked product panicked".to_string()),
                        Some(c) => dot_oracle(&a, &b, c).map_err(|e| format!("checked product: {e}")).and_then(|_| match c {
                            Ok(c) => {
                                if Grid::of_arr(c) == g { Ok(()) } else { Err("operator differs from checked product".to_string()) }
                            }
                            // a refused product must not come back as a plausible matrix
                            Err(_) => {
                                if m.is_empty() && m.size() == 0 {
                                    Ok(())
                                } else {
                                    Err(format!("the checked product is refused but the operator returns a {}x{} matrix", m.height, m.width))
                                }
                            }
                        }),
                    };
                    // the statement's table, independently of the checked product
                    let verdict = verdict.and_then(|_| {
                        let want = if a.w == b.h {
                            Some(a.product(&b))
                        } else if a.h == 1 && a.w == 1 {
                            Some(b.scaled(a.v[0]))
                        } else {
                            None
                        };
                        match want {
                            Some(w) if w != g && !(a.w == b.h && a.is_product(&b, &g)) => {
                                Err(format!("operator result {} but the product is {}", g.show(), w.show()))
                            }
                            _ => Ok(()),
                        }
                    });
                    // oracle only: the other three forms, then operands of every history moved into every form
                    let verdict = verdict.and_then(|_| {
                        let p = plain_forms(&a, &b)?;
                        if !(p == g || (a.w == b.h && !T::IS_INT && a.is_product(&b, &p))) {
                            return Err(format!("the operator forms disagree: `{}` gives {} but `a * b` gives {}", form_text(form), g.show(), p.show()));
                        }
                        let plain_dot = checked.as_ref().map(show_dot).unwrap_or_default();
                        history_sweep(&a, &b, Some(&p), &plain_dot)
                    });
                    Obs::with(g.show(), verdict)
                }
            }
        }
        "smul" | "sdiv" => {
            let own = t.tok();
            let a = Grid::<T>::read(t);
            let s = T::read(t);
            let aa = a.to_arr();
            let is_mul = cmd == "smul";
            let apply = move |x: Arr2D<T>, own: &str| match (is_mul, own) {
                (true, "r") => &x * s,
                (true, _) => x * s,
                (false, "r") => &x / s,
                (false, _) => x / s,
            };
            let r = catch(move || apply(aa, own));
            // oracle only: the same operation on operands of every history, both ownership forms
            let sweep = |plain: Option<&Grid<T>>| -> Result<(), String> {
                for pa in a.plans(true, a.h * a.w > 400) {
                    for own2 in ["r", "o"] {
                        let Some(x) = a.build(pa) else { continue };
                        let got = catch(move || apply(x, own2)).map(|m| (m.size(), Grid::of_arr(&m)));
                        let ok = match (&got, plain) {
                            (None, None) => true,
                            (Some((size, g)), Some(p)) => g == p && *size == p.h * p.w,
                            _ => false,
                        };
                        if let (Some((size, g)), Some(p)) = (&got, plain) {
                            if g == p && *size != p.h * p.w {
                                return Err(format!(
                                    "the scalar operator ({}) on the array built by {pa:?} returns a {}x{} array whose size() is {size}",
                                    if own2 == "r" { "borrowed" } else { "owned" }, g.h, g.w
                                ));
                            }
                        }
                        if !ok {
                            return Err(format!(
                                "the scalar operator ({}) depends on the history of its operand: {} for the array built by {pa:?}, {} for the same values built by full() + writes",
                                if own2 == "r" { "borrowed" } else { "owned" },
                                got.map(|(_, g)| g.show()).unwrap_or("panic".into()),
                                plain.map(|g| g.show()).unwrap_or("panic".into())
                            ));
                        }
                    }
                }
                Ok(())
            };
            match r {
                None => {
                    // integer division by zero is the only documented panic
                    let expected = !is_mul && s == T::default() && T::IS_INT && a.h * a.w > 0;
                    let verdict = if expected { Ok(()) } else { Err("scalar operator panicked".into()) };
                    Obs::with("panic".into(), verdict.and_then(|_| sweep(None)))
                }
                Some(m) => {
                    let g = Grid::of_arr(&m);
                    let want = catch(|| Grid {
                        h: a.h,
                        w: a.w,
                        v: a.v.iter().map(|x| if is_mul { *x * s } else { *x / s }).collect::<Vec<T>>(),
                    });
                    let verdict = match want {
                        None => Err(format!("the elementwise operation has no value here (integer division by zero) but the operator returned {}", g.show())),
                        Some(want) if g == want => Ok(()),
                        Some(want) => Err(format!("scalar operator is not elementwise: got {} want {}", g.show(), want.show())),
                    };
                    Obs::with(g.show(), verdict.and_then(|_| sweep(Some(&g))))
                }
            }
        }
        "transpose" => {
            let a = Grid::<T>::read(t);
            let aa = a.to_arr();
            let g = Grid::of_arr(&aa.transpose());
            let mut verdict = if g == a.transposed() { Ok(()) } else { Err("transpose wrong".to_string()) };
            if verdict.is_ok() {
                for pa in a.plans(true, a.h * a.w > 400) {
                    let Some(x) = a.build(pa) else { continue };
                    let t = catch(|| Grid::of_arr(&x.transpose()));
                    if t.as_ref() != Some(&g) {
                        verdict = Err(format!("transpose of the array built by {pa:?} gives {:?}, the same values built by full() + writes give {}", t.map(|t| t.show()), g.show()));
                        break;
                    }
                }
            }
            Obs::with(g.show(), verdict)
        }
        "assoc" | "tprod" | "ident" => {
            let a = Grid::<T>::read(t);
            let (l, r, strict, want) = match cmd {
                "assoc" => {
                    let b = Grid::<T>::read(t);
                    let c = Grid::<T>::read(t);
                    let (aa, bb, cc) = (a.to_arr(), b.to_arr(), c.to_arr());
                    let l = aa.dot(&bb).and_then(|ab| ab.dot(&cc));
                    let r = bb.dot(&cc).and_then(|bc| aa.dot(&bc));
                    let strict = a.w == b.h && b.w == c.h;
                    (l, r, strict, if strict { Some(a.product(&b).product(&c)) } else { None })
                }
                "tprod" => {
                    let b = Grid::<T>::read(t);
                    let (aa, bb) = (a.to_arr(), b.to_arr());
                    let l = aa.dot(&bb).map(|m| m.transpose());
                    let r = bb.transpose().dot(&aa.transpose());
                    let strict = a.w == b.h;
                    (l, r, strict, if strict { Some(a.product(&b).transposed()) } else { None })
                }
                _ => {
                    let aa = a.to_arr();
                    let idl: Arr2D<T> = ident(a.h);
                    let idr: Arr2D<T> = ident(a.w);
                    let l = idl.dot(&aa);
                    let r = aa.dot(&idr);
                    let ok = |x: &Result<Arr2D<T>, Arr2DError>| x.as_ref().ok().map(|m| Grid::of_arr(m) == a).unwrap_or(false);
                    let mut verdict = if ok(&l) && ok(&r) { Ok(()) } else { Err("identity law fails".to_string()) };
                    // `Arr2D::identity` itself: ones on the diagonal, zeros elsewhere, neutral on both sides
                    if let (Some(il), Some(ir)) = (catch(|| T::real_ident(a.h)), catch(|| T::real_ident(a.w))) {
                        if let (Some(il), Some(ir)) = (il, ir) {
                            if Grid::of_arr(&il) != Grid::of_arr(&idl) || Grid::of_arr(&ir) != Grid::of_arr(&idr) {
                                verdict = verdict.and(Err("Arr2D::identity is not the identity matrix".into()));
                            }
                            let (l2, r2) = (il.dot(&aa), aa.dot(&ir));
                            if !(ok(&l2) && ok(&r2)) {
                                verdict = verdict.and(Err("identity law fails for Arr2D::identity".into()));
                            }
                            // operator forms with the identity
                            let viaop = catch(|| (&il * &aa, aa.clone() * ir.clone()));
                            match viaop {
                                Some((x, y)) if Grid::of_arr(&x) == a && Grid::of_arr(&y) == a => {}
                                _ => verdict = verdict.and(Err("identity law fails through the operator".into())),
                            }
                        }
                    } else {
                        verdict = verdict.and(Err("Arr2D::identity panicked".into()));
                    }
                    return Obs::with(format!("L {} R {}", show_dot(&l), show_dot(&r)), verdict);
                }
            };
            let obs = format!("L {} R {}", show_dot(&l), show_dot(&r));
            let verdict = if !strict {
                None
            } else {
                Some(match (&l, &r) {
                    (Ok(x), Ok(y)) if Grid::of_arr(x) == Grid::of_arr(y) => match &want {
                        // both sides also equal the product computed on plain grids (entries are exact)
                        Some(w) if *w != Grid::of_arr(x) => Err(format!("both sides agree but are not the product: got {} want {}", Grid::of_arr(x).show(), w.show())),
                        _ => Ok(()),
                    },
                    _ => Err("law fails on conforming operands".to_string()),
                })
            };
            Obs { obs, oracle: verdict }
        }
        _ => panic!("unknown C11 request {cmd}"),
    }
}

fn ident<T: Elem>(n: usize) -> Arr2D<T> {
    // built without Arr2D::identity (which needs From<i32>): 1 = x/x is not available for ints, so
    // go through the product of defaults: use full + set with a value read from a 1-element parse
    let mut m = Arr2D::full(T::default(), n, n);
    let one = T::one();
    for i in 0..n {
        m[(i, i)] = one;
    }
    m
}

pub fn run(line: &str) -> Obs {
    let mut t = Toks::new(line);
    let cmd = t.tok();
    let ty = t.tok();
    match ty {
        "i" => run_ty::<i64>(cmd, &mut t),
        "f" => run_ty::<f64>(cmd, &mut t),
        "j" => run_ty::<i32>(cmd, &mut t),
        "b" => run_ty::<u8>(cmd, &mut t),
        "g" => run_ty::<f32>(cmd, &mut t),
        _ => panic!("type"),
    }
}

fn fill_i(rng: &mut Rng, h: usize, w: usize, style: u64) -> Vec<i64> {
    (0..h * w)
        .map(|k| match style {
            0 => rng.range(-3, 3),
            1 => {
                let v = rng.range(1, 9);
                if rng.chance(1, 2) { -v } else { v }
            }
            _ => (k as i64) * 7 + 2,
        })
        .collect()
}
fn fill_f(rng: &mut Rng, h: usize, w: usize) -> Vec<f64> {
    // small dyadic rationals: every product and partial sum is exact in binary64
    (0..h * w).map(|_| rng.dyadic(64, 4)).collect()
}

pub fn generate(seed: u64, thorough: bool, emit: &mut dyn FnMut(String)) {
    let mut rng = Rng::new(seed ^ 0xC11);
    let top = 5usize;
    // exhaustive shape pairs 0..5 x 0..5, integer entries, three fillings
    for h1 in 0..=top {
        for w1 in 0..=top {
            for h2 in 0..=top {
                for w2 in 0..=top {
                    for style in 0..3 {
                        let a = fill_i(&mut rng, h1, w1, style);
                        let b = fill_i(&mut rng, h2, w2, style);
                        emit(format!("dot i {} {}", req_mat_i(h1, w1, &a), req_mat_i(h2, w2, &b)));
                    }
                    let a = fill_i(&mut rng, h1, w1, 1);
                    let b = fill_i(&mut rng, h2, w2, 1);
                    let form = ["rr", "oo", "or", "ro"][(h1 + w1 + h2 + w2) % 4];
                    let _ = (form, thorough);
                    for f in ["rr", "oo", "or", "ro"] {
                        emit(format!("mul i {f} {} {}", req_mat_i(h1, w1, &a), req_mat_i(h2, w2, &b)));
                    }
                    let af = fill_f(&mut rng, h1, w1);
                    let bf = fill_f(&mut rng, h2, w2);
                    emit(format!("dot f {} {}", req_mat_f(h1, w1, &af), req_mat_f(h2, w2, &bf)));
                    {
                        let form = ["rr", "oo", "or", "ro"][(h1 + 2 * w1 + h2 + w2) % 4];
                        emit(format!("mul f {form} {} {}", req_mat_f(h1, w1, &af), req_mat_f(h2, w2, &bf)));
                    }
                    // the same generic code at other element types (i32, u8, f32): values exact in the narrow type
                    let ty = ["j", "b", "g"][(h1 + w1 * 2 + h2 * 3 + w2 * 5) % 3];
                    for ty in if thorough { vec!["j", "b", "g"] } else { vec![ty] } {
                        let form = ["rr", "oo", "or", "ro"][(h1 + w1 + 3 * h2 + w2) % 4];
                        if ty == "g" {
                            let a = fill_g(&mut rng, h1, w1);
                            let b = fill_g(&mut rng, h2, w2);
                            emit(format!("dot g {} {}", req_mat_f(h1, w1, &a), req_mat_f(h2, w2, &b)));
                            emit(format!("mul g {form} {} {}", req_mat_f(h1, w1, &a), req_mat_f(h2, w2, &b)));
                        } else {
                            let lo = if ty == "b" { 0 } else { -3 };
                            let a: Vec<i64> = (0..h1 * w1).map(|_| rng.range(lo, 3)).collect();
                            let b: Vec<i64> = (0..h2 * w2).map(|_| rng.range(lo, 3)).collect();
                            emit(format!("dot {ty} {} {}", req_mat_i(h1, w1, &a), req_mat_i(h2, w2, &b)));
                            emit(format!("mul {ty} {form} {} {}", req_mat_i(h1, w1, &a), req_mat_i(h2, w2, &b)));
                        }
                    }
                }
            }
        }
    }
    // scalar forms on all shapes
    for h in 0..=top {
        for w in 0..=top {
            for own in ["r", "o"] {
                let a = fill_i(&mut rng, h, w, 1);
                emit(format!("smul i {own} {} {}", req_mat_i(h, w, &a), rng.range(-5, 5)));
                let d = if rng.chance(1, 8) { 0 } else { *rng.pick(&[-3i64, -2, -1, 1, 2, 3, 7]) };
                emit(format!("sdiv i {own} {} {}", req_mat_i(h, w, &a), d));
                let af = fill_f(&mut rng, h, w);
                emit(format!("smul f {own} {} {}", req_mat_f(h, w, &af), rbits(rng.dyadic(32, 3))));
                let df = *rng.pick(&[0.5f64, -2.0, 4.0, 0.25, 1.0, 3.0]);
                emit(format!("sdiv f {own} {} {}", req_mat_f(h, w, &af), rbits(df)));
            }
            let a = fill_i(&mut rng, h, w, 2);
            emit(format!("transpose i {}", req_mat_i(h, w, &a)));
            emit(format!("ident i {}", req_mat_i(h, w, &a)));
            // other element types: transposes, identity (the real `Arr2D::identity` for i64/f64/i32), scalar forms
            let af = fill_f(&mut rng, h, w);
            emit(format!("transpose f {}", req_mat_f(h, w, &af)));
            emit(format!("ident f {}", req_mat_f(h, w, &af)));
            let aj: Vec<i64> = (0..h * w).map(|_| rng.range(-9, 9)).collect();
            let ab: Vec<i64> = (0..h * w).map(|_| rng.range(0, 9)).collect();
            let ag = fill_g(&mut rng, h, w);
            emit(format!("transpose j {}", req_mat_i(h, w, &aj)));
            emit(format!("ident j {}", req_mat_i(h, w, &aj)));
            emit(format!("ident b {}", req_mat_i(h, w, &ab)));
            emit(format!("transpose b {}", req_mat_i(h, w, &ab)));
            emit(format!("ident g {}", req_mat_f(h, w, &ag)));
            emit(format!("transpose g {}", req_mat_f(h, w, &ag)));
            for own in ["r", "o"] {
                emit(format!("smul j {own} {} {}", req_mat_i(h, w, &aj), rng.range(-5, 5)));
                emit(format!("sdiv j {own} {} {}", req_mat_i(h, w, &aj), *rng.pick(&[-3i64, -1, 0, 1, 2, 7])));
                emit(format!("smul b {own} {} {}", req_mat_i(h, w, &ab), rng.range(0, 9)));
                emit(format!("sdiv b {own} {} {}", req_mat_i(h, w, &ab), *rng.pick(&[0i64, 1, 2, 3, 200])));
                emit(format!("smul g {own} {} {}", req_mat_f(h, w, &ag), rbits(rng.range(-8, 8) as f64 / 4.0)));
                emit(format!("sdiv g {own} {} {}", req_mat_f(h, w, &ag), rbits(*rng.pick(&[0.5f64, -2.0, 4.0, 0.25, -1.0]))));
                // integer division: every divisor sign, +-1, divisors larger than every entry, the extreme divisors
                let a = fill_i(&mut rng, h, w, 1);
                for d in [1i64, -1, 0, 10, -10, i64::MAX, i64::MIN] {
                    emit(format!("sdiv i {own} {} {d}", req_mat_i(h, w, &a)));
                }
                emit(format!("smul i {own} {} 0", req_mat_i(h, w, &a)));
            }
        }
    }
    // scalar multiply / divide of floats by zero of either sign, infinities, NaN, subnormal, huge and tiny
    // scalars, non-dyadic divisors (a reciprocal-multiply shortcut rounds differently), on entries of every magnitude
    // incl. zeros of both signs: elementwise IEEE results, bit for bit
    let specials = [
        0.0f64, -0.0, f64::INFINITY, f64::NEG_INFINITY, f64::NAN, f64::MIN_POSITIVE, 5e-324, -5e-324, 1e-310, f64::MAX, -f64::MAX,
        1e300, 1e-300, 3.0, -7.0, 0.1, 1e-5, 49.0, 1.0 / 3.0, 1.0000000000000002, 0.9999999999999999,
    ];
    for (k, sc) in specials.iter().enumerate() {
        for rep in 0..(if thorough { 6 } else { 2 }) {
            let (h, w) = if rep == 0 { (2, 3) } else { (1 + rng.below(4) as usize, 1 + rng.below(9) as usize) };
            let a: Vec<f64> = (0..h * w)
                .map(|i| match (i + k + rep) % 7 {
                    0 => 0.0,
                    1 => -0.0,
                    2 => rng.uniform(-10.0, 10.0),
                    3 => rng.uniform(1.0, 2.0) * 2f64.powi(rng.range(-1000, 1000) as i32),
                    4 => -rng.uniform(1.0, 2.0) * 10f64.powi(rng.range(-300, 300) as i32),
                    5 => rng.range(-9, 9) as f64,
                    _ => 5e-324 * rng.range(1, 1000) as f64,
                })
                .collect();
            let own = ["r", "o"][(k + rep) % 2];
            emit(format!("sdiv f {own} {} {}", req_mat_f(h, w, &a), rbits(*sc)));
            emit(format!("smul f {own} {} {}", req_mat_f(h, w, &a), rbits(*sc)));
        }
    }
    // block boundaries: cache-blocked / panelled / SIMD-unrolled loops change behaviour exactly when a dimension passes the
    // block size (16, 32, 64, 128, 256): each of the three dimensions of a product, and each dimension of a transpose / scalar
    // form, one below, at, and one/two above every such size, the other dimensions small
    for &blk in &[16usize, 32, 64, 128, 256] {
        if blk == 256 && !thorough && seed % 2 == 1 {
            continue;
        }
        for d in [blk - 1, blk, blk + 1, blk + 2, 2 * blk + 1] {
            if d > 300 {
                continue;
            }
            for which in 0..3 {
                let small_a = 1 + rng.below(3) as usize;
                let small_b = 1 + rng.below(3) as usize;
                let (m, k, n) = match which {
                    0 => (small_a, d, small_b),
                    1 => (d, small_a, small_b),
                    _ => (small_a, small_b, d),
                };
                let a = fill_i(&mut rng, m, k, 1);
                let b = fill_i(&mut rng, k, n, 1);
                emit(format!("dot i {} {}", req_mat_i(m, k, &a), req_mat_i(k, n, &b)));
                let form = ["rr", "oo", "or", "ro"][(d + which) % 4];
                emit(format!("mul i {form} {} {}", req_mat_i(m, k, &a), req_mat_i(k, n, &b)));
                if which == 0 {
                    let af = fill_f(&mut rng, m, k);
                    let bf = fill_f(&mut rng, k, n);
                    emit(format!("dot f {} {}", req_mat_f(m, k, &af), req_mat_f(k, n, &bf)));
                    emit(format!("ident i {}", req_mat_i(m, k, &a)));
                }
                emit(format!("transpose i {}", req_mat_i(m, k, &a)));
                emit(format!("transpose i {}", req_mat_i(k, n, &b)));
                emit(format!("smul i r {} 3", req_mat_i(m, k, &a)));
            }
        }
    }
    // sizes well beyond the exhaustive shape sweep (blocked / unrolled loops only show past their block size):
    // every shared dimension 6..40 at least once, outer dimensions 1..24
    let reps = if thorough { 12 } else { 2 };
    for k in 6..=40usize {
        for r in 0..reps {
            let m = 1 + rng.below(if r == 0 { 3 } else { 24 }) as usize;
            let n = 1 + rng.below(if r == 0 { 3 } else { 24 }) as usize;
            let a = fill_i(&mut rng, m, k, 1);
            let b = fill_i(&mut rng, k, n, 1);
            emit(format!("dot i {} {}", req_mat_i(m, k, &a), req_mat_i(k, n, &b)));
            let form = ["rr", "oo", "or", "ro"][(k + r) % 4];
            emit(format!("mul i {form} {} {}", req_mat_i(m, k, &a), req_mat_i(k, n, &b)));
            let af = fill_f(&mut rng, m, k);
            let bf = fill_f(&mut rng, k, n);
            emit(format!("dot f {} {}", req_mat_f(m, k, &af), req_mat_f(k, n, &bf)));
            if r == 0 {
                let c = fill_i(&mut rng, n, 2, 0);
                emit(format!("assoc i {} {} {}", req_mat_i(m, k, &a), req_mat_i(k, n, &b), req_mat_i(n, 2, &c)));
                emit(format!("tprod i {} {}", req_mat_i(m, k, &a), req_mat_i(k, n, &b)));
                emit(format!("transpose i {}", req_mat_i(m, k, &a)));
                emit(format!("smul i r {} 3", req_mat_i(m, k, &a)));
            }
        }
    }
    // every outer dimension 6..40 (row blocks / column blocks), both element types
    for d in 6..=40usize {
        let k = 1 + d % 3;
        let a = fill_i(&mut rng, d, k, 1);
        let b = fill_i(&mut rng, k, 2 + d % 2, 1);
        emit(format!("dot i {} {}", req_mat_i(d, k, &a), req_mat_i(k, 2 + d % 2, &b)));
        let a2 = fill_i(&mut rng, 2, k, 1);
        let b2 = fill_i(&mut rng, k, d, 1);
        emit(format!("dot i {} {}", req_mat_i(2, k, &a2), req_mat_i(k, d, &b2)));
        let af = fill_f(&mut rng, d, k);
        let bf = fill_f(&mut rng, k, d);
        emit(format!("dot f {} {}", req_mat_f(d, k, &af), req_mat_f(k, d, &bf)));
        let form = ["rr", "oo", "or", "ro"][d % 4];
        emit(format!("mul i {form} {} {}", req_mat_i(2, k, &a2), req_mat_i(k, d, &b2)));
        // a 1x1 factor on either side of a large matrix (conforming or not), and the scalar forms on it
        let one = [rng.range(-4, 4)];
        let m = fill_i(&mut rng, d, 1 + d % 5, 1);
        emit(format!("dot i 1 1 {} {}", one[0], req_mat_i(d, 1 + d % 5, &m)));
        emit(format!("dot i {} 1 1 {}", req_mat_i(d, 1 + d % 5, &m), one[0]));
        emit(format!("dot i 1 1 {} {}", one[0], req_mat_i(1 + d % 5, d, &m)));
        emit(format!("dot i {} 1 1 {}", req_mat_i(1 + d % 5, d, &m), one[0]));
        emit(format!("mul i {form} 1 1 {} {}", one[0], req_mat_i(1 + d % 5, d, &m)));
        emit(format!("smul i {} {} {}", ["r", "o"][d % 2], req_mat_i(d, 1 + d % 5, &m), rng.range(-5, 5)));
        emit(format!("sdiv i {} {} {}", ["r", "o"][d % 2], req_mat_i(1 + d % 5, d, &m), *rng.pick(&[-3i64, 2, 5])));
        let mf = fill_f(&mut rng, d, 1 + d % 4);
        emit(format!("smul f r {} {}", req_mat_f(d, 1 + d % 4, &mf), rbits(0.75)));
        emit(format!("sdiv f o {} {}", req_mat_f(1 + d % 4, d, &mf), rbits(3.0)));
        emit(format!("transpose i {}", req_mat_i(d, 1 + d % 5, &m)));
        emit(format!("transpose f {}", req_mat_f(1 + d % 4, d, &mf)));
        // non-conforming large operands (no 1x1 side): always a shape error
        let (h2, w2) = (k + 1 + d % 4, 1 + d % 6);
        let c = fill_i(&mut rng, h2, w2, 0);
        emit(format!("dot i {} {}", req_mat_i(d, k, &a), req_mat_i(h2, w2, &c)));
        emit(format!("mul i {form} {} {}", req_mat_i(d, k, &a), req_mat_i(h2, w2, &c)));
        if d <= 20 {
            let sq = fill_i(&mut rng, d, d, 0);
            emit(format!("transpose i {}", req_mat_i(d, d, &sq)));
            emit(format!("ident i {}", req_mat_i(d, d, &sq)));
            emit(format!("tprod i {} {}", req_mat_i(d, d, &sq), req_mat_i(d, 2, &fill_i(&mut rng, d, 2, 0))));
        }
    }
    // both dimensions beyond the usual tile sizes (16, 32) at once
    for (m, k, n) in [(33usize, 34usize, 35usize), (32, 32, 32), (40, 37, 33), (17, 33, 18), (64, 3, 65)] {
        let a = fill_i(&mut rng, m, k, 1);
        let b = fill_i(&mut rng, k, n, 1);
        emit(format!("dot i {} {}", req_mat_i(m, k, &a), req_mat_i(k, n, &b)));
        emit(format!("transpose i {}", req_mat_i(m, k, &a)));
        emit(format!("tprod i {} {}", req_mat_i(m, k, &a), req_mat_i(k, n, &b)));
        let af = fill_f(&mut rng, m, k);
        let bf = fill_f(&mut rng, k, n);
        emit(format!("dot f {} {}", req_mat_f(m, k, &af), req_mat_f(k, n, &bf)));
        emit(format!("transpose f {}", req_mat_f(k, n, &bf)));
        emit(format!("ident i {}", req_mat_i(m, k, &a)));
        emit(format!("dot i 1 1 3 {}", req_mat_i(m, k, &a)));
        emit(format!("smul i r {} -2", req_mat_i(k, n, &b)));
        emit(format!("sdiv f r {} {}", req_mat_f(m, k, &af), rbits(-0.5)));
    }
    // float entries of every magnitude (a threshold that drops or clamps small products shows only there):
    // exact powers of two, so products are exact and sums of a few of them too
    for _ in 0..(if thorough { 2000 } else { 200 }) {
        let m = 1 + rng.below(3) as usize;
        let k = 1 + rng.below(4) as usize;
        let n = 1 + rng.below(3) as usize;
        let e0 = rng.range(-300, 250) as i32;
        let mk = |rng: &mut Rng, len: usize| -> Vec<f64> {
            (0..len).map(|_| rng.range(-3, 3) as f64 * 2f64.powi(e0 + rng.range(0, 20) as i32)).collect()
        };
        let af = mk(&mut rng, m * k);
        let bf: Vec<f64> = (0..k * n).map(|_| rng.range(-3, 3) as f64 * 2f64.powi(rng.range(-20, 20) as i32)).collect();
        emit(format!("dot f {} {}", req_mat_f(m, k, &af), req_mat_f(k, n, &bf)));
        emit(format!("smul f r {} {}", req_mat_f(m, k, &af), rbits(2f64.powi(rng.range(-40, 40) as i32))));
        emit(format!("sdiv f r {} {}", req_mat_f(m, k, &af), rbits(2f64.powi(rng.range(-40, 40) as i32))));
        let form = ["rr", "oo", "or", "ro"][rng.below(4) as usize];
        emit(format!("mul f {form} {} {}", req_mat_f(m, k, &af), req_mat_f(k, n, &bf)));
    }
    history_family(&mut rng, thorough, emit);
    duplicates_family(&mut rng, thorough, emit);
    near_structure_family(&mut rng, thorough, emit);
    // laws on random (mostly conforming) triples
    let n_laws = if thorough { 20000 } else { 1500 };
    for _ in 0..n_laws {
        let d: Vec<usize> = (0..4).map(|_| rng.below(5) as usize).collect();
        let (h1, w1, mut h2, w2, mut h3, w3) = (d[0], d[1], d[1], d[2], d[2], d[3]);
        if rng.chance(1, 10) {
            h2 = rng.below(5) as usize;
        }
        if rng.chance(1, 10) {
            h3 = rng.below(5) as usize;
        }
        let a = fill_i(&mut rng, h1, w1, 0);
        let b = fill_i(&mut rng, h2, w2, 0);
        let c = fill_i(&mut rng, h3, w3, 0);
        emit(format!(
            "assoc i {} {} {}",
            req_mat_i(h1, w1, &a),
            req_mat_i(h2, w2, &b),
            req_mat_i(h3, w3, &c)
        ));
        emit(format!("tprod i {} {}", req_mat_i(h1, w1, &a), req_mat_i(h2, w2, &b)));
        if rng.chance(1, 4) {
            // the same laws on exact dyadic floats (binary64 and binary32) and on i32
            let (af, bf, cf) = (fill_g(&mut rng, h1, w1), fill_g(&mut rng, h2, w2), fill_g(&mut rng, h3, w3));
            let ty = *rng.pick(&["f", "g"]);
            emit(format!("assoc {ty} {} {} {}", req_mat_f(h1, w1, &af), req_mat_f(h2, w2, &bf), req_mat_f(h3, w3, &cf)));
            emit(format!("tprod {ty} {} {}", req_mat_f(h1, w1, &af), req_mat_f(h2, w2, &bf)));
            emit(format!("assoc j {} {} {}", req_mat_i(h1, w1, &a), req_mat_i(h2, w2, &b), req_mat_i(h3, w3, &c)));
        }
    }
}


/// G. OBJECT HISTORY.  Every `dot` / `mul` / `smul` / `sdiv` / `transpose` request is repeated by `run` on operands of
/// every construction history (see `Hist`); whether a history matters to an implementation depends on the shape
/// relation (a product written into the buffer of a consumed operand fits for n <= k, needs spare capacity for
/// k < n < 2k ...), so beyond the exhaustive 0..5 sweep: every (k, n) in 2..8 x 1..10 with a few heights, all element types
fn history_family(rng: &mut Rng, thorough: bool, emit: &mut dyn FnMut(String)) {
    for m in if thorough { vec![1usize, 2, 3, 4, 6, 7] } else { vec![2usize, 3, 6] } {
        for k in 2..=8usize {
            for n in 1..=10usize {
                let form = FORMS[(m + k + n) % 4];
                let a = fill_i(rng, m, k, 1);
                let b = fill_i(rng, k, n, 1);
                emit(format!("mul i {form} {} {}", req_mat_i(m, k, &a), req_mat_i(k, n, &b)));
                if (m + k + n) % 3 == 0 || thorough {
                    let af = fill_f(rng, m, k);
                    let bf = fill_f(rng, k, n);
                    emit(format!("mul f {form} {} {}", req_mat_f(m, k, &af), req_mat_f(k, n, &bf)));
                }
                if (m + k + n) % 5 == 0 || thorough {
                    let ty = ["j", "b"][(k + n) % 2];
                    let lo = if ty == "b" { 0 } else { -3 };
                    let a: Vec<i64> = (0..m * k).map(|_| rng.range(lo, 3)).collect();
                    let b: Vec<i64> = (0..k * n).map(|_| rng.range(lo, 3)).collect();
                    emit(format!("mul {ty} {form} {} {}", req_mat_i(m, k, &a), req_mat_i(k, n, &b)));
                    let a = fill_g(rng, m, k);
                    let b = fill_g(rng, k, n);
                    emit(format!("mul g {form} {} {}", req_mat_f(m, k, &a), req_mat_f(k, n, &b)));
                }
            }
        }
    }
    // non-conforming and 1x1 operands of the same sizes (an owned form must not leave a half-written buffer behind)
    for k in 2..=6usize {
        for n in 1..=8usize {
            let a = fill_i(rng, 2, k, 1);
            let b = fill_i(rng, k + 1, n, 1);
            emit(format!("mul i oo {} {}", req_mat_i(2, k, &a), req_mat_i(k + 1, n, &b)));
            emit(format!("mul i oo 1 1 {} {}", rng.range(-4, 4), req_mat_i(k, n, &b[..k * n])));
            emit(format!("mul i oo {} 1 1 {}", req_mat_i(2, k, &a), rng.range(-4, 4)));
        }
    }
}

/// I. DUPLICATES AND IDENTITY VS EQUALITY: both operands equal (then `run` also uses ONE object on both sides), the
/// right operand the transpose of the left one, constant matrices, repeated rows / columns, a second operand equal
/// to the first in all but one position - for code that compares values where it should compare positions or shapes
fn duplicates_family(rng: &mut Rng, thorough: bool, emit: &mut dyn FnMut(String)) {
    let reps = if thorough { 12 } else { 2 };
    for n in 1..=7usize {
        for rep in 0..reps {
            let form = FORMS[(n + rep) % 4];
            let a = fill_i(rng, n, n, (rep % 2) as u64);
            let g = Grid::<i64> { h: n, w: n, v: a.clone() };
            let at = g.transposed().v;
            let ma = req_mat_i(n, n, &a);
            emit(format!("dot i {ma} {ma}"));
            emit(format!("mul i {form} {ma} {ma}"));
            emit(format!("dot i {ma} {}", req_mat_i(n, n, &at)));
            emit(format!("mul i {form} {} {ma}", req_mat_i(n, n, &at)));
            emit(format!("assoc i {ma} {ma} {ma}"));
            emit(format!("tprod i {ma} {ma}"));
            // equal in all but one position
            if n >= 2 {
                let mut b = a.clone();
                let k = rng.below((n * n) as u64) as usize;
                b[k] += 1;
                emit(format!("dot i {ma} {}", req_mat_i(n, n, &b)));
                emit(format!("mul i {form} {} {ma}", req_mat_i(n, n, &b)));
            }
            let af = fill_f(rng, n, n);
            let mf = req_mat_f(n, n, &af);
            emit(format!("dot f {mf} {mf}"));
            emit(format!("mul f {form} {mf} {mf}"));
            let ag = fill_g(rng, n, n);
            emit(format!("mul g {form} {} {}", req_mat_f(n, n, &ag), req_mat_f(n, n, &ag)));
        }
    }
    for _ in 0..(if thorough { 400 } else { 60 }) {
        let m = 1 + rng.below(5) as usize;
        let k = 1 + rng.below(5) as usize;
        let n = 1 + rng.below(5) as usize;
        let form = FORMS[rng.below(4) as usize];
        // non-square: a . a^T and a^T . a
        let a = fill_i(rng, m, k, 0);
        let at = Grid::<i64> { h: m, w: k, v: a.clone() }.transposed().v;
        emit(format!("mul i {form} {} {}", req_mat_i(m, k, &a), req_mat_i(k, m, &at)));
        emit(format!("dot i {} {}", req_mat_i(k, m, &at), req_mat_i(m, k, &a)));
        // constant matrices (every entry the same value, also the same in both operands)
        let c = rng.range(-3, 3);
        let d = if rng.chance(1, 2) { c } else { rng.range(-3, 3) };
        emit(format!("dot i {} {}", req_mat_i(m, k, &vec![c; m * k]), req_mat_i(k, n, &vec![d; k * n])));
        emit(format!("mul i {form} {} {}", req_mat_i(m, k, &vec![c; m * k]), req_mat_i(k, n, &vec![d; k * n])));
        // constant non-conforming operands (all entries equal does not make a scalar)
        emit(format!("dot i {} {}", req_mat_i(m, k, &vec![c; m * k]), req_mat_i(k + 1, n, &vec![c; (k + 1) * n])));
        // repeated rows on the left, repeated columns on the right
        let row: Vec<i64> = (0..k).map(|_| rng.range(-3, 3)).collect();
        let mut left: Vec<i64> = Vec::new();
        for i in 0..m {
            if i == m / 2 && m > 1 {
                left.extend((0..k).map(|_| rng.range(-3, 3)));
            } else {
                left.extend(&row);
            }
        }
        let col: Vec<i64> = (0..k).map(|_| rng.range(-3, 3)).collect();
        let mut right = vec![0i64; k * n];
        for l in 0..k {
            for j in 0..n {
                right[l * n + j] = if j == n / 2 && n > 1 { rng.range(-3, 3) } else { col[l] };
            }
        }
        emit(format!("dot i {} {}", req_mat_i(m, k, &left), req_mat_i(k, n, &right)));
        emit(format!("mul i {form} {} {}", req_mat_i(m, k, &left), req_mat_i(k, n, &right)));
        // scalar forms on constant / repeated contents, the scalar equal to the entries
        emit(format!("smul i {} {} {c}", ["r", "o"][m % 2], req_mat_i(m, k, &vec![c; m * k])));
        emit(format!("sdiv i {} {} {}", ["r", "o"][k % 2], req_mat_i(m, k, &left), if c == 0 { 1 } else { c }));
        // 1x1 operands whose value equals the entries of the other operand
        emit(format!("dot i 1 1 {c} {}", req_mat_i(m, k, &vec![c; m * k])));
        emit(format!("dot i {} 1 1 {c}", req_mat_i(m, k, &vec![c; m * k])));
    }
}

/// F. NEAR-STRUCTURE: an exactly structured factor (identity, scalar multiple of it, diagonal, permutation, symmetric,
/// triangular, all ones) and the same factor with ONE entry moved by a relative 2^-20..2^-45 (a zero entry: by that
/// much of the largest entry), on either side of a dyadic matrix; integer factors one unit away from the structure;
/// scalars and 1x1 operands next to 1, -1, 1/2 and 2 at every distance 2^-20..2^-52.  A shortcut that recognises the
/// structure with a tolerance ("is the identity up to 1e-9": return the other operand) is off by far more than the
/// rounding bound of the statement.
fn near_structure_family(rng: &mut Rng, thorough: bool, emit: &mut dyn FnMut(String)) {
    let structured = |rng: &mut Rng, n: usize, kind: u64| -> Vec<f64> {
        let mut b = vec![0.0f64; n * n];
        match kind {
            0 => (0..n).for_each(|i| b[i * n + i] = 1.0),
            1 => {
                let c = *rng.pick(&[2.0f64, -1.0, 0.5, 3.0, -0.25]);
                (0..n).for_each(|i| b[i * n + i] = c)
            }
            2 => (0..n).for_each(|i| b[i * n + i] = rng.range(1, 9) as f64 / 4.0 * if rng.chance(1, 3) { -1.0 } else { 1.0 }),
            3 => {
                // permutation
                let mut p: Vec<usize> = (0..n).collect();
                for i in (1..n).rev() {
                    p.swap(i, rng.below(i as u64 + 1) as usize);
                }
                (0..n).for_each(|i| b[i * n + p[i]] = 1.0)
            }
            4 => {
                // symmetric, dense
                for i in 0..n {
                    for j in i..n {
                        let v = rng.range(-8, 8) as f64 / 4.0;
                        b[i * n + j] = v;
                        b[j * n + i] = v;
                    }
                }
            }
            5 => {
                // upper triangular with a unit diagonal
                for i in 0..n {
                    for j in i..n {
                        b[i * n + j] = if i == j { 1.0 } else { rng.range(-8, 8) as f64 / 4.0 };
                    }
                }
            }
            _ => b.iter_mut().for_each(|x| *x = 1.0),
        }
        b
    };
    let reps = if thorough { 1500 } else { 160 };
    for rep in 0..reps {
        let n = 1 + rng.below(5) as usize;
        let m = 1 + rng.below(4) as usize;
        let kind = rep as u64 % 7;
        let exact = structured(rng, n, kind);
        let mut near = exact.clone();
        let dense = kind == 4 || kind == 6;
        let p = rng.range(20, if dense { 40 } else { 45 }) as i32;
        let (i, j) = (rng.below(n as u64) as usize, rng.below(n as u64) as usize);
        let big = exact.iter().fold(0.0f64, |m, x| m.max(x.abs()));
        let sign = if rng.chance(1, 2) { -1.0 } else { 1.0 };
        near[i * n + j] = if exact[i * n + j] != 0.0 { exact[i * n + j] * (1.0 + sign * 2f64.powi(-p)) } else { sign * big * 2f64.powi(-p) };
        // the other factor: small dyadic entries without zeros (every entry of the structured factor matters)
        let other = |rng: &mut Rng, len: usize| -> Vec<f64> { (0..len).map(|_| rng.range(1, 16) as f64 / 4.0 * if rng.chance(1, 2) { -1.0 } else { 1.0 }).collect() };
        let a = other(rng, m * n);
        let c = other(rng, n * m);
        let form = FORMS[rep % 4];
        for b in [&near, &exact] {
            emit(format!("dot f {} {}", req_mat_f(m, n, &a), req_mat_f(n, n, b)));
            emit(format!("dot f {} {}", req_mat_f(n, n, b), req_mat_f(n, m, &c)));
        }
        emit(format!("mul f {form} {} {}", req_mat_f(m, n, &a), req_mat_f(n, n, &near)));
        emit(format!("mul f {form} {} {}", req_mat_f(n, n, &near), req_mat_f(n, m, &c)));
        if rep % 4 == 0 {
            emit(format!("tprod f {} {}", req_mat_f(m, n, &a), req_mat_f(n, n, &near)));
            emit(format!("dot f {} {}", req_mat_f(n, n, &near), req_mat_f(n, n, &near)));
        }
        // integers: one unit away from the identity / a permutation / a diagonal matrix / a symmetric matrix
        let ei: Vec<i64> = structured(rng, n, [0, 3, 2, 4][rep % 4]).iter().map(|x| (x * 4.0) as i64).collect();
        let ei: Vec<i64> = if rep % 4 == 0 || rep % 4 == 1 { ei.iter().map(|x| x / 4).collect() } else { ei };
        let mut ni = ei.clone();
        ni[i * n + j] += if rng.chance(1, 2) { 1 } else { -1 };
        let ai = fill_i(rng, m, n, 1);
        let ci = fill_i(rng, n, m, 1);
        for b in [&ni, &ei] {
            emit(format!("dot i {} {}", req_mat_i(m, n, &ai), req_mat_i(n, n, b)));
            emit(format!("dot i {} {}", req_mat_i(n, n, b), req_mat_i(n, m, &ci)));
        }
        emit(format!("mul i {form} {} {}", req_mat_i(m, n, &ai), req_mat_i(n, n, &ni)));
        emit(format!("mul i {form} {} {}", req_mat_i(n, n, &ni), req_mat_i(n, m, &ci)));
    }
    // scalars / 1x1 operands next to 1, -1, 1/2, 2: every distance 2^-20..2^-52 on both sides
    for p in 20..=52i32 {
        if !thorough && p % 2 == 1 && p < 47 {
            continue;
        }
        for base in [1.0f64, -1.0, 0.5, 2.0] {
            for sign in [1.0f64, -1.0] {
                let sc = base * (1.0 + sign * 2f64.powi(-p));
                let (h, w) = (1 + rng.below(3) as usize, 1 + rng.below(4) as usize);
                let a: Vec<f64> = (0..h * w).map(|i| if i == 0 { 1.0 } else if i == 1 { -3.0 } else { rng.range(1, 64) as f64 / 8.0 }).collect();
                let own = ["r", "o"][(p as usize) % 2];
                emit(format!("smul f {own} {} {}", req_mat_f(h, w, &a), rbits(sc)));
                emit(format!("sdiv f {own} {} {}", req_mat_f(h, w, &a), rbits(sc)));
                if sign > 0.0 || thorough {
                    emit(format!("dot f 1 1 {} {}", rbits(sc), req_mat_f(h, w, &a)));
                    emit(format!("dot f {} 1 1 {}", req_mat_f(h, w, &a), rbits(sc)));
                    emit(format!("mul f {} 1 1 {} {}", FORMS[(p as usize) % 4], rbits(sc), req_mat_f(h, w, &a)));
                }
            }
        }
    }
}

/// entries k/4 with |k| <= 8: every product of three of them summed over <= 40 terms is exact in binary32
fn fill_g(rng: &mut Rng, h: usize, w: usize) -> Vec<f64> {
    (0..h * w).map(|_| rng.range(-8, 8) as f64 / 4.0).collect()
}
