import SV.Model.Basic
/-!
Model of `back_substitution` and `forward_substitution`
(spindalis/src/utils/substitution.rs), generic in the scalar.  Shared by the Gaussian solver
(C08) and the matrix inverse (C10).

Vectors are `Array S`, read with `vget` and built with `vtab` (the vector analogue of
`Mat.get` / `Mat.tab`).  The solution slice the caller passes in is a parameter, as in the code
(`solution: &mut [f64]`); entries at positions `≥ size` are left untouched.

The inner accumulation is `sumFrom 0 …` in the code's order (`sum = 0.0; sum += a[i][j] * x[j]`),
so the `Float` instance rounds like the code.

Panics of the code are the explicit outcome `Outcome.panic`:
* `back_substitution` computes `size - 1`: for `size = 0` that is a `usize` underflow (a panic
  with overflow checks, an out-of-range index without), so `size = 0` panics;
* both routines index `coeff_matrix[i][j]`, `rhs_vector[i]`, `solution[i]` for `i, j < size`:
  a matrix with fewer rows or columns, or a shorter slice, panics.
-/
namespace SV

variable {S : Type}

/-- read a vector entry; out-of-range reads give `default` and are never relied on (the models
produce `Outcome.panic` first) -/
def vget [Inhabited S] (v : Array S) (i : Nat) : S := v.getD i default

/-- tabulate a vector -/
def vtab (n : Nat) (f : Nat → S) : Array S := Array.ofFn (n := n) fun i => f i.val

namespace Subst

variable [Inhabited S] [Add S] [Sub S] [Mul S] [Div S] [OfNat S 0]

/-- row `i` of the backward sweep:
`sum = Σ_{j=i+1}^{size-1} a[i][j]*x[j]` (from `0.0`, left to right); `x[i] = (b[i] - sum)/a[i][i]` -/
def backStep (U : Mat S) (n : Nat) (b sol : Array S) (i : Nat) : Array S :=
  sol.setIfInBounds i
    ((vget b i - sumFrom 0 (i + 1) n fun j => U.get i j * vget sol j) / U.get i i)

/-- `for i in (0..t).rev()` -/
def backLoop (U : Mat S) (n : Nat) (b : Array S) : Nat → Array S → Array S
  | 0, sol => sol
  | t + 1, sol => backLoop U n b t (backStep U n b sol t)

/-- the body of `back_substitution` for `size = n ≥ 1`: the last component is `b/a` (no sum is
subtracted in the code), then rows `n-2, …, 0` -/
def backCore (U : Mat S) (n : Nat) (b sol : Array S) : Array S :=
  backLoop U n b (n - 1)
    (sol.setIfInBounds (n - 1) (vget b (n - 1) / U.get (n - 1) (n - 1)))

/-- `back_substitution(coeff_matrix, size, rhs_vector, solution)` -/
def backSubst (U : Mat S) (n : Nat) (b sol : Array S) : Outcome Empty (Array S) :=
  if n = 0 ∨ U.h < n ∨ U.w < n ∨ b.size < n ∨ sol.size < n then .panic
  else .ok (backCore U n b sol)

/-- row `i` of the forward sweep: `sum = Σ_{j<i} a[i][j]*x[j]`; `x[i] = (b[i] - sum)/a[i][i]` -/
def fwdStep (L : Mat S) (b sol : Array S) (i : Nat) : Array S :=
  sol.setIfInBounds i
    ((vget b i - sumFrom 0 0 i fun j => L.get i j * vget sol j) / L.get i i)

/-- `for i in 0..n` -/
def fwdCore (L : Mat S) (n : Nat) (b sol : Array S) : Array S :=
  (List.range n).foldl (fwdStep L b) sol

/-- `forward_substitution(coeff_matrix, size, rhs_vector, solution)`; `size = 0` is a no-op -/
def forwardSubst (L : Mat S) (n : Nat) (b sol : Array S) : Outcome Empty (Array S) :=
  if L.h < n ∨ L.w < n ∨ b.size < n ∨ sol.size < n then .panic
  else .ok (fwdCore L n b sol)

end Subst
end SV
