import SV.Model.Basic
import Mathlib.Algebra.BigOperators.Intervals
import Mathlib.Algebra.BigOperators.Fin
import Mathlib.Data.Matrix.Mul
/-!
Helper lemmas about the matrix kernel of `SV.Model.Basic`: reading a tabulated matrix,
extensionality, and the accumulation loop as a `Finset` sum.
-/
namespace SV
open Finset

variable {S : Type}

/-- well-formed: the buffer has exactly `h*w` entries (what `Arr2D` maintains) -/
def Mat.WF (M : Mat S) : Prop := M.a.size = M.h * M.w

theorem idx_lt {r c h w : Nat} (hr : r < h) (hc : c < w) : r * w + c < h * w := by
  have h1 : r * w + c < (r + 1) * w := by rw [Nat.add_mul]; omega
  have h2 : (r + 1) * w ≤ h * w := Nat.mul_le_mul_right w (by omega)
  omega

theorem idx_div {r c w : Nat} (hc : c < w) : (r * w + c) / w = r := by
  have hpos : 0 < w := by omega
  rw [Nat.mul_comm, Nat.mul_add_div hpos, Nat.div_eq_of_lt hc]; rfl

theorem idx_mod {r c w : Nat} (hc : c < w) : (r * w + c) % w = c := by
  rw [Nat.mul_comm, Nat.mul_add_mod]; exact Nat.mod_eq_of_lt hc

@[simp] theorem Mat.tab_h (h w : Nat) (f : Nat → Nat → S) : (Mat.tab h w f).h = h := rfl
@[simp] theorem Mat.tab_w (h w : Nat) (f : Nat → Nat → S) : (Mat.tab h w f).w = w := rfl

theorem Mat.tab_WF (h w : Nat) (f : Nat → Nat → S) : (Mat.tab h w f).WF := by
  simp [Mat.WF, Mat.tab]

theorem Mat.get_tab [Inhabited S] {h w : Nat} (f : Nat → Nat → S) {i j : Nat}
    (hi : i < h) (hj : j < w) : (Mat.tab h w f).get i j = f i j := by
  have hlt : i * w + j < h * w := idx_lt hi hj
  simp only [Mat.get, Mat.tab, Array.getD_eq_getD_getElem?, Array.getElem?_ofFn, hlt, dite_true,
    Option.getD_some, idx_div hj, idx_mod hj]

@[simp] theorem Mat.transpose_h [Inhabited S] (M : Mat S) : M.transpose.h = M.w := rfl
@[simp] theorem Mat.transpose_w [Inhabited S] (M : Mat S) : M.transpose.w = M.h := rfl
theorem Mat.transpose_WF [Inhabited S] (M : Mat S) : M.transpose.WF := Mat.tab_WF _ _ _
theorem Mat.get_transpose [Inhabited S] (M : Mat S) {i j : Nat} (hi : i < M.w) (hj : j < M.h) :
    M.transpose.get i j = M.get j i := Mat.get_tab _ hi hj
@[simp] theorem Mat.ident_h [OfNat S 0] [OfNat S 1] (n : Nat) : (Mat.ident n : Mat S).h = n := rfl
@[simp] theorem Mat.ident_w [OfNat S 0] [OfNat S 1] (n : Nat) : (Mat.ident n : Mat S).w = n := rfl
theorem Mat.get_ident [Inhabited S] [OfNat S 0] [OfNat S 1] {n i j : Nat} (hi : i < n) (hj : j < n) :
    (Mat.ident n : Mat S).get i j = if i = j then 1 else 0 := Mat.get_tab _ hi hj

theorem Mat.ext_get [Inhabited S] {M N : Mat S} (hM : M.WF) (hN : N.WF) (hh : M.h = N.h)
    (hw : M.w = N.w) (hget : ∀ i j, i < M.h → j < M.w → M.get i j = N.get i j) : M = N := by
  rcases M with ⟨mh, mw, ma⟩
  rcases N with ⟨nh, nw, na⟩
  simp only [Mat.WF] at hM hN hh hw hget
  subst hh hw
  congr 1
  apply Array.ext (by rw [hM, hN])
  intro k hk1 hk2
  rw [hM] at hk1
  have hwpos : 0 < mw := by
    rcases Nat.eq_zero_or_pos mw with h0 | h0
    · rw [h0] at hk1; omega
    · exact h0
  have hr : k / mw < mh := by rw [Nat.div_lt_iff_lt_mul hwpos]; exact hk1
  have hc : k % mw < mw := Nat.mod_lt _ hwpos
  have := hget (k / mw) (k % mw) hr hc
  simp only [Mat.get, Nat.div_add_mod' k mw, Array.getD_eq_getD_getElem?] at this
  rw [Array.getElem?_eq_getElem (by omega), Array.getElem?_eq_getElem (by omega)] at this
  simpa using this

theorem sumFrom_eq [AddCommMonoid S] (init : S) (lo hi : Nat) (f : Nat → S) :
    sumFrom init lo hi f = init + ∑ k ∈ range (hi - lo), f (lo + k) := by
  unfold sumFrom
  generalize hi - lo = n
  induction n generalizing init lo with
  | zero => simp
  | succ n ih =>
    rw [List.range'_succ, List.foldl_cons, ih, Finset.sum_range_succ', add_assoc]
    congr 1
    rw [add_comm]
    congr 1
    · apply Finset.sum_congr rfl; intro k _; congr 1; omega

theorem sumFrom_zero [AddCommMonoid S] (n : Nat) (f : Nat → S) :
    sumFrom 0 0 n f = ∑ k ∈ range n, f k := by
  rw [sumFrom_eq]; simp

/-- the `m × n` Mathlib matrix a `Mat` denotes -/
def Mat.toMatrix [Inhabited S] (M : Mat S) (m n : Nat) : Matrix (Fin m) (Fin n) S :=
  fun i j => M.get i.val j.val

end SV
