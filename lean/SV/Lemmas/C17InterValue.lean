import SV.Lemmas.C17InterDisplay
import Mathlib.Data.List.Forall2
/-!
Lemmas for the print / parse round trips of C17, part 6: printed multivariate terms against the
rational terms they describe (`InterTermOK`, `TermTermOK` ⇒ `TermReads`).
-/
namespace SV.C17
open SV SV.Text SV.C01 SV.C02

/-- equal (default formatting, `digits = none`) resp. within half a unit of the `d`-th decimal
(`digits = some d`, `{:.d}`) -/
def Close (digits : Option Nat) (x y : ℚ) : Prop :=
  match digits with
  | none => x = y
  | some d => |x - y| ≤ 1 / 2 * (1 / 10 : ℚ) ^ d

theorem Close.rfl' (digits : Option Nat) (x : ℚ) : Close digits x x := by
  cases digits with
  | none => exact rfl
  | some d =>
    show |x - x| ≤ _
    rw [sub_self, abs_zero]
    exact mul_nonneg (by norm_num) (pow_nonneg (by norm_num) _)

theorem Close.neg {digits : Option Nat} {x y : ℚ} (h : Close digits x y) : Close digits (-x) (-y) := by
  cases digits with
  | none => exact congrArg Neg.neg h
  | some d =>
    show |-x - -y| ≤ _
    have e : -x - -y = -(x - y) := by ring
    rw [e, abs_neg]; exact h

/-- a multivariate term with rational coefficient and exponents; variables are single letters -/
structure QTerm where
  coef : ℚ
  vars : List (Char × ℚ)

/-- **Formatter hypothesis for the coefficient of a polynomial term** (`printed` says whether the
printer writes it): sign class as the code tests it (`< 0`), unit flag only if `|c| = 1`, and a printed
text is a spelling of the magnitude, exact resp. within half a unit -/
structure ICoefOK (digits : Option Nat) (it : Item) (printed : Prop) (c : ℚ) : Prop where
  sign : it.sign = .neg ↔ c < 0
  one : it.isOne = true → |c| = 1
  spelled : printed → IsSpelling it.text
  value : printed → Close digits (textValue it.text) |c|

/-- **Formatter hypothesis for an exponent**: elided only if it is 1; a printed one is a signed spelling
of it, exact resp. within half a unit -/
structure ExpOK (digits : Option Nat) (e : Item) (q : ℚ) : Prop where
  one : e.isOne = true → q = 1
  spelled : e.isOne = false → SignedText e.text
  value : e.isOne = false → Close digits (signedValue e.text) q

/-- a printed variable describes the variable `v.1 ^ v.2` -/
def VarRel (digits : Option Nat) (p : String × Item) (v : Char × ℚ) : Prop :=
  isAsciiLetter v.1 = true ∧ p.1 = String.singleton v.1 ∧ ExpOK digits p.2 v.2

/-- the items of a term of a polynomial describe the rational term `q`; its letters are in strictly
ascending order (the order the parser produces) -/
structure InterTermOK (digits : Option Nat) (t : ITermItems) (q : QTerm) : Prop where
  coef : ICoefOK digits t.coef ((!t.coef.isOne) = true ∨ t.vars = []) q.coef
  vars : List.Forall₂ (VarRel digits) t.vars q.vars
  sorted : (q.vars.map fun v => String.singleton v.1).Pairwise (· < ·)

/-- a parsed term is the rational term `q`: coefficient and exponents equal resp. within half a unit,
the same letters in the same order -/
def TermReads (digits : Option Nat) (pt : ITerm) (q : QTerm) : Prop :=
  Close digits pt.coef.val q.coef ∧
    List.Forall₂ (fun (pv : String × Num) (v : Char × ℚ) =>
      pv.1 = String.singleton v.1 ∧ Close digits pv.2.val v.2) pt.vars q.vars

theorem VarRel.ok {digits : Option Nat} {p : String × Item} {v : Char × ℚ} (h : VarRel digits p v) :
    VarItemOK p := ⟨⟨v.1, h.1, h.2.1⟩, h.2.2.spelled⟩

theorem VarRel.name {digits : Option Nat} {p : String × Item} {v : Char × ℚ} (h : VarRel digits p v)
    (prec : Bool) : (varSynOf prec p).name = v.1 := by
  simp [varSynOf, h.2.1]

theorem VarRel.close {digits : Option Nat} {p : String × Item} {v : Char × ℚ} (h : VarRel digits p v)
    (prec : Bool) : Close digits (varSynOf prec p).num.val v.2 := by
  rw [varSynOf_num_val prec h.ok]
  cases hone : p.2.isOne with
  | true => rw [h.2.2.one hone]; exact Close.rfl' _ _
  | false => exact h.2.2.value hone

theorem forall₂_ok {digits : Option Nat} {vars : List (String × Item)} {qv : List (Char × ℚ)}
    (h : List.Forall₂ (VarRel digits) vars qv) : ∀ p ∈ vars, VarItemOK p := by
  induction h with
  | nil => intro p hp; simp at hp
  | cons hab _ ih =>
    intro p hp
    rcases List.mem_cons.1 hp with rfl | hp
    · exact hab.ok
    · exact ih p hp

/-- the variables of a printed term are read back as the variables they describe -/
theorem readVars_reads {digits : Option Nat} (prec : Bool) {vars : List (String × Item)}
    {qv : List (Char × ℚ)} (h : List.Forall₂ (VarRel digits) vars qv)
    (hs : (qv.map fun v => String.singleton v.1).Pairwise (· < ·)) :
    List.Forall₂ (fun (pv : String × Num) (v : Char × ℚ) =>
      pv.1 = String.singleton v.1 ∧ Close digits pv.2.val v.2)
      (readVars (vars.map (varSynOf prec))) qv := by
  have hnames : ((vars.map (varSynOf prec)).map fun x => String.singleton x.name) =
      qv.map fun v => String.singleton v.1 := by
    have : List.Forall₂ (· = ·) ((vars.map (varSynOf prec)).map fun x => String.singleton x.name)
        (qv.map fun v => String.singleton v.1) := by
      rw [List.forall₂_map_left_iff, List.forall₂_map_left_iff, List.forall₂_map_right_iff]
      exact h.imp fun p v hpv => by rw [hpv.name prec]
    rwa [List.forall₂_eq_eq_eq] at this
  rw [readVars_sorted _ (by rw [hnames]; exact hs), List.forall₂_map_left_iff,
    List.forall₂_map_left_iff]
  exact h.imp fun p v hpv => ⟨by rw [hpv.name prec], hpv.close prec⟩

theorem ICoefOK.close {digits : Option Nat} {it : Item} {printed : Prop} [Decidable printed] {c : ℚ}
    (h : ICoefOK digits it printed c) (hel : ¬ printed → it.isOne = true) :
    Close digits ((if it.sign = .neg then -1 else 1) * (if printed then textValue it.text else 1)) c := by
  by_cases hc : c < 0
  · rw [if_pos (h.sign.2 hc)]
    have e : c = -|c| := by rw [abs_of_neg hc]; ring
    rw [e, neg_one_mul]
    apply Close.neg
    by_cases hp : printed
    · rw [if_pos hp]; exact h.value hp
    · rw [if_neg hp, h.one (hel hp)]; exact Close.rfl' _ _
  · have hs : ¬ it.sign = .neg := fun hs => hc (h.sign.1 hs)
    rw [if_neg hs, one_mul]
    have e : c = |c| := (abs_of_nonneg (not_lt.1 hc)).symm
    rw [e]
    by_cases hp : printed
    · rw [if_pos hp]; exact h.value hp
    · rw [if_neg hp, h.one (hel hp)]; exact Close.rfl' _ _

theorem InterTermOK.itemOK {digits : Option Nat} {t : ITermItems} {q : QTerm}
    (h : InterTermOK digits t q) : InterItemOK t :=
  ⟨h.coef.spelled, forall₂_ok h.vars⟩

/-- **a printed term of a polynomial is read back as the term it describes** -/
theorem InterTermOK.reads {digits : Option Nat} {t : ITermItems} {q : QTerm}
    (h : InterTermOK digits t q) (prec : Bool) : TermReads digits (interSyn prec t).read q := by
  refine ⟨?_, readVars_reads prec h.vars h.sorted⟩
  show Close digits (interSyn prec t).num.val q.coef
  rw [interSyn_num_val prec h.itemOK]
  apply h.coef.close
  intro hp
  simp only [not_or] at hp
  simpa using hp.1

/-- the items of a `Term` describe the rational term `q`: the coefficient text is signed, the unit flag
means `c = 1` exactly -/
structure TermTermOK (digits : Option Nat) (t : ITermItems) (q : QTerm) : Prop where
  one : t.coef.isOne = true → q.coef = 1
  spelled : ((!t.coef.isOne) = true ∨ t.vars = []) → SignedText t.coef.text
  value : ((!t.coef.isOne) = true ∨ t.vars = []) → Close digits (signedValue t.coef.text) q.coef
  vars : List.Forall₂ (VarRel digits) t.vars q.vars
  sorted : (q.vars.map fun v => String.singleton v.1).Pairwise (· < ·)

theorem TermTermOK.itemOK {digits : Option Nat} {t : ITermItems} {q : QTerm}
    (h : TermTermOK digits t q) : TermItemOK t :=
  ⟨h.spelled, forall₂_ok h.vars⟩

theorem termSyn_vars (t : ITermItems) : (termSyn t).vars = t.vars.map (varSynOf false) := by
  unfold termSyn; split <;> rfl

/-- **a printed `Term` is read back as the term it describes** -/
theorem TermTermOK.reads {digits : Option Nat} {t : ITermItems} {q : QTerm}
    (h : TermTermOK digits t q) : TermReads digits (termSyn t).read q := by
  refine ⟨?_, ?_⟩
  · show Close digits (termSyn t).num.val q.coef
    rw [termSyn_num_val]
    split
    · rename_i hp; exact h.value hp
    · rename_i hp
      simp only [not_or] at hp
      rw [h.one (by simpa using hp.1)]
      exact Close.rfl' _ _
  · show List.Forall₂ _ (readVars (termSyn t).vars) q.vars
    rw [termSyn_vars]
    exact readVars_reads false h.vars h.sorted

end SV.C17
