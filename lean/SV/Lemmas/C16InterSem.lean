import SV.Lemmas.C16Inter
import Mathlib.Algebra.BigOperators.Group.List.Basic
/-!
Converse of the grammar half of C02, part 3: **meaning of a term whose letters may repeat**.

For a written term `t` (`TermSyn.WF'`), `t.read` is what the parser returns.  Its variable list

* has the names sorted, each once, and they are exactly the letters written (`read_names_sorted`,
  `read_names_nodup`, `mem_read_names`);
* carries for each name the **sum** of the exponent values of the occurrences of that letter
  (`read_exponent`);
* gives, for every power function that is additive in the exponent on a set `E` of exponents closed
  under `+` that contains the written ones, the product `Π_occurrences powf (value letter) exponent`
  — the conventional reading in which a repeated letter multiplies (`read_prod`).
-/
namespace SV.C16Inter
open SV SV.Text SV.C02

/-! ### sum of the exponents stored under a name -/

/-- sum of the exponent values of the entries called `n` -/
def expOf (vars : List (String × Num)) (n : String) : ℚ :=
  ((vars.filter fun v => decide (v.1 = n)).map fun v => numVal v.2).sum

theorem expOf_nil (n : String) : expOf [] n = 0 := rfl

theorem expOf_cons (m : String) (e : Num) (rest : List (String × Num)) (n : String) :
    expOf ((m, e) :: rest) n = (if m = n then numVal e else 0) + expOf rest n := by
  unfold expOf
  by_cases h : m = n
  · simp [h]
  · simp [h]

theorem expOf_append (a b : List (String × Num)) (n : String) :
    expOf (a ++ b) n = expOf a n + expOf b n := by
  unfold expOf
  rw [List.filter_append, List.map_append, List.sum_append]

theorem expOf_upd (name : String) (p : Num) (n : String) :
    ∀ vars : List (String × Num), name ∈ names vars →
      expOf (addVar.upd name p vars) n = expOf vars n + (if name = n then numVal p else 0) := by
  intro vars
  induction vars with
  | nil => intro h; simp [names] at h
  | cons v vs ih =>
    intro h
    obtain ⟨m, e⟩ := v
    unfold addVar.upd
    by_cases hm : m = name
    · rw [if_pos hm, expOf_cons, expOf_cons]
      subst hm
      by_cases hn : m = n
      · simp only [hn, if_true, numVal]; ring
      · simp only [hn, if_false]; ring
    · rw [if_neg hm, expOf_cons, expOf_cons]
      have h' : name ∈ names vs := by
        simp only [names, List.map_cons, List.mem_cons] at h
        rcases h with h | h
        · exact absurd h.symm hm
        · exact h
      rw [ih h']
      ring

theorem expOf_addVar (vars : List (String × Num)) (name : String) (p : Num) (n : String) :
    expOf (addVar vars name p) n = expOf vars n + (if name = n then numVal p else 0) := by
  by_cases h : name ∈ names vars
  · unfold addVar
    rw [if_pos ((any_name_iff vars name).2 h)]
    exact expOf_upd name p n vars h
  · rw [addVar_fresh _ _ _ h, expOf_append, expOf_cons, expOf_nil, add_zero]

/-- sum of the exponent values of the written occurrences of the name `n` -/
def expoSum (fs : List Factor) (n : String) : ℚ :=
  ((fs.filter fun f => decide (String.singleton f.letter = n)).map Factor.expValue).sum

theorem expoSum_cons (f : Factor) (fs : List Factor) (n : String) :
    expoSum (f :: fs) n = (if String.singleton f.letter = n then f.expValue else 0) + expoSum fs n := by
  unfold expoSum
  by_cases h : String.singleton f.letter = n
  · simp [h]
  · simp [h]

theorem mergeFactors_cons (f : Factor) (fs : List Factor) (acc : List (String × Num)) :
    mergeFactors (f :: fs) acc = mergeFactors fs (addVar acc (String.singleton f.letter) f.num) := rfl

theorem expOf_mergeFactors (fs : List Factor) (acc : List (String × Num)) (n : String) :
    expOf (mergeFactors fs acc) n = expOf acc n + expoSum fs n := by
  induction fs generalizing acc with
  | nil => simp [mergeFactors, expoSum]
  | cons f fs ih =>
    rw [mergeFactors_cons, ih, expOf_addVar, expoSum_cons, numVal_factorNum]
    ring

theorem expOf_perm {a b : List (String × Num)} (h : a.Perm b) (n : String) : expOf a n = expOf b n := by
  unfold expOf
  exact ((h.filter _).map _).sum_eq

theorem expOf_not_mem {vars : List (String × Num)} {n : String} (h : n ∉ names vars) :
    expOf vars n = 0 := by
  induction vars with
  | nil => rfl
  | cons v vs ih =>
    obtain ⟨m, e⟩ := v
    simp only [names, List.map_cons, List.mem_cons, not_or] at h
    rw [expOf_cons, if_neg (fun e' => h.1 e'.symm), ih h.2, add_zero]

theorem expOf_of_mem {vars : List (String × Num)} (hnd : (names vars).Nodup) {n : String} {e : Num}
    (h : (n, e) ∈ vars) : expOf vars n = numVal e := by
  induction vars with
  | nil => cases h
  | cons v vs ih =>
    obtain ⟨m, e'⟩ := v
    simp only [names, List.map_cons, List.nodup_cons] at hnd
    rw [expOf_cons]
    rcases List.mem_cons.1 h with h | h
    · cases h
      rw [if_pos rfl, expOf_not_mem hnd.1, add_zero]
    · have hn : n ∈ names vs := List.mem_map.2 ⟨(n, e), h, rfl⟩
      have hmn : m ≠ n := fun e => hnd.1 (e ▸ hn)
      rw [if_neg hmn, ih hnd.2 h, zero_add]

/-! ### the names the parser collects -/

theorem mem_names_mergeFactors (fs : List Factor) (acc : List (String × Num)) (n : String) :
    n ∈ names (mergeFactors fs acc) ↔ n ∈ names acc ∨ ∃ f ∈ fs, n = String.singleton f.letter := by
  induction fs generalizing acc with
  | nil => simp [mergeFactors]
  | cons f fs ih =>
    rw [mergeFactors_cons, ih, names_addVar]
    by_cases hm : String.singleton f.letter ∈ names acc
    · rw [if_pos hm]
      constructor
      · rintro (h | ⟨g, hg, h⟩)
        · exact Or.inl h
        · exact Or.inr ⟨g, by simp [hg], h⟩
      · rintro (h | ⟨g, hg, h⟩)
        · exact Or.inl h
        · rcases List.mem_cons.1 hg with rfl | hg
          · exact Or.inl (h ▸ hm)
          · exact Or.inr ⟨g, hg, h⟩
    · rw [if_neg hm]
      constructor
      · rintro (h | ⟨g, hg, h⟩)
        · rcases List.mem_append.1 h with h | h
          · exact Or.inl h
          · exact Or.inr ⟨f, by simp, by simpa using h⟩
        · exact Or.inr ⟨g, by simp [hg], h⟩
      · rintro (h | ⟨g, hg, h⟩)
        · exact Or.inl (List.mem_append.2 (Or.inl h))
        · rcases List.mem_cons.1 hg with rfl | hg
          · exact Or.inl (List.mem_append.2 (Or.inr (by simp [h])))
          · exact Or.inr ⟨g, hg, h⟩

theorem varsOK_mergeFactors (fs : List Factor) (hl : ∀ f ∈ fs, isAsciiLetter f.letter = true)
    (acc : List (String × Num)) (h : VarsOK acc) : VarsOK (mergeFactors fs acc) := by
  induction fs generalizing acc with
  | nil => exact h
  | cons f fs ih =>
    rw [mergeFactors_cons]
    exact ih (fun g hg => hl g (by simp [hg])) _ (varsOK_addVar f.letter f.num (hl f (by simp)) h)

/-! ### the term that is returned -/

theorem read_vars_perm (t : TermSyn) : t.read.vars.Perm (mergeFactors t.factors []) :=
  List.mergeSort_perm _ _

/-- the names of the returned term are sorted … -/
theorem read_names_sorted (t : TermSyn) : (names t.read.vars).Pairwise (· ≤ ·) :=
  names_sorted_mergeSort _

/-- … without repetition … -/
theorem read_names_nodup {t : TermSyn} (ht : t.WF') : (names t.read.vars).Nodup :=
  (varsOK_mergeSort (varsOK_mergeFactors t.factors ht.letters [] varsOK_nil)).1

/-- … and exactly the letters written. -/
theorem mem_read_names (t : TermSyn) (n : String) :
    n ∈ names t.read.vars ↔ ∃ f ∈ t.factors, n = String.singleton f.letter := by
  have h1 : n ∈ names t.read.vars ↔ n ∈ names (mergeFactors t.factors []) :=
    ((read_vars_perm t).map _).mem_iff
  rw [h1, mem_names_mergeFactors t.factors [] n]
  simp [names]

/-- **Each name carries the sum of the exponents of its occurrences.** -/
theorem read_exponent {t : TermSyn} (ht : t.WF') {n : String} {e : Num} (h : (n, e) ∈ t.read.vars) :
    numVal e = expoSum t.factors n := by
  rw [← expOf_of_mem (read_names_nodup ht) h, expOf_perm (read_vars_perm t),
    expOf_mergeFactors, expOf_nil, zero_add]

theorem read_coef (t : TermSyn) : numVal t.read.coef = sgn t.neg * t.coef.value :=
  numVal_coefNum t.neg t.coef

/-! ### products: a repeated letter multiplies -/

/-- `Π powf (value name) exponent` over a stored variable list -/
def varsProd (powf : ℚ → ℚ → ℚ) (g : String → ℚ) (vars : List (String × Num)) : ℚ :=
  (vars.map fun v => powf (g v.1) (numVal v.2)).prod

/-- the same over the written factors, one factor of the product per occurrence -/
def factorsProd (powf : ℚ → ℚ → ℚ) (g : String → ℚ) (fs : List Factor) : ℚ :=
  (fs.map fun f => powf (g (String.singleton f.letter)) f.expValue).prod

/-- the power function is additive in the exponent, for exponents in `E`, at the value of every name -/
def Additive (powf : ℚ → ℚ → ℚ) (g : String → ℚ) (E : ℚ → Prop) : Prop :=
  ∀ n a b, E a → E b → powf (g n) (a + b) = powf (g n) a * powf (g n) b

theorem upd_spec {powf : ℚ → ℚ → ℚ} {g : String → ℚ} {E : ℚ → Prop}
    (hE : ∀ a b, E a → E b → E (a + b)) (hadd : Additive powf g E) (name : String) (p : Num)
    (hp : E (numVal p)) :
    ∀ vars : List (String × Num), name ∈ names vars → (∀ v ∈ vars, E (numVal v.2)) →
      varsProd powf g (addVar.upd name p vars) = varsProd powf g vars * powf (g name) (numVal p) ∧
      ∀ v ∈ addVar.upd name p vars, E (numVal v.2) := by
  intro vars
  induction vars with
  | nil => intro h; simp [names] at h
  | cons v vs ih =>
    intro h hv
    obtain ⟨m, e⟩ := v
    unfold addVar.upd
    by_cases hm : m = name
    · rw [if_pos hm]
      subst hm
      have he : E (numVal e) := hv (m, e) (by simp)
      constructor
      · simp only [varsProd, List.map_cons, List.prod_cons, numVal]
        rw [hadd m _ _ he hp]
        ring
      · intro w hw
        rcases List.mem_cons.1 hw with rfl | hw
        · exact hE _ _ he hp
        · exact hv w (by simp [hw])
    · rw [if_neg hm]
      have h' : name ∈ names vs := by
        simp only [names, List.map_cons, List.mem_cons] at h
        rcases h with h | h
        · exact absurd h.symm hm
        · exact h
      obtain ⟨h1, h2⟩ := ih h' (fun w hw => hv w (by simp [hw]))
      constructor
      · simp only [varsProd, List.map_cons, List.prod_cons] at h1 ⊢
        rw [h1]
        ring
      · intro w hw
        rcases List.mem_cons.1 hw with rfl | hw
        · exact hv _ (by simp)
        · exact h2 w hw

theorem addVar_spec {powf : ℚ → ℚ → ℚ} {g : String → ℚ} {E : ℚ → Prop}
    (hE : ∀ a b, E a → E b → E (a + b)) (hadd : Additive powf g E) (name : String) (p : Num)
    (hp : E (numVal p)) (vars : List (String × Num)) (hv : ∀ v ∈ vars, E (numVal v.2)) :
    varsProd powf g (addVar vars name p) = varsProd powf g vars * powf (g name) (numVal p) ∧
      ∀ v ∈ addVar vars name p, E (numVal v.2) := by
  by_cases h : name ∈ names vars
  · unfold addVar
    rw [if_pos ((any_name_iff vars name).2 h)]
    exact upd_spec hE hadd name p hp vars h hv
  · rw [addVar_fresh _ _ _ h]
    constructor
    · simp [varsProd]
    · intro w hw
      rcases List.mem_append.1 hw with hw | hw
      · exact hv w hw
      · have : w = (name, p) := by simpa using hw
        subst this
        exact hp

theorem mergeFactors_prod {powf : ℚ → ℚ → ℚ} {g : String → ℚ} {E : ℚ → Prop}
    (hE : ∀ a b, E a → E b → E (a + b)) (hadd : Additive powf g E) (fs : List Factor)
    (hfs : ∀ f ∈ fs, E f.expValue) (acc : List (String × Num)) (hacc : ∀ v ∈ acc, E (numVal v.2)) :
    varsProd powf g (mergeFactors fs acc) = varsProd powf g acc * factorsProd powf g fs := by
  induction fs generalizing acc with
  | nil => simp [mergeFactors, factorsProd]
  | cons f fs ih =>
    have hf : E (numVal f.num) := by rw [numVal_factorNum]; exact hfs f (by simp)
    obtain ⟨h1, h2⟩ := addVar_spec hE hadd (String.singleton f.letter) f.num hf acc hacc
    rw [mergeFactors_cons, ih (fun g hg => hfs g (by simp [hg])) _ h2, h1, numVal_factorNum]
    simp only [factorsProd, List.map_cons, List.prod_cons]
    ring

/-- **The product over the returned variables is the product over the written occurrences**: a
repeated letter multiplies. -/
theorem read_prod {powf : ℚ → ℚ → ℚ} {g : String → ℚ} {E : ℚ → Prop}
    (hE : ∀ a b, E a → E b → E (a + b)) (hadd : Additive powf g E) (t : TermSyn)
    (hfs : ∀ f ∈ t.factors, E f.expValue) :
    varsProd powf g t.read.vars = factorsProd powf g t.factors := by
  have h1 : varsProd powf g t.read.vars = varsProd powf g (mergeFactors t.factors []) := by
    unfold varsProd
    exact ((read_vars_perm t).map _).prod_eq
  rw [h1, mergeFactors_prod hE hadd t.factors hfs [] (by simp)]
  simp [varsProd]

/-- without repetition nothing is merged: no hypothesis on the power function is needed -/
theorem mergeFactors_distinct (fs : List Factor) (hd : (fs.map (·.letter)).Nodup) :
    mergeFactors fs [] = fs.map Factor.entry := by
  have := foldl_addVar_distinct fs [] hd (fun f _ h => by simp [names] at h)
  simpa [mergeFactors] using this

theorem read_eq_toITerm {t : TermSyn} (hd : (t.factors.map (·.letter)).Nodup) :
    t.read = t.toITerm := by
  unfold TermSyn.read TermSyn.toITerm
  rw [mergeFactors_distinct t.factors hd]

/-! ### the meaning relation stated in the property theorems -/

/-- the parsed term as a `Term ℚ` (the `f64` operations read as exact operations) -/
def toTerm (it : ITerm) : SV.Poly.Term ℚ := ⟨numVal it.coef, it.vars.map fun v => (v.1, numVal v.2)⟩

/-- **What the returned term `it` must be for the written term `t`** (letters may repeat): the
coefficient is the signed written value (`±1` if none is written); the variable names are sorted,
without repetition, and exactly the letters written; each name carries the sum of the exponent values
of the occurrences of its letter (an omitted exponent counts 1). -/
structure TermMeans (it : ITerm) (t : TermSyn) : Prop where
  coef : numVal it.coef = sgn t.neg * t.coef.value
  sorted : (names it.vars).Pairwise (· ≤ ·)
  nodup : (names it.vars).Nodup
  letters : ∀ n, n ∈ names it.vars ↔ ∃ f ∈ t.factors, n = String.singleton f.letter
  exponent : ∀ n e, (n, e) ∈ it.vars → numVal e = expoSum t.factors n

theorem termMeans_read {t : TermSyn} (ht : t.WF') : TermMeans t.read t :=
  ⟨read_coef t, read_names_sorted t, read_names_nodup ht, mem_read_names t,
    fun _ _ h => read_exponent ht h⟩

theorem forall₂_read {R : ITerm → TermSyn → Prop} (ts : List TermSyn)
    (h : ∀ t ∈ ts, R t.read t) : List.Forall₂ R (ts.map TermSyn.read) ts := by
  induction ts with
  | nil => exact List.Forall₂.nil
  | cons t ts ih =>
    exact List.Forall₂.cons (h t (by simp)) (ih fun u hu => h u (by simp [hu]))

/-! ### sizes -/

theorem length_upd (name : String) (p : Num) (vars : List (String × Num)) :
    (addVar.upd name p vars).length = vars.length := by
  induction vars with
  | nil => rfl
  | cons v vs ih =>
    obtain ⟨m, e⟩ := v
    unfold addVar.upd
    split
    · rfl
    · simp [ih]

theorem length_addVar_le (vars : List (String × Num)) (name : String) (p : Num) :
    (addVar vars name p).length ≤ vars.length + 1 := by
  unfold addVar
  split
  · rw [length_upd]; omega
  · simp

theorem length_mergeFactors_le (fs : List Factor) (acc : List (String × Num)) :
    (mergeFactors fs acc).length ≤ acc.length + fs.length := by
  induction fs generalizing acc with
  | nil => simp [mergeFactors]
  | cons f fs ih =>
    rw [mergeFactors_cons]
    have h1 := ih (addVar acc (String.singleton f.letter) f.num)
    have h2 := length_addVar_le acc (String.singleton f.letter) f.num
    simp only [List.length_cons]
    omega

/-- a returned term has at most one variable per written factor -/
theorem length_read_vars_le (t : TermSyn) : t.read.vars.length ≤ t.factors.length := by
  have := length_mergeFactors_le t.factors []
  simpa [TermSyn.read, List.length_mergeSort] using this

theorem length_factors_le (fs : List Factor) : fs.length ≤ (renderFactors fs).length := by
  induction fs with
  | nil => simp
  | cons f fs ih =>
    rw [renderFactors_cons]
    simp only [List.length_cons, List.length_append, Factor.render]
    omega

theorem length_body_le {lead : Bool} {ts : List TermSyn} {t : TermSyn} (ht : t ∈ ts) :
    t.body.length ≤ (render lead ts).length := by
  cases ts with
  | nil => cases ht
  | cons u us =>
    unfold render
    rcases List.mem_cons.1 ht with rfl | ht
    · simp only [List.length_append]
      omega
    · obtain ⟨a, b, rfl⟩ := List.append_of_mem ht
      simp only [List.flatMap_append, List.flatMap_cons, List.length_append, List.length_cons]
      omega

end SV.C16Inter
