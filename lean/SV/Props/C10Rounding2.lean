import SV.Model.C10
import SV.Lemmas.C10
import SV.Lemmas.Rounding
import SV.Lemmas.RoundingNearest
import SV.Lemmas.RoundingC09
import SV.Lemmas.RoundingC09Ex
import SV.Props.C09Rounding
import SV.Props.C10Rounding
/-!
# C10, rounding half, second part — the residual of the computed inverse against `A` itself

`SV.Props.C10Rounding.inverse_column_residual` bounds the residual of every column of the matrix
`Arr2D::inverse` returns **with respect to the computed factors** (`|P e_j − L U x|`), leaving the
error of the factorisation aside; `SV.Props.C09Rounding.plu_backward_PA` bounds that error
(`|P A − L U| ≤ γ_n·|L||U|`).  Here the two are composed (Higham, *Accuracy and Stability*,
Thm 9.4): for **the same definition** `SV.C10.inverse` run at the rounding scalar `Fl M`, with
`m = max(n, 2)`, `m·u < 1` and `eps > 0`, every column `x = B e_j` of the result satisfies

    |P e_j − (P A) x| ≤ (3γ_m + γ_m²)·|L||U||x|      componentwise,

`P A` being the exact product (row `i` of `P A` is row `σ i` of `A`), `L`, `U` the computed factors.
All the side conditions of `inverse_column_residual` (triangular factors, non-zero diagonals) are
discharged from the shape theorem of the factorisation, so the only hypotheses left are `eps > 0`
and `m·u < 1`.  Since `P` is a permutation matrix this is a bound on `I − A B`
(`inverse_right_residual`): the computed inverse is a right inverse up to `(3γ_m + γ_m²)·Pᵀ|L||U||B|`.

NOT covered: overflow, underflow, NaN/∞, the decimal→binary conversion of the inputs — see the
header of `SV.Lemmas.Rounding`; no bound on `|L||U|` in terms of `|A|` (the growth factor of partial
pivoting) is proved.
-/
namespace SV.Props.C10Rounding2
open SV SV.C09 SV.C10 Finset

variable {M : FlModel}

/-- **Residual of the computed inverse against `P A` (Higham, Thm 9.4).**  Whenever
`Arr2D::inverse` returns `B` (`eps > 0`, `m = max(n,2)`, `m·u < 1`), with `L, U, P` the factors the
factorisation produced, for all `i, j < n`

    |P_ij − Σ_m (P A)_im·B_mj| ≤ (3γ_m + γ_m²) · Σ_k |l_ik| Σ_m |u_km|·|B_mj|,

`(P A)_im = Σ_k p_ik·a_km` the exact product. -/
theorem inverse_residual_PA (eps : Fl M) (heps : 0 < eps.val) (A B : Mat (Fl M))
    (h : inverse eps A = .ok B) (hu : ((max A.h 2 : ℕ) : ℝ) * M.u < 1) :
    ∃ L U P : Mat (Fl M), plu eps A = .ok (L, U, P) ∧
      ∀ i j, i < A.h → j < A.h →
        |(P.get i j).val - ∑ m ∈ range A.h,
            (∑ k ∈ range A.h, (P.get i k).val * (A.get k m).val) * (B.get m j).val|
          ≤ (3 * M.gamma (max A.h 2) + M.gamma (max A.h 2) ^ 2)
            * ∑ k ∈ range A.h, |(L.get i k).val|
              * ∑ m ∈ range A.h, |(U.get k m).val| * |(B.get m j).val| := by
  obtain ⟨L, U, P, hp, hres⟩ := SV.Props.C10Rounding.inverse_column_residual eps A B h hu
  refine ⟨L, U, P, hp, ?_⟩
  obtain ⟨_, _, _, _, σ, _, _, hLow, hUp, hpiv⟩ := SV.Props.C09Rounding.plu_shape heps hp
  have hn : (A.h : ℝ) * M.u < 1 := M.hyp_mono (le_max_left A.h 2) hu
  have hPA := SV.Props.C09Rounding.plu_backward_PA heps hp hn
  have hγ : M.gamma A.h ≤ M.gamma (max A.h 2) := M.gamma_mono (le_max_left A.h 2) hu
  have hg := M.gamma_nonneg hu
  have hdL : ∀ i, i < A.h → (L.get i i).val ≠ 0 := by
    intro i hi
    rw [hLow.1 i hi]
    simp
  have hdU : ∀ i, i < A.h → (U.get i i).val ≠ 0 := by
    intro i hi h0
    have := hpiv i hi
    rw [h0, abs_zero, zero_mul] at this
    linarith
  have htL : ∀ i k, i < A.h → i < k → k < A.h → (L.get i k).val = 0 := by
    intro i k hi hik hk
    rw [hLow.2 i k hi hk hik]; rfl
  have htU : ∀ i k, i < A.h → k < i → (U.get i k).val = 0 := by
    intro i k hi hki
    rw [hUp i k hi (by omega) hki]; rfl
  intro i j hi hj
  have h1 := hres hdL hdU htL htU i j hi hj
  set γ := M.gamma (max A.h 2) with hγdef
  set W := ∑ k ∈ range A.h, |(L.get i k).val|
      * ∑ m ∈ range A.h, |(U.get k m).val| * |(B.get m j).val| with hW
  have hW0 : 0 ≤ W := Finset.sum_nonneg fun k _ =>
    mul_nonneg (abs_nonneg _) (Finset.sum_nonneg fun m _ => by positivity)
  -- regroup `L (U x)` as `(L U) x`
  have e1 : ∑ k ∈ range A.h, (L.get i k).val * ∑ m ∈ range A.h, (U.get k m).val * (B.get m j).val
      = ∑ m ∈ range A.h, (∑ k ∈ range A.h, (L.get i k).val * (U.get k m).val) * (B.get m j).val :=
    sum_mul_sum_assoc A.h _ _ _
  have e2 : W = ∑ m ∈ range A.h,
      (∑ k ∈ range A.h, |(L.get i k).val| * |(U.get k m).val|) * |(B.get m j).val| :=
    sum_mul_sum_assoc A.h _ _ _
  rw [e1] at h1
  -- the factorisation error, applied to the column
  have h2 : |∑ m ∈ range A.h,
        (∑ k ∈ range A.h, (L.get i k).val * (U.get k m).val
          - ∑ k ∈ range A.h, (P.get i k).val * (A.get k m).val) * (B.get m j).val|
      ≤ γ * W := by
    rw [e2, Finset.mul_sum]
    refine (Finset.abs_sum_le_sum_abs _ _).trans (Finset.sum_le_sum fun m hm => ?_)
    rw [abs_mul, abs_sub_comm]
    have := hPA i m hi (mem_range.1 hm)
    calc _ ≤ (M.gamma A.h * ∑ k ∈ range A.h, |(L.get i k).val| * |(U.get k m).val|)
            * |(B.get m j).val| := mul_le_mul_of_nonneg_right this (abs_nonneg _)
      _ ≤ (γ * ∑ k ∈ range A.h, |(L.get i k).val| * |(U.get k m).val|) * |(B.get m j).val| := by
          refine mul_le_mul_of_nonneg_right (mul_le_mul_of_nonneg_right hγ ?_) (abs_nonneg _)
          exact Finset.sum_nonneg fun k _ => by positivity
      _ = _ := by ring
  have e3 : (P.get i j).val - ∑ m ∈ range A.h,
        (∑ k ∈ range A.h, (P.get i k).val * (A.get k m).val) * (B.get m j).val
      = ((P.get i j).val - ∑ m ∈ range A.h,
          (∑ k ∈ range A.h, (L.get i k).val * (U.get k m).val) * (B.get m j).val)
        + ∑ m ∈ range A.h,
          (∑ k ∈ range A.h, (L.get i k).val * (U.get k m).val
            - ∑ k ∈ range A.h, (P.get i k).val * (A.get k m).val) * (B.get m j).val := by
    simp only [sub_mul, Finset.sum_sub_distrib]
    ring
  rw [e3]
  refine (abs_add_le _ _).trans ((add_le_add h1 h2).trans (le_of_eq ?_))
  ring

/-- **The computed inverse is a right inverse up to rounding**: with `σ` the permutation `P`
denotes, for every row `σ i` of `A` and every column `j` of `B`

    |δ_{σ i, j} − Σ_m a_{σ i, m}·B_mj| ≤ (3γ_m + γ_m²) · (|L||U||B|)_ij,

i.e. `|I − A B| ≤ (3γ_m + γ_m²)·Pᵀ|L||U||B|` (`σ` is a bijection: every row of `A` occurs). -/
theorem inverse_right_residual (eps : Fl M) (heps : 0 < eps.val) (A B : Mat (Fl M))
    (h : inverse eps A = .ok B) (hu : ((max A.h 2 : ℕ) : ℝ) * M.u < 1) :
    ∃ (L U P : Mat (Fl M)) (σ : Equiv.Perm (Fin A.h)), plu eps A = .ok (L, U, P) ∧
      SV.Props.C09Rounding.IsPermMatrix A.h P σ ∧
      ∀ i j : Fin A.h,
        |(if j = σ i then (1 : ℝ) else 0)
            - ∑ m ∈ range A.h, (A.get (σ i) m).val * (B.get m j).val|
          ≤ (3 * M.gamma (max A.h 2) + M.gamma (max A.h 2) ^ 2)
            * ∑ k ∈ range A.h, |(L.get i k).val|
              * ∑ m ∈ range A.h, |(U.get k m).val| * |(B.get m j).val| := by
  obtain ⟨L, U, P, hp, hres⟩ := inverse_residual_PA eps heps A B h hu
  obtain ⟨_, _, _, _, σ, hσ, hPA, _⟩ := SV.Props.C09Rounding.plu_shape heps hp
  refine ⟨L, U, P, σ, hp, hσ, fun i j => ?_⟩
  have := hres i.val j.val i.isLt j.isLt
  have e1 : (P.get i j).val = if j = σ i then (1 : ℝ) else 0 := by
    rw [hσ i j]
    split_ifs <;> rfl
  have e2 : ∑ m ∈ range A.h,
        (∑ k ∈ range A.h, (P.get i k).val * (A.get k m).val) * (B.get m j).val
      = ∑ m ∈ range A.h, (A.get (σ i) m).val * (B.get m j).val := by
    refine Finset.sum_congr rfl fun m hm => ?_
    rw [hPA i ⟨m, mem_range.1 hm⟩]
  rw [e1, e2] at this
  exact this

/-- With exact arithmetic (`u = 0`) the residual vanishes: `(P A) B = P`, i.e. `A B = I`
(`SV.C10.inverse_entries`). -/
theorem inverse_residual_ideal (eps : Fl FlModel.ideal) (heps : 0 < eps.val)
    (A B : Mat (Fl FlModel.ideal)) (h : inverse eps A = .ok B) :
    ∃ L U P : Mat (Fl FlModel.ideal), plu eps A = .ok (L, U, P) ∧
      ∀ i j, i < A.h → j < A.h →
        ∑ m ∈ range A.h, (∑ k ∈ range A.h, (P.get i k).val * (A.get k m).val) * (B.get m j).val
          = (P.get i j).val := by
  obtain ⟨L, U, P, hp, hres⟩ := inverse_residual_PA eps heps A B h (by simp [FlModel.ideal])
  refine ⟨L, U, P, hp, fun i j hi hj => ?_⟩
  have hb := hres i j hi hj
  rw [gamma_ideal] at hb
  norm_num at hb
  exact (sub_eq_zero.mp hb).symm

/-- **binary64, numerically**: `3γ_m + γ_m² ≤ 4·m·2⁻⁵²` for `m = max(n,2) ≤ 2⁵²`. -/
theorem inverse_residual_binary64 (eps : Fl FlModel.binary64) (heps : 0 < eps.val)
    (A B : Mat (Fl FlModel.binary64)) (h : inverse eps A = .ok B) (hn : A.h ≤ 2 ^ 52) :
    ∃ L U P : Mat (Fl FlModel.binary64), plu eps A = .ok (L, U, P) ∧
      ∀ i j, i < A.h → j < A.h →
        |(P.get i j).val - ∑ m ∈ range A.h,
            (∑ k ∈ range A.h, (P.get i k).val * (A.get k m).val) * (B.get m j).val|
          ≤ 4 * ((max A.h 2 : ℕ) : ℝ) * (2⁻¹ : ℝ) ^ 52
            * ∑ k ∈ range A.h, |(L.get i k).val|
              * ∑ m ∈ range A.h, |(U.get k m).val| * |(B.get m j).val| := by
  obtain ⟨hu, hg⟩ := FlModel.binary64_gamma_le (n := max A.h 2) (max_le hn (by norm_num))
  obtain ⟨L, U, P, hp, hres⟩ := inverse_residual_PA eps heps A B h hu
  refine ⟨L, U, P, hp, fun i j hi hj => ?_⟩
  have hg0 := FlModel.binary64.gamma_nonneg hu
  have hle1 : ((max A.h 2 : ℕ) : ℝ) * (2⁻¹ : ℝ) ^ 52 ≤ 1 := by
    have h1 : ((max A.h 2 : ℕ) : ℝ) ≤ 2 ^ 52 := by
      exact_mod_cast (max_le hn (by norm_num) : max A.h 2 ≤ 2 ^ 52)
    calc ((max A.h 2 : ℕ) : ℝ) * (2⁻¹ : ℝ) ^ 52 ≤ 2 ^ 52 * (2⁻¹ : ℝ) ^ 52 :=
          mul_le_mul_of_nonneg_right h1 (by positivity)
      _ = 1 := by norm_num
  refine (hres i j hi hj).trans
    (mul_le_mul_of_nonneg_right ?_ (Finset.sum_nonneg fun k _ =>
      mul_nonneg (abs_nonneg _) (Finset.sum_nonneg fun m _ => by positivity)))
  nlinarith

/-! ## non-vacuity -/

/-- the hypotheses are satisfiable in a model with `u > 0` whose rounding is not the identity:
`inverse` returns on `[[1, 1], [2, 1]]` with `rnd t = t·(1 + 1/16)` (`u = 1/8`, `2·u < 1`,
`eps = 1/4`; the run of the factorisation is evaluated in `SV.Lemmas.RoundingC09Ex`, where it is also
shown that its `L U` differs from `P A`) -/
example : ∃ (M : FlModel) (eps : Fl M) (A B : Mat (Fl M)), 0 < M.u ∧ 0 < eps.val ∧
    inverse eps A = .ok B ∧ ((max A.h 2 : ℕ) : ℝ) * M.u < 1 := by
  obtain ⟨xs, _, h⟩ := inverse_ok_of_plu Ex.plu_ex_ok
  exact ⟨Ex.M8, Ex.epsx, Ex.Bex, _, by norm_num [FlModel.skew], by norm_num [Ex.epsx], h,
    by norm_num [FlModel.skew, Ex.Bex]⟩

end SV.Props.C10Rounding2
