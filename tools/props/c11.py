"""C11 plug-in: comparison ignores the payload of the shape error (the property says "a shape
error", not which numbers it carries)."""
import re
RULE = ("exhaustive: all shape pairs (h1,w1),(h2,w2) in 0..5 x 0..5 (1296) x 3 integer fillings for the checked "
        "product, one (quick) or four (thorough) operator forms per pair, dyadic float fillings, scalar forms on all "
        "shapes, random law triples; every shared and every outer dimension 6..40, 1x1 factors next to large matrices, "
        "large non-conforming pairs; element types i64, f64 and (values exact in the narrow type) i32, u8, f32; float scalar "
        "multiply/divide by +-0, +-inf, NaN, subnormal, huge, tiny and non-dyadic scalars on entries of every magnitude; "
        "float entries 2^-300..2^270 in products; laws also at f64/f32/i32 and for Arr2D::identity; non-trivial = the model's answer is a successful product with at least one "
        "entry (not an error, not an empty array); distinct = distinct request lines")

def _norm(s):
    return re.sub(r"err dotshape \d+ \d+", "err dotshape", s)

def compare(req, impl, model):
    from __main__ import default_compare
    return default_compare(req, _norm(impl), _norm(model))

def nontrivial(req, model):
    t = model.split()
    if not t or t[0] in ("err", "panic", "bad-request"):
        return False
    if t[0] == "L":
        return "ok" in t and not model.startswith("L err")
    # "ok h w ..." or "h w ..."
    nums = t[1:] if t[0] == "ok" else t
    return len(nums) > 2

def tag(req, model):
    r = req.split(); m = model.split()
    kind = m[0] if m else "empty"
    if kind not in ("ok", "err", "panic", "L"):
        kind = "mat"
    return f"{r[0]}:{r[1]}:{kind}"
