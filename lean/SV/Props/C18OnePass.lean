import SV.Model.C18
import SV.Lemmas.C18
import SV.Props.C18
import Mathlib.Algebra.Order.Round
import Mathlib.Tactic.NormNum

/-!
# C18 — the "textbook one-pass" variance formula versus the two-pass form of the code

`std_dev` computes the variance in two passes: first the mean, then `Σ (x - mean)²`.  A rewrite to
the one-pass formula `Σ x² − (Σ x)²/n` is *the same value in exact arithmetic*
(`variance_one_pass_identity`, `stdDev_eq_one_pass`), and both forms are translation invariant in
exact arithmetic (`variance_translation_exact`).  So any difference between the two in floating
point is purely a rounding effect — and it is not a small one: in a toy decimal arithmetic with 3
significant digits, run through the model's own generic `stdDev`, the two-pass form is right to
0.05 % on `[100, 101, 102]` while the one-pass form returns variance `0`
(`one_pass_loses_everything`).  This is the content of the property's "to within rounding": the
two-pass form has the error bound `SV.Props.C18Rounding.variance_rounding`; the one-pass form has
no bound of that shape (relative to the variance) at all.
-/

namespace SV.Props.C18OnePass
open SV SV.C18

/-- the one-pass variance, written with the model's own primitives (`fsum`, `powi`, the `NatCast`
of the scalar) so that it can be run in any arithmetic the model can be run in:
`(Σ x² − (Σ x)² / n) / d` with `d = denom k n` -/
def onePassVar {S : Type} [Add S] [Sub S] [Mul S] [Div S] [Neg S] [OfNat S 0] [OfNat S 1]
    [NatCast S] (k : Kind) (xs : List S) : S :=
  (fsum (xs.map fun x => powi x 2) - powi (fsum xs) 2 / (xs.length : S))
    / (denom k xs.length : S)

variable {K : Type} [Field K] [LinearOrder K] [IsStrictOrderedRing K]

/-- expansion of a sum of squared deviations about an arbitrary centre `m` -/
private theorem sum_sq_dev (xs : List K) (m : K) :
    (xs.map fun x => (x - m) ^ 2).sum
      = (xs.map fun x => x ^ 2).sum - 2 * m * xs.sum + (xs.length : K) * m ^ 2 := by
  induction xs with
  | nil => simp
  | cons a t ih =>
    simp only [List.map_cons, List.sum_cons, List.length_cons, Nat.cast_succ]
    rw [ih]; ring

/-- **One-pass identity.**  For a non-empty sample, with `m = (Σ x)/n`, the sum of squared
deviations `Σ (x − m)²` that the code accumulates in its second pass equals the textbook one-pass
expression `Σ x² − (Σ x)²/n`.  A rewrite of `std_dev` to the one-pass formula therefore changes
nothing in exact arithmetic: it is a rounding-only change. -/
theorem variance_one_pass_identity (xs : List K) (h : xs.length ≠ 0) :
    (xs.map fun x => (x - xs.sum / (xs.length : K)) ^ 2).sum
      = (xs.map fun x => x ^ 2).sum - xs.sum ^ 2 / (xs.length : K) := by
  have hn : (xs.length : K) ≠ 0 := (length_cast_pos h).ne'
  rw [sum_sq_dev]
  field_simp
  ring

omit [LinearOrder K] [IsStrictOrderedRing K] in
/-- in exact arithmetic `onePassVar` is the textbook expression -/
theorem onePassVar_eq (k : Kind) (xs : List K) :
    onePassVar k xs
      = ((xs.map fun x => x ^ 2).sum - xs.sum ^ 2 / (xs.length : K)) / (denom k xs.length : K) := by
  unfold onePassVar
  rw [fsum_eq, fsum_eq, powi_eq_pow]
  congr 3
  apply List.map_congr_left
  intro x _
  rw [powi_eq_pow]

/-- **The code's `std_dev` is the one-pass formula, exactly.**  Over any ordered field the model
of `std_dev` returns NaN when the denominator is 0 and otherwise `sqrt` of the one-pass variance
`(Σ x² − (Σ x)²/n)/d`. -/
theorem stdDev_eq_one_pass (sqrt : K → K) (k : Kind) (xs : List K) :
    stdDev sqrt k xs
      = if denom k xs.length = 0 then none else some (sqrt (onePassVar k xs)) := by
  unfold stdDev
  by_cases h0 : denom k xs.length = 0
  · rw [if_pos h0, if_pos h0]
  · rw [if_neg h0, if_neg h0]
    have hn : xs.length ≠ 0 := by
      intro e; rw [e] at h0; cases k <;> simp [denom] at h0
    simp only
    rw [fsum_dev_eq, onePassVar_eq]
    unfold ssd
    rw [variance_one_pass_identity xs hn]

/-- **Both formulas are translation invariant in exact arithmetic.**  Adding a constant `c` to
every sample changes neither the one-pass variance nor (this is `std_translate`) the result of the
code's two-pass `std_dev`.  The translation-dependence of the one-pass formula that is observed in
floating point is therefore purely a rounding effect. -/
theorem variance_translation_exact (sqrt : K → K) (k : Kind) (xs : List K) (c : K)
    (h : denom k xs.length ≠ 0) :
    onePassVar k (xs.map fun x => x + c) = onePassVar k xs
    ∧ stdDev sqrt k (xs.map fun x => x + c) = stdDev sqrt k xs := by
  refine ⟨?_, SV.Props.C18.std_translate sqrt k xs c⟩
  have hn : xs.length ≠ 0 := by
    intro e; rw [e] at h; cases k <;> simp [denom] at h
  have hn' : (xs.map fun x => x + c).length ≠ 0 := by rw [List.length_map]; exact hn
  rw [onePassVar_eq, onePassVar_eq, ← variance_one_pass_identity _ hn',
    ← variance_one_pass_identity _ hn]
  have := ssd_translate xs c hn
  unfold ssd at this
  rw [this, List.length_map]

/-! ### a toy decimal arithmetic with 3 significant digits -/

/-- round to the nearest multiple of `s` -/
def rndTo (s q : ℚ) : ℚ := (round (q / s) : ℚ) * s

/-- round to 3 significant decimal digits (for `1/10 ≤ |q| < 10⁷`; `0` and magnitudes outside
that range are left exact, which is irrelevant for the witness) -/
def rnd3 (q : ℚ) : ℚ :=
  let a := |q|
  if a < 1 / 10 then q
  else if a < 1 then rndTo (1 / 1000) q
  else if a < 10 then rndTo (1 / 100) q
  else if a < 100 then rndTo (1 / 10) q
  else if a < 1000 then rndTo 1 q
  else if a < 10000 then rndTo 10 q
  else if a < 100000 then rndTo 100 q
  else if a < 1000000 then rndTo 1000 q
  else if a < 10000000 then rndTo 10000 q
  else q

/-- a number of the toy arithmetic: a rational, every operation on which is rounded by `rnd3` -/
structure D3 where
  val : ℚ
deriving DecidableEq

instance : Add D3 := ⟨fun a b => ⟨rnd3 (a.val + b.val)⟩⟩
instance : Sub D3 := ⟨fun a b => ⟨rnd3 (a.val - b.val)⟩⟩
instance : Mul D3 := ⟨fun a b => ⟨rnd3 (a.val * b.val)⟩⟩
instance : Div D3 := ⟨fun a b => ⟨rnd3 (a.val / b.val)⟩⟩
instance : Neg D3 := ⟨fun a => ⟨-a.val⟩⟩
instance : OfNat D3 0 := ⟨⟨0⟩⟩
instance : OfNat D3 1 := ⟨⟨1⟩⟩
instance : NatCast D3 := ⟨fun n => ⟨rnd3 n⟩⟩

/-- the witness sample `[100, 101, 102]`: all three are exactly representable with 3 digits; the
true population variance is `2/3` -/
def sample3 : List D3 := [⟨100⟩, ⟨101⟩, ⟨102⟩]

/-- **The one-pass formula loses everything; the two-pass form of the code does not.**  In the
3-digit decimal arithmetic `D3` (every `+ − × ÷` rounded to 3 significant digits), on the sample
`[100, 101, 102]` whose exact population variance is `2/3` (by both formulas):
* the model's `stdDev` (two-pass, run with `sqrt := id` so that the variance itself is visible)
  returns `0.667`, within 0.05 % — hence within 1 % — of `2/3`;
* the one-pass formula `onePassVar`, evaluated in the same arithmetic, returns `0`: a relative
  error of 100 %, no correct digit, although the rounding unit is `5·10⁻³`.
So a rewrite of `std_dev` to the one-pass formula, although an identity in exact arithmetic, is
not "the same to within rounding" in the sense of `variance_rounding`. -/
theorem one_pass_loses_everything :
    onePassVar (S := ℚ) .population [100, 101, 102] = 2 / 3
    ∧ stdDev (S := ℚ) id .population [100, 101, 102] = some (2 / 3)
    ∧ stdDev id .population sample3 = some ⟨667 / 1000⟩
    ∧ |(667 / 1000 : ℚ) - 2 / 3| ≤ (1 / 100) * (2 / 3)
    ∧ onePassVar .population sample3 = ⟨0⟩ := by
  refine ⟨by decide +kernel, by decide +kernel, by decide +kernel, by norm_num, by decide +kernel⟩

/-- the same loss is a translation effect: moved to `[-1, 0, 1]` (subtract 101) the one-pass
formula is right to 3 digits in the same arithmetic -/
theorem one_pass_translation_dependent :
    onePassVar .population ([⟨-1⟩, ⟨0⟩, ⟨1⟩] : List D3) = ⟨667 / 1000⟩
    ∧ onePassVar .population sample3 = ⟨0⟩ := by
  refine ⟨by decide +kernel, by decide +kernel⟩

/-- non-vacuity of the exact-arithmetic theorems over `ℚ` -/
example : onePassVar (S := ℚ) .sample ([1, 2, 4].map fun x => x + 1000) = 7 / 3
    ∧ onePassVar (S := ℚ) .sample [1, 2, 4] = 7 / 3 := by
  refine ⟨by decide +kernel, by decide +kernel⟩

end SV.Props.C18OnePass
