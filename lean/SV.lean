-- Root of the `SV` library: models (import-free), lemmas and property theorems.
import SV.Model.Basic
import SV.Model.Wire
import SV.Model.C11
