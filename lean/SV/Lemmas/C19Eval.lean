import SV.Lemmas.C19
import SV.Lemmas.Text
import Mathlib.Algebra.Order.Field.Basic
import Mathlib.Tactic.Linarith
/-!
Lemmas for C19, semantic part: an evaluator for expression trees over an ordered field, the value
tests of `fold_operations` at that field, and the facts about `fold` used by `SV.Props.C19Fold`.
-/
namespace SV.C19
open SV SV.Text

/-- What a tree is evaluated against.  `none` stands for "not finite" (a division by zero, a power
or a function outside its domain).  Variables, named constants, the functions, `!`, `%` and the power
are parameters: the crate has no evaluator, so nothing about them is fixed except the two facts about
`pow` that folding uses (`Sem.PowLaws`). -/
structure Sem (K : Type) where
  var : String → K
  const : Const → K
  fn : Func → K → Option K
  fac : K → Option K
  rem : K → K → Option K
  pow : K → K → Option K

/-- the two facts about the power that `fold_operations` relies on: `x^0 = 1` for every `x`
(as `f64::powf`, including `0^0`), and `0^y = 0` for positive `y` -/
structure Sem.PowLaws {K : Type} [Zero K] [One K] [LT K] (S : Sem K) : Prop where
  pow_zero : ∀ x, S.pow x 0 = some 1
  zero_pow : ∀ y, 0 < y → S.pow 0 y = some 0

section
variable {K : Type} [Field K] [LinearOrder K]

/-- value of a binary node from the values of its operands -/
def binop (S : Sem K) : Op → K → K → Option K
  | .add, a, b => some (a + b)
  | .sub, a, b => some (a - b)
  | .mul, a, b => some (a * b)
  | .cdot, a, b => some (a * b)
  | .div, a, b => if b = 0 then none else some (a / b)
  | .rem, a, b => S.rem a b
  | .caret, a, b => S.pow a b
  | .fac, _, _ => none

/-- evaluator: every subterm must be defined for the whole to be defined; the `paren` flag is ignored -/
def eval (S : Sem K) : Expr K → Option K
  | .num x => some x
  | .var s => some (S.var s)
  | .const c => some (S.const c)
  | .func f i => (eval S i).bind (S.fn f)
  | .pre o v => if o = .sub then (eval S v).map (fun a => -a) else none
  | .post o v => if o = .fac then (eval S v).bind S.fac else none
  | .bin o l r _ => (eval S l).bind fun a => (eval S r).bind fun b => binop S o a b

/-- the value tests of `fold_operations` (`== 0.`, `== 1.`, `> 0.`) at the field -/
def fieldTests (K : Type) [Field K] [LinearOrder K] : NumTests K where
  isZero x := decide (x = 0)
  isOne x := decide (x = 1)
  isPos x := decide (0 < x)
  zero := 0
  one := 1

theorem isNumZero_field {e : Expr K} (h : isNumZero (fieldTests K) e = true) : e = .num 0 := by
  cases e <;> simp_all [isNumZero, fieldTests]

theorem isNumOne_field {e : Expr K} (h : isNumOne (fieldTests K) e = true) : e = .num 1 := by
  cases e <;> simp_all [isNumOne, fieldTests]

theorem isNumPos_field {e : Expr K} (h : isNumPos (fieldTests K) e = true) : ∃ x, e = .num x ∧ 0 < x := by
  cases e <;> simp_all [isNumPos, fieldTests]

theorem eval_bin_some {S : Sem K} {o : Op} {l r : Expr K} {p : Bool} {v : K}
    (h : eval S (.bin o l r p) = some v) :
    ∃ a b, eval S l = some a ∧ eval S r = some b ∧ binop S o a b = some v := by
  simp only [eval] at h
  cases hl : eval S l with
  | none => simp [hl] at h
  | some a =>
    cases hr : eval S r with
    | none => simp [hl, hr] at h
    | some b => exact ⟨a, b, rfl, rfl, by simpa [hl, hr] using h⟩

theorem eval_bin_of {S : Sem K} {o : Op} {l r : Expr K} {p : Bool} {a b : K}
    (hl : eval S l = some a) (hr : eval S r = some b) : eval S (.bin o l r p) = binop S o a b := by
  simp [eval, hl, hr]

end

/-! ### the driver's decimal instance against the field instance -/

/-- change of number type -/
def Expr.map {N M : Type} (f : N → M) : Expr N → Expr M
  | .num x => .num (f x)
  | .var s => .var s
  | .const c => .const c
  | .func g i => .func g (i.map f)
  | .pre o v => .pre o (v.map f)
  | .post o v => .post o (v.map f)
  | .bin o l r p => .bin o (l.map f) (r.map f) p

/-- `val` carries the value tests of `nt` to those of the field -/
structure TestsAgree {N K : Type} [Field K] [LinearOrder K] (nt : NumTests N) (val : N → K) : Prop where
  isZero : ∀ x, nt.isZero x = true ↔ val x = 0
  isOne : ∀ x, nt.isOne x = true ↔ val x = 1
  isPos : ∀ x, nt.isPos x = true ↔ 0 < val x
  zero : val nt.zero = 0
  one : val nt.one = 1

section
variable {N K : Type} [Field K] [LinearOrder K] {nt : NumTests N} {val : N → K}

theorem isNumZero_map (h : TestsAgree nt val) (e : Expr N) :
    isNumZero (fieldTests K) (e.map val) = isNumZero nt e := by
  cases e <;> simp only [Expr.map, isNumZero]
  rw [Bool.eq_iff_iff, h.isZero]; simp [fieldTests]

theorem isNumOne_map (h : TestsAgree nt val) (e : Expr N) :
    isNumOne (fieldTests K) (e.map val) = isNumOne nt e := by
  cases e <;> simp only [Expr.map, isNumOne]
  rw [Bool.eq_iff_iff, h.isOne]; simp [fieldTests]

theorem isNumPos_map (h : TestsAgree nt val) (e : Expr N) :
    isNumPos (fieldTests K) (e.map val) = isNumPos nt e := by
  cases e <;> simp only [Expr.map, isNumPos]
  rw [Bool.eq_iff_iff, h.isPos]; simp [fieldTests]

theorem foldStep_map (h : TestsAgree nt val) (o : Op) (l r : Expr N) (p : Bool) :
    (foldStep nt o l r p).map val = foldStep (fieldTests K) o (l.map val) (r.map val) p := by
  unfold foldStep
  simp only [isNumZero_map h, isNumOne_map h, isNumPos_map h]
  split_ifs <;> simp [Expr.map, h.zero, h.one, fieldTests]

/-- folding commutes with reading the literals in the field -/
theorem fold_map (h : TestsAgree nt val) (e : Expr N) :
    (fold nt e).map val = fold (fieldTests K) (e.map val) := by
  induction e with
  | num | var | const | func | pre | post =>
    simp only [fold_num, fold_var, fold_const, fold_func, fold_pre, fold_post, Expr.map]
  | bin o l r p ihl ihr => rw [fold_bin, foldStep_map h, ihl, ihr, Expr.map, fold_bin]

end

theorem decTests_agree : TestsAgree decTests Dec.val where
  isZero d := by
    simp only [decTests, Dec.val, decide_eq_true_eq]
    constructor
    · intro h; simp [h]
    · intro h
      have h10 : (10 : ℚ) ^ d.scale ≠ 0 := pow_ne_zero _ (by norm_num)
      rcases div_eq_zero_iff.mp h with h | h
      · rcases mul_eq_zero.mp h with h | h
        · split at h <;> norm_num at h
        · exact_mod_cast h
      · exact absurd h h10
  isOne d := by
    have h10 : (0 : ℚ) < (10 : ℚ) ^ d.scale := pow_pos (by norm_num) _
    simp only [decTests, Dec.val, Bool.and_eq_true, Bool.not_eq_true', decide_eq_true_eq]
    constructor
    · rintro ⟨hn, hm⟩
      rw [hn, hm]; simp only [Bool.false_eq_true, ↓reduceIte, one_mul, Nat.cast_pow, Nat.cast_ofNat]
      exact div_self h10.ne'
    · intro h
      rw [div_eq_one_iff_eq h10.ne'] at h
      cases hn : d.neg with
      | true =>
        rw [hn] at h
        simp only [↓reduceIte, neg_mul, one_mul] at h
        have : (0 : ℚ) ≤ d.mant := Nat.cast_nonneg _
        linarith
      | false =>
        rw [hn] at h
        simp only [Bool.false_eq_true, ↓reduceIte, one_mul] at h
        exact ⟨rfl, by exact_mod_cast h⟩
  isPos d := by
    have h10 : (0 : ℚ) < (10 : ℚ) ^ d.scale := pow_pos (by norm_num) _
    simp only [decTests, Dec.val, Bool.and_eq_true, Bool.not_eq_true', decide_eq_true_eq]
    rw [div_pos_iff_of_pos_right h10]
    have hm : (0 : ℚ) ≤ d.mant := Nat.cast_nonneg _
    constructor
    · rintro ⟨hn, hm0⟩
      rw [hn]; simp only [Bool.false_eq_true, ↓reduceIte, one_mul]
      exact_mod_cast Nat.pos_of_ne_zero hm0
    · intro h
      cases hn : d.neg with
      | true => rw [hn] at h; simp only [↓reduceIte, neg_mul, one_mul] at h; linarith
      | false =>
        rw [hn] at h; simp only [Bool.false_eq_true, ↓reduceIte, one_mul] at h
        refine ⟨rfl, ?_⟩
        intro h0; rw [h0] at h; simp at h
  zero := by simp [decTests, Dec.val]
  one := by simp [decTests, Dec.val]

end SV.C19
