import SV.Model.Poly
/-!
Text toolkit for the parser and printer models.  Strings are `List Char` (Unicode scalar values,
the unit of Rust's `char`).  Import-free.

* `CharClass`    the Unicode predicates the code calls (`is_whitespace`, `is_alphabetic`, `is_numeric`)
                 as a parameter; the driver instantiates it with ASCII + an explicit table of the
                 non-ASCII characters the generators emit (the harness asserts Rust's classification of
                 every character it sends against the same table)
* `Dec`          a plain decimal spelling and its exact value `mant / 10^scale`
* `splitOn`, `replaceChar`, `findIdx` … the `str` methods used by the parsers
-/
namespace SV.Text

structure CharClass where
  isWs : Char → Bool
  isAlpha : Char → Bool
  isNumeric : Char → Bool

def isAsciiDigit (c : Char) : Bool := '0' ≤ c && c ≤ '9'
def isAsciiLetter (c : Char) : Bool := ('a' ≤ c && c ≤ 'z') || ('A' ≤ c && c ≤ 'Z')

/-- non-ASCII characters the generators use, with Rust's classification (checked by the harness):
`é λ я` alphabetic; U+00A0, U+2003, U+3000 white space; `² ½ ٣` numeric (`٣` is a decimal digit that is not ASCII) -/
def tableAlpha : List Char := ['é', 'λ', 'я', 'ß', 'Ω']
def tableWs : List Char := ['\u00a0', '\u2003', '\u3000', '\u2009']
def tableNumeric : List Char := ['²', '½', '٣']

def asciiWs (c : Char) : Bool :=
  c = ' ' || c = '\t' || c = '\n' || c = '\x0B' || c = '\x0C' || c = '\r'

/-- the driver's instance: ASCII classes + the table; every other non-ASCII character is in no class -/
def stdClass : CharClass where
  isWs c := asciiWs c || c = '\u0085' || tableWs.contains c
  isAlpha c := isAsciiLetter c || tableAlpha.contains c
  isNumeric c := isAsciiDigit c || tableNumeric.contains c

/-- `s.chars().filter(|c| !c.is_whitespace())` -/
def stripWs (cc : CharClass) (s : List Char) : List Char := s.filter fun c => !cc.isWs c

/-- `.replace("-", "+-")` -/
def dashToPlusDash (s : List Char) : List Char :=
  s.flatMap fun c => if c = '-' then ['+', '-'] else [c]

/-- `str::split(sep)` for a single character: always at least one piece -/
def splitOn (sep : Char) : List Char → List (List Char)
  | [] => [[]]
  | c :: cs =>
    if c = sep then [] :: splitOn sep cs
    else match splitOn sep cs with
      | p :: ps => (c :: p) :: ps
      | [] => [[c]]

/-- `str::replace(from, to)` for a two-character pattern -/
def replace2 (a b : Char) (to : List Char) : List Char → List Char
  | [] => []
  | [c] => [c]
  | c :: d :: rest =>
    if c = a ∧ d = b then to ++ replace2 a b to rest
    else c :: replace2 a b to (d :: rest)

/-- index of the first occurrence of `c` and the text before / after it (`str::find(char)` + slicing) -/
def splitAtChar (c : Char) : List Char → Option (List Char × List Char)
  | [] => none
  | d :: ds =>
    if d = c then some ([], ds)
    else match splitAtChar c ds with
      | some (pre, post) => some (d :: pre, post)
      | none => none

/-! ### plain decimal spellings -/

/-- value `(-1)^neg · mant / 10^scale` -/
structure Dec where
  neg : Bool
  mant : Nat
  scale : Nat
deriving Repr, DecidableEq

def digitVal (c : Char) : Nat := c.toNat - '0'.toNat

def digitsVal (ds : List Char) : Nat := ds.foldl (fun acc c => acc * 10 + digitVal c) 0

/-- unsigned `digits [. digits]` with at least one digit overall (what `f64::from_str` accepts among
texts made of ASCII digits and `.` only: "3", "3.", ".5", "007"; not ".", "", "1.2.3") -/
def parseUDec (s : List Char) : Option (Nat × Nat) :=
  match splitOn '.' s with
  | [ip] => if ip ≠ [] ∧ ip.all isAsciiDigit then some (digitsVal ip, 0) else none
  | [ip, fp] =>
    if (ip ≠ [] ∨ fp ≠ []) ∧ ip.all isAsciiDigit ∧ fp.all isAsciiDigit then
      some (digitsVal (ip ++ fp), fp.length)
    else none
  | _ => none

/-- `parse_decimal` of simple.rs: optional leading `-`, then only ASCII digits and `.`, then
`f64::from_str` -/
def parseDec (s : List Char) : Option Dec :=
  let (neg, body) := match s with
    | '-' :: rest => (true, rest)
    | _ => (false, s)
  if body = [] ∨ !(body.all fun c => isAsciiDigit c || c = '.') then none
  else match parseUDec body with
    | some (m, sc) => some ⟨neg, m, sc⟩
    | none => none

/-- `f64::from_str` restricted to the texts the intermediate parser can hand it: the text consists
of characters `c` with `is_numeric(c) ∨ c = '.' ∨ c = '-'`; accepted iff it is `[-] digits [. digits]`
with ASCII digits (anything else — a second `-`, a non-ASCII numeric — is rejected by Rust) -/
def parseSignedDec (s : List Char) : Option Dec :=
  let (neg, body) := match s with
    | '-' :: rest => (true, rest)
    | _ => (false, s)
  match parseUDec body with
  | some (m, sc) => some ⟨neg, m, sc⟩
  | none => none

/-- `str::parse::<usize>()` on ASCII-digit text (the only text that reaches it after whitespace and
`+` are gone): digits only, non-empty; `none` also above `cap` (the parser's MAX_POWER guard, which
also subsumes `usize` overflow) -/
def parseUsizeCapped (cap : Nat) (s : List Char) : Option Nat :=
  if s ≠ [] ∧ s.all isAsciiDigit then
    let v := digitsVal s
    if v ≤ cap then some v else none
  else none

def Dec.show (d : Dec) : String :=
  (if d.neg then "-" else "") ++ toString d.mant ++ "e-" ++ toString d.scale

end SV.Text

namespace SV.Text

/-- A number as the parsers compute it: decimal literals combined by the `f64` operations the code
performs (`x / y` for fractions, `+` for accumulated coefficients and merged exponents).  The
exact value is `Num.val`-like in the proofs; on the wire it is printed structurally and the
comparator evaluates it in binary64, so rounding is reproduced exactly. -/
inductive Num where
  | dec (d : Dec)
  | div (a b : Num)
  | add (a b : Num)
deriving Repr, DecidableEq

def Num.ofInt (i : Int) : Num := .dec ⟨i < 0, i.natAbs, 0⟩
def Num.zero : Num := .dec ⟨false, 0, 0⟩
def Num.one : Num := .dec ⟨false, 1, 0⟩
def Num.negOne : Num := .dec ⟨true, 1, 0⟩

def Num.show : Num → String
  | .dec d => "d" ++ d.show
  | .div a b => "(/," ++ a.show ++ "," ++ b.show ++ ")"
  | .add a b => "(+," ++ a.show ++ "," ++ b.show ++ ")"

/-- is the decimal's value zero (`y != 0.0` test of the fraction parsers; a decimal literal rounds to
0.0 only if it is 0 or below 2^-1075 — the generators never emit more than 30 digits) -/
def Dec.isZero (d : Dec) : Bool := d.mant = 0

end SV.Text
