//! C02 — multivariate parser: grammar accepted, canonical form, evaluation matches maths.
//!
//!   parse <entry> <text> | <intended>    entry 0 = parse_intermediate_polynomial, 1 = IntermediatePolynomial::parse
//!   evalm <poly> <n> {name value}*       eval_multivariate on a structure (shared PolyOps request)
//!   eval  <poly> <x>                     eval_univariate
//!   pe    <text> <n> {name value}* | <intended>      parse then eval_multivariate (oracle only)
//!   both  <text> <x> | <intended>        parse with BOTH parsers, evaluate both at x (oracle only)
//!
//! `pe` and `evalm` (on the sparse type) additionally carry a harness verdict: every entry point that
//! duplicates the evaluation (trait method `eval_multivariate`, free function
//! `eval_intermediate_polynomial` on owned / borrowed names, a `HashMap`, `f32` values, and
//! `eval_univariate` when exactly the polynomial's single variable is bound) must give the same answer.
//!
//! `<intended>` = `nterms { neg cm cs dm ds nv { cp eneg em es fm fs }* }*`: coefficient
//! ±(cm/10^cs)/(dm/10^ds) (dm = 0: no denominator), per variable the code point and exponent
//! ±(em/10^es)/(fm/10^fs) (fm = 0: no denominator).  Only the Python oracle reads it.  A variable that occurs several
//! times in a term is listed once per OCCURRENCE, in order (the oracle adds the exponents: exactly for the meaning, in
//! binary64 from left to right for the stored number).
use crate::polyio::*;
use crate::polyops;
use crate::util::*;
use spindalis_core::polynomials::intermediate::{eval_intermediate_polynomial, parse_intermediate_polynomial};
use spindalis_core::polynomials::PolynomialError;
use std::collections::HashMap;
use spindalis_core::polynomials::structs::{IntermediatePolynomial, PolynomialTraits, SimplePolynomial};

pub fn show_parsed(r: &Result<IntermediatePolynomial, spindalis_core::polynomials::PolynomialError>) -> String {
    match r {
        Ok(p) => format!("ok {}", show_inter(p)),
        Err(e) => format!("err {}", err_kind(e)),
    }
}

/// same answer of two evaluation routes: both refused (the statement names no error kind), or values that agree up to
/// the rounding the statement allows - `tol` is twice the bound tools/props/c02.py judges `main` against (`_tol`),
/// `None` when a factor or a partial product leaves [2^-900, 2^900] (the order of the operations decides what over- /
/// underflow does: only Ok / Err is compared there)
fn same_eval(a: &Result<f64, PolynomialError>, b: &Result<f64, PolynomialError>, tol: Option<f64>) -> bool {
    match (a, b) {
        (Ok(x), Ok(y)) => {
            x.to_bits() == y.to_bits() || (x.is_nan() && y.is_nan()) || x == y || match tol {
                None => true,
                Some(t) => (x - y).abs() <= t,
            }
        }
        (Err(_), Err(_)) => true,
        _ => false,
    }
}

fn eval_tolerance(p: &IntermediatePolynomial, binds: &Vec<(String, f64)>) -> Option<f64> {
    let (lo, hi) = (2f64.powi(-900), 2f64.powi(900));
    let inr = |v: f64| v == 0.0 || (v.abs() >= lo && v.abs() <= hi);
    let mut scale = 0.0f64;
    let mut ntok = 4.0 + 3.0 * binds.len() as f64;
    for t in &p.terms {
        ntok += 2.0 + 3.0 * t.variables.len() as f64;
        let mut v = t.coefficient.abs();
        if !t.coefficient.is_finite() || !inr(v) {
            return None;
        }
        for (name, e) in &t.variables {
            let x = binds.iter().rev().find(|(n, _)| n == name)?.1;
            let f = x.abs().powf(*e);
            if !f.is_finite() || !e.is_finite() || !x.is_finite() || !inr(f) {
                return None;
            }
            if x < 0.0 && e.fract() != 0.0 {
                return None;
            }
            v *= f;
            if !inr(v) {
                return None;
            }
        }
        scale += v;
    }
    let tol = 2.0 * 2f64.powi(-53) * scale * 64.0 * ntok * 1.001 + 1e-300;
    if tol.is_finite() { Some(tol) } else { None }
}

/// Every way of evaluating the same sparse polynomial under the same bindings must agree with the trait
/// method's answer `main` (same value up to the rounding of the statement / refused alike).
pub fn cross_entry(p: &IntermediatePolynomial, binds: &Vec<(String, f64)>, main: &Result<f64, PolynomialError>) -> Result<(), String> {
    let tol = eval_tolerance(p, binds);
    let check = |what: &str, r: Option<Result<f64, PolynomialError>>| -> Result<(), String> {
        match r {
            None => Err(format!("{what} panicked")),
            Some(r) if same_eval(&r, main, tol) => Ok(()),
            Some(r) => Err(format!("{what} answers `{}` but eval_multivariate answers `{}`", show_eval(&r), show_eval(main))),
        }
    };
    check("eval_intermediate_polynomial(&terms, &Vec<(String, f64)>)", catch(|| eval_intermediate_polynomial(&p.terms, binds)))?;
    let borrowed: Vec<(&str, f64)> = binds.iter().map(|(n, v)| (n.as_str(), *v)).collect();
    check("eval_intermediate_polynomial(&terms, &Vec<(&str, f64)>)", catch(|| eval_intermediate_polynomial(&p.terms, &borrowed)))?;
    check("eval_multivariate(&Vec<(&str, f64)>)", catch(|| p.eval_multivariate(&borrowed)))?;
    // through Deref<Target = [Term]>
    check("eval_intermediate_polynomial(&*poly, ..)", catch(|| eval_intermediate_polynomial(&**p, &borrowed)))?;
    let mut map: HashMap<String, f64> = HashMap::new();
    for (n, v) in binds {
        map.insert(n.clone(), *v); // a later binding of the same name wins, as in the list form
    }
    check("eval_multivariate(&HashMap<String, f64>)", catch(|| p.eval_multivariate(&map)))?;
    if binds.iter().all(|(_, v)| (*v as f32) as f64 == *v) {
        let single: Vec<(&str, f32)> = binds.iter().map(|(n, v)| (n.as_str(), *v as f32)).collect();
        check("eval_multivariate(&Vec<(&str, f32)>)", catch(|| p.eval_multivariate(&single)))?;
    }
    if binds.iter().all(|(_, v)| v.fract() == 0.0 && v.abs() < 1e9 && !(*v == 0.0 && v.is_sign_negative())) {
        let ints: Vec<(&str, i32)> = binds.iter().map(|(n, v)| (n.as_str(), *v as i32)).collect();
        check("eval_multivariate(&Vec<(&str, i32)>)", catch(|| p.eval_multivariate(&ints)))?;
    }
    // the univariate entry point binds the polynomial's only variable: same function
    if p.variables.len() == 1 && !binds.is_empty() && binds.iter().all(|(n, _)| *n == p.variables[0]) {
        let x = binds.last().unwrap().1;
        check("eval_univariate(value)", catch(|| p.eval_univariate(x)))?;
    }
    if p.variables.is_empty() && p.terms.iter().all(|t| t.variables.is_empty()) {
        check("eval_univariate on a constant polynomial", catch(|| p.eval_univariate(1.5)))?;
    }
    Ok(())
}

pub fn run(line: &str) -> Obs {
    let mut t = Toks::new(line);
    match t.tok() {
        "parse" => {
            let entry = t.usize();
            let text = t.string();
            let r = catch(|| match entry {
                0 => parse_intermediate_polynomial(&text),
                _ => IntermediatePolynomial::parse(&text),
            });
            match r {
                Some(r) => Obs::plain(show_parsed(&r)),
                None => Obs::with("panic".into(), Err("parser panicked".into())),
            }
        }
        "pe" => {
            let text = t.string();
            let n = t.usize();
            let binds: Vec<(String, f64)> = (0..n).map(|_| (t.string(), t.f64())).collect();
            let r = catch(|| IntermediatePolynomial::parse(&text).map(|p| {
                let r = p.eval_multivariate(&binds);
                let v = cross_entry(&p, &binds, &r);
                (r, v)
            }));
            match r {
                Some(Ok((r, v))) => Obs::with(show_eval(&r), v),
                Some(Err(e)) => Obs::plain(show_eval(&Err(e))),
                None => Obs::with("panic".into(), Err("parse+eval panicked".into())),
            }
        }
        "evalm" => {
            let p = read_any(&mut t);
            let n = t.usize();
            let binds: Vec<(String, f64)> = (0..n).map(|_| (t.string(), t.f64())).collect();
            match catch(|| {
                let r = polyops::eval_multi(&p, &binds);
                let v = match &p {
                    AnyPoly::I(q) => cross_entry(q, &binds, &r),
                    AnyPoly::S(_) => Ok(()),
                };
                (show_eval(&r), v)
            }) {
                Some((s, v)) => Obs::with(s, v),
                None => Obs::with("panic".into(), Err("eval_multivariate panicked".into())),
            }
        }
        "both" => {
            let text = t.string();
            let x = t.f64();
            let r = catch(|| {
                let a = SimplePolynomial::parse(&text).and_then(|p| p.eval_univariate(x));
                let b = IntermediatePolynomial::parse(&text).and_then(|p| p.eval_univariate(x));
                format!("{} {}", show_eval(&a), show_eval(&b))
            });
            match r {
                Some(s) => Obs::plain(s),
                None => Obs::with("panic".into(), Err("parse+eval panicked".into())),
            }
        }
        _ => polyops::run(line),
    }
}

// ------------------------------------------------------------------------------------ generators

pub struct GenNum {
    pub neg: bool,
    pub m: u64,
    pub s: u32,
    pub dm: u64,
    pub ds: u32,
    pub text: String, // without sign
}

fn small_dec(rng: &mut Rng) -> (String, u64, u32) {
    match rng.below(5) {
        0 => {
            let n = 1 + rng.below(20);
            (format!("{n}"), n, 0)
        }
        1 => {
            let i = rng.below(10);
            let f = 1 + rng.below(99);
            (format!("{i}.{f:02}"), i * 100 + f, 2)
        }
        2 => {
            let f = 1 + rng.below(9);
            (format!(".{f}"), f, 1)
        }
        3 => {
            let n = 1 + rng.below(9);
            (format!("{n}."), n, 0)
        }
        _ => {
            let n = 1 + rng.below(9);
            (format!("0{n}"), n, 0)
        }
    }
}

/// coefficient forms '', n, n.d, .d, a/b
pub fn gen_coeff(rng: &mut Rng) -> Option<GenNum> {
    match rng.below(5) {
        0 => None,
        1 => {
            let (ta, a, sa) = small_dec(rng);
            let (tb, b, sb) = small_dec(rng);
            Some(GenNum { neg: false, m: a, s: sa, dm: b, ds: sb, text: format!("{ta}/{tb}") })
        }
        _ => {
            let (t, m, s) = if rng.chance(1, 3) { crate::c01::dec_spelling(rng) } else { small_dec(rng) };
            Some(GenNum { neg: false, m, s, dm: 0, ds: 0, text: t })
        }
    }
}

/// exponent forms n, -n, n.d, a/b, -a/b with denominators dividing 12 (so that r^12 bases give
/// exact rational powers for the oracle)
pub fn gen_exp(rng: &mut Rng) -> Option<GenNum> {
    match rng.below(8) {
        0 | 1 => None,
        2 => {
            let n = 1 + rng.below(5);
            Some(GenNum { neg: true, m: n, s: 0, dm: 0, ds: 0, text: format!("-{n}") })
        }
        3 => {
            // n.d with d in {5, 25, 75, 0}
            let n = rng.below(4);
            let (ft, fm, fs) = *rng.pick(&[("5", 5u64, 1u32), ("25", 25, 2), ("75", 75, 2), ("50", 50, 2), ("0", 0, 1)]);
            let neg = rng.chance(1, 4);
            let m = n * 10u64.pow(fs) + fm;
            Some(GenNum { neg, m, s: fs, dm: 0, ds: 0, text: format!("{}{n}.{ft}", if neg { "-" } else { "" }) })
        }
        4 => {
            let a = 1 + rng.below(7);
            let b = *rng.pick(&[2u64, 3, 4, 6]);
            let neg = rng.chance(1, 3);
            Some(GenNum { neg, m: a, s: 0, dm: b, ds: 0, text: format!("{}{a}/{b}", if neg { "-" } else { "" }) })
        }
        5 => Some(GenNum { neg: false, m: 0, s: 0, dm: 0, ds: 0, text: "0".into() }),
        _ => {
            let n = 1 + rng.below(6);
            let t = if rng.chance(1, 4) { format!("0{n}") } else { format!("{n}") };
            Some(GenNum { neg: false, m: n, s: 0, dm: 0, ds: 0, text: t })
        }
    }
}

pub struct GenITerm {
    pub neg: bool,
    pub coef: Option<GenNum>,
    pub vars: Vec<(char, Option<GenNum>)>,
}

pub const LETTERS: &[char] = &['x', 'y', 'z', 'a', 'b', 'q', 'X', 'Y', 'e'];

pub fn gen_iterm(rng: &mut Rng, pool: &[char], integer_only: bool) -> GenITerm {
    let nv = rng.below(pool.len() as u64 + 1) as usize;
    // distinct letters in random order
    let mut letters: Vec<char> = pool.to_vec();
    for i in (1..letters.len()).rev() {
        letters.swap(i, rng.below(i as u64 + 1) as usize);
    }
    letters.truncate(nv);
    let mut coef = gen_coeff(rng);
    if nv == 0 && coef.is_none() {
        coef = Some(GenNum { neg: false, m: 7, s: 0, dm: 0, ds: 0, text: "7".into() });
    }
    let vars = letters
        .into_iter()
        .map(|c| {
            let mut e = gen_exp(rng);
            if integer_only {
                if let Some(g) = &e {
                    if g.dm != 0 || g.s != 0 || g.neg {
                        e = Some(GenNum { neg: false, m: 2, s: 0, dm: 0, ds: 0, text: "2".into() });
                    }
                }
            }
            (c, e)
        })
        .collect();
    GenITerm { neg: rng.chance(2, 5), coef, vars }
}

pub fn render(rng: &mut Rng, terms: &[GenITerm], spacing: u64) -> String {
    let mut s = String::new();
    let sp = |rng: &mut Rng, s: &mut String| {
        if rng.below(10) < spacing {
            s.push_str(*rng.pick(crate::c01::SPACES));
        }
    };
    sp(rng, &mut s);
    for (i, t) in terms.iter().enumerate() {
        if t.neg {
            s.push('-');
            sp(rng, &mut s);
        } else if i > 0 || rng.chance(1, 8) {
            s.push('+');
            sp(rng, &mut s);
        }
        if let Some(c) = &t.coef {
            s.push_str(&c.text);
            sp(rng, &mut s);
        }
        for (v, e) in &t.vars {
            s.push(*v);
            sp(rng, &mut s);
            if let Some(e) = e {
                s.push('^');
                sp(rng, &mut s);
                s.push_str(&e.text);
                sp(rng, &mut s);
            }
        }
    }
    s
}

pub fn intended(terms: &[GenITerm]) -> String {
    let mut s = format!("{}", terms.len());
    for t in terms {
        match &t.coef {
            Some(c) => s.push_str(&format!(" {} {} {} {} {}", t.neg as u8, c.m, c.s, c.dm, c.ds)),
            None => s.push_str(&format!(" {} 1 0 0 0", t.neg as u8)),
        }
        s.push_str(&format!(" {}", t.vars.len()));
        for (v, e) in &t.vars {
            match e {
                Some(e) => s.push_str(&format!(" {} {} {} {} {} {}", *v as u32, e.neg as u8, e.m, e.s, e.dm, e.ds)),
                None => s.push_str(&format!(" {} 0 1 0 0 0", *v as u32)),
            }
        }
    }
    s
}

/// values r^12 with r = m/2^k small: every exponent with denominator dividing 12 gives an exact rational
pub fn base12(rng: &mut Rng) -> f64 {
    let r: f64 = *rng.pick(&[1.0, 2.0, 0.5, 1.5, 3.0, 0.75, 1.25, 2.5]);
    r.powi(12)
}

pub fn generate(seed: u64, thorough: bool, emit: &mut dyn FnMut(String)) {
    let mut rng = Rng::new(seed ^ 0xC02);
    let n = if thorough { 60_000 } else { 3000 };
    for i in 0..n {
        let pool_size = rng.below(5) as usize;
        let mut pool: Vec<char> = Vec::new();
        while pool.len() < pool_size {
            let c = *rng.pick(LETTERS);
            if !pool.contains(&c) {
                pool.push(c);
            }
        }
        let nt = 1 + rng.below(5) as usize;
        let terms: Vec<GenITerm> = (0..nt).map(|_| gen_iterm(&mut rng, &pool, false)).collect();
        let spacing = *rng.pick(&[0u64, 2, 6]);
        let text = render(&mut rng, &terms, spacing);
        let want = intended(&terms);
        emit(format!("parse {} {} | {}", i % 2, req_string(&text), want));
        // evaluate under an assignment of all pool variables (sometimes one missing)
        let drop = if !pool.is_empty() && rng.chance(1, 6) { Some(rng.below(pool.len() as u64) as usize) } else { None };
        let mut b = String::new();
        let mut nb = 0;
        for (k, c) in pool.iter().enumerate() {
            if Some(k) == drop {
                continue;
            }
            nb += 1;
            b.push_str(&format!(" {} {}", req_string(&c.to_string()), rbits(base12(&mut rng))));
        }
        emit(format!("pe {} {nb}{b} | {}", req_string(&text), want));
    }
    // the common univariate sub-language through both parsers
    let m = if thorough { 20_000 } else { 1500 };
    for _ in 0..m {
        let (text, want) = crate::c01::gen_poly_text_ascii(&mut rng);
        let x = if rng.chance(1, 10) { 0.0 } else { rng.dyadic(256, 6) };
        emit(format!("both {} {} | {}", req_string(&text), rbits(x), want));
    }
    // structures: evaluation requests (K on the shared model + missing-variable behaviour)
    let k = if thorough { 20_000 } else { 1500 };
    for _ in 0..k {
        let names: &[&str] = match rng.below(3) {
            0 => &["x"],
            1 => &["x", "y"],
            _ => &["a", "x", "z"],
        };
        let p = polyops::rand_inter(&mut rng, names, 4);
        let mut s = format!("evalm {} ", req_inter(&p));
        let nb = rng.below(names.len() as u64 + 1) as usize;
        s.push_str(&format!("{nb}"));
        for v in names.iter().take(nb) {
            s.push_str(&format!(" {} {}", req_string(v), rbits(base12(&mut rng))));
        }
        emit(s);
    }
    hardening_families(seed, thorough, emit);
    word_families(seed, thorough, emit);
    near_special_families(seed, thorough, emit);
}

// ------------------------------------------------------------------------------------ hardening families
//
// Texts with numbers of arbitrary size: mantissas are decimal digit strings (the Python oracle reads them as
// unbounded integers), same `<intended>` layout as above.

#[derive(Clone)]
pub struct XNum {
    pub neg: bool,
    pub m: String,
    pub s: u32,
    pub dm: String,
    pub ds: u32,
    pub text: String, // as spelled (an exponent's sign included; a coefficient's sign lives in the term)
}

#[derive(Clone)]
pub struct XTerm {
    pub neg: bool,
    pub coef: Option<XNum>,
    pub vars: Vec<(char, Option<XNum>)>,
}

fn xn(g: &GenNum) -> XNum {
    XNum { neg: g.neg, m: g.m.to_string(), s: g.s, dm: g.dm.to_string(), ds: g.ds, text: g.text.clone() }
}
fn xt(t: &GenITerm) -> XTerm {
    XTerm { neg: t.neg, coef: t.coef.as_ref().map(xn), vars: t.vars.iter().map(|(c, e)| (*c, e.as_ref().map(xn))).collect() }
}
/// integer exponent / coefficient spelled `text` with value ±m
fn xint(neg: bool, m: u64, text: &str) -> XNum {
    XNum { neg, m: m.to_string(), s: 0, dm: "0".into(), ds: 0, text: text.to_string() }
}
fn xdec(neg: bool, m: &str, s: u32, text: &str) -> XNum {
    XNum { neg, m: m.to_string(), s, dm: "0".into(), ds: 0, text: text.to_string() }
}
fn xfrac(neg: bool, a: &str, sa: u32, b: &str, sb: u32, text: &str) -> XNum {
    XNum { neg, m: a.to_string(), s: sa, dm: b.to_string(), ds: sb, text: text.to_string() }
}

pub fn xrender(rng: &mut Rng, terms: &[XTerm], spacing: u64) -> String {
    let mut s = String::new();
    let sp = |rng: &mut Rng, s: &mut String| {
        if rng.below(10) < spacing {
            s.push_str(*rng.pick(crate::c01::SPACES));
        }
    };
    sp(rng, &mut s);
    for (i, t) in terms.iter().enumerate() {
        if t.neg {
            s.push('-');
            sp(rng, &mut s);
        } else if i > 0 || rng.chance(1, 8) {
            s.push('+');
            sp(rng, &mut s);
        }
        if let Some(c) = &t.coef {
            s.push_str(&c.text);
            sp(rng, &mut s);
        }
        for (v, e) in &t.vars {
            s.push(*v);
            sp(rng, &mut s);
            if let Some(e) = e {
                s.push('^');
                sp(rng, &mut s);
                s.push_str(&e.text);
                sp(rng, &mut s);
            }
        }
    }
    s
}

pub fn xintended(terms: &[XTerm]) -> String {
    let mut s = format!("{}", terms.len());
    for t in terms {
        match &t.coef {
            Some(c) => s.push_str(&format!(" {} {} {} {} {}", t.neg as u8, c.m, c.s, c.dm, c.ds)),
            None => s.push_str(&format!(" {} 1 0 0 0", t.neg as u8)),
        }
        s.push_str(&format!(" {}", t.vars.len()));
        for (v, e) in &t.vars {
            match e {
                Some(e) => s.push_str(&format!(" {} {} {} {} {} {}", *v as u32, e.neg as u8, e.m, e.s, e.dm, e.ds)),
                None => s.push_str(&format!(" {} 0 1 0 0 0", *v as u32)),
            }
        }
    }
    s
}

fn binds_text(binds: &[(String, f64)]) -> String {
    let mut b = format!("{}", binds.len());
    for (n, v) in binds {
        b.push_str(&format!(" {} {}", req_string(n), rbits(*v)));
    }
    b
}

/// r^12 for r over a wide range of magnitudes (2^-6..2^6, so values 2^-72..2^72) and next to 1
/// (17/16, 15/16, 9/8, 7/8): all exactly representable, all with exact rational 12th roots
pub fn wide12(rng: &mut Rng) -> f64 {
    let r: f64 = match rng.below(4) {
        0 => 2f64.powi(rng.range(-6, 6) as i32),
        1 => *rng.pick(&[17.0 / 16.0, 15.0 / 16.0, 9.0 / 8.0, 7.0 / 8.0, 1.0, 1.25, 0.75]),
        2 => *rng.pick(&[3.0, 5.0, 1.5, 2.5]) * 2f64.powi(rng.range(-5, 3) as i32),
        _ => *rng.pick(&[1.0, 2.0, 0.5, 1.5, 3.0, 0.75, 1.25, 2.5]),
    };
    r.powi(12)
}

/// any finite double an integer-exponent term may be evaluated at: zeros of both signs, ±1, values next to 1 and
/// next to 0 at every distance, negative values, wide magnitudes
pub fn int_point(rng: &mut Rng, allow_zero: bool) -> f64 {
    loop {
        let v = match rng.below(12) {
            0 => 0.0,
            1 => -0.0,
            2 => *rng.pick(&[1.0, -1.0, 2.0, -2.0, 0.5, -0.5, 3.0, -3.0, 10.0, 0.1]),
            3 => 1.0 + 2f64.powi(-(rng.range(1, 52) as i32)),
            4 => 1.0 - 2f64.powi(-(rng.range(1, 53) as i32)),
            5 => 1.0 + if rng.chance(1, 2) { 1.0 } else { -1.0 } * 10f64.powi(-(rng.range(1, 17) as i32)),
            6 => 10f64.powi(-(rng.range(1, 30) as i32)) * if rng.chance(1, 3) { -1.0 } else { 1.0 },
            7 => 2f64.powi(rng.range(-70, 60) as i32) * if rng.chance(1, 3) { -1.0 } else { 1.0 },
            8 => -(1.0 + 2f64.powi(-(rng.range(1, 40) as i32))),
            9 => rng.dyadic(256, 6),
            10 => (rng.uniform(-10.0, 10.0) * 1000.0).round() / 1000.0,
            _ => rng.uniform(-3.0, 3.0),
        };
        if allow_zero || v != 0.0 {
            return v;
        }
    }
}

/// integer exponent forms, zero and "negative zero" included
fn int_exp(rng: &mut Rng, allow_negative: bool) -> Option<XNum> {
    match rng.below(12) {
        0 | 1 => None,
        2 => Some(xint(false, 0, "0")),
        3 => Some(xint(false, 0, *rng.pick(&["00", "0.0", "0.", "0/1", "0/5"]))).map(|mut e| {
            if e.text.contains('/') {
                e.dm = e.text[2..].to_string();
            }
            e
        }),
        4 => Some(xint(true, 0, "-0")),
        5 if allow_negative => {
            let n = rng.range(1, 4) as u64;
            Some(xint(true, n, &format!("-{n}")))
        }
        6 => {
            // integer spelled as a fraction or a decimal
            let n = rng.range(1, 4) as u64;
            match rng.below(3) {
                0 => Some(xfrac(false, &(2 * n).to_string(), 0, "2", 0, &format!("{}/2", 2 * n))),
                1 => Some(xdec(false, &(n * 10).to_string(), 1, &format!("{n}.0"))),
                _ => Some(xdec(false, &(n * 100).to_string(), 2, &format!("0{n}.00"))),
            }
        }
        7 => Some(xint(false, 1, "1")),
        _ => {
            let n = rng.range(1, 5) as u64;
            Some(xint(false, n, &n.to_string()))
        }
    }
}

fn is_negative_exp(e: &Option<XNum>) -> bool {
    matches!(e, Some(x) if x.neg && x.m.chars().any(|c| c != '0'))
}

/// coefficient spellings of extreme magnitude / length
pub fn wide_coeff(rng: &mut Rng) -> XNum {
    match rng.below(8) {
        0 => {
            // 0.00…0d, up to 60 zeros
            let z = rng.range(3, 60) as usize;
            let d = rng.range(1, 9);
            xdec(false, &d.to_string(), z as u32 + 1, &format!("0.{}{d}", "0".repeat(z)))
        }
        1 => {
            // d00…0, up to 60 digits
            let z = rng.range(3, 60) as usize;
            let d = rng.range(1, 9);
            let t = format!("{d}{}", "0".repeat(z));
            xdec(false, &t, 0, &t)
        }
        2 => {
            // 40 significant digits
            let mut t = String::new();
            for i in 0..40 {
                t.push(char::from(b'0' + if i == 0 { rng.range(1, 9) } else { rng.range(0, 9) } as u8));
            }
            let k = rng.range(0, 40) as usize;
            let text = if k == 0 { format!(".{t}") } else if k == 40 { t.clone() } else { format!("{}.{}", &t[..k], &t[k..]) };
            xdec(false, &t, (40 - k) as u32, &text)
        }
        3 => {
            // leading zeros
            let z = rng.range(1, 30) as usize;
            let n = rng.range(1, 999) as u64;
            xdec(false, &n.to_string(), 0, &format!("{}{n}", "0".repeat(z)))
        }
        4 => {
            // small / huge
            let z = rng.range(3, 40) as usize;
            let a = rng.range(1, 99) as u64;
            let b = format!("{}{}", rng.range(1, 9), "0".repeat(z));
            xfrac(false, &a.to_string(), 0, &b, 0, &format!("{a}/{b}"))
        }
        5 => {
            // huge / small
            let z = rng.range(3, 40) as usize;
            let a = format!("{}{}", rng.range(1, 9), "0".repeat(z));
            let d = rng.range(1, 9);
            let zz = rng.range(1, 20) as usize;
            xfrac(false, &a, 0, &d.to_string(), zz as u32 + 1, &format!("{a}/0.{}{d}", "0".repeat(zz)))
        }
        6 => {
            // trailing zeros after the point
            let n = rng.range(1, 99) as u64;
            let z = rng.range(1, 30) as usize;
            xdec(false, &n.to_string(), 0, &format!("{n}.{}", "0".repeat(z)))
        }
        _ => {
            // exactly representable power of two spelled out: 2^-k
            let k = rng.range(1, 40) as u32;
            let m = 5u128.pow(k).to_string(); // 2^-k = 5^k / 10^k
            let text = format!("0.{}{m}", "0".repeat(k as usize - m.len()));
            xdec(false, &m, k, &text)
        }
    }
}

fn one_var_pool(c: char) -> Vec<char> {
    vec![c]
}

const ALPHABET: &str = "abcdefghijklmnopqrstuvwxyzABCDEFGHIJKLMNOPQRSTUVWXYZ";

pub fn hardening_families(seed: u64, thorough: bool, emit: &mut dyn FnMut(String)) {
    let mut rng = Rng::new(Rng::new(seed ^ 0xC02_0002).next());
    let mul = if thorough { 12 } else { 1 };
    let mut idx = 0usize;
    let mut pp = |emit: &mut dyn FnMut(String), text: &str, want: &str, binds: &[(String, f64)]| {
        emit(format!("parse {} {} | {}", idx % 2, req_string(text), want));
        emit(format!("pe {} {} | {}", req_string(text), binds_text(binds), want));
        idx += 1;
    };
    let b = |c: char, v: f64| (c.to_string(), v);

    // ---- fixed corner cases (every seed)
    {
        let x0 = xint(false, 0, "0");
        let two = xint(false, 2, "2");
        let t = |neg: bool, coef: Option<XNum>, vars: Vec<(char, Option<XNum>)>| XTerm { neg, coef, vars };
        // 0^0 = 1 (explicit exponent 0 at value 0), alone and beside other factors
        let cases: Vec<(Vec<XTerm>, Vec<(String, f64)>)> = vec![
            (vec![t(false, None, vec![('x', Some(x0.clone()))])], vec![b('x', 0.0)]),
            (vec![t(false, Some(xint(false, 3, "3")), vec![('x', Some(x0.clone()))])], vec![b('x', -0.0)]),
            (vec![t(false, Some(xint(false, 3, "3")), vec![('x', Some(x0.clone())), ('y', Some(two.clone()))])], vec![b('x', 0.0), b('y', 2.0)]),
            (vec![t(true, None, vec![('y', None), ('x', Some(xint(true, 0, "-0")))]), t(false, Some(xint(false, 5, "5")), vec![])], vec![b('x', 0.0), b('y', 0.0)]),
            // a zero-valued variable first, a missing one after it (same term / later term / zero coefficient)
            (vec![t(false, None, vec![('a', None), ('b', None)])], vec![b('a', 0.0)]),
            (vec![t(false, None, vec![('b', None), ('a', Some(two.clone()))])], vec![b('a', 0.0)]),
            (vec![t(false, None, vec![('a', None)]), t(false, None, vec![('b', None)])], vec![b('a', 0.0)]),
            (vec![t(false, Some(xint(false, 0, "0")), vec![('a', None), ('b', None)])], vec![b('a', 1.0)]),
            (vec![t(false, Some(xint(false, 0, "0")), vec![('b', None)]), t(false, Some(xint(false, 1, "1")), vec![])], vec![]),
            (vec![t(false, None, vec![('a', None), ('b', Some(x0.clone()))])], vec![b('a', 2.0)]),
            (vec![t(false, None, vec![('X', None), ('x', None)])], vec![b('X', 0.0)]),
            (vec![t(false, None, vec![('X', None), ('x', None)])], vec![b('x', 0.0)]),
            // a single, wrongly named binding on a one-variable polynomial
            (vec![t(false, Some(xint(false, 2, "2")), vec![('x', Some(two.clone()))]), t(false, None, vec![('x', None)])], vec![b('y', 3.0)]),
            (vec![t(false, None, vec![('x', None)])], vec![b('X', 3.0)]),
            (vec![t(false, None, vec![('X', None)])], vec![b('x', 3.0)]),
            (vec![t(false, None, vec![('y', Some(two.clone()))])], vec![("yy".to_string(), 3.0)]),
            (vec![t(false, None, vec![('y', Some(two.clone()))])], vec![(String::new(), 3.0)]),
            // upper / lower case of the same letter inside one term, both orders
            (vec![t(false, None, vec![('x', Some(two.clone())), ('X', Some(xint(false, 3, "3")))])], vec![b('x', 2.0), b('X', 3.0)]),
            (vec![t(false, None, vec![('X', Some(two.clone())), ('x', Some(xint(false, 3, "3")))])], vec![b('x', 2.0), b('X', 3.0)]),
            (vec![t(false, None, vec![('z', None), ('a', None), ('Z', None), ('A', None)])], vec![b('a', 2.0), b('A', 3.0), b('z', 5.0), b('Z', 7.0)]),
        ];
        for (terms, binds) in &cases {
            let text = xrender(&mut rng, terms, 0);
            pp(emit, &text, &xintended(terms), binds);
        }
    }

    // ---- every letter of the alphabet, alone and next to its other case / a neighbour
    for (i, c) in ALPHABET.chars().enumerate() {
        let other = if c.is_ascii_lowercase() { c.to_ascii_uppercase() } else { c.to_ascii_lowercase() };
        let d = ALPHABET.chars().nth((i + 1 + rng.below(50) as usize) % 52).unwrap();
        let pools: [Vec<char>; 3] = [one_var_pool(c), vec![c, other], vec![d, c]];
        for pool in pools.iter() {
            let mut terms: Vec<XTerm> = (0..1 + rng.below(3)).map(|_| xt(&gen_iterm(&mut rng, pool, false))).collect();
            // make sure one term carries the whole pool
            terms.push(XTerm { neg: rng.chance(1, 2), coef: None, vars: pool.iter().rev().map(|v| (*v, xn_opt(gen_exp(&mut rng)))).collect() });
            let spacing = *rng.pick(&[0u64, 3]);
        let text = xrender(&mut rng, &terms, spacing);
            let binds: Vec<(String, f64)> = pool.iter().map(|v| b(*v, wide12(&mut rng))).collect();
            pp(emit, &text, &xintended(&terms), &binds);
        }
    }

    // ---- upper/lower-case pairs inside one term
    for _ in 0..150 * mul {
        let k = 1 + rng.below(3) as usize;
        let mut pool: Vec<char> = Vec::new();
        while pool.len() < 2 * k {
            let c = ALPHABET.chars().nth(rng.below(26) as usize).unwrap();
            if !pool.contains(&c) {
                pool.push(c);
                pool.push(c.to_ascii_uppercase());
            }
        }
        if rng.chance(1, 3) {
            pool.pop();
        }
        let nt = 1 + rng.below(4) as usize;
        let terms: Vec<XTerm> = (0..nt).map(|_| xt(&gen_iterm(&mut rng, &pool, false))).collect();
        let spacing = *rng.pick(&[0u64, 2, 6]);
        let text = xrender(&mut rng, &terms, spacing);
        let drop = if rng.chance(1, 5) { Some(rng.below(pool.len() as u64) as usize) } else { None };
        let binds: Vec<(String, f64)> =
            pool.iter().enumerate().filter(|(k, _)| Some(*k) != drop).map(|(_, v)| b(*v, wide12(&mut rng))).collect();
        pp(emit, &text, &xintended(&terms), &binds);
    }

    // ---- integer exponents at arbitrary points: zeros, signs, values next to 1 and 0, wide magnitudes;
    //      missing variables next to zero-valued ones; unused and repeated bindings
    for _ in 0..700 * mul {
        let psize = 1 + rng.below(4) as usize;
        let mut pool: Vec<char> = Vec::new();
        while pool.len() < psize {
            let c = if rng.chance(1, 2) { *rng.pick(LETTERS) } else { ALPHABET.chars().nth(rng.below(52) as usize).unwrap() };
            if !pool.contains(&c) {
                pool.push(c);
            }
        }
        let nt = 1 + rng.below(4) as usize;
        let mut terms: Vec<XTerm> = Vec::new();
        for _ in 0..nt {
            let g = gen_iterm(&mut rng, &pool, true);
            let mut t = xt(&g);
            for v in t.vars.iter_mut() {
                v.1 = int_exp(&mut rng, true);
            }
            if rng.chance(1, 6) {
                t.coef = Some(if rng.chance(1, 2) { xint(false, 0, *rng.pick(&["0", "0.0", "00", ".0"])) } else { wide_coeff(&mut rng) });
            }
            terms.push(t);
        }
        let spacing = *rng.pick(&[0u64, 0, 2, 6]);
        let text = xrender(&mut rng, &terms, spacing);
        // a variable with a negative exponent somewhere must stay non-zero
        let mut binds: Vec<(String, f64)> = Vec::new();
        let zero_bias = rng.chance(1, 2);
        for c in &pool {
            let nonzero = terms.iter().any(|t| t.vars.iter().any(|(v, e)| v == c && is_negative_exp(e)));
            let v = if !nonzero && zero_bias && rng.chance(1, 2) { if rng.chance(1, 4) { -0.0 } else { 0.0 } } else { int_point(&mut rng, !nonzero) };
            binds.push(b(*c, v));
        }
        match rng.below(8) {
            0 | 1 => {
                // drop one binding (often one that sorts after a zero-valued one)
                let k = rng.below(binds.len() as u64) as usize;
                binds.remove(k);
            }
            2 => binds.push(b(*rng.pick(&['w', 'W', 'k']), int_point(&mut rng, true))), // unused extra binding
            3 => {
                // the same name bound twice: the later binding counts
                let k = rng.below(binds.len() as u64) as usize;
                let again = (binds[k].0.clone(), int_point(&mut rng, false));
                binds.push(again);
            }
            4 => binds.reverse(),
            _ => {}
        }
        pp(emit, &text, &xintended(&terms), &binds);
    }

    // ---- coefficients of extreme magnitude / length with all exponent forms at wide r^12 values
    for _ in 0..300 * mul {
        let psize = rng.below(3) as usize;
        let mut pool: Vec<char> = Vec::new();
        while pool.len() < psize {
            let c = *rng.pick(LETTERS);
            if !pool.contains(&c) {
                pool.push(c);
            }
        }
        let nt = 1 + rng.below(4) as usize;
        let mut terms: Vec<XTerm> = Vec::new();
        for _ in 0..nt {
            let mut t = xt(&gen_iterm(&mut rng, &pool, false));
            if rng.chance(2, 3) {
                t.coef = Some(wide_coeff(&mut rng));
            }
            terms.push(t);
        }
        let spacing = *rng.pick(&[0u64, 0, 3]);
        let text = xrender(&mut rng, &terms, spacing);
        let binds: Vec<(String, f64)> = pool.iter().map(|v| b(*v, wide12(&mut rng))).collect();
        pp(emit, &text, &xintended(&terms), &binds);
    }

    // ---- exponents of extreme magnitude / length (values chosen so that the power is an exact rational in range)
    {
        let mut ex: Vec<(XNum, Vec<f64>)> = Vec::new();
        let near = 1.0 + 2f64.powi(-30);
        for n in [255u64, 256, 257, 308, 309, 511, 512, 1000, 1023] {
            ex.push((xint(false, n, &n.to_string()), vec![2.0, 0.5, -2.0, 1.0, -1.0, near, 0.0]));
            ex.push((xint(true, n, &format!("-{n}")), vec![2.0, 0.5, -0.5, 1.0, -1.0, near]));
        }
        for n in [32767u64, 32768, 65535, 65536, 65537, 131072] {
            ex.push((xint(false, n, &n.to_string()), vec![1.0, -1.0, near, 0.0, 1.0 - 2f64.powi(-20)]));
            ex.push((xint(true, n, &format!("-{n}")), vec![1.0, -1.0, near]));
        }
        for n in [2147483647u64, 2147483648, 4294967295, 4294967296, 4294967297, 9007199254740992, 9007199254740993] {
            // (2^53 + 1 is not a double: the sign of (-1)^n would depend on the rounding of the exponent)
            ex.push((xint(false, n, &n.to_string()), if n > (1u64 << 53) { vec![1.0, 0.0] } else { vec![1.0, 0.0, -1.0] }));
        }
        ex.push((xdec(false, "2000000000000000000000000", 24, "2.000000000000000000000000"), vec![3.0, -3.0, 0.0]));
        ex.push((xdec(false, "5000000000000000000000000", 25, "0.5000000000000000000000000"), vec![4096.0, 531441.0]));
        ex.push((xdec(false, "2", 0, "00000000000000000000000002"), vec![3.0, -3.0]));
        ex.push((xfrac(false, "1000", 0, "500", 0, "1000/500"), vec![3.0, -3.0]));
        ex.push((xfrac(false, "3", 0, "6", 0, "3/6"), vec![4096.0]));
        ex.push((xfrac(true, "30", 0, "60", 0, "-30/60"), vec![4096.0]));
        ex.push((xfrac(false, "1", 0, "4", 0, "1/4"), vec![2f64.powi(72), 2f64.powi(-72), 2f64.powi(600)]));
        ex.push((xfrac(false, "25", 2, "5", 1, "0.25/0.5"), vec![4096.0]));
        ex.push((xfrac(false, "600", 0, "3", 0, "600/3"), vec![2.0, 0.5]));
        ex.push((xdec(false, "25", 2, "000.25"), vec![4096.0, 2f64.powi(-72)]));
        for (e, vals) in &ex {
            for (k, v) in vals.iter().enumerate() {
                let mut terms = vec![XTerm { neg: k % 2 == 1, coef: if k % 3 == 0 { None } else { Some(xint(false, 3, "3")) }, vars: vec![('x', Some(e.clone()))] }];
                if k % 2 == 0 {
                    terms.push(XTerm { neg: false, coef: Some(xint(false, 1, "1")), vars: vec![] });
                }
                let text = xrender(&mut rng, &terms, 0);
                pp(emit, &text, &xintended(&terms), &[b('x', *v)]);
            }
        }
    }

    // ---- sizes just beyond the usual ones: 6..40 terms, 5..26 variables in one term
    let sizes: Vec<usize> = (6..=40).collect();
    for rep in 0..mul.min(4) {
        for &nt in &sizes {
            let pool: Vec<char> = vec!['x', 'y', 'z'];
            let mut terms: Vec<XTerm> = Vec::new();
            for _ in 0..nt {
                let mut t = xt(&gen_iterm(&mut rng, &pool, true));
                for v in t.vars.iter_mut() {
                    v.1 = int_exp(&mut rng, true);
                }
                terms.push(t);
            }
            let text = xrender(&mut rng, &terms, if rep == 0 { 0 } else { 2 });
            let binds: Vec<(String, f64)> = pool.iter().map(|v| b(*v, *rng.pick(&[1.0, 2.0, 0.5, -1.0, -2.0, 1.5, 3.0, -0.25]))).collect();
            pp(emit, &text, &xintended(&terms), &binds);
        }
        for nv in 5..=26usize {
            let mut letters: Vec<char> = ALPHABET.chars().collect();
            for i in (1..letters.len()).rev() {
                letters.swap(i, rng.below(i as u64 + 1) as usize);
            }
            letters.truncate(nv);
            let mut terms = vec![XTerm { neg: rng.chance(1, 2), coef: Some(xint(false, 3, "3")), vars: letters.iter().map(|c| (*c, int_exp(&mut rng, true))).collect() }];
            if rng.chance(1, 2) {
                let sub: Vec<char> = letters.iter().rev().take(1 + rng.below(nv as u64) as usize).cloned().collect();
                terms.push(XTerm { neg: false, coef: None, vars: sub.iter().map(|c| (*c, None)).collect() });
            }
            let text = xrender(&mut rng, &terms, 0);
            let mut binds: Vec<(String, f64)> = letters.iter().map(|v| b(*v, *rng.pick(&[1.0, 2.0, 0.5, -1.0, -2.0, 4.0, 0.25]))).collect();
            if rng.chance(1, 4) {
                // the LAST variable in sorted order is the missing one
                let mx = *letters.iter().max().unwrap();
                binds.retain(|(n, _)| *n != mx.to_string());
            }
            pp(emit, &text, &xintended(&terms), &binds);
        }
    }

    // ---- both parsers on univariate texts at points of every scale, exponents to the dense parser's limit
    for i in 0..400 * mul {
        let (text, want) = if i % 4 == 3 { big_power_text(&mut rng) } else { crate::c01::gen_poly_text_ascii(&mut rng) };
        let x = int_point(&mut rng, true);
        emit(format!("both {} {} | {}", req_string(&text), rbits(x), want));
    }
    for (text, want) in [("x^65536", "1 0 1 0 65536"), ("-y^65535 + y", "2 1 1 0 65535 0 1 0 1"), ("2t^65536 - t^65535", "2 0 2 0 65536 1 1 0 65535")] {
        for x in [0.0, -0.0, 1.0, -1.0, 1.0 + 2f64.powi(-30), -(1.0 - 2f64.powi(-25))] {
            emit(format!("both {} {} | {}", req_string(text), rbits(x), want));
        }
    }

    // ---- structures: bindings that do not fit the polynomial, zeros, extreme numbers (K on the shared model + oracle)
    use spindalis_core::polynomials::Term;
    let mk = |terms: Vec<(f64, Vec<(&str, f64)>)>| -> IntermediatePolynomial {
        let terms: Vec<Term> = terms
            .into_iter()
            .map(|(c, vs)| {
                let mut variables: Vec<(String, f64)> = vs.into_iter().map(|(n, e)| (n.to_string(), e)).collect();
                variables.sort_by(|a, b| a.0.cmp(&b.0));
                Term { coefficient: c, variables }
            })
            .collect();
        let mut variables: Vec<String> = terms.iter().flat_map(|t| t.variables.iter().map(|v| v.0.clone())).collect();
        variables.sort();
        variables.dedup();
        IntermediatePolynomial { terms, variables }
    };
    let evalm = |p: &IntermediatePolynomial, binds: &[(String, f64)]| format!("evalm {} {}", req_inter(p), binds_text(binds));
    let evalu = |p: &IntermediatePolynomial, x: f64| format!("eval {} {}", req_inter(p), rbits(x));
    // fixed
    let px = mk(vec![(2.0, vec![("x", 2.0)]), (1.0, vec![("x", 1.0)]), (-3.0, vec![])]);
    for wrong in ["y", "X", "xx", "", "a", "z"] {
        emit(evalm(&px, &[(wrong.to_string(), 3.0)]));
        emit(evalm(&px, &[(wrong.to_string(), 0.0)]));
    }
    emit(evalm(&px, &[("x".to_string(), 3.0)]));
    emit(evalm(&px, &[("y".to_string(), 5.0), ("x".to_string(), 3.0)]));
    emit(evalm(&px, &[("x".to_string(), 5.0), ("x".to_string(), 3.0)]));
    emit(evalm(&px, &[]));
    let pz = mk(vec![(1.0, vec![("a", 1.0), ("b", 1.0)])]);
    emit(evalm(&pz, &[("a".to_string(), 0.0)]));
    emit(evalm(&pz, &[("b".to_string(), 0.0)]));
    emit(evalm(&pz, &[("a".to_string(), 0.0), ("b".to_string(), 0.0)]));
    let pz2 = mk(vec![(0.0, vec![("a", 1.0)]), (1.0, vec![("b", 2.0)])]);
    emit(evalm(&pz2, &[("a".to_string(), 1.0)]));
    emit(evalm(&pz2, &[("b".to_string(), 1.0)]));
    let p00 = mk(vec![(1.0, vec![("x", 0.0)])]);
    for v in [0.0, -0.0, 2.0, -2.0] {
        emit(evalm(&p00, &[("x".to_string(), v)]));
        emit(evalu(&p00, v));
    }
    let p00b = mk(vec![(3.0, vec![("x", -0.0), ("y", 2.0)]), (1.0, vec![("y", 0.0)])]);
    emit(evalm(&p00b, &[("x".to_string(), 0.0), ("y".to_string(), 0.0)]));
    emit(evalm(&mk(vec![]), &[("x".to_string(), 1.0)]));
    emit(evalm(&mk(vec![]), &[]));
    emit(evalu(&mk(vec![]), 2.0));
    emit(evalu(&mk(vec![(5.0, vec![])]), 2.0));
    emit(evalu(&pz, 2.0)); // two variables through the univariate entry point
    // random
    let name_sets: [&[&str]; 8] = [&["x"], &["x", "y"], &["a", "x", "z"], &["X", "x"], &["A", "a", "b"], &["Q"], &["e", "E", "y", "Y"], &["k", "m", "n", "p", "q"]];
    for _ in 0..900 * mul {
        let names = *rng.pick(&name_sets);
        let integer_only = rng.chance(1, 2);
        let extreme = rng.chance(1, 4);
        let nt = rng.below(5) as usize;
        let mut terms: Vec<(f64, Vec<(&str, f64)>)> = Vec::new();
        for _ in 0..nt {
            let mut vs: Vec<(&str, f64)> = Vec::new();
            for n in names {
                if rng.chance(1, 2) {
                    let e = if integer_only {
                        match rng.below(8) {
                            0 => 0.0,
                            1 => -0.0,
                            2 => -(rng.range(1, 3) as f64),
                            3 if extreme => *rng.pick(&[64.0, 255.0, 256.0, 300.0, -300.0, 1000.0, -1000.0]),
                            _ => rng.range(1, 6) as f64,
                        }
                    } else {
                        polyops::rand_exponent(&mut rng)
                    };
                    vs.push((*n, e));
                }
            }
            let c = if extreme {
                match rng.below(6) {
                    0 => 2f64.powi(rng.range(-300, 300) as i32) * rng.range(-5, 5) as f64,
                    1 => f64::MIN_POSITIVE * rng.range(1, 4) as f64,
                    2 => 5e-324 * rng.range(1, 1000) as f64,
                    3 => 10f64.powi(rng.range(-60, 60) as i32),
                    4 => -0.0,
                    _ => f64::EPSILON * rng.range(-3, 3) as f64 / 4.0,
                }
            } else {
                match rng.below(4) {
                    0 => rng.range(-5, 5) as f64,
                    1 => rng.dyadic(32, 4),
                    _ => (rng.uniform(-10.0, 10.0) * 100.0).round() / 100.0,
                }
            };
            terms.push((c, vs));
        }
        let p = mk(terms);
        // natural domain of each variable
        let mut binds: Vec<(String, f64)> = Vec::new();
        for n in names {
            let exps: Vec<f64> = p.terms.iter().flat_map(|t| t.variables.iter().filter(|(v, _)| v == n).map(|(_, e)| *e)).collect();
            let frac = exps.iter().any(|e| e.fract() != 0.0);
            let neg = exps.iter().any(|e| *e < 0.0);
            let big = exps.iter().any(|e| e.abs() > 6.0);
            let v = if big {
                *rng.pick(&[1.0, 2.0, 0.5, -1.0, -2.0, 1.0 + 2f64.powi(-30)]) * if frac { 0.0 } else { 1.0 } + if frac { 2.0 } else { 0.0 }
            } else if frac {
                if rng.chance(1, 2) { wide12(&mut rng) } else { rng.uniform(0.01, 9.0) }
            } else {
                int_point(&mut rng, !neg)
            };
            binds.push((n.to_string(), v));
        }
        match rng.below(10) {
            0 | 1 => {
                if !binds.is_empty() {
                    let k = rng.below(binds.len() as u64) as usize;
                    binds.remove(k);
                }
            }
            2 => {
                // only a wrongly named binding
                let v = binds.first().map(|b| b.1).unwrap_or(1.0);
                binds = vec![(rng.pick(&["w", "xx", "", "Xx", "x "]).to_string(), v)];
            }
            3 => binds.push(("w".to_string(), 0.0)),
            4 => {
                if !binds.is_empty() {
                    let k = rng.below(binds.len() as u64) as usize;
                    binds.push((binds[k].0.clone(), 1.5));
                }
            }
            5 => binds.reverse(),
            _ => {}
        }
        emit(evalm(&p, &binds));
        if rng.chance(1, 3) {
            let x = binds.first().map(|b| b.1).unwrap_or(1.0);
            emit(evalu(&p, x));
        }
    }
}

fn xn_opt(g: Option<GenNum>) -> Option<XNum> {
    g.as_ref().map(xn)
}

/// univariate text with large natural exponents (C01's `<intended>` layout: n { neg mant scale pow })
fn big_power_text(rng: &mut Rng) -> (String, String) {
    let var = *rng.pick(&['x', 'y', 't', 'Q']);
    let n = 1 + rng.below(4) as usize;
    let mut text = String::new();
    let mut want = format!("{n}");
    for i in 0..n {
        let neg = rng.chance(1, 3);
        let c = rng.range(1, 20) as u64;
        let p = *rng.pick(&[0u64, 1, 2, 10, 16, 17, 31, 32, 33, 63, 64, 65, 100, 127, 128, 255, 256, 300]);
        if neg {
            text.push_str(if i == 0 { "-" } else { " - " });
        } else if i > 0 {
            text.push_str(" + ");
        }
        match p {
            0 => text.push_str(&format!("{c}")),
            1 => text.push_str(&format!("{c}{var}")),
            _ => text.push_str(&format!("{c}{var}^{p}")),
        }
        want.push_str(&format!(" {} {c} 0 {p}", neg as u8));
    }
    (text, want)
}

// ------------------------------------------------------------------------------------ words of other parsers
//
// A term of the grammar is an optional coefficient followed by single-letter variables - so `inf`, `NaN`, `Infinity`,
// `e`, `pi`, `ln`, `1e+5`, `0xf`, `3j`, `true` ... are ordinary terms (i*n*f, N*a^2, ..., e + 5, 0*x*f, 3*j, t*r*u*e), although
// number parsers, constant tables and function tables of other languages read them differently.  Every such text is sent
// with its intended term list (a repeated letter multiplies: its exponents are added), so the oracle judges canonical
// form (variables kept and sorted, variable list), evaluation, and the missing-variable error.

/// exponent num/den (den >= 1)
#[derive(Clone, Copy, PartialEq)]
struct QExp {
    num: i64,
    den: i64,
}

fn gcd(a: i64, b: i64) -> i64 {
    if b == 0 { a.abs().max(1) } else { gcd(b, a % b) }
}

impl QExp {
    fn int(n: i64) -> Self {
        QExp { num: n, den: 1 }
    }
    fn add(self, o: QExp) -> QExp {
        let (n, d) = (self.num * o.den + o.num * self.den, self.den * o.den);
        let g = gcd(n, d);
        QExp { num: n / g, den: d / g }
    }
    fn text(self) -> String {
        if self.den == 1 { format!("{}", self.num) } else { format!("{}/{}", self.num, self.den) }
    }
    fn xnum(self) -> XNum {
        let neg = self.num < 0;
        let a = self.num.unsigned_abs().to_string();
        if self.den == 1 { xint(neg, self.num.unsigned_abs(), &self.text()) } else { xfrac(neg, &a, 0, &self.den.to_string(), 0, &self.text()) }
    }
}

/// one term spelled letter by letter
#[derive(Clone)]
struct WTerm {
    neg: bool,
    plus: bool, // an explicit '+' in front when it is the first term
    coef: Option<XNum>,
    letters: Vec<(char, Option<QExp>)>,
}

impl WTerm {
    fn word(w: &str) -> WTerm {
        WTerm { neg: false, plus: false, coef: None, letters: w.chars().map(|c| (c, None)).collect() }
    }
    fn neg(mut self) -> WTerm {
        self.neg = true;
        self
    }
    fn plus(mut self) -> WTerm {
        self.plus = true;
        self
    }
    fn coef(mut self, c: XNum) -> WTerm {
        self.coef = Some(c);
        self
    }
    /// exponent on the k-th letter (negative k counts from the end)
    fn exp(mut self, k: i64, e: QExp) -> WTerm {
        let n = self.letters.len() as i64;
        if n > 0 {
            let k = ((k % n) + n) % n;
            self.letters[k as usize].1 = Some(e);
        }
        self
    }
    fn body(&self, sep: &str) -> String {
        let mut s = String::new();
        if let Some(c) = &self.coef {
            s.push_str(&c.text);
            s.push_str(sep);
        }
        for (k, (c, e)) in self.letters.iter().enumerate() {
            if k > 0 {
                s.push_str(sep);
            }
            s.push(*c);
            if let Some(e) = e {
                s.push('^');
                s.push_str(&e.text());
            }
        }
        s
    }
    /// what the term means: each letter once, exponents of a repeated letter added
    fn meaning(&self) -> XTerm {
        let mut vars: Vec<(char, QExp)> = Vec::new();
        for (c, e) in &self.letters {
            let e = e.unwrap_or(QExp::int(1));
            match vars.iter_mut().find(|(d, _)| d == c) {
                Some(v) => v.1 = v.1.add(e),
                None => vars.push((*c, e)),
            }
        }
        XTerm { neg: self.neg, coef: self.coef.clone(), vars: vars.into_iter().map(|(c, e)| (c, Some(e.xnum()))).collect() }
    }
}

/// text of a polynomial of such terms; `sep` goes between the pieces of a term, `gap` around the signs
fn wrender(terms: &[WTerm], sep: &str, gap: &str) -> String {
    let mut s = String::new();
    for (k, t) in terms.iter().enumerate() {
        if t.neg {
            if k > 0 {
                s.push_str(gap);
            }
            s.push('-');
            s.push_str(gap);
        } else if k > 0 {
            s.push_str(gap);
            s.push('+');
            s.push_str(gap);
        } else if t.plus {
            s.push('+');
            s.push_str(gap);
        }
        s.push_str(&t.body(sep));
    }
    s
}

fn with_case(word: &str, mask: u64) -> String {
    word.chars().enumerate().map(|(k, c)| if mask >> k & 1 == 1 { c.to_ascii_uppercase() } else { c.to_ascii_lowercase() }).collect()
}

/// words that `f64::from_str` (and most number parsers) accept, in every letter case
const NUMBER_WORDS: &[&str] = &["inf", "nan", "infinity", "e"];
/// constants, functions, keywords and literal markers of other languages
const OTHER_WORDS: &[&str] = &[
    "pi", "tau", "phi", "eps", "ln", "exp", "log", "sin", "cos", "tan", "sqrt", "abs", "i", "j", "true", "false", "null", "none", "nil", "max", "min",
    "mod", "div", "and", "or", "not", "if", "in", "is", "deg", "rad", "inff", "nani", "infi", "ninf", "pinf", "snan", "qnan", "ind", "infty", "oo", "x", "k", "M", "G",
];

pub fn word_families(seed: u64, thorough: bool, emit: &mut dyn FnMut(String)) {
    let mut rng = Rng::new(Rng::new(seed ^ 0xC02_0003).next());
    let mut idx = 0usize;
    // parse (both entry points in turn) + evaluation with every variable bound + evaluation with one variable left out
    let mut send = |rng: &mut Rng, emit: &mut dyn FnMut(String), terms: &[WTerm], sep: &str, gap: &str, also_missing: bool| {
        let text = wrender(terms, sep, gap);
        let meaning: Vec<XTerm> = terms.iter().map(|t| t.meaning()).collect();
        let want = xintended(&meaning);
        let mut letters: Vec<char> = Vec::new();
        for t in terms {
            for (c, _) in &t.letters {
                if !letters.contains(c) {
                    letters.push(*c);
                }
            }
        }
        let binds: Vec<(String, f64)> = letters.iter().map(|c| (c.to_string(), base12(rng))).collect();
        emit(format!("parse {} {} | {}", idx % 2, req_string(&text), want));
        emit(format!("pe {} {} | {}", req_string(&text), binds_text(&binds), want));
        if also_missing && !binds.is_empty() {
            let mut fewer = binds.clone();
            fewer.remove(rng.below(binds.len() as u64) as usize);
            emit(format!("pe {} {} | {}", req_string(&text), binds_text(&fewer), want));
        }
        idx += 1;
    };
    let two = || xint(false, 2, "2");
    let half = || xdec(false, "5", 1, "0.5");
    let frac = || xfrac(false, "1", 0, "2", 0, "1/2");
    let plain = |coef: Option<XNum>, letters: &str, neg: bool| WTerm { neg, plus: false, coef, letters: letters.chars().map(|c| (c, None)).collect() };

    let mut spellings: Vec<(String, bool)> = Vec::new(); // (word in a case pattern, full set of forms?)
    for w in NUMBER_WORDS {
        let n = w.len() as u32;
        if n <= 4 {
            for m in 0..(1u64 << n) {
                spellings.push((with_case(w, m), true));
            }
        } else {
            let all = (1u64 << n) - 1;
            let mut masks = vec![0, all, 1, all - 1, 0x55 & all, 0xaa & all];
            for _ in 0..(if thorough { 60 } else { 6 }) {
                masks.push(rng.below(all + 1));
            }
            masks.dedup();
            for m in masks {
                spellings.push((with_case(w, m), true));
            }
        }
    }
    for w in OTHER_WORDS {
        let n = w.len() as u32;
        let all = (1u64 << n) - 1;
        let mut masks = vec![0u64, all, 1];
        if thorough {
            for _ in 0..4 {
                masks.push(rng.below(all + 1));
            }
        }
        if w.chars().any(|c| c.is_ascii_uppercase()) {
            masks = vec![u64::MAX]; // spelled as given
        }
        masks.sort();
        masks.dedup();
        for m in masks {
            spellings.push((if m == u64::MAX { w.to_string() } else { with_case(w, m) }, false));
        }
    }

    for (k, (w, full)) in spellings.iter().enumerate() {
        let wt = || WTerm::word(w);
        let other = WTerm::word(&spellings[(k + 7) % spellings.len()].0);
        // alone, signed, with each coefficient form
        send(&mut rng, emit, &[wt()], "", "", true);
        send(&mut rng, emit, &[wt().neg()], "", "", false);
        send(&mut rng, emit, &[wt().coef(two())], "", "", false);
        send(&mut rng, emit, &[wt().exp(-1, QExp::int(2))], "", "", false);
        // inside a longer polynomial, letters apart
        send(&mut rng, emit, &[plain(Some(two()), "x", false), wt().neg(), plain(Some(frac()), "", false)], "", " ", true);
        send(&mut rng, emit, &[wt()], " ", "", false);
        if !*full && !thorough {
            continue;
        }
        send(&mut rng, emit, &[wt().plus()], "", "", true);
        send(&mut rng, emit, &[wt().coef(half())], "", "", false);
        send(&mut rng, emit, &[wt().coef(frac())], "", "", false);
        send(&mut rng, emit, &[wt().coef(xint(false, 1, "1"))], "", "", false);
        send(&mut rng, emit, &[wt().coef(xdec(false, "10", 1, "1.0")).neg()], "", "", false);
        send(&mut rng, emit, &[wt().coef(xint(false, 3, "3")).neg()], "", " ", false);
        send(&mut rng, emit, &[wt().exp(-1, QExp::int(-1))], "", "", false);
        send(&mut rng, emit, &[wt().exp(-1, QExp { num: 1, den: 2 })], "", "", false);
        send(&mut rng, emit, &[wt().exp(-1, QExp::int(1))], "", "", false);
        send(&mut rng, emit, &[wt().exp(0, QExp::int(1))], "", "", false);
        send(&mut rng, emit, &[wt().exp(w.len() as i64 / 2, QExp::int(2)).neg()], "", "", false);
        send(&mut rng, emit, &[wt(), plain(Some(xint(false, 1, "1")), "", false)], "", "", true);
        send(&mut rng, emit, &[plain(Some(xint(false, 1, "1")), "", false), wt().neg()], "", "", true);
        send(&mut rng, emit, &[wt().neg(), other.clone()], "", " ", false);
        send(&mut rng, emit, &[wt().plus(), wt().neg(), wt()], "", "", false);
        // the word next to another variable (before / after), and as the tail / head of a longer run of letters
        let mut pre = wt();
        pre.letters.insert(0, (if w.contains('x') { 'y' } else { 'x' }, None));
        send(&mut rng, emit, &[pre], "", "", false);
        let mut post = wt();
        post.letters.push((if w.contains('y') { 'z' } else { 'y' }, Some(QExp::int(2))));
        send(&mut rng, emit, &[post, plain(Some(two()), "", true)], "", "", false);
        send(&mut rng, emit, &[wt().neg()], " ", " ", true);
        send(&mut rng, emit, &[plain(None, "x", false).exp(0, QExp::int(2)), wt(), plain(Some(half()), "y", true), wt().neg().coef(two())], "", " ", false);
    }

    // ---- literal markers: exponent letters, radix prefixes, type / imaginary suffixes.  `1e+5` is the two terms `1e` and
    //      `5`; `0xf` is zero times x times f; `3j` is three times j.  Through the multivariate parser, and (one variable
    //      letter per text) through both parsers at a point.
    let marks: Vec<char> = "eEfFdDlLuUiIjJxXbBoOpPnNkKmMgG".chars().collect();
    for (mi, &v) in marks.iter().enumerate() {
        if !thorough && mi % 2 == 1 && !"EXBO".contains(v) {
            continue; // (quick: every other marker, the number-like ones always)
        }
        // (text pieces: coefficient, power of v) per term: C01's intended layout `n { neg mant scale pow }`
        let forms: Vec<Vec<(bool, &str, u64, u32, u32)>> = vec![
            vec![(false, "1", 1, 0, 1), (false, "5", 5, 0, 0)],          // 1e+5
            vec![(false, "1", 1, 0, 1), (true, "5", 5, 0, 0)],           // 1e-5
            vec![(false, "2", 2, 0, 1), (false, "3", 3, 0, 0)],          // 2E+3
            vec![(false, ".5", 5, 1, 1), (true, "3", 3, 0, 0)],          // .5e-3
            vec![(false, "5.", 5, 0, 1), (false, "03", 3, 0, 0)],        // 5.e+03
            vec![(false, "1.5", 15, 1, 1), (true, "10", 10, 0, 0)],      // 1.5e-10
            vec![(true, "1", 1, 0, 1), (false, "308", 308, 0, 0)],       // -1e+308
            vec![(false, "1", 1, 0, 1), (true, "400", 400, 0, 0)],       // 1e-400
            vec![(false, "1", 1, 0, 1), (false, "5", 5, 0, 1)],          // 1e+5e
            vec![(false, "0", 0, 0, 1)],                                  // 0x
            vec![(false, "0", 0, 0, 1), (false, "1", 1, 0, 0)],          // 0x+1
            vec![(false, "00", 0, 0, 1), (true, "7", 7, 0, 0)],          // 00x-7
            vec![(false, "3", 3, 0, 1)],                                  // 3j
            vec![(false, "1", 1, 0, 1)],                                  // 1f
            vec![(true, "1.0", 10, 1, 1)],                                // -1.0f
            vec![(false, "", 1, 0, 1)],                                   // e
            vec![(true, "", 1, 0, 1)],                                    // -e
            vec![(false, "", 1, 0, 2), (false, "", 1, 0, 1)],            // e^2+e
            vec![(false, "2", 2, 0, 3), (true, "1", 1, 0, 1), (false, "10", 10, 0, 0)], // 2e^3-1e+10
            vec![(false, "1", 1, 0, 0), (false, "", 1, 0, 1)],           // 1+e
        ];
        for f in &forms {
            let mut text = String::new();
            let mut want1 = format!("{}", f.len());
            let mut terms: Vec<WTerm> = Vec::new();
            for (k, (neg, ctext, mant, scale, pow)) in f.iter().enumerate() {
                if *neg {
                    text.push('-');
                } else if k > 0 {
                    text.push('+');
                }
                text.push_str(ctext);
                match pow {
                    0 => {}
                    1 => text.push(v),
                    p => text.push_str(&format!("{v}^{p}")),
                }
                want1.push_str(&format!(" {} {mant} {scale} {pow}", *neg as u8));
                let coef = if ctext.is_empty() { None } else { Some(xdec(false, &mant.to_string(), *scale, ctext)) };
                let mut t = WTerm { neg: *neg, plus: false, coef, letters: vec![] };
                if *pow >= 1 {
                    t.letters.push((v, if *pow == 1 { None } else { Some(QExp::int(*pow as i64)) }));
                }
                terms.push(t);
            }
            debug_assert_eq!(text, wrender(&terms, "", ""));
            send(&mut rng, emit, &terms, "", "", false);
            for x in [int_point(&mut rng, true), 2.0, -0.5] {
                emit(format!("both {} {} | {}", req_string(&text), rbits(x), want1));
            }
        }
        // radix-prefixed "digits" that are letters: 0xf, 0XAB, 0b, 0o (zero times the letters)
        for tail in ["f", "AB", "ff", "cafe", "dead", "e", ""] {
            let w: String = std::iter::once(v).chain(tail.chars()).collect();
            let t = WTerm::word(&w).coef(xint(false, 0, "0"));
            send(&mut rng, emit, &[t.clone()], "", "", true);
            send(&mut rng, emit, &[t.neg(), plain(Some(two()), "", false)], "", "", false);
        }
    }
}

// ------------------------------------------------------------------------------------ round-4 families: narrow windows
//
// NARROW WINDOWS AROUND SPECIAL VALUES reached only through particular spellings: a "whole up to rounding" snap, an
// "is it 1 / 0 / -1" test with a tolerance, a fast path for "the exponent is one half" ... show only when a number lies
// within 1e-9..1e-17 of the special value WITHOUT being it, and only through the branch that reads that spelling:
//   (N1) fraction exponents and fraction coefficients written as ratios of huge integers a/b, a = k b +- 1, 2, 3 with b
//        from 1e3 to 1e17 (powers of ten, their multiples, random integers, 2^52, 2^53 and neighbours), k = 0, 1, 2, 3, 5,
//        10 of either sign; the same next to the simple fractions 1/2, 1/3, 2/3, 3/2, 1/4, 5/2 (b = q m, a = p m +- d);
//   (N2) decimal spellings next to whole numbers and next to 1/2 at every distance 10^-1..10^-20, as exponent, as
//        coefficient, and as numerator / denominator of a fraction ("3.0000000003/3", "1/0.9999999999");
//   (N3) exponents that MERGE (a repeated variable multiplies: its exponents are added in the order of occurrence) to
//        a value one or two units in the last place from 1, 0, -1, 2, 1/2 (x^0.6x^0.3x^0.1, ten factors x^0.1,
//        x^0.4x^-1.4, x^0.1x^0.2x^-0.3) or to such a value +- 1e-10..1e-16 in exact arithmetic; pieces spelled as
//        decimals or as fractions, other variables in between.
// The `<intended>` list of a term names every OCCURRENCE of a variable in order (a repeated code point): the oracle
// adds the exponents exactly (meaning) and in binary64 from left to right (the stored number), see tools/props/c02.py.

/// decimal string of `v / 10^scale` (v >= 0), e.g. (10000000005, 10) -> "1.0000000005"; style 1 drops a leading "0"
fn dec_text(v: u128, scale: u32, style: u64) -> String {
    let digits = v.to_string();
    if scale == 0 {
        return digits;
    }
    let s = scale as usize;
    let padded = if digits.len() <= s { format!("{}{}", "0".repeat(s + 1 - digits.len()), digits) } else { digits };
    let (int, frac) = padded.split_at(padded.len() - s);
    if style == 1 && int == "0" { format!(".{frac}") } else { format!("{int}.{frac}") }
}

/// a denominator between 1e3 and 1e17 (sometimes a little beyond 2^53, where the operands themselves are rounded)
fn huge_den(rng: &mut Rng) -> u128 {
    let j = rng.range(3, 17) as u32;
    match rng.below(7) {
        0 => 10u128.pow(j),
        1 => rng.range(2, 9) as u128 * 10u128.pow(j.min(16)),
        2 => 10u128.pow(j) + rng.range(1, 999) as u128,
        3 => {
            // random integer with j + 1 digits
            let lo = 10u128.pow(j);
            lo + (rng.next() as u128 * 7919) % (9 * lo)
        }
        4 => *rng.pick(&[1u128 << 30, 1 << 31, 1 << 32, (1 << 32) + 1, 1 << 40, 1 << 52, (1 << 52) + 1, 1 << 53, (1 << 53) - 1, (1 << 53) + 2, 1 << 56]),
        5 => *rng.pick(&[1_000_000_000u128, 2_000_000_000, 999_999_999, 1_000_000_001, 4_000_000_000, 2_500_000_000, 12_345_678_901]),
        _ => 3u128.pow(rng.range(7, 35) as u32),
    }
}

/// `a/b` within d/b of the whole number k (|k| <= 10, k may be 0) or of the simple fraction p/q
fn near_ratio(rng: &mut Rng, allow_negative: bool) -> XNum {
    let d = *rng.pick(&[1u128, 1, 1, 2, 3]);
    let (a, b) = if rng.chance(2, 3) {
        let b = huge_den(rng);
        let k = *rng.pick(&[1u128, 1, 1, 2, 2, 3, 5, 10, 0]);
        let a = if k == 0 || rng.chance(1, 2) { k * b + d } else { k * b - d };
        (a, b)
    } else {
        let (p, q) = *rng.pick(&[(1u128, 2u128), (1, 2), (1, 3), (2, 3), (3, 2), (1, 4), (5, 2), (4, 3)]);
        let m = huge_den(rng) / q + 1;
        let a = if rng.chance(1, 2) { p * m + d } else { p * m - d };
        (a, q * m)
    };
    let neg = allow_negative && rng.chance(1, 3);
    let (ta, tb) = (a.to_string(), b.to_string());
    xfrac(neg, &ta, 0, &tb, 0, &format!("{}{ta}/{tb}", if neg { "-" } else { "" }))
}

/// a decimal within digit * 10^-j of the whole number k or of k + 1/2
fn near_decimal(rng: &mut Rng, allow_negative: bool) -> XNum {
    let j = rng.range(1, 20) as u32;
    let k = *rng.pick(&[1u128, 1, 1, 2, 3, 0, 10]);
    let half = rng.chance(1, 5);
    let digit = *rng.pick(&[1u128, 1, 5, 3, 9]);
    let base = k * 10u128.pow(j) + if half { 5 * 10u128.pow(j - 1) } else { 0 };
    let v = if base <= digit || rng.chance(1, 2) { base + digit } else { base - digit };
    let neg = allow_negative && rng.chance(1, 3);
    let t = dec_text(v, j, rng.below(3));
    xdec(neg, &v.to_string(), j, &format!("{}{t}", if neg { "-" } else { "" }))
}

/// a fraction whose numerator or denominator is a decimal, the quotient next to a whole number
fn near_decimal_ratio(rng: &mut Rng, allow_negative: bool) -> XNum {
    let j = rng.range(6, 18) as u32;
    let k = *rng.pick(&[1u128, 1, 2, 3]);
    let q = *rng.pick(&[1u128, 1, 2, 3, 4, 7]);
    let digit = *rng.pick(&[1u128, 2, 5]);
    let neg = allow_negative && rng.chance(1, 3);
    let sign = if neg { "-" } else { "" };
    if rng.chance(2, 3) {
        // (k q +- digit 10^-j) / q
        let v = if rng.chance(1, 2) { k * q * 10u128.pow(j) + digit } else { k * q * 10u128.pow(j) - digit };
        let ta = dec_text(v, j, 0);
        xfrac(neg, &v.to_string(), j, &q.to_string(), 0, &format!("{sign}{ta}/{q}"))
    } else {
        // k / (1 +- digit 10^-j)
        let v = if rng.chance(1, 2) { 10u128.pow(j) + digit } else { 10u128.pow(j) - digit };
        let tb = dec_text(v, j, rng.below(2));
        xfrac(neg, &k.to_string(), 0, &v.to_string(), j, &format!("{sign}{k}/{tb}"))
    }
}

/// hundredths -> spelling as a decimal ("0.35", "-1.4", ".5") or as a fraction ("7/20", "-7/5")
fn piece_xnum(rng: &mut Rng, h: i64) -> XNum {
    let neg = h < 0;
    let a = h.unsigned_abs();
    let sign = if neg { "-" } else { "" };
    match rng.below(4) {
        0 => {
            let g = gcd(a as i64, 100) as u64;
            let (n, d) = (a / g, 100 / g);
            if d == 1 { xint(neg, n, &format!("{sign}{n}")) } else { xfrac(neg, &n.to_string(), 0, &d.to_string(), 0, &format!("{sign}{n}/{d}")) }
        }
        1 if a % 10 == 0 => xdec(neg, &(a / 10).to_string(), 1, &format!("{sign}{}", dec_text((a / 10) as u128, 1, 0))),
        2 => xdec(neg, &a.to_string(), 2, &format!("{sign}{}", dec_text(a as u128, 2, 1))),
        _ => {
            let (v, s) = if a % 10 == 0 { (a / 10, 1) } else { (a, 2) };
            if a % 100 == 0 && rng.chance(1, 2) { xint(neg, a / 100, &format!("{sign}{}", a / 100)) } else { xdec(neg, &v.to_string(), s, &format!("{sign}{}", dec_text(v as u128, s, 0))) }
        }
    }
}

pub fn near_special_families(seed: u64, thorough: bool, emit: &mut dyn FnMut(String)) {
    let mut rng = Rng::new(Rng::new(seed ^ 0xC02_0004).next());
    let mul = if thorough { 12 } else { 1 };
    let mut idx = 0usize;
    let mut pp = |emit: &mut dyn FnMut(String), text: &str, want: &str, binds: &[(String, f64)]| {
        emit(format!("parse {} {} | {}", idx % 2, req_string(text), want));
        emit(format!("pe {} {} | {}", req_string(text), binds_text(binds), want));
        idx += 1;
    };
    let b = |c: char, v: f64| (c.to_string(), v);
    // positive values of every magnitude with exact 12th roots; away from 1 most of the time (an exponent that is off by
    // 1e-9 moves x^e by 1e-9 |ln x|)
    let far12 = |rng: &mut Rng| -> f64 {
        match rng.below(4) {
            0 => wide12(rng),
            1 => 2f64.powi(12 * *rng.pick(&[5i32, 6, -5, -6, 4, -4])),
            _ => (*rng.pick(&[3.0f64, 5.0, 1.5, 2.5, 0.75]) * 2f64.powi(rng.range(-5, 4) as i32)).powi(12),
        }
    };

    // ---- (N1) + (N2): one near-special number per term, as exponent or as coefficient
    for i in 0..700 * mul {
        let x = *rng.pick(&['x', 'y', 't', 'a', 'Z']);
        let other = if x == 'y' { 'x' } else { 'y' };
        let special = |rng: &mut Rng, as_exp: bool| -> XNum {
            match rng.below(10) {
                0..=5 => near_ratio(rng, as_exp),
                6 | 7 => near_decimal(rng, as_exp),
                _ => near_decimal_ratio(rng, as_exp),
            }
        };
        let mut terms: Vec<XTerm> = Vec::new();
        let as_coef = i % 4 == 3;
        let mut t = XTerm { neg: rng.chance(1, 3), coef: None, vars: vec![] };
        if as_coef {
            t.coef = Some(special(&mut rng, false));
            if rng.chance(2, 3) {
                t.vars.push((x, xn_opt(gen_exp(&mut rng))));
            }
        } else {
            t.coef = match rng.below(4) {
                0 => None,
                1 => Some(special(&mut rng, false)),
                _ => gen_coeff(&mut rng).as_ref().map(xn),
            };
            t.vars.push((x, Some(special(&mut rng, true))));
        }
        if rng.chance(1, 3) {
            let e = if rng.chance(1, 3) { Some(special(&mut rng, true)) } else { xn_opt(gen_exp(&mut rng)) };
            let at = rng.below(t.vars.len() as u64 + 1) as usize;
            t.vars.insert(at, (other, e));
        }
        terms.push(t);
        if rng.chance(1, 3) {
            terms.push(xt(&gen_iterm(&mut rng, &[x, other], false)));
            if rng.chance(1, 2) {
                terms.swap(0, 1);
            }
        }
        let spacing = *rng.pick(&[0u64, 0, 0, 3]);
        let text = xrender(&mut rng, &terms, spacing);
        let binds = vec![b(x, far12(&mut rng)), b(other, wide12(&mut rng))];
        pp(emit, &text, &xintended(&terms), &binds);
    }

    // ---- (N3) merging exponents
    let fixed: Vec<Vec<i64>> = vec![
        vec![60, 30, 10], vec![10; 10], vec![40, -140], vec![70, 20, 10], vec![10, 20, -30], vec![110, -10], vec![30, -130], vec![220, -20],
        vec![10, 20, 30, 40], vec![-60, -30, -10], vec![10, 70, 20], vec![30, 60, 10], vec![15, 35, 50], vec![1, 99], vec![33, 33, 34], vec![-70, -20, -10],
        vec![160, 30, 10], vec![10, 10, 10, 20], vec![5, 5, 5, 5, 80], vec![70, 10, 20, -100], vec![80, -70, -10], vec![20, 10, 70, 100], vec![90, 10, -200],
        vec![30, 20], vec![10, 40], vec![60, -10], vec![20; 5], vec![30; 10], vec![70; 10], vec![-10; 10], vec![110, 220, -330], vec![10, 20, 30, -60],
    ];
    let nrand = 260 * mul;
    let nfixed = fixed.len() * (if thorough { 3 } else { 1 });
    for i in 0..nfixed + nrand {
        let x = *rng.pick(&['x', 'y', 'q', 'B']);
        let other = if x == 'y' { 'z' } else { 'y' };
        let hs: Vec<i64> = if i < nfixed {
            fixed[i % fixed.len()].clone()
        } else {
            // k - 1 random pieces of one or two decimals, the last one completes the target
            let target = *rng.pick(&[100i64, 100, 100, 0, -100, 200, 50, 300, -50]);
            let k = rng.range(2, 10) as usize;
            let mut hs: Vec<i64> = (0..k - 1)
                .map(|_| if rng.chance(1, 2) { rng.range(-20, 20) * 10 } else { rng.range(-150, 150) })
                .map(|h| if h == 0 { 10 } else { h })
                .collect();
            let rest = target - hs.iter().sum::<i64>();
            hs.push(if rest == 0 { 100 } else { rest });
            if rest == 0 {
                hs.push(-100);
            }
            if rng.chance(1, 2) {
                let k = hs.len();
                hs.swap(k - 1, rng.below(k as u64) as usize);
            }
            hs
        };
        let mut pieces: Vec<XNum> = hs.iter().map(|h| piece_xnum(&mut rng, *h)).collect();
        // one time in three the exact sum is NOT the special value but 1e-10..1e-17 away from it: one piece carries the
        // deviation ("0.1000000001")
        if i >= fixed.len() && rng.chance(1, 3) {
            let k = rng.below(pieces.len() as u64) as usize;
            let j = rng.range(10, 19) as u32;
            let h = hs[k];
            let v = (h.unsigned_abs() as u128) * 10u128.pow(j - 2);
            let d = *rng.pick(&[1u128, 2, 5]);
            let v = if h.unsigned_abs() == 0 || rng.chance(1, 2) { v + d } else { v - d };
            let sign = if h < 0 { "-" } else { "" };
            pieces[k] = xdec(h < 0, &v.to_string(), j, &format!("{sign}{}", dec_text(v, j, 0)));
        }
        let mut vars: Vec<(char, Option<XNum>)> = pieces.into_iter().map(|p| (x, Some(p))).collect();
        // a bare occurrence (exponent 1) and other variables in between
        if rng.chance(1, 5) {
            let at = rng.below(vars.len() as u64 + 1) as usize;
            vars.insert(at, (x, None));
        }
        for _ in 0..rng.below(3) {
            let at = rng.below(vars.len() as u64 + 1) as usize;
            vars.insert(at, (other, xn_opt(gen_exp(&mut rng))));
        }
        let coef = if rng.chance(1, 2) { None } else { gen_coeff(&mut rng).as_ref().map(xn) };
        let mut terms = vec![XTerm { neg: rng.chance(1, 3), coef, vars }];
        if rng.chance(1, 4) {
            terms.push(xt(&gen_iterm(&mut rng, &[x, other], false)));
        }
        let spacing = *rng.pick(&[0u64, 0, 0, 2]);
        let text = xrender(&mut rng, &terms, spacing);
        let binds = vec![b(x, far12(&mut rng)), b(other, base12(&mut rng))];
        pp(emit, &text, &xintended(&terms), &binds);
    }

    // ---- (N4) DUPLICATES (identity vs equality): the same term several times in one text (`x + y + x` is three terms,
    //      nothing merges them), the same variable in neighbouring terms, `p + p`, a term and its negative: a parser that
    //      looks a term / a variable up by VALUE (de-duplicates terms, builds the variable list from adjacent
    //      comparisons, reuses "the" index of an equal term) only fails on these
    for i in 0..260 * mul {
        let psize = 1 + rng.below(3) as usize;
        let mut pool: Vec<char> = Vec::new();
        while pool.len() < psize {
            let c = *rng.pick(LETTERS);
            if !pool.contains(&c) {
                pool.push(c);
            }
        }
        let nt = 2 + rng.below(4) as usize;
        let mut terms: Vec<XTerm> = (0..nt).map(|_| xt(&gen_iterm(&mut rng, &pool, false))).collect();
        match i % 6 {
            0 => {
                let k = 1 + rng.below(nt as u64 - 1) as usize;
                terms[k] = terms[0].clone();
            }
            1 => terms[nt - 1] = terms[0].clone(),
            2 => {
                let t = terms[rng.below(nt as u64) as usize].clone();
                for u in terms.iter_mut() {
                    *u = t.clone();
                }
            }
            3 => {
                let k = rng.below(nt as u64 - 1) as usize;
                terms[k + 1] = terms[k].clone();
                terms[k + 1].neg = !terms[k].neg;
            }
            4 => {
                let half: Vec<XTerm> = terms[..nt.div_ceil(2)].to_vec();
                terms = half.iter().chain(half.iter()).cloned().collect();
            }
            _ => {
                // the same variables (other exponents / coefficients) in neighbouring terms
                let k = rng.below(nt as u64 - 1) as usize;
                let vars: Vec<(char, Option<XNum>)> = terms[k].vars.iter().map(|(c, _)| (*c, xn_opt(gen_exp(&mut rng)))).collect();
                terms[k + 1].vars = vars;
                if terms[k + 1].vars.is_empty() && terms[k + 1].coef.is_none() {
                    terms[k + 1].coef = Some(xint(false, 7, "7"));
                }
            }
        }
        let spacing = *rng.pick(&[0u64, 0, 2]);
        let text = xrender(&mut rng, &terms, spacing);
        let binds: Vec<(String, f64)> = pool.iter().map(|v| b(*v, base12(&mut rng))).collect();
        pp(emit, &text, &xintended(&terms), &binds);
    }

    // ---- structures with exponents next to whole numbers and simple fractions (hand-built terms: the evaluator's own
    //      fast paths and tolerances, K on the shared model + oracle)
    use spindalis_core::polynomials::Term;
    for _ in 0..300 * mul {
        let base = *rng.pick(&[1.0f64, 1.0, 1.0, 0.0, -1.0, 2.0, 0.5, 3.0, -2.0, -0.5]);
        let e = match rng.below(4) {
            0 if base != 0.0 => f64::from_bits((base.to_bits() as i64 + *rng.pick(&[1i64, -1, 2, -2, 3, 4, -4])) as u64),
            1 => base + 2f64.powi(-(rng.range(20, 52) as i32)) * if rng.chance(1, 2) { 1.0 } else { -1.0 },
            _ => base + rng.uniform(0.2, 0.99) * 10f64.powi(-(rng.range(5, 16) as i32)) * if rng.chance(1, 2) { 1.0 } else { -1.0 },
        };
        let e = if base == 0.0 && rng.chance(1, 2) { f64::from_bits(rng.range(1, 4) as u64) * 2f64.powi(rng.range(0, 900) as i32) } else { e };
        let mut terms = vec![Term { coefficient: *rng.pick(&[1.0, -1.0, 2.5, 0.5]), variables: vec![("x".to_string(), e)] }];
        if rng.chance(1, 2) {
            terms.push(Term { coefficient: rng.range(-3, 3) as f64, variables: vec![("x".to_string(), rng.range(0, 3) as f64)] });
        }
        if rng.chance(1, 3) {
            terms[0].variables.push(("y".to_string(), polyops::rand_exponent(&mut rng)));
        }
        let two = terms.iter().any(|t| t.variables.len() > 1);
        let p = IntermediatePolynomial { terms, variables: if two { vec!["x".to_string(), "y".to_string()] } else { vec!["x".to_string()] } };
        let x = far12(&mut rng);
        let mut binds = vec![("x".to_string(), x)];
        if two {
            binds.push(("y".to_string(), base12(&mut rng)));
        }
        emit(format!("evalm {} {}", req_inter(&p), binds_text(&binds)));
        if !two {
            emit(format!("eval {} {}", req_inter(&p), rbits(x)));
        }
    }
}
