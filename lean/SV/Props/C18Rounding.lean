import SV.Model.C18
import SV.Lemmas.Rounding
import SV.Lemmas.RoundingC18
import SV.Lemmas.RoundingNearest
import Mathlib.Tactic.FieldSimp
/-!
# C18, rounding half — error bounds for `arith_mean` and the two-pass variance of `std_dev`

`SV.Props.C18` proves that `SV.C18.arithMean`/`stdDev` equal their textbook definitions over every
ordered field (rounding error 0).  Here **the same definitions** are run at the rounding scalar
`Fl M` of `SV.Lemmas.Rounding` (every `+ − × ÷` and the cast `n as f64` is the exact real operation
followed by a rounding with relative error `≤ u`).

What the model does, counted:

* `arith_mean`: `xs.iter().sum::<f64>()` is a left fold from `-0.0` — `n` additions (the first one,
  `-0.0 + x₀`, is exact in IEEE but is charged one rounding by the model) — then one cast
  `n as f64` and one division.  Sample `i` (0-based) carries `n − i + 2` roundings: constant
  `γ_{n+2}`; `γ_{n+1}` when the cast is exact (`n < 2⁵³` for binary64) — `mean_rounding_exact_cast`.
* variance inside `std_dev`: per sample one subtraction (its factor is squared), the two
  multiplications of `powi(·, 2)` (`1·(y·y)` in compiler-rt's loop), the `n − i` additions of the
  sum, one cast and one division: `n − i + 6` roundings, constant `γ_{n+6}`, *relative to the
  variance about the computed mean*; `variance_rounding_true` then compares with the true variance.

For binary64 `u = 2⁻⁵³`.  NOT covered: overflow, underflow (a squared deviation that underflows),
NaN/∞ samples, the rounding of `sqrt` itself (`sqrt` is a parameter of the model: the theorems
speak about the argument handed to it), and the decimal→binary conversion of the samples — see the
header of `SV.Lemmas.Rounding`.
-/
namespace SV.Props.C18Rounding
open SV SV.C18 Finset

variable {M : FlModel}

/-- the models elaborate at the rounding scalar with no change -/
noncomputable example (xs : List (Fl M)) : Option (Fl M) := arithMean xs
noncomputable example (sqrt : Fl M → Fl M) (xs : List (Fl M)) : Option (Fl M) :=
  stdDev sqrt .sample xs

/-! ### arithmetic mean -/

/-- **Componentwise weights.**  The computed mean is `Σ (xᵢ/n)·tᵢ`, `tᵢ` a product of at most
`n − i + 2` rounding factors. -/
theorem mean_weights (xs : List (Fl M)) (m : Fl M) (h : arithMean xs = some m) :
    xs.length ≠ 0 ∧ ∃ t : ℕ → ℝ, (∀ i, i < xs.length → M.Fac (xs.length + 2 - i) (t i)) ∧
      m.val = ∑ i ∈ range xs.length, (xs.getD i 0).val / (xs.length : ℝ) * t i := by
  unfold arithMean at h
  by_cases h0 : xs.length = 0
  · rw [if_pos h0] at h; cases h
  · rw [if_neg h0] at h
    cases h
    obtain ⟨s, hs, hcast⟩ := Fl.natCast_fac (M := M) xs.length
    exact ⟨h0, fsum_div_weights xs xs.length 1 s hs hcast⟩

/-- **(C), backward form.**  If `(n+2)·u < 1` the computed mean is the exact mean of relatively
perturbed samples `xᵢ·(1 + θᵢ)`, `|θᵢ| ≤ γ_{n+2}`. -/
theorem mean_backward (xs : List (Fl M)) (m : Fl M) (h : arithMean xs = some m)
    (hu : ((xs.length + 2 : ℕ) : ℝ) * M.u < 1) :
    ∃ θ : ℕ → ℝ, (∀ i, |θ i| ≤ M.gamma (xs.length + 2)) ∧
      m.val = (∑ i ∈ range xs.length, (xs.getD i 0).val * (1 + θ i)) / (xs.length : ℝ) := by
  obtain ⟨_, t, ht, hval⟩ := mean_weights xs m h
  obtain ⟨θ, hθ, hte⟩ :=
    weights_to_theta xs.length (xs.length + 2) t (fun i hi => (ht i hi).mono (Nat.sub_le _ _)) hu
  refine ⟨θ, hθ, ?_⟩
  rw [hval, Finset.sum_div]
  exact Finset.sum_congr rfl fun i hi => by rw [hte i (by simpa using hi)]; ring

/-- **(C), forward form.**  `|computed mean − Σx/n| ≤ γ_{n+2} · (Σ|x|/n)`: the error is at most
`γ_{n+2}` times the mean of the absolute values (`n` additions from `-0.0`, the cast `n as f64`,
one division). -/
theorem mean_rounding (xs : List (Fl M)) (m : Fl M) (h : arithMean xs = some m)
    (hu : ((xs.length + 2 : ℕ) : ℝ) * M.u < 1) :
    |m.val - (xs.map Fl.val).sum / (xs.length : ℝ)|
      ≤ M.gamma (xs.length + 2) * ((xs.map fun x => |x.val|).sum / (xs.length : ℝ)) := by
  obtain ⟨_, t, ht, hval⟩ := mean_weights xs m h
  have hb := weighted_sum_bound xs.length (xs.length + 2)
    (fun i => (xs.getD i 0).val / (xs.length : ℝ)) t
    (fun i hi => (ht i hi).mono (Nat.sub_le _ _)) hu
  rw [hval, sum_map_eq_sum_range xs Fl.val 0, sum_map_eq_sum_range xs (fun x => |x.val|) 0,
    Finset.sum_div, Finset.sum_div]
  simpa only [abs_div, Nat.abs_cast] using hb

/-- The same with an exactly representable length (`rnd n = n`; binary64: every `n ≤ 2⁵³`):
one rounding fewer, `γ_{n+1}`. -/
theorem mean_rounding_exact_cast (xs : List (Fl M)) (m : Fl M) (h : arithMean xs = some m)
    (hcast : M.rnd (xs.length : ℝ) = xs.length)
    (hu : ((xs.length + 1 : ℕ) : ℝ) * M.u < 1) :
    |m.val - (xs.map Fl.val).sum / (xs.length : ℝ)|
      ≤ M.gamma (xs.length + 1) * ((xs.map fun x => |x.val|).sum / (xs.length : ℝ)) := by
  unfold arithMean at h
  by_cases h0 : xs.length = 0
  · rw [if_pos h0] at h; cases h
  · rw [if_neg h0] at h
    cases h
    obtain ⟨t, ht, hval⟩ := fsum_div_weights xs xs.length 0 1 FlModel.fac_zero_one
      (by rw [Fl.natCast_val, hcast, mul_one])
    have hb := weighted_sum_bound xs.length (xs.length + 1)
      (fun i => (xs.getD i 0).val / (xs.length : ℝ)) t
      (fun i hi => (ht i hi).mono (Nat.sub_le _ _)) hu
    unfold meanRaw
    rw [hval, sum_map_eq_sum_range xs Fl.val 0, sum_map_eq_sum_range xs (fun x => |x.val|) 0,
      Finset.sum_div, Finset.sum_div]
    simpa only [abs_div, Nat.abs_cast] using hb

/-- In particular the computed mean of samples of one sign has relative error `≤ γ_{n+2}`. -/
theorem mean_rounding_nonneg (xs : List (Fl M)) (m : Fl M) (h : arithMean xs = some m)
    (hpos : ∀ x ∈ xs, 0 ≤ x.val) (hu : ((xs.length + 2 : ℕ) : ℝ) * M.u < 1) :
    |m.val - (xs.map Fl.val).sum / (xs.length : ℝ)|
      ≤ M.gamma (xs.length + 2) * ((xs.map Fl.val).sum / (xs.length : ℝ)) := by
  have := mean_rounding xs m h hu
  have e : (xs.map fun x => |x.val|) = xs.map Fl.val :=
    List.map_congr_left fun x hx => abs_of_nonneg (hpos x hx)
  rwa [e] at this

/-- **binary64, numerically.**  For round-to-nearest with a 53-bit significand
(`FlModel.binary64`, no exponent limits) and fewer than `2⁵²` samples:
`|computed mean − Σx/n| ≤ (n+2)·2⁻⁵² · (Σ|x|/n)`. -/
theorem mean_rounding_binary64 (xs : List (Fl FlModel.binary64)) (m : Fl FlModel.binary64)
    (h : arithMean xs = some m) (hn : xs.length + 2 ≤ 2 ^ 52) :
    |m.val - (xs.map Fl.val).sum / (xs.length : ℝ)|
      ≤ ((xs.length + 2 : ℕ) : ℝ) * (2⁻¹ : ℝ) ^ 52
        * ((xs.map fun x => |x.val|).sum / (xs.length : ℝ)) := by
  obtain ⟨hu, hg⟩ := FlModel.binary64_gamma_le hn
  refine (mean_rounding xs m h hu).trans (mul_le_mul_of_nonneg_right hg ?_)
  apply div_nonneg _ (Nat.cast_nonneg _)
  apply List.sum_nonneg
  intro y hy
  obtain ⟨x, _, rfl⟩ := List.mem_map.mp hy
  exact abs_nonneg _

/-! ### two-pass variance -/

/-- `Σ (x − c)² / d`: the variance about the centre `c` with denominator `d` -/
noncomputable def varAbout (c : ℝ) (d : ℕ) (xs : List (Fl M)) : ℝ :=
  (xs.map fun x => (x.val - c) ^ 2).sum / (d : ℝ)

theorem varAbout_nonneg (c : ℝ) (d : ℕ) (xs : List (Fl M)) : 0 ≤ varAbout c d xs := by
  unfold varAbout
  apply div_nonneg _ (Nat.cast_nonneg d)
  apply List.sum_nonneg
  intro y hy
  obtain ⟨x, _, rfl⟩ := List.mem_map.mp hy
  exact sq_nonneg _

/-- **Two-pass variance, relative to the computed mean.**  `std_dev` returns `sqrt V̂` where the
computed variance `V̂` has *relative* error at most `γ_{n+6}` with respect to the exact variance of
the samples about the computed mean `μ̂` (`d = n` or `n − 1` by the kind selector). -/
theorem variance_rounding (sqrt : Fl M → Fl M) (k : Kind) (xs : List (Fl M)) (s : Fl M)
    (h : stdDev sqrt k xs = some s) (hu : ((xs.length + 6 : ℕ) : ℝ) * M.u < 1) :
    denom k xs.length ≠ 0 ∧ ∃ V : Fl M, s = sqrt V ∧
      |V.val - varAbout (meanRaw xs).val (denom k xs.length) xs|
        ≤ M.gamma (xs.length + 6) * varAbout (meanRaw xs).val (denom k xs.length) xs := by
  unfold stdDev at h
  by_cases h0 : denom k xs.length = 0
  · rw [if_pos h0] at h; cases h
  · rw [if_neg h0] at h
    simp only [Option.some.injEq] at h
    refine ⟨h0, _, h.symm, ?_⟩
    obtain ⟨c, hc, hcast⟩ := Fl.natCast_fac (M := M) (denom k xs.length)
    obtain ⟨t, ht, hval⟩ := variance_weights xs (meanRaw xs) (denom k xs.length) 1 c hc hcast
    have hb := weighted_sum_bound xs.length (xs.length + 6)
      (fun i => ((xs.getD i 0).val - (meanRaw xs).val) ^ 2 / (denom k xs.length : ℝ)) t
      (fun i hi => (ht i hi).mono (Nat.sub_le _ _)) hu
    have habs : ∀ i, |((xs.getD i 0).val - (meanRaw xs).val) ^ 2 / (denom k xs.length : ℝ)|
        = ((xs.getD i 0).val - (meanRaw xs).val) ^ 2 / (denom k xs.length : ℝ) :=
      fun i => abs_of_nonneg (div_nonneg (sq_nonneg _) (Nat.cast_nonneg _))
    simp only [habs] at hb
    unfold varAbout
    rw [hval, sum_map_eq_sum_range xs (fun x => (x.val - (meanRaw xs).val) ^ 2) 0, Finset.sum_div]
    exact hb

/-- **Two-pass variance against the true variance.**  With `μ = Σx/n` the true mean, `Var` the true
variance (denominator `d`), and `A = Σ|x|/n`:
`|V̂ − Var| ≤ γ_{n+6}·Var + (1 + γ_{n+6})·(n/d)·(γ_{n+2}·A)²`
— a relative error of about `(n+6)·u` plus a term of *second* order in `u` that carries the
conditioning `A²/Var` of the data: the reason the two-pass formula is the stable one
(Chan, Golub & LeVeque 1983; Higham §1.9). -/
theorem variance_rounding_true (sqrt : Fl M → Fl M) (k : Kind) (xs : List (Fl M)) (s : Fl M)
    (h : stdDev sqrt k xs = some s) (hu : ((xs.length + 6 : ℕ) : ℝ) * M.u < 1) :
    ∃ V : Fl M, s = sqrt V ∧
      |V.val - varAbout ((xs.map Fl.val).sum / (xs.length : ℝ)) (denom k xs.length) xs|
        ≤ M.gamma (xs.length + 6)
            * varAbout ((xs.map Fl.val).sum / (xs.length : ℝ)) (denom k xs.length) xs
          + (1 + M.gamma (xs.length + 6)) * ((xs.length : ℝ) / (denom k xs.length : ℝ))
            * (M.gamma (xs.length + 2) * ((xs.map fun x => |x.val|).sum / (xs.length : ℝ))) ^ 2 := by
  obtain ⟨hd, V, hs, hV⟩ := variance_rounding sqrt k xs s h hu
  refine ⟨V, hs, ?_⟩
  have hn : xs.length ≠ 0 := by
    intro h0; apply hd; cases k <;> simp [denom, h0]
  have hu2 : ((xs.length + 2 : ℕ) : ℝ) * M.u < 1 := M.hyp_mono (by omega) hu
  have hmean := mean_rounding xs (meanRaw xs) (by simp [arithMean, hn]) hu2
  have hW : varAbout (meanRaw xs).val (denom k xs.length) xs
      = varAbout ((xs.map Fl.val).sum / (xs.length : ℝ)) (denom k xs.length) xs
        + (xs.length : ℝ) / (denom k xs.length : ℝ)
          * ((xs.map Fl.val).sum / (xs.length : ℝ) - (meanRaw xs).val) ^ 2 := by
    unfold varAbout
    rw [sum_sq_about_mean xs Fl.val (meanRaw xs).val hn, add_div, mul_div_right_comm]
  have hδ : ((xs.map Fl.val).sum / (xs.length : ℝ) - (meanRaw xs).val) ^ 2
      ≤ (M.gamma (xs.length + 2) * ((xs.map fun x => |x.val|).sum / (xs.length : ℝ))) ^ 2 := by
    rw [← sq_abs ((xs.map Fl.val).sum / (xs.length : ℝ) - (meanRaw xs).val), abs_sub_comm]
    exact pow_le_pow_left₀ (abs_nonneg _) hmean 2
  have hg : 0 ≤ M.gamma (xs.length + 6) := M.gamma_nonneg hu
  have hr : 0 ≤ (xs.length : ℝ) / (denom k xs.length : ℝ) :=
    div_nonneg (Nat.cast_nonneg _) (Nat.cast_nonneg _)
  have hvar := varAbout_nonneg ((xs.map Fl.val).sum / (xs.length : ℝ)) (denom k xs.length) xs
  have hδ0 : 0 ≤ ((xs.map Fl.val).sum / (xs.length : ℝ) - (meanRaw xs).val) ^ 2 := sq_nonneg _
  rw [hW] at hV
  generalize varAbout ((xs.map Fl.val).sum / (xs.length : ℝ)) (denom k xs.length) xs = var
    at hV hvar ⊢
  generalize (xs.length : ℝ) / (denom k xs.length : ℝ) = r at hV hr ⊢
  generalize ((xs.map Fl.val).sum / (xs.length : ℝ) - (meanRaw xs).val) ^ 2 = δ2 at hV hδ hδ0 ⊢
  generalize (M.gamma (xs.length + 2) * ((xs.map fun x => |x.val|).sum / (xs.length : ℝ))) ^ 2 = B
    at hδ ⊢
  generalize M.gamma (xs.length + 6) = g at hV hg ⊢
  have hR : 0 ≤ r * δ2 := mul_nonneg hr hδ0
  have hRB : r * δ2 ≤ r * B := mul_le_mul_of_nonneg_left hδ hr
  have h1 : (1 + g) * (r * δ2) ≤ (1 + g) * (r * B) :=
    mul_le_mul_of_nonneg_left hRB (by linarith)
  obtain ⟨hlo, hhi⟩ := abs_le.mp hV
  rw [abs_le]
  constructor <;> nlinarith

/-! ### non-vacuity -/

/-- in a model with `u > 0` whose rounding is not the identity (`rnd t = t·(1 + 1/16)`, `u = 1/8`)
the hypotheses of `mean_rounding` are satisfiable and the computed mean really differs from the
exact one -/
example : ∃ (M : FlModel) (xs : List (Fl M)) (m : Fl M), 0 < M.u ∧ arithMean xs = some m ∧
    ((xs.length + 2 : ℕ) : ℝ) * M.u < 1 ∧ m.val ≠ (xs.map Fl.val).sum / (xs.length : ℝ) := by
  have h8 : (0 : ℝ) ≤ 1 / 8 ∧ (1 / 8 : ℝ) < 1 := by norm_num
  refine ⟨FlModel.skew (1 / 8) h8, [1, 1], meanRaw [1, 1], by norm_num [FlModel.skew], rfl,
    by norm_num [FlModel.skew], ?_⟩
  simp only [meanRaw, fsum, List.foldl, Fl.div_val, Fl.natCast_val, Fl.add_val, Fl.neg_val,
    Fl.zero_val, Fl.one_val]
  norm_num [FlModel.skew]

/-- the hypotheses of the variance theorems are satisfiable with `u > 0` (both kinds) -/
example : ∃ (M : FlModel) (xs : List (Fl M)), 0 < M.u ∧
    stdDev id .sample xs ≠ none ∧ stdDev id .population xs ≠ none ∧
    ((xs.length + 6 : ℕ) : ℝ) * M.u < 1 := by
  have h16 : (0 : ℝ) ≤ 1 / 16 ∧ (1 / 16 : ℝ) < 1 := by norm_num
  refine ⟨FlModel.skew (1 / 16) h16, [0, 1], by norm_num [FlModel.skew], ?_, ?_,
    by norm_num [FlModel.skew]⟩
  · simp [stdDev, denom]
  · simp [stdDev, denom]

end SV.Props.C18Rounding
